import Chewing.Proofs.Der
import Chewing.Proofs.TriePhrase
import Chewing.Proofs.TrieBuilder
import Chewing.Proofs.TrieSort
import Chewing.Proofs.TrieLayout
import Chewing.Proofs.TrieLookup
import Chewing.Proofs.TrieSpec
import Chewing.Proofs.TrieDoc
import Chewing.Proofs.TrieFuzzy
import Chewing.Proofs.TrieOrder
import Chewing.Proofs.TrieEntries
import Chewing.Proofs.TrieConforms
import Chewing.Proofs.TrieEntriesRuns
import Chewing.Proofs.TrieBuild
import Chewing.Proofs.TrieFirstN
import Chewing.Proofs.TrieValidWrite
import Chewing.Proofs.TrieOrderIndep
import Chewing.Proofs.TrieOrderIndepPerm
/-!
# C11 — A trie dictionary file returns exactly what was put in, in the documented order

Model: `Chewing.Model.Der` (the shapes of the `der` crate the format uses) and
`Chewing.Model.TrieCodec` (`TrieBuilder::{insert, write}`, `Trie::{new, lookup_all_phrases,
entries, about}` at the level of the file's bytes), tied to `src/dictionary/trie.rs` by
byte-for-byte correspondence on generated entry sets (`harness/src/bin/codec.rs`).

Findings repaired in the repository (`fix:` commits, see KNOWN_FINDINGS.txt):
* F13 `data_len as u16` / `child_len as u16` truncated silently: `write` now returns an error beyond
  the 16-bit limits, which is what the model does (`writeLoop` returns `none`).  The statement is
  therefore about *successful* writes, together with `writes_within_limits`: inside the format's
  limits `write` does succeed.
* the phrase comparator of `write` was not a total order on leaves mixing single characters with
  longer phrases (`sort_by` panicked on such a leaf of more than 20 phrases): now single characters
  sort before longer phrases (`comparator_total_preorder`).
* `trie.asn1` constrained `freq` to 0..65535 although a `u32` is encoded (`format_constants`).

Since the repair of C13's finding F47 (`Syllable::try_from` accepts only values that are syllables) the reader
treats a stored syllable field that is not such a value differently: `Trie::new` rejects the file
(`validate_index`, `TrieValidate.sylsOk`), `entries()` would panic on it (`try_from(..).unwrap()`) and the fuzzy
predicate is false for it.  None of this can happen on a written file: the keys given to `insert` are
`&[Syllable]`, i.e. valid codes (`ValidEntry`), and the syllable field of a node record is the syllable of the
builder node (`validate_write`, `writeLoop_syls`); all theorems keep their conclusions.

The ORDER of `entries()` (last section): `entries_correct` / `C11_full` say "each (key, phrase) once"; `entries_order`
gives the enumeration as a list — keys in `Cli.trieOrder` (sorted by syllable code with a prefix first, maximal prefix
chains reversed: the depth-first walk pops its results deepest first), each key with its leaf in written order.
-/
namespace Chewing.C11
open Chewing Chewing.Der Chewing.TrieCodec

/-! ## the statement -/

/-- inputs as the Rust types constrain them: `String`s hold Unicode scalar values, a `Syllable` is a
    non-zero `u16` that `Syllable::try_from` accepts (`validCode`, in `ValidEntry`: since the repair of C13's
    finding F47 the invariant of the type `Syllable` — `try_from`, the builder, `update`, `remove_*` yield nothing
    else —, so a `&[Syllable]` key handed to `TrieBuilder::insert` consists of such codes by construction; before
    the repair every non-zero `u16` was a `Syllable`), `freq : u32`, `last_used : Option<u64>` -/
def ValidInput (info : Info) (es : List Entry) : Prop := ValidInfo info ∧ ∀ e ∈ es, ValidEntry e

/-- a query: non-zero syllable codes.  (A query is a `&[Syllable]` too, hence consists of valid codes; the
    theorems need no more than `≠ 0` of it — the exact predicate compares codes, the fuzzy predicate applies
    `try_from` to the STORED syllable only — and are stated for every such key.) -/
def ValidKey (k : List Nat) : Prop := ∀ s ∈ k, s ≠ 0

/-- the phrases inserted for a key: insertion order, a re-inserted phrase replacing the earlier one
    where it stood (`none` = the key was never inserted) -/
def inserted (es : List Entry) (k : List Nat) : Option (List Phrase) := refFind es k

/-- the documented order of a leaf with inserted phrase vector `ps`: the single characters keep
    their insertion order; the multi-character phrases are ordered by descending frequency (both as
    subsequences, so also in a leaf that holds both kinds, where the single characters come first) -/
def OrderDocumented (ps result : List Phrase) : Prop :=
  result.Perm ps ∧
  result.filter isSingle = ps.filter isSingle ∧
  (result.filter fun p => !isSingle p).Pairwise (fun a b => b.freq ≤ a.freq) ∧
  result.Pairwise (fun a b => isSingle b = true → isSingle a = true)

/-- `groups` holds exactly the inserted keys satisfying `P`, each once, with its phrase vector -/
def GroupsOf (es : List Entry) (P : List Nat → Prop) (groups : List (List Nat × List Phrase)) : Prop :=
  (groups.map (·.1)).Nodup ∧ ∀ k ps, (k, ps) ∈ groups ↔ (inserted es k = some ps ∧ P k)

/-- what a reader returns for a group: the leaf in its written order -/
def leafOut (g : List Nat × List Phrase) : List Phrase := sortLeaf g.2

/-- **the full statement** (on the model; tied to the code by the correspondence run).  For all
    metadata and every finite sequence of inserts:
    * inside the format's limits writing succeeds (outside it fails loudly, never silently);
    * a successfully written file opens, with identical metadata;
    * an exact lookup of any key returns exactly the phrases inserted for it (frequencies and
      timestamps included, a re-inserted phrase having replaced the earlier one), in the documented
      order; nothing for a key never inserted;
    * a fuzzy prefix lookup returns, leaf by leaf, exactly the inserted keys of the same length whose
      every syllable begins with the corresponding partial syllable, each once;
    * the other lookup methods of the trait agree with it: `lookup_first_n_phrases(key, n, strategy)`
      returns exactly the first `n` phrases of the full result (at most `n`, a prefix, nothing
      missing — the "first n = prefix of the full result" clause of C09 for this back end),
      `lookup_first_phrase` its first element;
    * enumeration yields exactly the inserted set, each (key, phrase) once;
    * the bytes conform to the documented format.
    ("equal input gives byte-identical files", the input being a SET of entries with the documented within-key
    order: `order_independent` — the bytes are a function of the metadata and the map key ↦ inserted phrase vector,
    whatever the order in which different keys were inserted; `deterministic` is the literal functionality of
    `write`.) -/
def C11_full : Prop :=
  ∀ (info : Info) (es : List Entry), ValidInput info es →
    ((TrieCodec.Builder.ofEntries info es).Fits → (TrieCodec.Builder.ofEntries info es).write.isSome = true) ∧
    ∀ bytes, (TrieCodec.Builder.ofEntries info es).write = some bytes →
      ∃ t, openTrie bytes = some t ∧
        about t = info ∧
        (∀ k, ValidKey k →
          lookupAll t k .standard = sortLeaf ((inserted es k).getD []) ∧
          OrderDocumented ((inserted es k).getD []) (lookupAll t k .standard)) ∧
        (∀ k, ValidKey k → inserted es k = none → lookupAll t k .standard = []) ∧
        (∀ q, ValidKey q → ∃ groups, GroupsOf es (fun k => fuzzyMatch k q = true) groups ∧
          lookupAll t q .fuzzyPartialPrefix = groups.flatMap leafOut) ∧
        (∀ st k n, ValidKey k → lookupFirstN t k n st = (lookupAll t k st).take n) ∧
        (∀ st k, ValidKey k → lookupFirst t k st = (lookupAll t k st).head?) ∧
        (∃ groups, GroupsOf es (fun _ => True) groups ∧
          entries t = .ok (groups.flatMap fun g => (leafOut g).map fun p => (g.1, p))) ∧
        Conforms bytes

/-! ## stage A: DER shapes, phrase records, determinism, builder semantics -/

/-- definite length, minimal form -/
theorem der_roundtrip_length (n : Nat) (r : Bytes) (h : n ≤ maxLen) : decLen (encLen n ++ r) = some (n, r) :=
  decLen_encLen n r h

/-- UTF8String -/
theorem der_roundtrip_utf8 (t : Text) (r : Bytes) (h : ∀ c ∈ t, IsScalar c) (hl : (utf8Enc t).length ≤ maxLen) :
    decUtf8 (encUtf8 t ++ r) = some (t, r) := decUtf8_encUtf8 t r h hl

/-- INTEGER for the `u8` (version), `u32` (freq) and `u64` (timestamp) uses -/
theorem der_roundtrip_uint (w v : Nat) (r : Bytes) (hw : w = 1 ∨ w = 4 ∨ w = 8) (hv : v < 256 ^ w) :
    decUint w (encUint w v ++ r) = some (v, r) := by
  rcases hw with rfl | rfl | rfl <;> exact decUint_encUint _ v r (by decide) (by decide) hv

/-- OCTET STRING -/
theorem der_roundtrip_octets (b r : Bytes) (hl : b.length ≤ maxLen) : decOctets (encOctets b ++ r) = some (b, r) :=
  decOctets_encOctets b r hl

/-- SEQUENCE (`read_nested`: the body has to be consumed exactly) -/
theorem der_roundtrip_sequence {α : Type} (f : Bytes → Option (α × Bytes)) (body r : Bytes) (a : α)
    (hf : f body = some (a, [])) (h : body.length ≤ maxLen) : decSeq f (encSeq body ++ r) = some (a, r) :=
  decSeq_encSeq f body r a hf h

/-- `[0] IMPLICIT Uint64 OPTIONAL` at the end of a record -/
theorem der_roundtrip_ctx0 (o : Option Nat) (ho : ∀ v, o = some v → v < 256 ^ 8) :
    decCtx0U64 (encCtx0U64 o) = some (o, []) := decCtx0U64_enc o ho

/-- a phrase record decodes to the phrase, text, frequency and timestamp -/
theorem phrase_roundtrip (p : Phrase) (r : Bytes) (hv : ValidPhrase p) (hl : (encPhrase p).length ≤ maxLen) :
    decPhrase (encPhrase p ++ r) = some (p, r) := decPhrase_encPhrase p r hv hl

/-- a leaf's slice decodes to exactly the phrases written, in order -/
theorem phrase_seq_roundtrip (ps : List Phrase) (hv : ∀ p ∈ ps, ValidPhrase p ∧ (encPhrase p).length ≤ maxLen) :
    decPhrases (encPhrases ps) = ps := decPhrases_encPhrases ps hv

/-- equal input gives byte-identical files: the written bytes are a function of metadata and the
    sequence of inserts (the implementation's agreement with this function is the byte-for-byte
    correspondence; the harness also writes every input twice) -/
theorem deterministic (info info' : Info) (es es' : List Entry) (hi : info = info') (he : es = es') :
    (TrieCodec.Builder.ofEntries info es).write = (TrieCodec.Builder.ofEntries info' es').write := by
  subst hi; subst he; rfl

/-- **`order_independent`** — "equal input gives byte-identical files" for the input the property speaks of, a finite
    SET of entries: the written bytes (and whether `write` succeeds at all) depend only on the metadata and on the map
    key ↦ inserted phrase vector (`inserted`: the phrases of the key in insertion order, a re-inserted phrase replacing
    the earlier one where it stood) — NOT on the order in which different keys were inserted, although the builder keeps
    every node's children in first-insertion order and the two trees differ.  No validity hypothesis is needed.
    (Proof, `Proofs/TrieOrderIndep.lean`: reachable trees have distinct sibling syllables and no dead node
    (`Good_ofEntries`); two such trees with the same `find` have, level by level, the same children once these are
    sorted by syllable (`kids_rel`), which is all the breadth-first loop of `write` looks at (`writeLoop_congr`).) -/
theorem order_independent (info : Info) (es es' : List Entry) (h : ∀ k, inserted es k = inserted es' k) :
    (TrieCodec.Builder.ofEntries info es).write = (TrieCodec.Builder.ofEntries info es').write :=
  write_ofEntries_ext info es es' h

/-- the same for arbitrary builders with the shape invariant of reachable ones: the bytes are a function of
    `(info, find)` -/
theorem bytes_function_of_map (b b' : TrieCodec.Builder) (hg : b.kids.Good) (hg' : b'.kids.Good)
    (hi : b.info = b'.info) (h : ∀ k, b.find k = b'.find k) : b.write = b'.write := write_ext b b' hg hg' hi h

/-- every rearrangement of the inserts that keeps, for every key, the inserts of that key in their order gives
    identical bytes (`SameKeyOrder es es'`: for every key `k`, `es.filter (·.1 == k) = es'.filter (·.1 == k)`) -/
theorem same_key_order_same_bytes (info : Info) (es es' : List Entry) (h : SameKeyOrder es es') :
    (TrieCodec.Builder.ofEntries info es).write = (TrieCodec.Builder.ofEntries info es').write :=
  order_independent info es es' (fun k => refFind_sameKeyOrder h k)

/-- **`perm_same_bytes`** — any permutation of the inserts generated by swapping ADJACENT inserts with DIFFERENT keys
    (`KeySwap`, inductively defined: reflexive, transitive, one swap anywhere in the list) gives identical bytes … -/
theorem perm_same_bytes (info : Info) (es es' : List Entry) (h : KeySwap es es') :
    (TrieCodec.Builder.ofEntries info es).write = (TrieCodec.Builder.ofEntries info es').write :=
  same_key_order_same_bytes info es es' h.sameKeyOrder

/-- … and these are exactly the permutations that keep the relative order of the inserts with the same key -/
theorem keySwap_characterised (es es' : List Entry) :
    KeySwap es es' ↔ ∀ k, es.filter (fun e => e.1 == k) = es'.filter (fun e => e.1 == k) := keySwap_iff es es'

theorem keySwap_is_permutation (es es' : List Entry) (h : KeySwap es es') : es.Perm es' := h.perm

/-- two single characters under one key, in the two possible orders: the same entry SET … -/
def withinKeyA : List Entry := [([10268], { text := [28204], freq := 1 }), ([10268], { text := [20874], freq := 1 })]
def withinKeyB : List Entry := [([10268], { text := [20874], freq := 1 }), ([10268], { text := [28204], freq := 1 })]

/-- **the hypothesis of `order_independent` is exact**: the order of the inserts WITHIN a key matters where the
    property says so (single characters keep their insertion order) — `withinKeyA` and `withinKeyB` are valid inputs
    holding the same entries (one is the reverse of the other), both are written successfully, and the bytes differ -/
theorem within_key_order_matters :
    withinKeyB = withinKeyA.reverse ∧ withinKeyA.Perm withinKeyB ∧
    ((TrieCodec.Builder.ofEntries {} withinKeyA).write).isSome = true ∧
    ((TrieCodec.Builder.ofEntries {} withinKeyB).write).isSome = true ∧
    (TrieCodec.Builder.ofEntries {} withinKeyA).write ≠ (TrieCodec.Builder.ofEntries {} withinKeyB).write ∧
    inserted withinKeyA [10268] ≠ inserted withinKeyB [10268] := by
  refine ⟨rfl, List.Perm.swap _ _ _, by decide, by decide, by decide, by decide⟩

/-- `insert` is a map update: the phrase replaces the stored phrase with the same text where it
    stood, or is appended; other keys are untouched -/
theorem insert_semantics (b : TrieCodec.Builder) (k k' : List Nat) (p : Phrase) :
    (b.insert k p).find k' = if k' = k then some (upsert ((b.find k).getD []) p) else b.find k' :=
  find_insert b k k' p

/-- re-insert replaces in place: the texts of the leaf keep their positions, and the stored
    phrase with the re-inserted text is the new one -/
theorem reinsert_replaces (ps : List Phrase) (p : Phrase) (hnd : (ps.map (·.text)).Nodup)
    (hin : p.text ∈ ps.map (·.text)) :
    (upsert ps p).map (·.text) = ps.map (·.text) ∧ ∀ q ∈ upsert ps p, q.text = p.text → q = p := by
  refine ⟨?_, upsert_find ps p hnd⟩
  rw [upsert_texts, if_pos hin]

/-- the builder built from an entry list is the reference map -/
theorem builder_is_map (info : Info) (es : List Entry) (k : List Nat) :
    (TrieCodec.Builder.ofEntries info es).find k = inserted es k := find_ofEntries info es k

/-! ## stage B: layout and exact lookups -/

/-- `bfs_layout`: in the buffers of `write` every node's record holds the index range of exactly
    its leaf and its sorted children (`Laid`), from the loop invariant
    `written ++ queue = enqueued`, `child_begin = |enqueued|` -/
theorem bfs_layout (b : TrieCodec.Builder) (hb : b.WF) (recs : List Rec) (data : Bytes)
    (h : b.buffers = some (recs, data)) (hr : recs.length < 4294967296) (hd : data.length < 4294967296) :
    Laid recs data 0 b.root := TrieCodec.bfs_layout b hb recs data h hr hd

/-- inside the format's limits `write` does not fail -/
theorem writes_within_limits (b : TrieCodec.Builder) (hf : b.Fits) : b.write.isSome = true := write_isSome b hf

/-- **validate_write**: the structural check `Trie::new` performs on the decoded index since the repair of C12's
    findings F16 / F17 (`validate_index`: child ranges after their node and in ascending order, inside the index, no
    leaf record but at the first position of a child range, leaf data inside the phrase bytes) accepts the index of
    EVERY file `TrieBuilder::write` produces — the scan runs along the order in which the BFS emits the records and
    its `next` is the writer's `child_begin` (`writeLoop_scan`).  The check added with the repair of C13's F47 — the
    syllable field of every node record other than the root is a value `Syllable::try_from` accepts — holds because
    that field is the syllable of a builder node, a `Syllable` handed to `insert` (`writeLoop_syls`, `Forest.WF`).
    So `openTrie` (which ends with that check) still opens every written file: `read_write` and `C11` keep their
    statements. -/
theorem validate_write (b : TrieCodec.Builder) (hb : b.WF) (recs : List Rec) (data : Bytes)
    (h : b.buffers = some (recs, data)) (hr : recs.length < 4294967296) (hd : data.length < 4294967296) :
    TrieValidate.validate recs data.length = true ∧ validIndex (recs.flatMap recBytes) data = true :=
  ⟨validate_buffers b hb recs data h hr hd, validIndex_write b hb recs data h hr hd⟩

/-- the real reader on a written file: metadata, and every lookup is the walk on the builder tree -/
theorem read_write (b : TrieCodec.Builder) (hb : b.WF) (hi : ValidInfo b.info) (bytes : Bytes) (hw : b.write = some bytes) :
    ∃ t, openTrie bytes = some t ∧ about t = b.info ∧
      ∀ st key, ValidKey key → lookupAll t key st = tLookup st key b.root := by
  obtain ⟨recs, data, hbuf, _, hopen, hr, hd⟩ := openTrie_write_wf b hb hi bytes hw
  refine ⟨_, hopen, rfl, ?_⟩
  intro st key hkey
  exact lookupAll_eq_tLookup (TrieCodec.bfs_layout b hb recs data hbuf hr hd) (root_pre b hb) ⟨_, _, rfl⟩ st key hkey

/-- `info_roundtrip`: writing and reading back gives identical metadata -/
theorem info_roundtrip (info : Info) (es : List Entry) (hv : ValidInput info es) (bytes : Bytes)
    (hw : (TrieCodec.Builder.ofEntries info es).write = some bytes) :
    ∃ t, openTrie bytes = some t ∧ about t = info := by
  have hi : ValidInfo (TrieCodec.Builder.ofEntries info es).info := by rw [info_ofEntries]; exact hv.1
  obtain ⟨t, h1, h2, _⟩ := read_write _ (WF_ofEntries info es hv.2) hi bytes hw
  exact ⟨t, h1, by rw [h2, info_ofEntries]⟩

/-- `lookup_correct`: an exact lookup returns the phrases inserted for the key (last insert of a
    text wins), as the writer ordered them; nothing for a key never inserted -/
theorem lookup_correct (info : Info) (es : List Entry) (hv : ValidInput info es) (bytes : Bytes)
    (hw : (TrieCodec.Builder.ofEntries info es).write = some bytes) :
    ∃ t, openTrie bytes = some t ∧
      ∀ k, ValidKey k → lookupAll t k .standard = sortLeaf ((inserted es k).getD []) := by
  have hwf := WF_ofEntries info es hv.2
  have hi : ValidInfo (TrieCodec.Builder.ofEntries info es).info := by rw [info_ofEntries]; exact hv.1
  obtain ⟨t, h1, _, h3⟩ := read_write _ hwf hi bytes hw
  refine ⟨t, h1, ?_⟩
  intro k hk
  rw [h3 .standard k hk, TrieCodec.Builder.root, tLookup_standard k hk 0 _ _ hwf.2]
  have := find_ofEntries info es k
  unfold TrieCodec.Builder.find at this
  rw [this]
  unfold inserted
  cases refFind es k <;> rfl

/-- `absent_key_empty` -/
theorem absent_key_empty (info : Info) (es : List Entry) (hv : ValidInput info es) (bytes : Bytes)
    (hw : (TrieCodec.Builder.ofEntries info es).write = some bytes) :
    ∃ t, openTrie bytes = some t ∧ ∀ k, ValidKey k → inserted es k = none → lookupAll t k .standard = [] := by
  obtain ⟨t, h1, h2⟩ := lookup_correct info es hv bytes hw
  refine ⟨t, h1, fun k hk hn => ?_⟩
  rw [h2 k hk, hn]
  rfl

/-! ## stage C: order, fuzzy lookups -/

/-- `order_documented`: what the writer does to a leaf -/
theorem order_documented (ps : List Phrase) : OrderDocumented ps (sortLeaf ps) :=
  ⟨sortLeaf_perm ps, sortLeaf_singles ps, sortLeaf_multis ps, sortLeaf_singles_first ps⟩

/-- a leaf of single characters is returned in insertion order -/
theorem order_single_leaf (ps : List Phrase) (h : ∀ p ∈ ps, p.text.length = 1) : sortLeaf ps = ps :=
  sortLeaf_single ps h

/-- a leaf of multi-character phrases is returned by descending frequency -/
theorem order_multi_leaf (ps : List Phrase) (h : ∀ p ∈ ps, p.text.length ≠ 1) :
    (sortLeaf ps).Pairwise (fun a b => b.freq ≤ a.freq) := sortLeaf_multi_freq ps h

/-- the comparator of `write` is a total preorder (so `sort_by` cannot panic and every stable sort
    gives the model's result): asymmetric, and "not after" is transitive -/
theorem comparator_total_preorder (a b c : Phrase) :
    (phraseLt a b = true → phraseLt b a = false) ∧
    (phraseLt b a = false → phraseLt c b = false → phraseLt c a = false) :=
  ⟨phraseLt_asymm a b, phraseLt_negtrans a b c⟩

/-- `fuzzy_correct`: a fuzzy prefix lookup returns, leaf after leaf, exactly the inserted keys with
    the query's number of syllables whose every syllable begins with the corresponding partial
    syllable (`startsWith`), each once -/
theorem fuzzy_correct (info : Info) (es : List Entry) (hv : ValidInput info es) (bytes : Bytes)
    (hw : (TrieCodec.Builder.ofEntries info es).write = some bytes) :
    ∃ t, openTrie bytes = some t ∧
      ∀ q, ValidKey q → ∃ groups, GroupsOf es (fun k => fuzzyMatch k q = true) groups ∧
        lookupAll t q .fuzzyPartialPrefix = groups.flatMap leafOut := by
  have hwf := WF_ofEntries info es hv.2
  have hi : ValidInfo (TrieCodec.Builder.ofEntries info es).info := by rw [info_ofEntries]; exact hv.1
  obtain ⟨t, h1, _, h3⟩ := read_write _ hwf hi bytes hw
  refine ⟨t, h1, ?_⟩
  intro q hq
  refine ⟨fuzzyGroups q (TrieCodec.Builder.ofEntries info es).root, ⟨?_, ?_⟩, ?_⟩
  · exact fuzzyGroups_nodup q hq 0 _ _ hwf.2
  · intro k ps
    rw [TrieCodec.Builder.root, mem_fuzzyGroups q 0 _ _ hwf.2 k ps]
    have := find_ofEntries info es k
    unfold TrieCodec.Builder.find at this
    rw [this]
    rfl
  · rw [h3 _ q hq, tLookup_fuzzy_groups]
    rfl

/-- `fuzzyMatch` is the prefix relation of C13 position by position: for composable syllables,
    `startsWith s p` holds iff `s` and `p` agree on every component up to the last one present in
    `p` (`Chewing.C13.startsWith_iff`) -/
theorem fuzzyMatch_iff (k q : List Nat) :
    fuzzyMatch k q = true ↔ k.length = q.length ∧ ∀ (i s p : Nat), k[i]? = some s → q[i]? = some p → startsWith s p = true := by
  induction k generalizing q with
  | nil =>
    cases q with
    | nil => simp [fuzzyMatch]
    | cons p q => simp [fuzzyMatch]
  | cons s k ih =>
    cases q with
    | nil => simp [fuzzyMatch]
    | cons p q =>
      simp only [fuzzyMatch, Bool.and_eq_true, ih q, List.length_cons, Nat.add_right_cancel_iff]
      constructor
      · rintro ⟨h1, h2, h3⟩
        refine ⟨h2, ?_⟩
        intro i s' p' hs hp
        cases i with
        | zero => simp at hs hp; subst hs; subst hp; exact h1
        | succ i => exact h3 i s' p' (by simpa using hs) (by simpa using hp)
      · rintro ⟨h1, h2⟩
        exact ⟨h2 0 s p rfl rfl, h1, fun i s' p' hs hp => h2 (i + 1) s' p' (by simpa using hs) (by simpa using hp)⟩


/-- `entries_correct`: enumeration yields every inserted key once, with exactly its phrases -/
theorem entries_correct (info : Info) (es : List Entry) (hv : ValidInput info es) (bytes : Bytes)
    (hw : (TrieCodec.Builder.ofEntries info es).write = some bytes) :
    ∃ t, openTrie bytes = some t ∧
      ∃ groups, GroupsOf es (fun _ => True) groups ∧
        entries t = .ok (groups.flatMap fun g => (leafOut g).map fun p => (g.1, p)) := by
  have hwf := WF_ofEntries info es hv.2
  have hi : ValidInfo (TrieCodec.Builder.ofEntries info es).info := by rw [info_ofEntries]; exact hv.1
  obtain ⟨recs, data, hbuf, _, hopen, hr, hd⟩ := openTrie_write_wf _ hwf hi bytes hw
  have hlaid := TrieCodec.bfs_layout _ hwf recs data hbuf hr hd
  have hcount := writeLoop_count _ _ _ _ _ _ _ hbuf
  have hq : qsize [(TrieCodec.Builder.ofEntries info es).root] = (TrieCodec.Builder.ofEntries info es).root.size := by
    simp [qsize]
  rw [hq] at hcount
  obtain ⟨groups, hperm, hent⟩ := entries_laid (info := (TrieCodec.Builder.ofEntries info es).info) hlaid
    (root_pre _ hwf) (by simpa [TrieCodec.Builder.root] using hcount)
  refine ⟨_, hopen, groups, ⟨?_, ?_⟩, hent⟩
  · exact (hperm.map (·.1)).nodup_iff.mpr (nodeGroups_keys_nodup hwf.2)
  · intro k ps
    rw [hperm.mem_iff, mem_nodeGroups hwf.2]
    have := find_ofEntries info es k
    unfold TrieCodec.Builder.find at this
    rw [this]
    simp [inserted]

/-! ## stage D: the other two lookup methods of the `Dictionary` trait -/

/-- the real reader's `lookup_first_n_phrases` on a written file: the leaves of the tree nodes the key
    reaches are appended, one whole leaf at a time, until more than `first` phrases are held; then the
    vector is truncated to `first` (the F11 fix `result.truncate(first)`) -/
theorem read_write_first_n (b : TrieCodec.Builder) (hb : b.WF) (hi : ValidInfo b.info) (bytes : Bytes)
    (hw : b.write = some bytes) :
    ∃ t, openTrie bytes = some t ∧ ∀ st key n, ValidKey key →
      lookupFirstN t key n st = (cutoff n [] ((tWalk st key [b.root]).map Item.leafPhrases)).take n ∧
      lookupAll t key st = ((tWalk st key [b.root]).map Item.leafPhrases).flatten := by
  obtain ⟨recs, data, hbuf, _, hopen, hr, hd⟩ := openTrie_write_wf b hb hi bytes hw
  refine ⟨_, hopen, ?_⟩
  intro st key n hkey
  have hl := TrieCodec.bfs_layout b hb recs data hbuf hr hd
  refine ⟨lookupFirstN_eq_cutoff hl (root_pre b hb) ⟨_, _, rfl⟩ st key hkey n, ?_⟩
  rw [lookupAll_eq_tLookup hl (root_pre b hb) ⟨_, _, rfl⟩ st key hkey, tLookup, List.flatMap_def]

/-- **first n = prefix of the full result**: `lookup_first_n_phrases(key, n, strategy)` is exactly the
    first `n` phrases of `lookup_all_phrases(key, strategy)`, for every `n` and both strategies (what
    the trait documents, and C09's clause for the `Trie` back end).  Before the F11 fix the code
    returned whole leaves beyond `n`; this theorem replaces the former `first_n_whole_leaves`. -/
theorem first_n_prefix (info : Info) (es : List Entry) (hv : ValidInput info es) (bytes : Bytes)
    (hw : (TrieCodec.Builder.ofEntries info es).write = some bytes) :
    ∃ t, openTrie bytes = some t ∧ ∀ st k n, ValidKey k →
      lookupFirstN t k n st = (lookupAll t k st).take n := by
  have hwf := WF_ofEntries info es hv.2
  have hi : ValidInfo (TrieCodec.Builder.ofEntries info es).info := by rw [info_ofEntries]; exact hv.1
  obtain ⟨t, h1, h2⟩ := read_write_first_n _ hwf hi bytes hw
  refine ⟨t, h1, ?_⟩
  intro st k n hk
  obtain ⟨e1, e2⟩ := h2 st k n hk
  rw [e1, e2, cutoff_take, List.nil_append]

/-- consequences in the usual vocabulary: at most `n` phrases, exactly `min n (all)` of them, and
    the full result extends it -/
theorem first_n_length (info : Info) (es : List Entry) (hv : ValidInput info es) (bytes : Bytes)
    (hw : (TrieCodec.Builder.ofEntries info es).write = some bytes) :
    ∃ t, openTrie bytes = some t ∧ ∀ st k n, ValidKey k →
      (lookupFirstN t k n st).length = min n (lookupAll t k st).length ∧
      (lookupFirstN t k n st).length ≤ n ∧
      ∃ rest, lookupAll t k st = lookupFirstN t k n st ++ rest := by
  obtain ⟨t, h1, h2⟩ := first_n_prefix info es hv bytes hw
  refine ⟨t, h1, ?_⟩
  intro st k n hk
  rw [h2 st k n hk]
  refine ⟨List.length_take, ?_, (lookupAll t k st).drop n, (List.take_append_drop n _).symm⟩
  rw [List.length_take]
  exact Nat.min_le_left _ _

/-- an exact `lookup_first_n_phrases` returns the first `n` phrases of the key's leaf in the
    documented order -/
theorem first_n_standard (info : Info) (es : List Entry) (hv : ValidInput info es) (bytes : Bytes)
    (hw : (TrieCodec.Builder.ofEntries info es).write = some bytes) :
    ∃ t, openTrie bytes = some t ∧
      ∀ k n, ValidKey k → lookupFirstN t k n .standard = (sortLeaf ((inserted es k).getD [])).take n := by
  obtain ⟨t, h1, h2⟩ := first_n_prefix info es hv bytes hw
  obtain ⟨t', h1', h3⟩ := lookup_correct info es hv bytes hw
  have et : t' = t := Option.some.inj (h1'.symm.trans h1)
  rw [et] at h3
  refine ⟨t, h1, ?_⟩
  intro k n hk
  rw [h2 .standard k n hk, h3 k hk]

/-- `lookup_first_phrase` is the first element of `lookup_all_phrases`, for both strategies; for an
    exact lookup: the first phrase of the key's leaf in the documented order, `none` for a key never
    inserted -/
theorem first_phrase_correct (info : Info) (es : List Entry) (hv : ValidInput info es) (bytes : Bytes)
    (hw : (TrieCodec.Builder.ofEntries info es).write = some bytes) :
    ∃ t, openTrie bytes = some t ∧
      (∀ st k, ValidKey k → lookupFirst t k st = (lookupAll t k st).head?) ∧
      (∀ k, ValidKey k → lookupFirst t k .standard = (sortLeaf ((inserted es k).getD [])).head?) := by
  obtain ⟨t, h1, h2⟩ := first_n_prefix info es hv bytes hw
  obtain ⟨t', h1', h3⟩ := lookup_correct info es hv bytes hw
  have et : t' = t := Option.some.inj (h1'.symm.trans h1)
  rw [et] at h3
  have key : ∀ st k, ValidKey k → lookupFirst t k st = (lookupAll t k st).head? := by
    intro st k hk
    rw [lookupFirst, h2 st k 1 hk]
    cases lookupAll t k st <;> rfl
  exact ⟨t, h1, key, fun k hk => by rw [key .standard k hk, h3 k hk]⟩

/-- `conforms`: the written bytes are a `Document` of trie.asn1 (constants regenerated from the
    file on every run: `format_constants`) whose index is the BFS layout of a tree -/
theorem conforms (info : Info) (es : List Entry) (hv : ValidInput info es) (bytes : Bytes)
    (hw : (TrieCodec.Builder.ofEntries info es).write = some bytes) : Conforms bytes := by
  have hi : ValidInfo (TrieCodec.Builder.ofEntries info es).info := by rw [info_ofEntries]; exact hv.1
  exact write_conforms _ (WF_ofEntries info es hv.2) hi bytes hw

/-- **independent writer**: every conforming file — whoever wrote it — opens, and denotes the map
    `findNode · (l, sub)` of the tree whose BFS layout its index is; the reader returns exactly this
    map: metadata, exact lookups (nothing for other keys), fuzzy lookups as the walk over that tree,
    `entries()` each (key, phrase) once.  (`conforms` says `TrieBuilder::write` is one such writer;
    the harness feeds the real `Trie` the files of a second one, the model's writer.) -/
theorem reader_on_conforming_file (bytes : Bytes) (hc : Conforms bytes) :
    ∃ (info : Info) (l : Option (List Phrase)) (sub : Forest) (t : Trie),
      openTrie bytes = some t ∧ about t = info ∧
      (∀ st k, ValidKey k → lookupAll t k st = tLookup st k (.node 0 l sub)) ∧
      (∀ k, ValidKey k → lookupAll t k .standard = sortLeaf ((findNode k (l, sub)).getD [])) ∧
      (∀ st k n, ValidKey k → lookupFirstN t k n st = (lookupAll t k st).take n) ∧
      ∃ groups : List (List Nat × List Phrase),
        (groups.map (·.1)).Nodup ∧ (∀ k ps, (k, ps) ∈ groups ↔ findNode k (l, sub) = some ps) ∧
        entries t = .ok (groups.flatMap fun g => (leafOut g).map fun p => (g.1, p)) := by
  obtain ⟨info, recs, phrases, l, sub, hbytes, hlen, hi, _, hrb, hpre, hcount, hlaid, hvalid⟩ := hc
  have hbody := tlv_content_le tagSequence (docBody info (recs.flatMap recBytes) (encPhrases phrases))
  have hbl : (docBody info (recs.flatMap recBytes) (encPhrases phrases)).length ≤ maxLen := by
    rw [hbytes] at hlen; unfold encSeq at hlen; omega
  have hopen : openTrie bytes = some { info := info, index := recs.flatMap recBytes, data := encPhrases phrases } := by
    rw [hbytes]
    unfold openTrie
    rw [if_neg (by rw [hbytes] at hlen; omega)]
    have := decSeq_encSeq decBody _ [] _ (decBody_docBody info _ (encPhrases phrases) hi hbl) hbl
    simp only [List.append_nil] at this
    rw [this]
    simp only
    rw [if_pos (by unfold validIndex; rw [parseRecs_flatMap _ hrb]; exact hvalid)]
  have hall : ∀ st k, ValidKey k →
      lookupAll { info := info, index := recs.flatMap recBytes, data := encPhrases phrases } k st =
        tLookup st k (.node 0 l sub) :=
    fun st k hk => lookupAll_eq_tLookup hlaid hpre ⟨_, _, rfl⟩ st k hk
  refine ⟨info, l, sub, _, hopen, rfl, hall, ?_, ?_, ?_⟩
  · intro k hk
    rw [hall .standard k hk, tLookup_standard k hk 0 l sub hpre.2.2]
    cases findNode k (l, sub) <;> rfl
  · intro st k n hk
    exact lookupFirstN_eq_take hlaid hpre ⟨_, _, rfl⟩ st k hk n
  · obtain ⟨groups, hperm, hent⟩ := entries_laid (info := info) hlaid hpre hcount
    refine ⟨groups, ?_, ?_, hent⟩
    · exact (hperm.map (·.1)).nodup_iff.mpr (nodeGroups_keys_nodup hpre.2.2)
    · intro k ps
      rw [hperm.mem_iff, mem_nodeGroups hpre.2.2]

/-- the ASN.1 module, the constants of trie.rs and the model agree (magic, version, field lists,
    record size, value ranges) -/
theorem format_constants : FormatConstantsAgree := format_constants_agree

/-- in the index the children of a node are strictly ascending by syllable (after the leaf) -/
theorem children_ascending {sub : Forest} (hw : sub.WF) :
    (sortBy sylLt sub.toItems).Pairwise (fun a b => a.syl < b.syl) := sorted_kids_ascending hw

/-- **C11** -/
theorem C11 : C11_full := by
  intro info es hv
  refine ⟨writes_within_limits _, ?_⟩
  intro bytes hw
  have hwf := WF_ofEntries info es hv.2
  have hi : ValidInfo (TrieCodec.Builder.ofEntries info es).info := by rw [info_ofEntries]; exact hv.1
  obtain ⟨t, hopen, habout, _⟩ := read_write _ hwf hi bytes hw
  obtain ⟨t1, ho1, hl⟩ := lookup_correct info es hv bytes hw
  obtain ⟨t2, ho2, hf⟩ := fuzzy_correct info es hv bytes hw
  obtain ⟨t3, ho3, he⟩ := entries_correct info es hv bytes hw
  obtain ⟨t4, ho4, hn⟩ := first_n_prefix info es hv bytes hw
  obtain ⟨t5, ho5, hfp, _⟩ := first_phrase_correct info es hv bytes hw
  have e4 : t4 = t := Option.some.inj (ho4.symm.trans hopen)
  have e5 : t5 = t := Option.some.inj (ho5.symm.trans hopen)
  rw [e4] at hn
  rw [e5] at hfp
  have e1 : t1 = t := Option.some.inj (ho1.symm.trans hopen)
  have e2 : t2 = t := Option.some.inj (ho2.symm.trans hopen)
  have e3 : t3 = t := Option.some.inj (ho3.symm.trans hopen)
  rw [e1] at hl
  rw [e2] at hf
  rw [e3] at he
  refine ⟨t, hopen, by rw [habout, info_ofEntries], ?_, ?_, hf, hn, hfp, he, conforms info es hv bytes hw⟩
  · intro k hk
    refine ⟨hl k hk, ?_⟩
    rw [hl k hk]
    exact order_documented _
  · intro k hk hn
    rw [hl k hk, hn]
    rfl

/-! ## non-vacuity -/

/-- a concrete input: two keys, one a prefix of the other, a re-insert, a timestamp -/
def sampleEntries : List Entry :=
  [([10268], { text := [28204], freq := 1 }), ([10268, 8708], { text := [28204, 35430], freq := 100, lastUsed := some 5 }),
   ([10268], { text := [20874], freq := 70000 }), ([10268], { text := [28204], freq := 9 })]

example : ValidInput {} sampleEntries := by
  refine ⟨by unfold ValidInfo; decide, ?_⟩
  intro e he
  simp only [sampleEntries, List.mem_cons, List.not_mem_nil, or_false] at he
  rcases he with rfl | rfl | rfl | rfl <;> exact ⟨by decide, by decide⟩

example : ((TrieCodec.Builder.ofEntries {} sampleEntries).write).isSome = true := by decide

example : ValidKey [10268, 8708] := by unfold ValidKey; decide

example : inserted sampleEntries [10268] = some [{ text := [28204], freq := 9 }, { text := [20874], freq := 70000 }] := by
  decide

/-- the sample file read back by the model's reader -/
def sampleTrie : Option Trie := ((TrieCodec.Builder.ofEntries {} sampleEntries).write).bind openTrie

-- `order_independent` / `perm_same_bytes` are not vacuous: the sample with its inserts rearranged (the second key first,
-- the three inserts of the first key in their order) is a different insert sequence with the same map — and the same bytes
def sampleRearranged : List Entry :=
  [([10268, 8708], { text := [28204, 35430], freq := 100, lastUsed := some 5 }), ([10268], { text := [28204], freq := 1 }),
   ([10268], { text := [20874], freq := 70000 }), ([10268], { text := [28204], freq := 9 })]

example : KeySwap sampleEntries sampleRearranged :=
  KeySwap.swap [] _ ([10268], { text := [28204], freq := 1 }) _ (by decide)
example : sampleEntries ≠ sampleRearranged := by decide
example : (TrieCodec.Builder.ofEntries {} sampleEntries).write = (TrieCodec.Builder.ofEntries {} sampleRearranged).write :=
  perm_same_bytes {} _ _ (KeySwap.swap [] _ ([10268], { text := [28204], freq := 1 }) _ (by decide))
-- two different keys below one node, inserted in the two orders: the builder trees differ (children in insertion
-- order), the bytes do not
example : (TrieCodec.Builder.ofEntries {} [([3], { text := [65], freq := 1 }), ([2], { text := [66], freq := 1 })]).kids.toItems.map Item.syl
    = [3, 2] ∧
    (TrieCodec.Builder.ofEntries {} [([2], { text := [66], freq := 1 }), ([3], { text := [65], freq := 1 })]).kids.toItems.map Item.syl
    = [2, 3] := by decide

-- exact lookup: the re-inserted 測 (freq 9) kept its place before 冊; single characters in insertion order
example : (sampleTrie.map fun t => lookupAll t [10268] .standard) =
    some [{ text := [28204], freq := 9 }, { text := [20874], freq := 70000 }] := by decide

-- a key never inserted, and a key that is only a prefix of the query
example : (sampleTrie.map fun t => lookupAll t [8708] .standard) = some [] := by decide
example : (sampleTrie.map fun t => lookupAll t [10268, 8708, 8708] .standard) = some [] := by decide

-- fuzzy prefix lookup: ㄘ + ㄕ matches ㄘㄜˋ ㄕˋ; the hypothesis of `fuzzy_correct` is met non-trivially
example : fuzzyMatch [10268, 8708] [10240, 8704] = true := by decide
example : (sampleTrie.map fun t => lookupAll t [10240, 8704] .fuzzyPartialPrefix) =
    some [{ text := [28204, 35430], freq := 100, lastUsed := some 5 }] := by decide

-- `lookup_first_n_phrases(…, n, …)` on the two-phrase leaf: nothing for n = 0, the first phrase for n = 1 (the
-- truncation cuts inside the leaf: the full result has 2), everything for n = 3; `lookup_first_phrase` its head
example : (sampleTrie.map fun t => lookupFirstN t [10268] 0 .standard) = some [] := by decide
example : (sampleTrie.map fun t => lookupFirstN t [10268] 1 .standard) = some [{ text := [28204], freq := 9 }] := by decide
example : (sampleTrie.map fun t => lookupFirstN t [10268] 3 .standard) =
    some [{ text := [28204], freq := 9 }, { text := [20874], freq := 70000 }] := by decide

/-- two one-syllable keys beginning with ㄘ (ㄘㄚ, ㄘㄜˋ), two phrases each: a fuzzy lookup of ㄘ has two threads -/
def sampleTwoLeaves : Option Trie :=
  ((TrieCodec.Builder.ofEntries {}
    [([10268], { text := [28204], freq := 1 }), ([10268], { text := [20874], freq := 2 }),
     ([10249], { text := [25830], freq := 3 }), ([10249], { text := [25831], freq := 4 })]).write).bind openTrie

-- the full fuzzy result: both leaves, 4 phrases; n = 1 stops after the first leaf and cuts inside it; n = 3 takes
-- both leaves (2 is not > 3, then 4 is) and cuts inside the second one — the loop alone returns 4 phrases (the
-- behaviour before the F11 fix), the truncation makes it the first 3
example : (sampleTwoLeaves.map fun t => (lookupAll t [10240] .fuzzyPartialPrefix).map (·.text)) =
    some [[25830], [25831], [28204], [20874]] := by decide
example : (sampleTwoLeaves.map fun t => (lookupFirstN t [10240] 1 .fuzzyPartialPrefix).map (·.text)) =
    some [[25830]] := by decide
example : (sampleTwoLeaves.map fun t => (lookupFirstN t [10240] 3 .fuzzyPartialPrefix).map (·.text)) =
    some [[25830], [25831], [28204]] := by decide
example : (sampleTwoLeaves.map fun t => (collectN t.index t.data 3
    ((walk t.index .fuzzyPartialPrefix [10240] [viewAt t.index 0]).getD []) []).length) = some 4 := by decide

-- the validation is not vacuous: the sample file with ONE index byte overwritten (the child-begin field of the root,
-- 1 -> 0: the root becomes its own child, C12's finding F16) decodes as DER but is rejected by `openTrie`
example : ((TrieCodec.Builder.ofEntries {} sampleEntries).write.map fun bytes =>
    (bytes[28]?, openTrie (bytes.set 28 0), (openTrie bytes).isSome)) = some (some 1, none, true) := by decide

-- nor is its syllable clause (since the repair of C13's F47): the low byte of the syllable field of record 1
-- (ㄘㄜˋ = 0x281c) overwritten with 0x1e gives tone index 6, a value `Syllable::try_from` rejects — the file is refused;
-- a `Trie` holding that index (which `openTrie` never returns) makes `entries()` panic and a fuzzy lookup miss the node
example : ((TrieCodec.Builder.ofEntries {} sampleEntries).write.map fun bytes =>
    (bytes[40]?, validCode 0x281c, validCode 0x281e, openTrie (bytes.set 40 0x1e))) = some (some 0x1c, true, false, none) := by
  decide
example : (sampleTrie.map fun t => (t.index[15]?, (entries { t with index := t.index.set 15 0x1e }).map (·.length),
    lookupAll { t with index := t.index.set 15 0x1e } [10240] .fuzzyPartialPrefix, (lookupAll t [10240] .fuzzyPartialPrefix).length)) =
    some (some 0x1c, .panic "syllable-invalid", [], 2) := by decide

-- the input hypothesis excludes exactly such keys: a `u16` that is not a `Syllable` is not a valid entry
example : ¬ ValidEntry ([0x6a07], { text := [28204], freq := 1 }) := by
  intro h
  exact absurd (h.1 0x6a07 (by simp)).2.2 (by decide)

-- enumeration: three (key, phrase) pairs (the iterator pops each round's results: deepest first)
example : (sampleTrie.map fun t => (entries t).map fun es => es.map (·.1)) =
    some (.ok [[10268, 8708], [10268], [10268]]) := by decide

-- the order clause on a leaf mixing both kinds: the single character first, then by descending frequency
example : sortLeaf [{ text := [1, 2], freq := 5 }, { text := [3], freq := 1 }, { text := [4, 5], freq := 7 }] =
    [{ text := [3], freq := 1 }, { text := [4, 5], freq := 7 }, { text := [1, 2], freq := 5 }] := by decide

/-! ## the ORDER of the enumeration

`entries_correct` determines `entries()` up to a permutation of the keys.  The order itself
(`Proofs/TrieEntriesOrder.lean`, `Proofs/TrieEntriesRuns.lean`): `Trie::entries()` walks the index depth first with
an explicit stack — it descends along FIRST children (children of a node lie in the index in ascending order of
their syllable code, `children_ascending`; the leaf record comes before them) and pushes the leaf of every node it
passes onto `results`; at a node that has nothing but a leaf the descent ends and `results` is emptied by `pop()`,
i.e. **deepest key first**; then the walk ascends to the next sibling of the innermost unfinished node.  As a list:
sort the keys lexicographically by syllable code with a proper prefix before its extensions (`Cli.keyLe`), cut the
sorted list into its maximal runs in which every key is a prefix of the next one (`Cli.runs` — these are exactly
the descents), reverse every run (`Cli.trieOrder`).  Under each key the phrases come in the written leaf order
(`leafOut` = `sortLeaf`, described by `order_documented`). -/

/-- **`entries_order`** — the enumeration of a written file as an EQUATION between lists: for every duplicate-free
    list `keys` of the inserted keys (in any order), `entries()` yields the keys in the order `Cli.trieOrder keys`
    and under each key exactly its leaf in written order -/
theorem entries_order (info : Info) (es : List Entry) (hv : ValidInput info es) (bytes : Bytes)
    (hw : (TrieCodec.Builder.ofEntries info es).write = some bytes)
    (keys : List (List Nat)) (hnd : keys.Nodup) (hkeys : ∀ k, k ∈ keys ↔ ∃ ps, inserted es k = some ps) :
    ∃ t, openTrie bytes = some t ∧
      entries t = .ok ((Cli.trieOrder keys).flatMap fun k =>
        (leafOut (k, (inserted es k).getD [])).map fun p => (k, p)) := by
  have hwf := WF_ofEntries info es hv.2
  have hi : ValidInfo (TrieCodec.Builder.ofEntries info es).info := by rw [info_ofEntries]; exact hv.1
  obtain ⟨recs, data, hbuf, _, hopen, hr, hd⟩ := openTrie_write_wf _ hwf hi bytes hw
  have hlaid := TrieCodec.bfs_layout _ hwf recs data hbuf hr hd
  have hcount := writeLoop_count _ _ _ _ _ _ _ hbuf
  have hq : qsize [(TrieCodec.Builder.ofEntries info es).root] = (TrieCodec.Builder.ofEntries info es).root.size := by
    simp [qsize]
  rw [hq] at hcount
  have hfind : ∀ k, findNode k ((TrieCodec.Builder.ofEntries info es).leaf, (TrieCodec.Builder.ofEntries info es).kids) =
      inserted es k := by
    intro k
    have := find_ofEntries info es k
    unfold TrieCodec.Builder.find at this
    rw [this]; rfl
  have := entries_laid_order (info := (TrieCodec.Builder.ofEntries info es).info) hlaid
    (root_pre _ hwf) (by simpa [TrieCodec.Builder.root] using hcount) keys hnd
    (fun k => by rw [hkeys k, hfind k])
  refine ⟨_, hopen, ?_⟩
  rw [this]
  simp only [hfind, leafOut]

/-- the inserted keys are the first components of the inserted entries -/
theorem inserted_some_iff (es : List Entry) (k : List Nat) : (∃ ps, inserted es k = some ps) ↔ k ∈ es.map (·.1) := by
  unfold inserted refFind
  have key : ∀ (es : List Entry) (acc : Option (List Phrase)),
      (∃ ps, es.foldl (fun acc e => if e.1 = k then some (upsert (acc.getD []) e.2) else acc) acc = some ps) ↔
        (∃ ps, acc = some ps) ∨ k ∈ es.map (·.1) := by
    intro es
    induction es with
    | nil => intro acc; simp
    | cons e es ih =>
      intro acc
      simp only [List.foldl_cons, List.map_cons, List.mem_cons]
      rw [ih]
      by_cases h : e.1 = k
      · simp [h]
      · have : ¬ k = e.1 := fun c => h c.symm
        simp [h, this]
  simpa using key es none

/-- … for instance with the keys in the order of their first insertion -/
theorem entries_order_first_inserted (info : Info) (es : List Entry) (hv : ValidInput info es) (bytes : Bytes)
    (hw : (TrieCodec.Builder.ofEntries info es).write = some bytes) :
    ∃ t, openTrie bytes = some t ∧
      entries t = .ok ((Cli.trieOrder (Trie.dedupKeys (es.map (·.1)))).flatMap fun k =>
        (leafOut (k, (inserted es k).getD [])).map fun p => (k, p)) :=
  entries_order info es hv bytes hw _ (Trie.dedupKeys_nodup _)
    (fun k => by rw [Trie.mem_dedupKeys, inserted_some_iff])

/-- what the order is, in the terms of the tree (for a well-formed tree): the pre-order key list is sorted by
    `Cli.keyLe`, and the enumeration is that list cut into prefix chains, each chain reversed -/
theorem entries_order_is_reversed_descents {it : Item} (hn : NodeInv it) :
    (pre [] it).Pairwise (fun a b => Cli.keyLe a b = true) ∧
    ord [] it [] = (Cli.runs (pre [] it)).flatMap List.reverse := by
  refine ⟨pre_sorted it hn [], ?_⟩
  have := ord_eq_runs it hn [] [] (chainTo_nil _)
  simpa using this

-- the order on a small key set: ㄅ < ㄅㄆ < ㄅㄇ < ㄆ sorted; (ㄅ, ㄅㄆ) is a descent and comes out deepest first
example : Cli.trieOrder [[2], [1, 3], [1], [1, 2]] = [[1, 2], [1], [1, 3], [2]] := by decide
-- three nested keys and a sibling below the middle one
example : Cli.trieOrder [[1], [1, 2], [1, 2, 3], [1, 2, 4], [1, 5]] = [[1, 2, 3], [1, 2], [1], [1, 2, 4], [1, 5]] := by decide
-- the sample file: `entries_order_first_inserted` evaluated
example : Cli.trieOrder (Trie.dedupKeys (sampleEntries.map (·.1))) = [[10268, 8708], [10268]] := by decide

end Chewing.C11
