import Chewing.Proofs.Uhash
import Chewing.Proofs.Loader
import Chewing.Proofs.WalkLookup
import Chewing.Proofs.WalkEntries
import Chewing.Proofs.WalkValid
import Chewing.Proofs.WalkLinear
import Chewing.Proofs.WalkThreads
import Chewing.Proofs.WalkOpen
import Chewing.Proofs.TrieWitness
import Chewing.Proofs.Estimate
/-!
# C12 — Corrupt dictionary or legacy user files never crash or hang the host

Models: `Model/Uhash.lean` (the two readers of the legacy `uhash.dat`, every slice / index a checked
accessor), `Model/Loader.lean` (`UserDictionaryLoader::load` over an abstract directory) and
`Model/TrieWalk.lean` (the repository's own traversal code of `trie.rs` — `lookup_first_n_phrases`
and the explicit-stack iterator of `entries()` — over an arbitrary index table).

What is assumed about DER decoding (crate `der`, trusted): `Trie::new` turns the file into
(index bytes, phrase bytes) or an error without panicking, and `PhrasesIter` over `data[db..de]`
is a total function `leaf db de : List P`.  A `Tbl P` is therefore (records, data length, leaf
function); the theorems quantify over ALL tables — all record lists with arbitrary naturals in every
field, in particular `parseIndex ib` for every byte string `ib` — and never inspect `P`.

"never panics" = `Returns` (the outcome is `.ok _`, neither `.panic _` nor `.outOfFuel`);
"never loops forever" = a fuel bound that depends on the size of the table only;
"never allocates without bound" = a bound on the thread set / result length.

Findings F16 / F17 (an index that is not a tree laid out parent-before-child made `entries()` loop for
ever and multiplied the thread set of a lookup; a zero syllable at a non-first child position panicked
`entries()`) were repaired by a `fix:` commit: `Trie::new` / `TrieOpenOptions::read_from` now run
`validate_index` (`Model/TrieValidate.lean`, one linear pass) over the decoded index and return an ordinary
`Err` unless the index is a tree in breadth-first order.  A traversal therefore only ever runs on a table
with `validate t = true`, and for EVERY such table (`C12`): `entries()` never panics and returns within
`16·n + 2` loop iterations (`n` = number of index records), a lookup returns for every query with a thread
set of at most `n` members and an answer of at most `first` phrases.  The old witnesses are kept:
`validate` rejects each of them (`witnesses_rejected`), and what the traversals would do on them without the
validation is still proved (`unvalidated_*`).  `validate (write b) = true` is C11's `validate_write`.
Since the repair of C13's F47 `Syllable::try_from` rejects every value that is not a syllable code (`validCode`), and the
`Syllable::try_from(syl).unwrap()` of `entries()` is modelled with it; `validate_index` checks the syllable of every node
record, so `C12` holds as before for every accepted table (`valid_validSyls`; `unvalidated_entries_invalid_syllable` shows the
check is needed), and a legacy record with such a value is an ordinary load error (`uhash_invalid_syllable_is_error`).
The legacy-file findings F14/F15/F39 were repaired by `fix:` commits; the model is of the repaired
code and `uhash_total` holds without hypothesis (`uhash_orig_panics` keeps the old witnesses).
F40 — a stored frequency within reach of `u32::MAX` aborted the first commit that learned the phrase
(plain `+` in C08's `estimate`, outside the traversal code) — was repaired by a `fix:` commit
(`saturating_add`): `stored_freq_never_overflows` (all `u32` frequencies), `stored_freq_overflow_witness`
(the old witness now evaluates to the cap).
-/
namespace Chewing.C12
open Chewing Chewing.Uhash Chewing.Loader Chewing.TrieWalk

deriving instance DecidableEq for Except

/-! ## The full statement -/

/-- the legacy importer never panics and never loops, on every byte string -/
def LegacyTotal : Prop := ∀ b : List Nat, Returns (loadUhash b)

/-- its result is no larger than the file -/
def LegacyBounded : Prop := ∀ (b : List Nat) (rs : List Uhash.Rec), loadUhash b = .ok (.ok rs) → rs.length ≤ b.length

/-- creating the user dictionary over a directory with any legacy file returns -/
def StartTotal : Prop := ∀ (feat : Bool) (d : UserDir), Returns (load feat d)

/-- a lookup in any index table returns (structural recursion: no fuel needed) -/
def LookupTotal : Prop :=
  ∀ (P : Type) (t : Tbl P) (pred : Nat → Nat → Bool) (first : Nat) (q : List Nat), Returns (lookup t pred first q)

/-- … and, on a table `Trie::new` accepted, its thread set stays linear in the table -/
def LookupThreadsLinear : Prop :=
  ∀ (P : Type) (t : Tbl P) (pred : Nat → Nat → Bool) (q : List Nat) (th : List Node),
    validate t = true → (∀ syl ∈ q, pred 0 syl = false) → threads t pred q = .ok (some th) → th.length ≤ t.n

/-- enumerating any table `Trie::new` accepted never panics -/
def EntriesNoPanic : Prop :=
  ∀ (P : Type) (t : Tbl P) (fuel : Nat) (s : String), validate t = true → entriesFuel t fuel ≠ .panic s

/-- … and finishes within a number of loop iterations linear in the number of index records -/
def EntriesTerminates : Prop := ∀ (P : Type) (t : Tbl P), validate t = true → Returns (entriesFuel t (16 * t.n + 2))

/-- the full statement.  `validate t = true` is not an assumption about the file: it is the check `Trie::new`
    performs (the model follows the code); a file that fails it is never traversed — `Trie::new` returns `Err`,
    which the loaders pass on (`chewing_new2` returns NULL, the file is left untouched). -/
def C12_full : Prop :=
  LegacyTotal ∧ LegacyBounded ∧ StartTotal ∧ LookupTotal ∧ LookupThreadsLinear ∧ EntriesNoPanic ∧ EntriesTerminates

/-! ## Legacy files: proved for all byte strings (after the `fix:` commits) -/

/-- `uhash_bin_no_panic` -/
theorem uhash_bin_total (b : List Nat) : Returns (loadBin b) := loadBin_returns b
/-- `uhash_text_no_panic` -/
theorem uhash_text_total (b : List Nat) : Returns (loadText b) := loadText_returns b

theorem uhash_total : LegacyTotal := loadUhash_returns

theorem start_total : StartTotal := load_returns

theorem binLoop_length {recf : List Nat → Outcome RecRes} :
    ∀ (fuel : Nat) (rest : List Nat) (rs : List Uhash.Rec), binLoop recf fuel rest = .ok (.ok rs) →
      rs.length * binFieldSize ≤ rest.length
  | 0, _, _, h => by cases h
  | fuel + 1, rest, rs, h => by
    unfold binLoop at h
    split at h
    · cases h; simp
    · rename_i hlen
      have hd : (rest.drop binFieldSize).length + binFieldSize = rest.length := by
        simp only [List.length_drop]; omega
      split at h
      · have := binLoop_length fuel _ rs h
        omega
      · cases h
      · rename_i r _
        cases hq : binLoop recf fuel (rest.drop binFieldSize) with
        | ok q =>
          rw [hq] at h
          cases q with
          | ok rs' =>
            simp only [Outcome.ok.injEq, Except.ok.injEq] at h
            subst h
            have := binLoop_length fuel _ rs' hq
            simp only [List.length_cons, Nat.add_mul]
            omega
          | error e => cases h
        | panic s => rw [hq] at h; cases h
        | outOfFuel => rw [hq] at h; cases h
      · cases h
      · cases h

theorem loadBin_length {b : List Nat} {rs : List Uhash.Rec} (h : loadBin b = .ok (.ok rs)) : rs.length ≤ b.length := by
  unfold loadBin loadBinWith at h
  split at h
  · cases h
  split at h
  · cases h
  split at h
  · cases h
  · have := binLoop_length _ _ _ h
    simp only [List.length_drop, binFieldSize] at this
    omega

theorem textLines_length : ∀ (ls : List (List Nat)) (rs : List Uhash.Rec), textLines ls = some rs → rs.length = ls.length
  | [], rs, h => by simp only [textLines, Option.some.injEq] at h; subst h; rfl
  | l :: ls, rs, h => by
    unfold textLines at h
    split at h
    · cases h
    · split at h
      · cases h
      · rename_i rs' hrs
        simp only [Option.some.injEq] at h
        subst h
        simp [textLines_length ls rs' hrs]

theorem linesAux_length : ∀ (b cur : List Nat), (linesAux b cur).length ≤ b.length + 1
  | [], cur => by unfold linesAux; split <;> simp
  | x :: rest, cur => by
    unfold linesAux
    split
    · have := linesAux_length rest []
      simp only [List.length_cons]; omega
    · have := linesAux_length rest (x :: cur)
      simp only [List.length_cons]; omega

theorem loadText_length {b : List Nat} {rs : List Uhash.Rec} (h : loadText b = .ok (.ok rs)) : rs.length ≤ b.length := by
  unfold loadText loadTextWith at h
  split at h
  · cases h
  · rename_i first rest hl
    split at h
    · cases h
    · split at h
      · cases h
      · rename_i rs' hrs
        simp only [Outcome.ok.injEq, Except.ok.injEq] at h
        subst h
        have h1 := textLines_length _ _ hrs
        have h2 := linesAux_length b []
        unfold lines at hl
        rw [hl] at h2
        simp only [List.length_cons] at h2
        omega

/-- the importer yields at most one record per byte of the file (binary: one per 125 bytes) -/
theorem uhash_bounded : LegacyBounded := by
  intro b rs h
  unfold loadUhash at h
  cases hb : loadBin b with
  | ok r =>
    rw [hb] at h
    cases r with
    | ok rs' =>
      simp only [Outcome.ok.injEq, Except.ok.injEq] at h
      subst h
      exact loadBin_length hb
    | error e => exact loadText_length h
  | panic s => rw [hb] at h; cases h
  | outOfFuel => rw [hb] at h; cases h

/-! ### the repaired defects, as theorems about the pre-fix record decoder -/

/-- a 125-byte record: the four non-negative integers, then `tail` padded with zeros -/
def recOf (tail : List Nat) : List Nat :=
  let r := [1, 0, 0, 0, 2, 0, 0, 0, 3, 0, 0, 0, 4, 0, 0, 0] ++ tail
  r ++ List.replicate (125 - r.length) 0

def fileOf (tail : List Nat) : List Nat := binSig ++ [0, 0, 0, 0] ++ recOf tail

/-- F14: length byte 54 -> `buf[17 + 2*54 + 1]` = `buf[126]` of 125 -/
def f14File : List Nat := fileOf [54]
/-- F15: one syllable, phrase-bytes field 200 -> `buf[20..220]` -/
def f15File : List Nat := fileOf [1, 1, 0, 200, 65]
/-- F39: zero syllables, phrase "A" -> imported under the empty key -/
def f39File : List Nat := fileOf [0, 1, 65]

theorem uhash_orig_panics :
    loadUhashOrig f14File = .panic "uhash:index-out-of-bounds" ∧
    loadUhashOrig f15File = .panic "uhash:slice-out-of-range" ∧
    loadUhashOrig f39File = .ok (.ok [{ syls := [], phrase := [65], freq := 1, time := 2 }]) := by
  exact ⟨by decide +kernel, by decide +kernel, by decide +kernel⟩

/-- the repaired reader skips all three records -/
theorem uhash_fixed_skips :
    loadUhash f14File = .ok (.ok []) ∧ loadUhash f15File = .ok (.ok []) ∧ loadUhash f39File = .ok (.ok []) := by
  exact ⟨by decide +kernel, by decide +kernel, by decide +kernel⟩

/-- a stored syllable that is not a syllable (C13's F47 repaired: `Syllable::try_from` rejects `0x6a07`) is an ordinary
    load error of both readers — the whole file is refused, nothing is imported, nothing panics; the same records with
    a valid code are imported (the examples at the end of the file) -/
theorem uhash_invalid_syllable_is_error :
    loadBin (fileOf [1, 0x07, 0x6a, 1, 65]) = .ok (.error ()) ∧
    loadUhash (fileOf [1, 0x07, 0x6a, 1, 65]) = .ok (.error ()) ∧
    loadText [52, 50, 10, 80, 32, 50, 55, 49, 52, 51, 32, 49, 32, 50, 32, 51, 32, 52, 10] = .ok (.error ()) := by
  exact ⟨by decide +kernel, by decide +kernel, by decide +kernel⟩

/-! ## Trie lookup: total for every table; thread set bounded by `n` on every validated table -/

/-- `lookup_no_panic` (and termination: the model is structurally recursive) -/
theorem lookup_total : LookupTotal := fun _ t pred first q => lookup_returns t pred first q

/-- without the validation: after `k` query syllables there are at most `n^k` threads -/
theorem lookup_threads_bound {P : Type} (t : Tbl P) (pred : Nat → Nat → Bool) (q : List Nat) (th : List Node)
    (h : threads t pred q = .ok (some th)) : th.length ≤ t.n ^ q.length := threads_length t pred q th h

/-- `lookup_steps_bound`, linear: on a table `Trie::new` accepted the threads are distinct records in
    ascending order, at most `n` of them whatever the query (`Proofs/WalkThreads.lean`) -/
theorem lookup_threads_linear : LookupThreadsLinear :=
  fun _ _ pred q th hv hp h => threads_length_linear hv pred q th hp h

/-- the answer of a lookup is bounded by the caller's `first`, for every index table (repair of F11) -/
theorem lookup_answer_bounded {P : Type} (t : Tbl P) (pred : Nat → Nat → Bool) (first : Nat) (q : List Nat) (r : List P)
    (h : lookup t pred first q = .ok r) : r.length ≤ first :=
  lookup_length_le_first t pred first q r h

/-! ## Trie enumeration -/

/-- `entries_no_panic`: no panic on any validated table, whatever the fuel -/
theorem entries_no_panic : EntriesNoPanic :=
  fun _ _ fuel s hv => entriesFuel_no_panic (valid_noZeroChild hv) (valid_validSyls hv) fuel s

/-- `entries_terminates`: at most `16·n + 2` iterations of the closure's loop.  The termination measure is
    `phi` of `Proofs/WalkEntries.lean` with twice the subtree size as the weight of a record
    (`Proofs/WalkLinear.lean`: `tick_phi` — every loop iteration strictly decreases it; `sz_root_le` — the
    subtree of the root of a validated table has at most `n` records) -/
theorem entries_terminates : EntriesTerminates := fun _ _ hv => entriesFuel_returns_linear hv _ (Nat.le_refl _)

/-- the measure argument itself: one iteration of the closure's loop strictly decreases `phi` -/
theorem entries_measure_decreases {P : Type} {t : Tbl P} (hv : validate t = true) {st st' : ESt P}
    (hi : EInv t st) (hnf : st.phase ≠ .finished) (h : tick t st = .ok st') :
    phi (subtreeWeights (valid_forward hv)) st' < phi (subtreeWeights (valid_forward hv)) st :=
  tick_phi _ (valid_noZeroChild hv) hi hnf h

/-- what `validate_index` establishes (the negations of the former finding classes F16 / F17, and — since the repair of
    C13's F47 — that every syllable `entries()` will hand to `Syllable::try_from(..).unwrap()` is a valid code) -/
theorem validate_sound {P : Type} {t : Tbl P} (hv : validate t = true) :
    Forward t ∧ NoZeroChild t ∧ DisjointRanges t ∧ Mono t ∧ AllInside t ∧ ValidSyls t :=
  ⟨valid_forward hv, valid_noZeroChild hv, valid_disjoint hv, valid_mono hv, valid_allInside hv, valid_validSyls hv⟩

/-- the syllable field of every node record (every record but the root whose field is not zero) of an accepted table
    is a value `Syllable::try_from` accepts -/
theorem validate_node_syllables {P : Type} {t : Tbl P} (hv : validate t = true) (i : Nat) (h0 : 0 < i) (hi : i < t.n)
    (hs : (t.get i).s ≠ 0) : validCode (t.get i).s = true := valid_syl hv h0 hi hs

/-- **C12** -/
theorem C12 : C12_full :=
  ⟨uhash_total, uhash_bounded, start_total, lookup_total, lookup_threads_linear, entries_no_panic, entries_terminates⟩

/-- session form, for ALL index bytes, data lengths and phrase decoders: `Trie::new` either rejects the
    index, or every lookup and the whole enumeration return (no panic, linear bounds) -/
theorem walk_total_after_open {P : Type} (ib : List Nat) (dl : Nat) (leaf : Nat → Nat → List P) :
    let t : Tbl P := { recs := parseIndex ib, dataLen := dl, leaf := leaf }
    validate t = false ∨
    (validate t = true ∧
      (∀ pred first q, ∃ r, lookup t pred first q = .ok r ∧ r.length ≤ first) ∧
      (∀ pred q th, (∀ syl ∈ q, pred 0 syl = false) → threads t pred q = .ok (some th) → th.length ≤ t.n) ∧
      Returns (entriesFuel t (16 * t.n + 2))) := by
  intro t
  cases hv : validate t with
  | false => exact Or.inl rfl
  | true =>
    refine Or.inr ⟨rfl, ?_, fun pred q th hp h => threads_length_linear hv pred q th hp h,
      entriesFuel_returns_linear hv _ (Nat.le_refl _)⟩
    intro pred first q
    obtain ⟨r, hr⟩ := lookup_returns t pred first q
    exact ⟨r, hr, lookup_length_le_first t pred first q r hr⟩

/-- **open_total** and the traversals, for ALL byte strings (byte-level model of `Trie::new`: C11's DER model of the
    `der` crate, then `validate_index`): opening a file returns — `none` = an ordinary `Err` — and on every `Trie` it
    returns, every lookup returns at most `first` phrases with at most `n` threads, and `entries()` returns without
    panic within `16·n + 2` loop iterations (`n` = records of the index, at most one per 8 bytes of the file) -/
theorem trie_file_total (bytes : Der.Bytes) :
    TrieCodec.openTrie bytes = none ∨
    ∃ t, TrieCodec.openTrie bytes = some t ∧
      (∀ pred first q, ∃ r, lookup (tblOf t) pred first q = .ok r ∧ r.length ≤ first) ∧
      (∀ pred q th, (∀ syl ∈ q, pred 0 syl = false) → threads (tblOf t) pred q = .ok (some th) →
        th.length ≤ (tblOf t).n) ∧
      (∀ fuel s, entriesFuel (tblOf t) fuel ≠ .panic s) ∧
      Returns (entriesFuel (tblOf t) (16 * (tblOf t).n + 2)) := by
  rcases open_then_valid bytes with h | ⟨t, h1, hv⟩
  · exact Or.inl h
  · refine Or.inr ⟨t, h1, ?_, fun pred q th hp h => threads_length_linear hv pred q th hp h,
      fun fuel s => entriesFuel_no_panic (valid_noZeroChild hv) (valid_validSyls hv) fuel s,
      entriesFuel_returns_linear hv _ (Nat.le_refl _)⟩
    intro pred first q
    obtain ⟨r, hr⟩ := lookup_returns (tblOf t) pred first q
    exact ⟨r, hr, lookup_length_le_first _ pred first q r hr⟩

/-! ### the former findings F16 / F17: rejected by `validate_index`; what they did to the traversals -/

/-- F16, allocation form: three records, all with child range `[0, 3)`; record 0 doubles as the leaf.
    Two query syllables give four threads (and four copies of the one phrase) from a three-record
    table (`witness-F16-blowup-cyclic` of the harness is the same shape with 16 records) -/
def blowupTbl : Tbl Nat :=
  { recs := [⟨0, 3, 0⟩, ⟨0, 3, 10268⟩, ⟨0, 3, 10268⟩], dataLen := 3, leaf := fun _ _ => [7] }

/-- every former witness is rejected when the file is opened — and so are the two tables whose only flaw is a node
    syllable that is not a syllable (`0x6a07`, `0x8208`; they pass the structural scan: `invalidSyl_scan_ok`) -/
theorem witnesses_rejected :
    validate loopTbl = false ∧ validate blowupTbl = false ∧ validate zeroSecondTbl = false ∧
    validate zeroSiblingTbl = false ∧ validate invalidSylTbl = false ∧ validate markerSylTbl = false := by decide

/-- without the validation (the walk of the pre-fix code = the same walk on an unvalidated table):
    F16, the self-loop table never finishes … -/
theorem unvalidated_entries_loop (fuel : Nat) : entriesFuel loopTbl fuel = .outOfFuel := loop_never_finishes fuel

/-- … F16, overlapping child ranges multiply the thread set (4 threads from 3 records) … -/
theorem unvalidated_lookup_blowup :
    threads blowupTbl (fun n s => n == s) [10268, 10268] =
      .ok (some [(1, ⟨0, 3, 10268⟩), (2, ⟨0, 3, 10268⟩), (1, ⟨0, 3, 10268⟩), (2, ⟨0, 3, 10268⟩)]) := by decide

/-- … F17, both panic sites -/
theorem unvalidated_entries_panic :
    entriesFuel zeroSecondTbl 100 = .panic "trie:invalid-syllable-unwrap" ∧
    entriesFuel zeroSiblingTbl 100 = .panic "trie:debug-assert-zero-syllable" :=
  ⟨zeroSecond_panics, zeroSibling_panics⟩

/-- … and a node syllable outside the range of `Syllable::try_from` (C13's F47 repaired in `try_from` only) reaches the
    `unwrap()` of `entries()`: the syllable check of `validate_index` is necessary as well -/
theorem unvalidated_entries_invalid_syllable :
    entriesFuel invalidSylTbl 100 = .panic "trie:invalid-syllable-unwrap" ∧
    entriesFuel markerSylTbl 100 = .panic "trie:invalid-syllable-unwrap" ∧
    NoZeroChild invalidSylTbl ∧ Forward invalidSylTbl :=
  ⟨invalidSyl_panics, markerSyl_panics, invalidSyl_noZeroChild, invalidSyl_forward⟩

/-- so the validation is necessary: the statement without its hypothesis is false -/
theorem validation_needed :
    ¬ (∀ (P : Type) (t : Tbl P), ∃ fuel, Returns (entriesFuel t fuel)) ∧
    ¬ (∀ (P : Type) (t : Tbl P) (fuel : Nat) (s : String), entriesFuel t fuel ≠ .panic s) := by
  refine ⟨fun h => ?_, fun h => h Unit zeroSecondTbl 100 _ zeroSecond_panics⟩
  obtain ⟨fuel, r, hr⟩ := h Unit loopTbl
  rw [loop_never_finishes fuel] at hr
  cases hr

/-- raw-bytes form: any index bytes, any data length, any phrase decoder -/
theorem walk_total_on_bytes {P : Type} (ib : List Nat) (dl : Nat) (leaf : Nat → Nat → List P)
    (pred : Nat → Nat → Bool) (first : Nat) (q : List Nat) :
    Returns (lookup { recs := parseIndex ib, dataLen := dl, leaf := leaf } pred first q) :=
  lookup_returns _ pred first q

/-! ## Beyond creation: a stored frequency next to `u32::MAX` (F40, repaired)

Not part of the traversal: committing a phrase whose STORED frequency was within reach of `u32::MAX`
overflowed the plain `phrase.freq() + delta` in `LaxUserFreqEstimate::estimate` (overflow-check profile: an
abort of the host at the first commit that learns the phrase; the context over such a file is created).
The repair (`fix:` commit, `phrase.freq().saturating_add(delta).min(MAX_USER_FREQ)`) is what C08's model of
`estimate.rs` now follows (the translator pins `saturating_add`), and for it: -/

/-- what `learn_phrase` calls on a commit — no timestamp, `orig_freq` = the phrase's own stored frequency, which is
    at most the maximum `mx` over its homophones — returns a value within `MAX_USER_FREQ` for EVERY stored
    frequency and every clock value: no panic, no wrap-around -/
theorem stored_freq_never_overflows (lifetime f mx : Nat) (h : f ≤ mx) :
    ∃ v, Learn.estimate lifetime f none f mx = .ok v ∧ v ≤ Gen.Est.maxUserFreq :=
  ⟨_, Learn.estimate_editor lifetime f mx h, Learn.stepFreq_le_max f mx⟩

/-- the same for the bare function with any timestamp in a rising band (`orig ≤ max`): the result is within the cap -/
theorem stored_freq_rising_le_cap (div plus inc f o m : Nat) (h : o ≤ m) :
    ∃ v, Learn.risingBand div plus inc f o m = .ok v ∧ v ≤ Gen.Est.maxUserFreq :=
  ⟨_, Learn.risingBand_eq div plus inc f o m h, Nat.min_le_right _ _⟩

/-- the former witness (stored frequency `u32::MAX`; was `.panic "estimate: freq + delta"`): clamped to the cap -/
theorem stored_freq_overflow_witness : Learn.estimate 5 4294967295 none 0 0 = .ok 99999999 := by
  decide +kernel

/-! ## Non-vacuity -/

/-- the index of a real three-entry file passes `validate_index`, and the walk yields its three leaves within
    the linear bound (7 records: 114 iterations) -/
example : validate goodTbl = true ∧
    entriesFuel goodTbl (16 * goodTbl.n + 2) = .ok [([6664], [0]), ([8712, 6664], [20]), ([8712], [10])] :=
  ⟨by decide, by rfl⟩

/-- one overwritten field of it (record 2's child begin 4 -> 2: the node becomes its own child) is rejected -/
example : validate ({ goodTbl with recs := [⟨1, 2, 0⟩, ⟨3, 1, 6664⟩, ⟨2, 2, 8712⟩, ⟨0, 10, 0⟩, ⟨10, 10, 0⟩, ⟨6, 1, 6664⟩, ⟨20, 13, 0⟩] } : Tbl Nat) = false := by
  decide

/-- a valid binary legacy file with one live record is imported (the total theorems are not about
    a reader that rejects everything) -/
example : loadUhash (fileOf [1, 1, 0, 1, 65]) = .ok (.ok [{ syls := [1], phrase := [65], freq := 1, time := 2 }]) := by
  decide +kernel

example : loadUhash [52, 50, 10, 80, 32, 49, 32, 49, 32, 50, 32, 51, 32, 52, 10] =
    .ok (.ok [{ syls := [1], phrase := [80], freq := 1, time := 2 }]) := by decide +kernel

end Chewing.C12
