import Chewing.Proofs.Uhash
import Chewing.Proofs.Loader
import Chewing.Proofs.WalkLookup
import Chewing.Proofs.WalkEntries
import Chewing.Proofs.TrieWitness
import Chewing.Proofs.Estimate
/-!
# C12 — Corrupt dictionary or legacy user files never crash or hang the host

Models: `Model/Uhash.lean` (the two readers of the legacy `uhash.dat`, every slice / index a checked
accessor), `Model/Loader.lean` (`UserDictionaryLoader::load` over an abstract directory) and
`Model/TrieWalk.lean` (the repository's own traversal code of `trie.rs` — `lookup_first_n_phrases`
and the explicit-stack iterator of `entries()` — over an arbitrary index table).

What is assumed about DER decoding (crate `der`, trusted): `Trie::new` turns the file into
(index bytes, phrase bytes) or an error without panicking, and `PhrasesIter` over `data[db..de]`
is a total function `leaf db de : List P`.  A `Tbl P` is therefore (records, data length, leaf
function); the theorems quantify over ALL tables — all record lists with arbitrary naturals in every
field, in particular `parseIndex ib` for every byte string `ib` — and never inspect `P`.

"never panics" = `Returns` (the outcome is `.ok _`, neither `.panic _` nor `.outOfFuel`);
"never loops forever" = a fuel bound that depends on the size of the table only;
"never allocates without bound" = a bound on the thread set / result length.

Known findings on the unchanged tree (the trie side is NOT repaired):
* F16 — an index that is not laid out parent-before-child (`¬ Forward`) makes `entries()` loop for
  ever (`entries_terminates_refuted`, every amount of fuel); overlapping child ranges multiply the
  thread set of a lookup (`lookup_threads_linear_refuted`).
* F17 — a zero syllable at a non-first child position (`¬ NoZeroChild`) panics `entries()`
  (`entries_no_panic_refuted`, both sites).
The legacy-file findings F14/F15/F39 were repaired by `fix:` commits; the model is of the repaired
code and `uhash_total` holds without hypothesis (`uhash_orig_panics` keeps the old witnesses).
F40 — a stored frequency within reach of `u32::MAX` aborted the first commit that learned the phrase
(plain `+` in C08's `estimate`, outside the traversal code) — was repaired by a `fix:` commit
(`saturating_add`): `stored_freq_never_overflows` (all `u32` frequencies), `stored_freq_overflow_witness`
(the old witness now evaluates to the cap).
-/
namespace Chewing.C12
open Chewing Chewing.Uhash Chewing.Loader Chewing.TrieWalk

deriving instance DecidableEq for Except

/-! ## The full statement -/

/-- the legacy importer never panics and never loops, on every byte string -/
def LegacyTotal : Prop := ∀ b : List Nat, Returns (loadUhash b)

/-- its result is no larger than the file -/
def LegacyBounded : Prop := ∀ (b : List Nat) (rs : List Uhash.Rec), loadUhash b = .ok (.ok rs) → rs.length ≤ b.length

/-- creating the user dictionary over a directory with any legacy file returns -/
def StartTotal : Prop := ∀ (feat : Bool) (d : UserDir), Returns (load feat d)

/-- a lookup in any index table returns (structural recursion: no fuel needed) -/
def LookupTotal : Prop :=
  ∀ (P : Type) (t : Tbl P) (pred : Nat → Nat → Bool) (first : Nat) (q : List Nat), Returns (lookup t pred first q)

/-- … and its thread set stays linear in the table -/
def LookupThreadsLinear : Prop :=
  ∀ (P : Type) (t : Tbl P) (pred : Nat → Nat → Bool) (q : List Nat) (th : List Node),
    (∀ syl ∈ q, pred 0 syl = false) → threads t pred q = .ok (some th) → th.length ≤ t.n

/-- enumerating any index table never panics -/
def EntriesNoPanic : Prop := ∀ (P : Type) (t : Tbl P) (fuel : Nat) (s : String), entriesFuel t fuel ≠ .panic s

/-- … and finishes -/
def EntriesTerminates : Prop := ∀ (P : Type) (t : Tbl P), ∃ fuel, Returns (entriesFuel t fuel)

def C12_full : Prop :=
  LegacyTotal ∧ LegacyBounded ∧ StartTotal ∧ LookupTotal ∧ LookupThreadsLinear ∧ EntriesNoPanic ∧ EntriesTerminates

/-! ## Legacy files: proved for all byte strings (after the `fix:` commits) -/

/-- `uhash_bin_no_panic` -/
theorem uhash_bin_total (b : List Nat) : Returns (loadBin b) := loadBin_returns b
/-- `uhash_text_no_panic` -/
theorem uhash_text_total (b : List Nat) : Returns (loadText b) := loadText_returns b

theorem uhash_total : LegacyTotal := loadUhash_returns

theorem start_total : StartTotal := load_returns

theorem binLoop_length {recf : List Nat → Outcome RecRes} :
    ∀ (fuel : Nat) (rest : List Nat) (rs : List Uhash.Rec), binLoop recf fuel rest = .ok (.ok rs) →
      rs.length * binFieldSize ≤ rest.length
  | 0, _, _, h => by cases h
  | fuel + 1, rest, rs, h => by
    unfold binLoop at h
    split at h
    · cases h; simp
    · rename_i hlen
      have hd : (rest.drop binFieldSize).length + binFieldSize = rest.length := by
        simp only [List.length_drop]; omega
      split at h
      · have := binLoop_length fuel _ rs h
        omega
      · cases h
      · rename_i r _
        cases hq : binLoop recf fuel (rest.drop binFieldSize) with
        | ok q =>
          rw [hq] at h
          cases q with
          | ok rs' =>
            simp only [Outcome.ok.injEq, Except.ok.injEq] at h
            subst h
            have := binLoop_length fuel _ rs' hq
            simp only [List.length_cons, Nat.add_mul]
            omega
          | error e => cases h
        | panic s => rw [hq] at h; cases h
        | outOfFuel => rw [hq] at h; cases h
      · cases h
      · cases h

theorem loadBin_length {b : List Nat} {rs : List Uhash.Rec} (h : loadBin b = .ok (.ok rs)) : rs.length ≤ b.length := by
  unfold loadBin loadBinWith at h
  split at h
  · cases h
  split at h
  · cases h
  split at h
  · cases h
  · have := binLoop_length _ _ _ h
    simp only [List.length_drop, binFieldSize] at this
    omega

theorem textLines_length : ∀ (ls : List (List Nat)) (rs : List Uhash.Rec), textLines ls = some rs → rs.length = ls.length
  | [], rs, h => by simp only [textLines, Option.some.injEq] at h; subst h; rfl
  | l :: ls, rs, h => by
    unfold textLines at h
    split at h
    · cases h
    · split at h
      · cases h
      · rename_i rs' hrs
        simp only [Option.some.injEq] at h
        subst h
        simp [textLines_length ls rs' hrs]

theorem linesAux_length : ∀ (b cur : List Nat), (linesAux b cur).length ≤ b.length + 1
  | [], cur => by unfold linesAux; split <;> simp
  | x :: rest, cur => by
    unfold linesAux
    split
    · have := linesAux_length rest []
      simp only [List.length_cons]; omega
    · have := linesAux_length rest (x :: cur)
      simp only [List.length_cons]; omega

theorem loadText_length {b : List Nat} {rs : List Uhash.Rec} (h : loadText b = .ok (.ok rs)) : rs.length ≤ b.length := by
  unfold loadText loadTextWith at h
  split at h
  · cases h
  · rename_i first rest hl
    split at h
    · cases h
    · split at h
      · cases h
      · rename_i rs' hrs
        simp only [Outcome.ok.injEq, Except.ok.injEq] at h
        subst h
        have h1 := textLines_length _ _ hrs
        have h2 := linesAux_length b []
        unfold lines at hl
        rw [hl] at h2
        simp only [List.length_cons] at h2
        omega

/-- the importer yields at most one record per byte of the file (binary: one per 125 bytes) -/
theorem uhash_bounded : LegacyBounded := by
  intro b rs h
  unfold loadUhash at h
  cases hb : loadBin b with
  | ok r =>
    rw [hb] at h
    cases r with
    | ok rs' =>
      simp only [Outcome.ok.injEq, Except.ok.injEq] at h
      subst h
      exact loadBin_length hb
    | error e => exact loadText_length h
  | panic s => rw [hb] at h; cases h
  | outOfFuel => rw [hb] at h; cases h

/-! ### the repaired defects, as theorems about the pre-fix record decoder -/

/-- a 125-byte record: the four non-negative integers, then `tail` padded with zeros -/
def recOf (tail : List Nat) : List Nat :=
  let r := [1, 0, 0, 0, 2, 0, 0, 0, 3, 0, 0, 0, 4, 0, 0, 0] ++ tail
  r ++ List.replicate (125 - r.length) 0

def fileOf (tail : List Nat) : List Nat := binSig ++ [0, 0, 0, 0] ++ recOf tail

/-- F14: length byte 54 -> `buf[17 + 2*54 + 1]` = `buf[126]` of 125 -/
def f14File : List Nat := fileOf [54]
/-- F15: one syllable, phrase-bytes field 200 -> `buf[20..220]` -/
def f15File : List Nat := fileOf [1, 1, 0, 200, 65]
/-- F39: zero syllables, phrase "A" -> imported under the empty key -/
def f39File : List Nat := fileOf [0, 1, 65]

theorem uhash_orig_panics :
    loadUhashOrig f14File = .panic "uhash:index-out-of-bounds" ∧
    loadUhashOrig f15File = .panic "uhash:slice-out-of-range" ∧
    loadUhashOrig f39File = .ok (.ok [{ syls := [], phrase := [65], freq := 1, time := 2 }]) := by
  exact ⟨by decide +kernel, by decide +kernel, by decide +kernel⟩

/-- the repaired reader skips all three records -/
theorem uhash_fixed_skips :
    loadUhash f14File = .ok (.ok []) ∧ loadUhash f15File = .ok (.ok []) ∧ loadUhash f39File = .ok (.ok []) := by
  exact ⟨by decide +kernel, by decide +kernel, by decide +kernel⟩

/-! ## Trie lookup: total for every table; thread set bounded by `n^|q|` -/

/-- `lookup_no_panic` (and termination: the model is structurally recursive) -/
theorem lookup_total : LookupTotal := fun _ t pred first q => lookup_returns t pred first q

/-- `lookup_steps_bound`: after `k` query syllables there are at most `n^k` threads, each expanded
    by one bounded slice of at most `n` records -/
theorem lookup_threads_bound {P : Type} (t : Tbl P) (pred : Nat → Nat → Bool) (q : List Nat) (th : List Node)
    (h : threads t pred q = .ok (some th)) : th.length ≤ t.n ^ q.length := threads_length t pred q th h

/-- F16, allocation form: three records, all with child range `[0, 3)`; record 0 doubles as the leaf.
    Two query syllables give four threads (and four copies of the one phrase) from a three-record
    table (`witness-F16-blowup-cyclic` of the harness is the same shape with 16 records) -/
def blowupTbl : Tbl Nat :=
  { recs := [⟨0, 3, 0⟩, ⟨0, 3, 10268⟩, ⟨0, 3, 10268⟩], dataLen := 3, leaf := fun _ _ => [7] }

/-- the answer of a lookup is bounded by the caller's `first`, for every index table (repair of F11,
    `result.truncate(first)`: the blow-up of F16 below concerns the thread set, no longer the answer) -/
theorem lookup_answer_bounded {P : Type} (t : Tbl P) (pred : Nat → Nat → Bool) (first : Nat) (q : List Nat) (r : List P)
    (h : lookup t pred first q = .ok r) : r.length ≤ first :=
  lookup_length_le_first t pred first q r h

theorem blowup_lookup : lookup blowupTbl (fun n s => n == s) 100 [10268, 10268] = .ok [7, 7, 7, 7] := by decide

theorem lookup_threads_linear_refuted : ¬ LookupThreadsLinear := by
  intro h
  have h4 : threads blowupTbl (fun n s => n == s) [10268, 10268] =
      .ok (some [(1, ⟨0, 3, 10268⟩), (2, ⟨0, 3, 10268⟩), (1, ⟨0, 3, 10268⟩), (2, ⟨0, 3, 10268⟩)]) := by decide
  have := h Nat blowupTbl (fun n s => n == s) [10268, 10268] _ (by decide) h4
  exact absurd this (by decide)

theorem blowup_not_disjoint : ¬ DisjointRanges blowupTbl := by
  intro h
  have := h 1 2 (by decide) (by decide) (by decide) (Or.inr (by decide)) (Or.inr (by decide))
    (by unfold InRange; decide) (by unfold InRange; decide)
  revert this
  decide

/-! ## Trie enumeration -/

/-- `entries_no_panic`, partial: no zero syllable at a non-first child position (¬ F17) -/
theorem entries_no_panic_partial {P : Type} {t : Tbl P} (hz : NoZeroChild t) (fuel : Nat) (s : String) :
    entriesFuel t fuel ≠ .panic s := entriesFuel_no_panic hz fuel s

theorem entries_no_panic_refuted : ¬ EntriesNoPanic := by
  intro h
  exact h Unit zeroSecondTbl 100 _ zeroSecond_panics

/-- the second panic site of F17 (`debug_assert_ne!` while ascending) -/
theorem entries_no_panic_refuted_ascend : entriesFuel zeroSiblingTbl 100 = .panic "trie:debug-assert-zero-syllable" :=
  zeroSibling_panics

/-- `entries_terminates`, partial: children after their parent (¬ F16) and ¬ F17.  The termination
    measure is `phi` of `Proofs/WalkEntries.lean` (`tick_phi`: every loop iteration strictly
    decreases it; `phi_init`: it starts at `8·2^n + 2`) -/
theorem entries_terminates_partial {P : Type} {t : Tbl P} (hfw : Forward t) (hz : NoZeroChild t) :
    Returns (entriesFuel t (8 * 2 ^ t.n + 2)) := entriesFuel_returns hfw hz _ (Nat.le_refl _)

/-- the measure argument itself: one iteration of the closure's loop strictly decreases `phi` -/
theorem entries_measure_decreases {P : Type} {t : Tbl P} (hfw : Forward t) (hz : NoZeroChild t) {st st' : ESt P}
    (hi : EInv t st) (hnf : st.phase ≠ .finished) (h : tick t st = .ok st') : phi t st' < phi t st :=
  tick_phi hfw hz hi hnf h

theorem entries_terminates_refuted : ¬ EntriesTerminates := by
  intro h
  obtain ⟨fuel, r, hr⟩ := h Unit loopTbl
  rw [loop_never_finishes fuel] at hr
  cases hr

/-- the full statement is false on the unchanged tree … -/
theorem C12_refuted : ¬ C12_full := fun h => entries_terminates_refuted h.2.2.2.2.2.2

/-- … and this is what holds: everything about legacy files and lookups unconditionally, the
    enumeration exactly outside the two known finding classes.  (`LookupThreadsLinear` under
    `Forward ∧ DisjointRanges` is NOT proved here; the proved bound is `lookup_threads_bound`.) -/
theorem C12_partial :
    LegacyTotal ∧ LegacyBounded ∧ StartTotal ∧ LookupTotal ∧
    (∀ (P : Type) (t : Tbl P) (pred : Nat → Nat → Bool) (q : List Nat) (th : List Node),
      threads t pred q = .ok (some th) → th.length ≤ t.n ^ q.length) ∧
    (∀ (P : Type) (t : Tbl P), NoZeroChild t → ∀ fuel s, entriesFuel t fuel ≠ .panic s) ∧
    (∀ (P : Type) (t : Tbl P), Forward t → NoZeroChild t → Returns (entriesFuel t (8 * 2 ^ t.n + 2))) :=
  ⟨uhash_total, uhash_bounded, start_total, lookup_total,
   fun _ t pred q th h => lookup_threads_bound t pred q th h,
   fun _ _ hz fuel s => entries_no_panic_partial hz fuel s,
   fun _ _ hfw hz => entries_terminates_partial hfw hz⟩

/-- raw-bytes form: any index bytes, any data length, any phrase decoder -/
theorem walk_total_on_bytes {P : Type} (ib : List Nat) (dl : Nat) (leaf : Nat → Nat → List P)
    (pred : Nat → Nat → Bool) (first : Nat) (q : List Nat) :
    Returns (lookup { recs := parseIndex ib, dataLen := dl, leaf := leaf } pred first q) :=
  lookup_returns _ pred first q

/-! ## Beyond creation: a stored frequency next to `u32::MAX` (F40, repaired)

Not part of the traversal: committing a phrase whose STORED frequency was within reach of `u32::MAX`
overflowed the plain `phrase.freq() + delta` in `LaxUserFreqEstimate::estimate` (overflow-check profile: an
abort of the host at the first commit that learns the phrase; the context over such a file is created).
The repair (`fix:` commit, `phrase.freq().saturating_add(delta).min(MAX_USER_FREQ)`) is what C08's model of
`estimate.rs` now follows (the translator pins `saturating_add`), and for it: -/

/-- what `learn_phrase` calls on a commit — no timestamp, `orig_freq` = the phrase's own stored frequency, which is
    at most the maximum `mx` over its homophones — returns a value within `MAX_USER_FREQ` for EVERY stored
    frequency and every clock value: no panic, no wrap-around -/
theorem stored_freq_never_overflows (lifetime f mx : Nat) (h : f ≤ mx) :
    ∃ v, Learn.estimate lifetime f none f mx = .ok v ∧ v ≤ Gen.Est.maxUserFreq :=
  ⟨_, Learn.estimate_editor lifetime f mx h, Learn.stepFreq_le_max f mx⟩

/-- the same for the bare function with any timestamp in a rising band (`orig ≤ max`): the result is within the cap -/
theorem stored_freq_rising_le_cap (div plus inc f o m : Nat) (h : o ≤ m) :
    ∃ v, Learn.risingBand div plus inc f o m = .ok v ∧ v ≤ Gen.Est.maxUserFreq :=
  ⟨_, Learn.risingBand_eq div plus inc f o m h, Nat.min_le_right _ _⟩

/-- the former witness (stored frequency `u32::MAX`; was `.panic "estimate: freq + delta"`): clamped to the cap -/
theorem stored_freq_overflow_witness : Learn.estimate 5 4294967295 none 0 0 = .ok 99999999 := by
  decide +kernel

/-! ## Non-vacuity -/

theorem good_forward : Forward goodTbl := by
  intro i hi _ hr
  have hn : goodTbl.n = 7 := rfl
  rw [hn] at hi
  unfold InRange at hr
  have h : ∀ j, j < 7 → 0 < (goodTbl.get j).b ∧ (goodTbl.get j).a + (goodTbl.get j).b ≤ 7 → j < (goodTbl.get j).a := by decide
  exact h i hi (hn ▸ hr)

theorem good_noZeroChild : NoZeroChild goodTbl := by
  intro i hi hnode hr j h1 h2
  have hn : goodTbl.n = 7 := rfl
  rw [hn] at hi
  unfold InRange at hr
  rw [hn] at hr
  have hj : j < 7 := by omega
  have h : ((List.range 7).all fun i => (List.range 7).all fun j =>
      !(decide ((goodTbl.get i).a < j) && decide (j < (goodTbl.get i).a + (goodTbl.get i).b)
        && decide ((goodTbl.get i).a + (goodTbl.get i).b ≤ 7)) || decide ((goodTbl.get j).s ≠ 0)) = true := by decide
  have := List.all_eq_true.mp (List.all_eq_true.mp h i (List.mem_range.mpr hi)) j (List.mem_range.mpr hj)
  simp only [Bool.or_eq_true, Bool.not_eq_true', Bool.and_eq_false_iff, decide_eq_false_iff_not, decide_eq_true_eq] at this
  rcases this with ((h | h) | h) | h
  · exact absurd h1 h
  · exact absurd h2 h
  · exact absurd hr.2 h
  · exact h

/-- the hypotheses of the partial theorems hold for the index of a real three-entry file, and the
    walk yields its three leaves -/
example : Forward goodTbl ∧ NoZeroChild goodTbl ∧
    entriesFuel goodTbl 100 = .ok [([6664], [0]), ([8712, 6664], [20]), ([8712], [10])] :=
  ⟨good_forward, good_noZeroChild, good_entries⟩

/-- a valid binary legacy file with one live record is imported (the total theorems are not about
    a reader that rejects everything) -/
example : loadUhash (fileOf [1, 1, 0, 1, 65]) = .ok (.ok [{ syls := [1], phrase := [65], freq := 1, time := 2 }]) := by
  decide +kernel

example : loadUhash [52, 50, 10, 80, 32, 49, 32, 49, 32, 50, 32, 51, 32, 52, 10] =
    .ok (.ok [{ syls := [1], phrase := [80], freq := 1, time := 2 }]) := by decide +kernel

end Chewing.C12
