import Chewing.Proofs.SysLoader
import Chewing.Proofs.C01Shared
import Chewing.Proofs.ProcessState
/-!
# C12 (creation clause) and C17 (locality of creation) over the model of context creation

"Creating an input context over such files likewise either fails cleanly or succeeds" (C12, last sentence) and
"contexts are independent … freshly created" (C17) rest on `chewing_new2`, the `SystemDictionaryLoader`, `src/path.rs`
and the two text parsers — `Model/SysLoader.lean`.  Everything below is for EVERY file system (`FS = Path → Node`),
EVERY environment, EVERY `Trie::open` (a total function `bytes → Option D`) and every path argument, the three kinds of
`const char *` included (NULL, a UTF-8 string, a C string that is not UTF-8).

**C12.**
* `newContext_no_panic` — `chewing_new2` returns (no panic, no fuel) provided the embedded `mini.dat` opens
  (`builtin_needed`: necessary) and the user-side loader returns (`userFileStd_total`: true of `Model/Loader.lean`'s
  `load`, C12 `start_total`); `newContext_std_no_panic` = both plugged in.  No class of path arguments is excluded: the
  model follows the repaired code; `newContextOrig_panics_notUtf8` / `loadUserOrig_panics_empty_path` are the witnesses
  of the defects repaired by 8bbf0a3 / 37fe7c3.
* `newContext_null_iff` — NULL exactly when a path argument is not UTF-8 or the user dictionary cannot be loaded;
  `loadUser_none_iff` spells the latter out.
* `sys_dicts_of_created`, `corrupt_system_pair_falls_back`, `loadSys_error_iff` — a missing / corrupt `word.dat` +
  `tsi.dat` pair falls back to the built-in dictionary (and the drop-ins are still loaded).
* `drop_in_corrupt_skipped`, `drop_in_order`, `mem_dropInNames`, `drop_in_loaded_sublist`, `drop_in_sort_canonical` — a drop-in that does not open is
  skipped, the others keep their order; order = search-path order, then file-name order.
* `search_path_split` — `split(':')` keeps empty segments; `find_path_first_complete` / `find_path_none_iff`.
* parsers: total by type (`parseAbbrev`, `parseSymbols : List Nat → Option _`); `parse_fails_iff_not_utf8`;
  `parseSymbols_wf` — every table `symbols.dat` can produce satisfies C01's `SymWF` (the hypothesis `symOK` of C01's
  invariant is discharged at creation); `created_symbols_wf` — … of every created context; `symbols_orig_blank_line_not_wf` / `abbrev_orig_panics` = the
  repaired defects;
  line-level print → parse round trips.

**C17.** `sysHalf_local` / `newContext_local`: the result depends on the file system only at the paths built from ITS
syspath / userpath (`SysReach`, `UserReach`, plus the legacy-directory probe for NULL arguments);
`write_outside_invisible`: changing any other path changes nothing; `disjoint_creations_independent`; the link to
`Proofs/ProcessState.lean` (`creation_args_local` of `Props/C17.lean`): `createArgs` computes the `CreateArgs` of the
process model from the file system, `process_creation_local` = a process history whose creations read file systems that
agree on each context's own reach produces the same events.
-/
namespace Chewing.C12NewCtx
open Chewing Chewing.SysLoader Chewing.Gen.SysLoader

variable {D U : Type}

/-! ## the translator's pins -/

theorem file_names :
    (wordFileS, tsiFileS, abbrevFileS, symbolsFileS, dictFolderS, dropInExtS) =
      ("word.dat", "tsi.dat", "swkb.dat", "symbols.dat", "dictionary.d", "dat") ∧
    (userFileS, uhashFileS, sqliteFileS, memFileS) = ("chewing.dat", "uhash.dat", "chewing.sqlite3", ":memory:") ∧
    searchPathSep = ':' ∧ defaultUnixSysPathS = "/usr/share/libchewing" ∧
    wordFile = wordFileS.toList ∧ tsiFile = tsiFileS.toList ∧ abbrevFile = abbrevFileS.toList ∧
    symbolsFile = symbolsFileS.toList ∧ dictFolder = dictFolderS.toList ∧ dropInExt = dropInExtS.toList ∧
    userFile = userFileS.toList ∧ uhashFile = uhashFileS.toList ∧ sqliteFile = sqliteFileS.toList ∧
    memFile = memFileS.toList ∧ defaultUnixSysPath = defaultUnixSysPathS.toList := by decide

/-- the `unwrap()` / `expect()` sites of `chewing_new2` are exactly the two `.panic` values of `sysHalf` -/
theorem new2_panic_sites :
    new2PanicSites = ["builtin.unwrap()", "SymbolSelector::new(b\"\".as_slice()).unwrap()"] := rfl

/-- the loaders run in the order `newContext` composes them (system, drop-ins, abbreviations, symbols, user) -/
theorem new2_load_order :
    new2LoadOrder = ["load", "load_drop_in", "load_abbrev", "load_symbol_selector", "user", "user"] := rfl

/-- selection keys `1234567890`, buffers 256/256/16/256/256/32 bytes -/
theorem initial_context_constants :
    initialSelKeys = [49, 50, 51, 52, 53, 54, 55, 56, 57, 48] ∧
    contextBuffers.map (·.2) = [256, 256, 16, 256, 256, 32] := ⟨rfl, rfl⟩

/-! ## search path -/

/-- `split(':')`: joining the segments with `:` gives the search path back, there is one segment more than `:`
    characters (EMPTY segments are kept), no segment contains a `:` -/
theorem search_path_split (sp : Path) :
    joinSep searchPathSep (segments sp) = sp ∧ (segments sp).length = sp.count searchPathSep + 1 ∧
      ∀ seg ∈ segments sp, searchPathSep ∉ seg :=
  ⟨joinSep_splitSep _ sp, splitSep_length _ sp, splitSep_no_sep _ sp⟩

/-- `find_path_by_files` answers the FIRST segment under which ALL files exist -/
theorem find_path_first_complete {fs : FS} {sp : Path} {files : List Path} {d : Path}
    (h : findPathByFiles fs sp files = some d) :
    ∃ before after, segments sp = before ++ d :: after ∧
      (∀ f ∈ files, (fs (joinPath d f)).present = true) ∧
      ∀ seg ∈ before, ∃ f ∈ files, (fs (joinPath seg f)).present = false :=
  findPathByFiles_some h

theorem find_path_none_iff {fs : FS} {sp : Path} {files : List Path} :
    findPathByFiles fs sp files = none ↔ ∀ seg ∈ segments sp, ∃ f ∈ files, (fs (joinPath seg f)).present = false :=
  findPathByFiles_none

/-! ## drop-ins -/

/-- exactly the regular files `*.dat` of `<seg>/dictionary.d` -/
theorem mem_dropInNames {fs : FS} {seg n : Path} :
    n ∈ dropInNames fs seg ↔
      ∃ names, fs (joinPath seg dictFolder) = .dir names ∧ n ∈ names ∧
        (fs (joinPath (joinPath seg dictFolder) n)).isFile = true ∧ extension n = some dropInExt := by
  unfold dropInNames
  cases h : fs (joinPath seg dictFolder) with
  | dir names =>
    simp only [mem_sortNames, List.mem_filter, Bool.and_eq_true, beq_iff_eq]
    constructor
    · rintro ⟨h1, h2, h3⟩; exact ⟨names, rfl, h1, h2, h3⟩
    · rintro ⟨names', he, h1, h2, h3⟩; cases he; exact ⟨h1, h2, h3⟩
  | absent => simp
  | file _ _ => simp

/-- **drop-in order = search-path order, then file-name order**: the list is the concatenation over the segments in
    order (duplicate and empty segments included), each segment's part sorted by name -/
theorem drop_in_order (fs : FS) (sp : Path) :
    findDropIn fs sp = (segments sp).flatMap (fun seg => (dropInNames fs seg).map (joinPath (joinPath seg dictFolder))) ∧
      ∀ seg, Sorted (dropInNames fs seg) := by
  refine ⟨rfl, fun seg => ?_⟩
  unfold dropInNames
  split
  · exact sortNames_sorted _
  · exact List.Pairwise.nil

/-- the sort loses and invents nothing -/
theorem drop_in_names_perm {fs : FS} {seg : Path} {names : List Path} (h : fs (joinPath seg dictFolder) = .dir names) :
    (dropInNames fs seg).Perm
      (names.filter (fun n => (fs (joinPath (joinPath seg dictFolder) n)).isFile && extension n == some dropInExt)) := by
  unfold dropInNames; rw [h]; exact sortNames_perm _

/-- the model's insertion sort stands for ANY sorting algorithm (`slice::sort` is a merge sort): a list that is sorted and
    holds exactly the regular `*.dat` files of the directory IS `dropInNames` -/
theorem drop_in_sort_canonical {fs : FS} {seg : Path} {names l : List Path} (h : fs (joinPath seg dictFolder) = .dir names)
    (hs : Sorted l)
    (hp : l.Perm (names.filter (fun n => (fs (joinPath (joinPath seg dictFolder) n)).isFile && extension n == some dropInExt))) :
    l = dropInNames fs seg :=
  sorted_perm_eq hs ((drop_in_order fs [] ).2 seg) (hp.trans (drop_in_names_perm h).symm)

/-- **a corrupt drop-in is skipped and the others keep their order** -/
theorem drop_in_corrupt_skipped (op : List Nat → Option D) (fs : FS) (sp : Path) (l1 l2 : List Path) (p : Path)
    (hl : findDropIn fs sp = l1 ++ p :: l2) (hp : openFile op fs p = none) :
    loadDropIn op fs sp = l1.filterMap (openFile op fs) ++ l2.filterMap (openFile op fs) := by
  unfold loadDropIn
  rw [hl, List.filterMap_append, List.filterMap_cons, hp]

/-- what is loaded is, in order, what opens -/
theorem drop_in_loaded_sublist (op : List Nat → Option D) (fs : FS) (sp : Path) :
    ((loadDropIn op fs sp).map some).Sublist ((findDropIn fs sp).map (openFile op fs)) := by
  unfold loadDropIn
  induction findDropIn fs sp with
  | nil => simp
  | cons p ps ih =>
    simp only [List.filterMap_cons, List.map_cons]
    cases h : openFile op fs p with
    | none => exact ih.cons _
    | some d => simpa using ih.cons₂ (some d)

/-- a drop-in that opens is loaded -/
theorem drop_in_valid_loaded (op : List Nat → Option D) (fs : FS) (sp : Path) (p : Path) (d : D)
    (hp : p ∈ findDropIn fs sp) (ho : openFile op fs p = some d) : d ∈ loadDropIn op fs sp := by
  unfold loadDropIn
  exact List.mem_filterMap.2 ⟨p, hp, ho⟩

/-! ## system dictionaries -/

theorem loadSys_error_iff (op : List Nat → Option D) (fs : FS) (sp : Path) :
    (∃ e, loadSys op fs sp = .error e) ↔
      findPathByFiles fs sp [wordFile, tsiFile] = none ∨
      ∃ d, findPathByFiles fs sp [wordFile, tsiFile] = some d ∧
        (openFile op fs (joinPath d wordFile) = none ∨ openFile op fs (joinPath d tsiFile) = none) := by
  unfold loadSys
  cases hf : findPathByFiles fs sp [wordFile, tsiFile] with
  | none => simp
  | some d =>
    cases hw : openFile op fs (joinPath d wordFile) with
    | none => simp [hw]
    | some w =>
      cases ht : openFile op fs (joinPath d tsiFile) with
      | none => simp [hw, ht]
      | some t => simp [hw, ht]

theorem loadSys_ok_iff (op : List Nat → Option D) (fs : FS) (sp : Path) (ds : List D) :
    loadSys op fs sp = .ok ds ↔
      ∃ d w t, findPathByFiles fs sp [wordFile, tsiFile] = some d ∧ openFile op fs (joinPath d wordFile) = some w ∧
        openFile op fs (joinPath d tsiFile) = some t ∧ ds = [w, t] := by
  unfold loadSys
  cases hf : findPathByFiles fs sp [wordFile, tsiFile] with
  | none => simp
  | some d =>
    cases hw : openFile op fs (joinPath d wordFile) with
    | none => simp [hw]
    | some w =>
      cases ht : openFile op fs (joinPath d tsiFile) with
      | none => simp [hw, ht]
      | some t =>
        simp only [hw, ht]
        constructor
        · intro h; injection h with h; subst h; exact ⟨d, w, t, rfl, hw, ht, rfl⟩
        · rintro ⟨d', w', t', hd, hw', ht', rfl⟩
          cases hd; rw [hw] at hw'; rw [ht] at ht'; cases hw'; cases ht'; rfl

/-! ## the parsers -/

theorem allSome_isSome_iff {α β : Type} (f : α → Option β) : ∀ l : List α, (allSome f l).isSome ↔ ∀ x ∈ l, (f x).isSome
  | [] => by simp [allSome]
  | x :: xs => by
    have ih := allSome_isSome_iff f xs
    unfold allSome
    cases h : f x with
    | none => simp [h]
    | some y => simp [h, ih]

/-- both parsers fail (an ordinary `io::Error`, `InvalidData`) exactly when some line is not UTF-8 — nothing else can go
    wrong on ANY byte string -/
theorem parse_fails_iff_not_utf8 (b : List Nat) :
    ((parseAbbrev b).isSome ↔ ∀ l ∈ rawLines b, (CStr.utf8Decode l).isSome) ∧
    ((parseSymbols b).isSome ↔ ∀ l ∈ rawLines b, (CStr.utf8Decode l).isSome) := by
  unfold parseAbbrev parseSymbols textLines
  simp [Option.isSome_map, allSome_isSome_iff]

/-- the empty tables `chewing_new2` falls back to -/
theorem empty_tables : parseAbbrev [] = some [] ∧ parseSymbols [] = some {} := ⟨rfl, rfl⟩

/-- invariant of the `symbols.dat` loop -/
def SymAccWF (a : SymAcc) : Prop :=
  (∀ name, (name, none) ∈ a.category → name ≠ []) ∧ ∀ name i, (name, some i) ∈ a.category → i < a.table.length

theorem symbolLine_wf {a : SymAcc} (h : SymAccWF a) (l : Text) : SymAccWF (symbolLine a l) := by
  unfold symbolLine
  split
  · exact h
  · next hl =>
    split
    · next c t _ =>
      refine ⟨fun name hm => ?_, fun name i hm => ?_⟩
      · simp only [List.mem_append, List.mem_singleton, Prod.mk.injEq] at hm
        rcases hm with hm | ⟨_, hm⟩
        · exact h.1 name hm
        · cases hm
      · simp only [List.mem_append, List.mem_singleton, Prod.mk.injEq, Option.some.injEq] at hm
        simp only [List.length_append, List.length_singleton]
        rcases hm with hm | ⟨_, hm⟩
        · have := h.2 name i hm; omega
        · omega
    · refine ⟨fun name hm => ?_, fun name i hm => ?_⟩
      · simp only [List.mem_append, List.mem_singleton, Prod.mk.injEq] at hm
        rcases hm with hm | ⟨hm, _⟩
        · exact h.1 name hm
        · rw [hm]; exact hl
      · simp only [List.mem_append, List.mem_singleton, Prod.mk.injEq] at hm
        rcases hm with hm | ⟨_, hm⟩
        · exact h.2 name i hm
        · cases hm

theorem foldl_symbolLine_wf : ∀ (ls : List Text) (a : SymAcc), SymAccWF a → SymAccWF (ls.foldl symbolLine a)
  | [], _, h => h
  | l :: ls, a, h => foldl_symbolLine_wf ls _ (symbolLine_wf h l)

/-- **every table `SymbolSelector::new` can produce is well formed in the sense of C01** (`C01.SymWF`: a leaf category
    has a name, a table category points to an existing table even after the `as u8` cast, no category is open): the
    hypothesis `symOK` of C01's invariant holds at creation for EVERY `symbols.dat` -/
theorem parseSymbols_wf (b : List Nat) (y : SymSel) (h : parseSymbols b = some y) : C01.SymWF y := by
  unfold parseSymbols at h
  cases hl : textLines b with
  | none => simp [hl] at h
  | some ls =>
    simp only [hl, Option.map_some, Option.some.injEq] at h
    subst h
    have h0 : SymAccWF {} := ⟨fun _ hm => absurd hm List.not_mem_nil, fun _ _ hm => absurd hm List.not_mem_nil⟩
    have hw := foldl_symbolLine_wf ls {} h0
    refine ⟨fun c hc => (by cases hc), hw.1, fun name i hm => ?_⟩
    have := hw.2 name i hm
    exact Nat.lt_of_le_of_lt (Nat.mod_le _ _) this

/-- before fix 0301be3: a blank line became a leaf category without a name (choosing it ran `chars().next().unwrap()` on
    the empty string — `SymWF.leaf` is exactly what C01's `symSelect_ok` needs) -/
theorem symbols_orig_blank_line_not_wf : ¬ C01.SymWF ((symbolLineOrig {} []).toSel) := by
  intro h
  exact h.leaf [] (by simp [symbolLineOrig, splitOnce, SymAcc.toSel]) rfl

/-- before fix 90b92ad: a `swkb.dat` line without a space, or starting with one, panicked (`nospace`, ` x`) -/
theorem abbrev_orig_panics :
    abbrevLineOrig [] [110, 111, 115, 112, 97, 99, 101] = .panic "each line should have at last one separator" ∧
    abbrevLineOrig [] [32, 120] = .panic "abbr.chars().nth(0).unwrap()" ∧
    abbrevLine [] [110, 111, 115, 112, 97, 99, 101] = [] ∧ abbrevLine [] [32, 120] = [] := by decide

theorem splitOnce_append (sep : Nat) : ∀ (c t : Text), sep ∉ c → splitOnce sep (c ++ sep :: t) = some (c, t)
  | [], t, _ => by simp [splitOnce]
  | x :: xs, t, h => by
    have hx : x ≠ sep := fun e => h (by simp [e])
    have hxs : sep ∉ xs := fun e => h (by simp [e])
    simp [splitOnce, hx, splitOnce_append sep xs t hxs]

/-- print → parse, one `swkb.dat` line: `<c…> <expansion>` binds the first character of the abbreviation -/
theorem abbrev_line_roundtrip (t : AbbrevTable) (c : Nat) (rest e : Text) (hc : abbrevSep ∉ c :: rest) :
    abbrevLine t ((c :: rest) ++ abbrevSep :: e) = (c, e) :: t := by
  unfold abbrevLine
  rw [splitOnce_append abbrevSep (c :: rest) e hc]

/-- print → parse, one `symbols.dat` line of either kind -/
theorem symbol_line_roundtrip (a : SymAcc) (c t : Text) (hc : symbolSep ∉ c) :
    symbolLine a (c ++ symbolSep :: t) = { category := a.category ++ [(c, some a.table.length)], table := a.table ++ [t] } ∧
    (c ≠ [] → symbolLine a c = { a with category := a.category ++ [(c, none)] }) := by
  constructor
  · unfold symbolLine
    rw [splitOnce_append symbolSep c t hc]
    simp
  · intro hne
    unfold symbolLine
    have : splitOnce symbolSep c = none := by
      induction c with
      | nil => rfl
      | cons x xs ih =>
        have hx : x ≠ symbolSep := fun e => hc (by simp [e])
        simp [splitOnce, hx]
        by_cases hxs : xs = []
        · subst hxs; rfl
        · exact ih (fun e => hc (by simp [e])) hxs
    simp [hne, this]

/-- a later binding of the same character wins (`BTreeMap::insert`) -/
theorem abbrev_last_wins (t : AbbrevTable) (c : Nat) (e : Text) : AbbrevTable.find ((c, e) :: t) c = some e := by
  simp [AbbrevTable.find]

/-! ## `chewing_new2` -/

/-- the user-side loader returns -/
def UserTotal (us : UserSide U) : Prop := ∀ fs p, Returns (us.file fs p)

theorem loadUser_returns {us : UserSide U} (hu : UserTotal us) (fs : FS) (env : SysLoader.Env) (arg : Option Path) :
    Returns (loadUser us fs env arg) := by
  unfold loadUser
  split
  · exact ⟨_, rfl⟩
  · split
    · exact ⟨_, rfl⟩
    · split
      · exact hu _ _
      · split
        · exact ⟨_, rfl⟩
        · exact hu _ _

theorem sysHalf_returns (P : Params D U) (hb : P.builtin.isSome) (fs : FS) (sp : Path) : Returns (sysHalf P fs sp) := by
  obtain ⟨b, hb⟩ := Option.isSome_iff_exists.1 hb
  unfold sysHalf
  simp only [hb, show parseSymbols [] = some {} from rfl]
  cases loadSys P.openTrie fs sp <;> cases loadSymbols fs sp <;> exact ⟨_, rfl⟩

/-- **`chewing_new2` never panics** — for every file system, environment, `Trie::open` and all three kinds of path
    argument (a C string that is not UTF-8 included: it yields NULL since fix 8bbf0a3) -/
theorem newContext_no_panic (P : Params D U) (hb : P.builtin.isSome) (hu : UserTotal P.user) (fs : FS)
    (env : SysLoader.Env) (syspath userpath : PathArg) : Returns (newContext P fs env syspath userpath) := by
  unfold newContext
  cases syspath with
  | notUtf8 => exact ⟨_, rfl⟩
  | null =>
    obtain ⟨⟨d, a, s⟩, hs⟩ := sysHalf_returns P hb fs (sysPathFromEnv fs env)
    simp only [hs]
    cases userpath with
    | notUtf8 => exact ⟨_, rfl⟩
    | null =>
      obtain ⟨r, hr⟩ := loadUser_returns hu fs env none
      simp only [hr]; cases r <;> exact ⟨_, rfl⟩
    | str p =>
      obtain ⟨r, hr⟩ := loadUser_returns hu fs env (some p)
      simp only [hr]; cases r <;> exact ⟨_, rfl⟩
  | str q =>
    obtain ⟨⟨d, a, s⟩, hs⟩ := sysHalf_returns P hb fs q
    simp only [hs]
    cases userpath with
    | notUtf8 => exact ⟨_, rfl⟩
    | null =>
      obtain ⟨r, hr⟩ := loadUser_returns hu fs env none
      simp only [hr]; cases r <;> exact ⟨_, rfl⟩
    | str p =>
      obtain ⟨r, hr⟩ := loadUser_returns hu fs env (some p)
      simp only [hr]; cases r <;> exact ⟨_, rfl⟩

/-- the search path a creation uses -/
def searchPathOf (fs : FS) (env : SysLoader.Env) : PathArg → Path
  | .str p => p
  | _ => sysPathFromEnv fs env

def userArgOf : PathArg → Option Path
  | .str p => some p
  | _ => none

/-- **NULL exactly when a path argument is not UTF-8 or the user dictionary cannot be loaded** -/
theorem newContext_null_iff (P : Params D U) (hb : P.builtin.isSome) (fs : FS) (env : SysLoader.Env)
    (syspath userpath : PathArg) :
    newContext P fs env syspath userpath = .ok none ↔
      syspath = .notUtf8 ∨ userpath = .notUtf8 ∨ loadUser P.user fs env (userArgOf userpath) = .ok none := by
  unfold newContext
  cases syspath with
  | notUtf8 => simp
  | null =>
    obtain ⟨⟨d, a, s⟩, hs⟩ := sysHalf_returns P hb fs (sysPathFromEnv fs env)
    simp only [hs]
    cases userpath with
    | notUtf8 => simp
    | null =>
      simp only [userArgOf]
      cases hr : loadUser P.user fs env none with
      | ok r => cases r <;> simp
      | panic s => simp
      | outOfFuel => simp
    | str p =>
      simp only [userArgOf]
      cases hr : loadUser P.user fs env (some p) with
      | ok r => cases r <;> simp
      | panic s => simp
      | outOfFuel => simp
  | str q =>
    obtain ⟨⟨d, a, s⟩, hs⟩ := sysHalf_returns P hb fs q
    simp only [hs]
    cases userpath with
    | notUtf8 => simp
    | null =>
      simp only [userArgOf]
      cases hr : loadUser P.user fs env none with
      | ok r => cases r <;> simp
      | panic s => simp
      | outOfFuel => simp
    | str p =>
      simp only [userArgOf]
      cases hr : loadUser P.user fs env (some p) with
      | ok r => cases r <;> simp
      | panic s => simp
      | outOfFuel => simp

/-- when the user dictionary cannot be loaded: no path at all (NULL argument and no home directory), an existing path
    or a creatable one that the file-level loader refuses, or a path without a file name -/
theorem loadUser_none_iff (us : UserSide U) (fs : FS) (env : SysLoader.Env) (arg : Option Path) :
    loadUser us fs env arg = .ok none ↔
      (arg = none ∧ userphrasePath fs env = none) ∨
      ∃ p, (arg = some p ∨ (arg = none ∧ userphrasePath fs env = some p)) ∧ isMem p = false ∧
        (((fs p).present = true ∨ parentNone p = false) ∧ us.file fs p = .ok none ∨
         (fs p).present = false ∧ parentNone p = true) := by
  unfold loadUser
  cases arg with
  | none =>
    cases hp : userphrasePath fs env with
    | none => simp
    | some p =>
      simp only [reduceCtorEq, false_and, false_or, Option.some.injEq, true_and, exists_eq_left']
      by_cases hm : isMem p = true
      · simp [hm]
      · by_cases he : (fs p).present = true
        · simp [hm, he]
        · by_cases hn : parentNone p = true
          · simp [hm, he, hn]
          · simp [hm, he, hn]
  | some p =>
    simp only [reduceCtorEq, false_and, false_or, Option.some.injEq, or_false, exists_eq_left']
    by_cases hm : isMem p = true
    · simp [hm]
    · by_cases he : (fs p).present = true
      · simp [hm, he]
      · by_cases hn : parentNone p = true
        · simp [hm, he, hn]
        · simp [hm, he, hn]

/-- the dictionaries of a created context: the pair found on the search path, or the built-in one; then the drop-ins -/
theorem sys_dicts_of_created (P : Params D U) (b : D) (hb : P.builtin = some b) (fs : FS) (env : SysLoader.Env)
    (syspath userpath : PathArg) (c : NewCtx D U) (h : newContext P fs env syspath userpath = .ok (some c)) :
    c.sysDicts =
      (match loadSys P.openTrie fs (searchPathOf fs env syspath) with
        | .ok ds => ds
        | .error _ => [b]) ++ loadDropIn P.openTrie fs (searchPathOf fs env syspath) ∧
    c.abbr = (match loadAbbrev fs (searchPathOf fs env syspath) with
        | .ok a => a
        | .error _ => []) ∧
    c.symbols = (match loadSymbols fs (searchPathOf fs env syspath) with
        | .ok s => s
        | .error _ => {}) ∧
    c.selKeys = initialSelKeys ∧ c.bufferSizes = contextBuffers.map (·.2) := by
  have key : ∀ sp, sysHalf P fs sp = .ok
      ((match loadSys P.openTrie fs sp with
        | .ok ds => ds
        | .error _ => [b]) ++ loadDropIn P.openTrie fs sp,
       (match loadAbbrev fs sp with
        | .ok a => a
        | .error _ => []),
       (match loadSymbols fs sp with
        | .ok s => s
        | .error _ => {})) := by
    intro sp
    unfold sysHalf
    simp only [hb, show parseSymbols [] = some {} from rfl]
    cases loadSys P.openTrie fs sp <;> cases loadSymbols fs sp <;> rfl
  unfold newContext at h
  cases syspath with
  | notUtf8 => simp at h
  | null =>
    simp only [key, searchPathOf] at h ⊢
    cases userpath with
    | notUtf8 => simp at h
    | null =>
      cases hr : loadUser P.user fs env none with
      | ok r => cases r <;> simp [hr] at h; subst h; exact ⟨rfl, rfl, rfl, rfl, rfl⟩
      | panic s => simp [hr] at h
      | outOfFuel => simp [hr] at h
    | str p =>
      cases hr : loadUser P.user fs env (some p) with
      | ok r => cases r <;> simp [hr] at h; subst h; exact ⟨rfl, rfl, rfl, rfl, rfl⟩
      | panic s => simp [hr] at h
      | outOfFuel => simp [hr] at h
  | str q =>
    simp only [key, searchPathOf] at h ⊢
    cases userpath with
    | notUtf8 => simp at h
    | null =>
      cases hr : loadUser P.user fs env none with
      | ok r => cases r <;> simp [hr] at h; subst h; exact ⟨rfl, rfl, rfl, rfl, rfl⟩
      | panic s => simp [hr] at h
      | outOfFuel => simp [hr] at h
    | str p =>
      cases hr : loadUser P.user fs env (some p) with
      | ok r => cases r <;> simp [hr] at h; subst h; exact ⟨rfl, rfl, rfl, rfl, rfl⟩
      | panic s => simp [hr] at h
      | outOfFuel => simp [hr] at h

theorem loadSymbols_wf {fs : FS} {sp : Path} {y : SymSel} (h : loadSymbols fs sp = .ok y) : C01.SymWF y := by
  unfold loadSymbols loadTable at h
  split at h
  · cases h
  · split at h
    · split at h
      · next hp => cases h; exact parseSymbols_wf _ _ hp
      · cases h
    · cases h

/-- **the symbol table of EVERY created context is well formed** (`C01.SymWF`, the clause `symOK` of C01's invariant):
    whatever `symbols.dat` holds — or if it is missing, unreadable, not UTF-8 — no later choice in the symbol menu can hit
    the `unwrap()` / the out-of-range index of `SymbolSelector::select` -/
theorem created_symbols_wf (P : Params D U) (b : D) (hb : P.builtin = some b) (fs : FS) (env : SysLoader.Env)
    (syspath userpath : PathArg) (c : NewCtx D U) (h : newContext P fs env syspath userpath = .ok (some c)) :
    C01.SymWF c.symbols := by
  have := (sys_dicts_of_created P b hb fs env syspath userpath c h).2.2.1
  rw [this]
  cases hl : loadSymbols fs (searchPathOf fs env syspath) with
  | ok y => exact loadSymbols_wf hl
  | error e => exact parseSymbols_wf [] _ rfl

/-- **a corrupt or missing system dictionary pair falls back to the built-in dictionary** (the drop-ins are still loaded
    behind it) -/
theorem corrupt_system_pair_falls_back (P : Params D U) (b : D) (hb : P.builtin = some b) (fs : FS) (env : SysLoader.Env)
    (syspath userpath : PathArg) (c : NewCtx D U) (h : newContext P fs env syspath userpath = .ok (some c))
    (hbad : findPathByFiles fs (searchPathOf fs env syspath) [wordFile, tsiFile] = none ∨
      ∃ d, findPathByFiles fs (searchPathOf fs env syspath) [wordFile, tsiFile] = some d ∧
        (openFile P.openTrie fs (joinPath d wordFile) = none ∨ openFile P.openTrie fs (joinPath d tsiFile) = none)) :
    c.sysDicts = b :: loadDropIn P.openTrie fs (searchPathOf fs env syspath) := by
  obtain ⟨e, he⟩ := (loadSys_error_iff P.openTrie fs _).2 hbad
  have := (sys_dicts_of_created P b hb fs env syspath userpath c h).1
  rw [he] at this
  simpa using this

/-- the hypothesis on the embedded dictionary is necessary: were `mini.dat` rejected, every creation without a system
    dictionary pair would abort -/
theorem builtin_needed (P : Params D U) (hb : P.builtin = none) (fs : FS) (env : SysLoader.Env) (q : Path)
    (userpath : PathArg) (e : LoadErr) (he : loadSys P.openTrie fs q = .error e) :
    newContext P fs env (.str q) userpath = .panic "builtin.unwrap()" := by
  unfold newContext sysHalf
  simp [he, hb]

/-- before fix 8bbf0a3: a syspath or userpath that is not UTF-8 (a legal unix path) aborted the host -/
theorem newContextOrig_panics_notUtf8 (P : Params D U) (fs : FS) (env : SysLoader.Env) (other : PathArg) :
    newContextOrig P fs env .notUtf8 other = .panic "invalid syspath string" ∧
    (P.builtin.isSome → ∀ q, newContextOrig P fs env (.str q) .notUtf8 = .panic "invalid syspath string") := by
  refine ⟨by cases other <;> rfl, fun hb q => ?_⟩
  unfold newContextOrig
  obtain ⟨r, hs⟩ := sysHalf_returns P hb fs q
  simp only [hs]

/-- before fix 37fe7c3: the empty user path aborted the host (`parent().expect("path should contain a filename")`) -/
theorem loadUserOrig_panics_empty_path (us : UserSide U) (fs : FS) (env : SysLoader.Env) (h : fs [] = .absent) :
    loadUserOrig us fs env (some []) = .panic "path should contain a filename" ∧
    loadUser us fs env (some []) = .ok none := by
  unfold loadUserOrig loadUser
  simp [isMem, components, splitSep, h, Node.present, parentNone]

/-! ### the standard user side -/

theorem userFileStd_total (feat : Bool) (openDat : List Nat → Option Loader.UMap)
    (openLegacySql : List Nat → Option (List Uhash.Rec)) (sqlite : FS → Path → Option Loader.UMap) (fs : FS) (p : Path) :
    Returns (userFileStd feat openDat openLegacySql sqlite fs p) := by
  unfold userFileStd
  split
  · exact ⟨_, rfl⟩
  · split
    · exact ⟨_, rfl⟩
    · split
      · obtain ⟨l, hl⟩ := Loader.load_returns feat (userDirOf openDat openLegacySql fs p)
        rw [hl]; exact ⟨_, rfl⟩
      · exact ⟨_, rfl⟩

/-- the parameters with the standard user side -/
def stdParams (openTrie : List Nat → Option D) (b : D) (mem : Loader.UMap) (feat : Bool)
    (openDat : List Nat → Option Loader.UMap) (openLegacySql : List Nat → Option (List Uhash.Rec))
    (sqlite : FS → Path → Option Loader.UMap) : Params D Loader.UMap where
  openTrie := openTrie
  builtin := some b
  user := ⟨mem, userFileStd feat openDat openLegacySql sqlite⟩

/-- `chewing_new2` with the user-dictionary loader of `Model/Loader.lean` (C12 `start_total`) plugged in: the only
    hypothesis left is that the embedded `mini.dat` opens -/
theorem newContext_std_no_panic (openTrie : List Nat → Option D) (b : D) (mem : Loader.UMap) (feat : Bool)
    (openDat : List Nat → Option Loader.UMap) (openLegacySql : List Nat → Option (List Uhash.Rec))
    (sqlite : FS → Path → Option Loader.UMap) (fs : FS) (env : SysLoader.Env) (syspath userpath : PathArg) :
    Returns (newContext (stdParams openTrie b mem feat openDat openLegacySql sqlite) fs env syspath userpath) :=
  newContext_no_panic _ rfl (fun fs p => userFileStd_total feat openDat openLegacySql sqlite fs p) fs env syspath userpath

/-! ## C17: locality of creation -/

/-- the paths a creation with search path `sp` can look at: the five probes under every segment and the entries of
    every segment's `dictionary.d` -/
def SysReach (sp : Path) (p : Path) : Prop :=
  ∃ seg ∈ segments sp,
    (∃ f ∈ [wordFile, tsiFile, abbrevFile, symbolsFile, dictFolder], p = joinPath seg f) ∨
    ∃ n, p = joinPath (joinPath seg dictFolder) n

theorem loadSys_local (op : List Nat → Option D) {fs fs' : FS} {sp : Path} (h : ∀ p, SysReach sp p → fs p = fs' p) :
    loadSys op fs sp = loadSys op fs' sp := by
  have hf : findPathByFiles fs sp [wordFile, tsiFile] = findPathByFiles fs' sp [wordFile, tsiFile] :=
    findPathByFiles_congr fun seg hseg f hf => h _ ⟨seg, hseg, .inl ⟨f, by
      simp only [List.mem_cons, List.not_mem_nil, or_false] at hf ⊢; rcases hf with rfl | rfl <;> simp, rfl⟩⟩
  unfold loadSys
  rw [← hf]
  cases hd : findPathByFiles fs sp [wordFile, tsiFile] with
  | none => rfl
  | some d =>
    have hm := findPathByFiles_mem hd
    simp only
    rw [openFile_congr op (h _ ⟨d, hm, .inl ⟨wordFile, by simp, rfl⟩⟩),
      openFile_congr op (h _ ⟨d, hm, .inl ⟨tsiFile, by simp, rfl⟩⟩)]

theorem findDropIn_local {fs fs' : FS} {sp : Path} (h : ∀ p, SysReach sp p → fs p = fs' p) :
    findDropIn fs sp = findDropIn fs' sp := by
  unfold findDropIn
  apply flatMap_congr'
  intro seg hseg
  unfold dropInsOf
  rw [dropInNames_congr (h _ ⟨seg, hseg, .inl ⟨dictFolder, by simp, rfl⟩⟩) (fun n => h _ ⟨seg, hseg, .inr ⟨n, rfl⟩⟩)]

theorem loadDropIn_local (op : List Nat → Option D) {fs fs' : FS} {sp : Path} (h : ∀ p, SysReach sp p → fs p = fs' p) :
    loadDropIn op fs sp = loadDropIn op fs' sp := by
  unfold loadDropIn
  rw [← findDropIn_local h]
  apply filterMap_congr'
  intro p hp
  unfold findDropIn at hp
  rcases List.mem_flatMap.1 hp with ⟨seg, hseg, hp⟩
  obtain ⟨n, rfl⟩ := mem_dropInsOf hp
  exact openFile_congr op (h _ ⟨seg, hseg, .inr ⟨n, rfl⟩⟩)

theorem loadTable_local {T : Type} (parse : List Nat → Option T) (file : Path)
    (hfile : file ∈ [wordFile, tsiFile, abbrevFile, symbolsFile, dictFolder]) {fs fs' : FS} {sp : Path}
    (h : ∀ p, SysReach sp p → fs p = fs' p) : loadTable parse file fs sp = loadTable parse file fs' sp := by
  have hf : findPathByFiles fs sp [file] = findPathByFiles fs' sp [file] :=
    findPathByFiles_congr fun seg hseg f hf => h _ ⟨seg, hseg, .inl ⟨f, by
      simp only [List.mem_singleton] at hf; subst hf; exact hfile, rfl⟩⟩
  unfold loadTable
  rw [← hf]
  cases hd : findPathByFiles fs sp [file] with
  | none => rfl
  | some d =>
    simp only
    rw [h _ ⟨d, findPathByFiles_mem hd, .inl ⟨file, hfile, rfl⟩⟩]

/-- **the system half of a creation reads nothing but its own search path** -/
theorem sysHalf_local (P : Params D U) {fs fs' : FS} {sp : Path} (h : ∀ p, SysReach sp p → fs p = fs' p) :
    sysHalf P fs sp = sysHalf P fs' sp := by
  unfold sysHalf loadAbbrev loadSymbols
  rw [loadSys_local P.openTrie h, loadDropIn_local P.openTrie h,
    loadTable_local parseAbbrev abbrevFile (by simp) h, loadTable_local parseSymbols symbolsFile (by simp) h]

/-- the user side looks at nothing but the user path, `uhash.dat` and `chewing.sqlite3` beside it -/
def UserReach (up : Path) (p : Path) : Prop :=
  p = up ∨ p = joinPath (parentOf up) uhashFile ∨ p = joinPath (parentOf up) sqliteFile

/-- … as a property of a user-side loader -/
def UserLocal (us : UserSide U) : Prop :=
  ∀ fs fs' up, (∀ p, UserReach up p → fs p = fs' p) → us.file fs up = us.file fs' up

theorem userFileStd_local (feat : Bool) (openDat : List Nat → Option Loader.UMap)
    (openLegacySql : List Nat → Option (List Uhash.Rec)) (sqlite : FS → Path → Option Loader.UMap)
    (hsql : ∀ fs fs' up, (∀ p, UserReach up p → fs p = fs' p) → sqlite fs up = sqlite fs' up) (mem : Loader.UMap) :
    UserLocal ({ memory := mem, file := userFileStd feat openDat openLegacySql sqlite } : UserSide Loader.UMap) := by
  intro fs fs' up h
  show userFileStd feat openDat openLegacySql sqlite fs up = userFileStd feat openDat openLegacySql sqlite fs' up
  unfold userFileStd userDirOf
  rw [h up (.inl rfl), h _ (.inr (.inl rfl)), h _ (.inr (.inr rfl)), hsql fs fs' up h]

/-- **locality of `chewing_new2(syspath, userpath)` for string arguments**: two file systems that agree on what is
    reachable through ITS syspath and ITS userpath give the same result (context or NULL) -/
theorem newContext_local (P : Params D U) (hl : UserLocal P.user) {fs fs' : FS} (env : SysLoader.Env) (sp up : Path)
    (hs : ∀ p, SysReach sp p → fs p = fs' p) (hu : ∀ p, UserReach up p → fs p = fs' p) :
    newContext P fs env (.str sp) (.str up) = newContext P fs' env (.str sp) (.str up) := by
  unfold newContext
  simp only
  rw [sysHalf_local P hs]
  have : loadUser P.user fs env (some up) = loadUser P.user fs' env (some up) := by
    unfold loadUser
    simp only
    rw [hu up (.inl rfl), hl fs fs' up hu]
  rw [this]

/-- … and for NULL arguments (`chewing_new()`): additionally the probe of the legacy directory `$HOME/.chewing`, and
    the reach is that of the paths the ENVIRONMENT yields -/
theorem newContext_local_env (P : Params D U) (hl : UserLocal P.user) {fs fs' : FS} (env : SysLoader.Env)
    (syspath userpath : PathArg)
    (hleg : ∀ p, legacyDataDir env = some p → fs p = fs' p)
    (hs : ∀ p, SysReach (searchPathOf fs env syspath) p → fs p = fs' p)
    (hu : ∀ up, (userArgOf userpath = some up ∨ (userArgOf userpath = none ∧ userphrasePath fs env = some up)) →
      ∀ p, UserReach up p → fs p = fs' p) :
    newContext P fs env syspath userpath = newContext P fs' env syspath userpath := by
  have hdd : dataDir fs env = dataDir fs' env := by
    unfold dataDir
    cases env.chewingUserPath with
    | some _ => rfl
    | none =>
      cases hlg : legacyDataDir env with
      | none => rfl
      | some p => simp only; rw [hleg p hlg]
  have hup : userphrasePath fs env = userphrasePath fs' env := by unfold userphrasePath; rw [hdd]
  have hsp : sysPathFromEnv fs env = sysPathFromEnv fs' env := by unfold sysPathFromEnv; rw [hdd]
  have hlu : ∀ arg, arg = userArgOf userpath → loadUser P.user fs env arg = loadUser P.user fs' env arg := by
    intro arg harg
    unfold loadUser
    rw [← hup]
    cases arg with
    | none =>
      cases hp : userphrasePath fs env with
      | none => rfl
      | some up =>
        have hh := hu up (.inr ⟨harg.symm, hp⟩)
        simp only
        rw [hh up (.inl rfl), hl fs fs' up hh]
    | some up =>
      have hh := hu up (.inl harg.symm)
      simp only
      rw [hh up (.inl rfl), hl fs fs' up hh]
  unfold newContext
  cases syspath with
  | notUtf8 => rfl
  | null =>
    simp only [searchPathOf] at hs
    simp only
    rw [← hsp, sysHalf_local P hs]
    cases userpath with
    | notUtf8 => rfl
    | null => simp only; rw [hlu none rfl]
    | str up => simp only; rw [hlu (some up) rfl]
  | str q =>
    simp only [searchPathOf] at hs
    simp only
    rw [sysHalf_local P hs]
    cases userpath with
    | notUtf8 => rfl
    | null => simp only; rw [hlu none rfl]
    | str up => simp only; rw [hlu (some up) rfl]

/-- a file system with one path rewritten -/
def FS.write (fs : FS) (q : Path) (n : Node) : FS := fun p => if p = q then n else fs p

/-- **changing a file outside the searched directories changes nothing** -/
theorem write_outside_invisible (P : Params D U) (hl : UserLocal P.user) (fs : FS) (env : SysLoader.Env) (sp up q : Path)
    (n : Node) (hq : ¬ SysReach sp q) (hq' : ¬ UserReach up q) :
    newContext P (FS.write fs q n) env (.str sp) (.str up) = newContext P fs env (.str sp) (.str up) := by
  apply newContext_local P hl env sp up
  · intro p hp
    have : p ≠ q := fun e => hq (e ▸ hp)
    simp [FS.write, this]
  · intro p hp
    have : p ≠ q := fun e => hq' (e ▸ hp)
    simp [FS.write, this]

/-- **two creations over disjoint directories do not influence each other**: whatever is written into the reach of
    context B's arguments (its data directory, its user file) leaves the creation of context A as it was, provided
    the two reaches are disjoint -/
theorem disjoint_creations_independent (P : Params D U) (hl : UserLocal P.user) (fs : FS) (env : SysLoader.Env)
    (spA upA spB upB : Path)
    (hdis : ∀ p, (SysReach spB p ∨ UserReach upB p) → ¬ SysReach spA p ∧ ¬ UserReach upA p)
    (fs' : FS) (hfs : ∀ p, ¬ (SysReach spB p ∨ UserReach upB p) → fs' p = fs p) :
    newContext P fs' env (.str spA) (.str upA) = newContext P fs env (.str spA) (.str upA) := by
  apply newContext_local P hl env spA upA
  · intro p hp
    exact hfs p fun hb => (hdis p hb).1 hp
  · intro p hp
    exact hfs p fun hb => (hdis p hb).2 hp

/-! ### link to the process model of `Props/C17.lean` (`creation_args_local`) -/

/-- the `CreateArgs` of `Proofs/ProcessState.lean`, COMPUTED from the file system by the creation model: `layer` =
    `Layered::new(system dictionaries, user dictionary)`, `clock` = `LaxUserFreqEstimate::max_from(user dictionary)` -/
def createArgs {DD : Type} (layer : List D → U → DD) (clock : U → Nat) (withLogger : Bool) (c : NewCtx D U) :
    CreateArgs DD :=
  { dict := layer c.sysDicts c.user, abbr := c.abbr, symSel := c.symbols, time := clock c.user, withLogger := withLogger }

/-- one `chewing_new2` of a process history, with the file system it runs over: `none` when it returns NULL -/
def new2Call {DD L : Type} (P : Params D U) (layer : List D → U → DD) (clock : U → Nat) (id : Nat) (fs : FS)
    (env : SysLoader.Env) (sp up : Path) (withLogger : Bool) : Option (PCall DD L) :=
  match newContext P fs env (.str sp) (.str up) with
  | .ok (some c) => some (.new2 id (createArgs layer clock withLogger c))
  | _ => none

/-- **creation inside a process is local**: the process-level call `chewing_new2` contributes (hence, by
    `C17.creation_args_local`, the whole event history of that context) is the same over any two file systems that agree
    on the reach of its own arguments — other contexts' directories, user files and anything else may differ -/
theorem process_creation_local {DD L : Type} (P : Params D U) (hl : UserLocal P.user) (layer : List D → U → DD)
    (clock : U → Nat) (id : Nat) {fs fs' : FS} (env : SysLoader.Env) (sp up : Path) (withLogger : Bool)
    (hs : ∀ p, SysReach sp p → fs p = fs' p) (hu : ∀ p, UserReach up p → fs p = fs' p) :
    (new2Call P layer clock id fs env sp up withLogger : Option (PCall DD L)) =
      new2Call P layer clock id fs' env sp up withLogger := by
  unfold new2Call
  rw [newContext_local P hl env sp up hs hu]

/-- … so a process history run over either file system gives the same events (any environment of the editor model) -/
theorem process_history_local {DD L : Type} (eenv : Chewing.Env DD L) (dflt : NewDefaults L) (P : Params D U)
    (hl : UserLocal P.user) (layer : List D → U → DD) (clock : U → Nat) (id : Nat) {fs fs' : FS} (env : SysLoader.Env)
    (sp up : Path) (withLogger : Bool) (rest : List (PCall DD L))
    (hs : ∀ p, SysReach sp p → fs p = fs' p) (hu : ∀ p, UserReach up p → fs p = fs' p) :
    (Proc.empty : Proc DD L).run eenv dflt ((new2Call P layer clock id fs env sp up withLogger).toList ++ rest) =
      (Proc.empty : Proc DD L).run eenv dflt ((new2Call P layer clock id fs' env sp up withLogger).toList ++ rest) := by
  rw [process_creation_local P hl layer clock id env sp up withLogger hs hu]

/-! ## `chewing_delete` -/

/-- deleting NULL does nothing; deleting a context removes exactly that one -/
theorem delete_spec {α : Type} (live : List (Nat × α)) :
    deleteContext live none = live ∧ ∀ i j a, (j, a) ∈ deleteContext live (some i) ↔ (j, a) ∈ live ∧ j ≠ i := by
  refine ⟨rfl, fun i j a => ?_⟩
  simp [deleteContext, List.mem_filter]

/-! ## non-vacuity -/

section Examples

/-- search path `A::B:A` (an EMPTY segment = the current directory, a duplicate): `A` has only `word.dat`; the current
    directory has both files and a drop-in; `B` has `dictionary.d` with `b.dat`, `a.dat`, a directory `d.dat`, `c.txt` -/
def exFS : FS := fun p =>
  if p = "A/word.dat".toList then .file [1] false
  else if p = "word.dat".toList then .file [2] false
  else if p = "tsi.dat".toList then .file [3] false
  else if p = "dictionary.d".toList then .dir ["z.dat".toList]
  else if p = "dictionary.d/z.dat".toList then .file [9] false
  else if p = "B/dictionary.d".toList then .dir ["b.dat".toList, "c.txt".toList, "d.dat".toList, "a.dat".toList, ".dat".toList]
  else if p = "B/dictionary.d/b.dat".toList then .file [5] false
  else if p = "B/dictionary.d/a.dat".toList then .file [0] false
  else if p = "B/dictionary.d/c.txt".toList then .file [6] false
  else if p = "B/dictionary.d/d.dat".toList then .dir []
  else if p = "B/dictionary.d/.dat".toList then .file [7] false
  else if p = "B/swkb.dat".toList then .file [97, 32, 120, 10, 110, 111, 10, 32, 121, 10, 98, 32, 255, 10] false
  else if p = "A/symbols.dat".toList then .file [10, 0xE2, 0x80, 0xA6, 10, 99, 61, 44, 46, 13, 10] false
  else .absent

/-- `Trie::open` of the example: a file whose first byte is 0 is corrupt -/
def exOpen (b : List Nat) : Option Nat := match b with
  | 0 :: _ => none
  | x :: _ => some x
  | [] => none

def exParams : Params Nat Nat := { openTrie := exOpen, builtin := some 1000, user := { memory := 77, file := fun _ _ => .ok none } }

example : segments "A::B:A".toList = ["A".toList, [], "B".toList, "A".toList] := by decide
example : findPathByFiles exFS "A::B:A".toList [wordFile, tsiFile] = some [] := by decide
example : findDropIn exFS "A::B:A".toList =
    ["dictionary.d/z.dat".toList, "B/dictionary.d/a.dat".toList, "B/dictionary.d/b.dat".toList] := by decide
/-- `a.dat` is corrupt and skipped; the system pair comes from the EMPTY segment -/
example : (newContext exParams exFS {} (.str "A::B:A".toList) (.str ":memory:".toList)).map (·.map (·.sysDicts)) =
    .ok (some [2, 3, 9, 5]) := by decide
/-- without the empty segment there is no complete pair: built-in dictionary, then the drop-ins -/
example : (newContext exParams exFS {} (.str "A:B".toList) (.str "x/:memory:".toList)).map (·.map (·.sysDicts)) =
    .ok (some [1000, 5]) := by decide
/-- a user path that cannot be loaded: NULL; not UTF-8: NULL -/
example : (newContext exParams exFS {} (.str "A:B".toList) (.str "u/chewing.dat".toList)).map (·.isSome) = .ok false := by decide
example : (newContext exParams exFS {} .notUtf8 .null).map (·.isSome) = .ok false := rfl
/-- `swkb.dat` with a non-UTF-8 line is refused as a whole (empty table); `symbols.dat`: blank line skipped, `\r\n` -/
example : loadAbbrev exFS "B".toList = .error .io := by decide
example : parseAbbrev [97, 32, 120, 10, 110, 111, 10, 32, 121, 10, 97, 98, 32, 122] = some [(97, [122]), (97, [120])] := by decide
example : loadSymbols exFS "A".toList = .ok { category := [([0x2026], none), ([99], some 0)], table := [[44, 46]] } := by decide
/-- `chewing_new()`: the search path from the environment -/
example : sysPathFromEnv exFS { homeDir := some "/h".toList } = "/h/.local/share/chewing:/usr/share/libchewing".toList := by decide
example : userphrasePath exFS { xdgDataHome := some "/x".toList, homeDir := some "/h".toList } = some "/x/chewing/chewing.dat".toList := by decide
example : isMem "/a/b/:memory:".toList = true ∧ isMem "a:memory:".toList = false ∧ parentNone [] = true ∧
    parentNone "//".toList = true ∧ parentNone "a".toList = false ∧ parentOf "/a/b//c.dat".toList = "/a/b".toList ∧
    parentOf "c.dat".toList = [] ∧ parentOf "/c.dat".toList = "/".toList := by decide
example : extension ".dat".toList = none ∧ extension "a.b.dat".toList = some "dat".toList ∧ extension "dat".toList = none ∧
    extension "a.".toList = some [] := by decide
/-- the hypotheses of the locality theorems are satisfiable: a write outside the reach -/
example : ¬ SysReach "B".toList "A/word.dat".toList := by
  rintro ⟨seg, hseg, h⟩
  have : seg = "B".toList := by
    have : segments "B".toList = ["B".toList] := by decide
    rw [this] at hseg; simpa using hseg
  subst this
  rcases h with ⟨f, hf, h⟩ | ⟨n, h⟩
  · simp only [List.mem_cons, List.not_mem_nil, or_false] at hf
    rcases hf with rfl | rfl | rfl | rfl | rfl <;> exact absurd h (by decide)
  · have h2 := congrArg (fun l => l.head?) h
    simp only [joinPath_head? (show joinPath "B".toList dictFolder ≠ [] by decide)] at h2
    exact absurd h2 (by decide)

end Examples

end Chewing.C12NewCtx
