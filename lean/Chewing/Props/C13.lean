import Chewing.Proofs.SyllableParse
import Chewing.Proofs.SyllablePrefix
/-!
# C13 — Syllable code, components and Bopomofo spelling convert losslessly

Model: `Chewing.Model.Syllable` (bit masks and symbol tables generated from
`src/zhuyin/{syllable,bopomofo}.rs`).  A symbol is its enum discriminant, a character its code
point, a syllable its 16-bit code.  `Tup 5 i m r t` are the 22×4×14×5 optional-component tuples
(0 = absent); `compose` builds the syllable through the order-checking builder, as `syl![…]` does.

Known finding F18: the first-tone mark `ˉ` (code point 713) is accepted by the parser and stored
as tone value 5, which no accessor decodes; `spell_parse` therefore carries `NoTone1`, and
`spell_parse_full_refuted` proves the unrestricted statement false with the witness "ㄅㄚˉ".
-/
namespace Chewing.C13
open Chewing Gen

/-- a syllable that can be composed from an optional initial, medial, rime and tone -/
def Composable (c : Nat) : Prop := ∃ i m r t, Tup 5 i m r t ∧ compose i m r t = .ok c

theorem compose_ok {i m r t : Nat} (h : Tup 5 i m r t) : compose i m r t = .ok (encode i m r t) := by
  have := allT_spec compose_tbl h.1 h.2.1 h.2.2.1 h.2.2.2
  simpa using this

theorem composable_iff {c : Nat} : Composable c ↔ ∃ i m r t, Tup 5 i m r t ∧ c = encode i m r t := by
  constructor
  · rintro ⟨i, m, r, t, h, hc⟩
    rw [compose_ok h] at hc
    exact ⟨i, m, r, t, h, (Except.ok.inj hc).symm⟩
  · rintro ⟨i, m, r, t, h, rfl⟩
    exact ⟨i, m, r, t, h, compose_ok h⟩

/-- every composable syllable has a non-zero 16-bit code -/
theorem code_nonzero {c : Nat} (h : Composable c) : 0 < c ∧ c < 65536 := by
  obtain ⟨i, m, r, t, ht, rfl⟩ := composable_iff.mp h
  exact ⟨encode_pos, encode_lt (tup5_to6 ht)⟩

/-- … and the code is unique: different tuples give different codes -/
theorem code_unique {i m r t i' m' r' t' : Nat} (h : Tup 5 i m r t) (h' : Tup 5 i' m' r' t')
    (e : compose i m r t = compose i' m' r' t') : i = i' ∧ m = m' ∧ r = r' ∧ t = t' := by
  rw [compose_ok h, compose_ok h'] at e
  exact encode_inj (tup5_to6 h) (tup5_to6 h') (Except.ok.inj e)

/-- syllable → components gives back the tuple it was composed from -/
theorem components_roundtrip {i m r t c : Nat} (h : Tup 5 i m r t) (hc : compose i m r t = .ok c) :
    initial c = tupleComp 0 i m r t ∧ medial c = tupleComp 1 i m r t ∧
    rime c = tupleComp 2 i m r t ∧ tone c = tupleComp 3 i m r t := by
  rw [compose_ok h] at hc
  cases hc
  exact ⟨comp_encode h (k := 0) (by omega), comp_encode h (k := 1) (by omega),
    comp_encode h (k := 2) (by omega), comp_encode h (k := 3) (by omega)⟩

/-- code → syllable → code -/
theorem code_roundtrip {c : Nat} (h : Composable c) : tryFromU16 c = some c := by
  have := (code_nonzero h).1
  unfold tryFromU16
  have : (c == 0) = false := by simp; omega
  simp [this]

/-- syllable → spelling → syllable -/
theorem parse_spell {c : Nat} (h : Composable c) : parse (spell c) = .ok c := by
  obtain ⟨i, m, r, t, ht, rfl⟩ := composable_iff.mp h
  have := allT_spec parse_spell_tbl ht.1 ht.2.1 ht.2.2.1 ht.2.2.2
  simpa using this

/-- unique spelling -/
theorem spelling_unique {c c' : Nat} (h : Composable c) (h' : Composable c') (e : spell c = spell c') :
    c = c' := by
  have p := parse_spell h
  rw [e, parse_spell h'] at p
  cases p; rfl

/-- spelling → syllable → spelling, for every string without the first-tone mark (F18) -/
theorem spell_parse {s : List Nat} {v : Nat} (hp : parse s = .ok v) (hno : ∀ c ∈ s, c ≠ 713) :
    Composable v ∧ spell v = s := by
  unfold parse at hp
  obtain ⟨i, m, r, t, ht, hv, hs⟩ := go_spell s absOk_new (by unfold Tup; omega) hp hno
  refine ⟨composable_iff.mpr ⟨i, m, r, t, ht, hv⟩, ?_⟩
  rw [hs]
  have : spell Builder.new.value = [] := by decide
  rw [this]; rfl

/-- the full-strength round trip is false on the unchanged tree: `"ㄅㄚˉ"` parses (to 0x20d) and
    spells back as `"ㄅㄚ"`.  (known finding F18) -/
theorem spell_parse_full_refuted :
    ¬ (∀ (s : List Nat) (v : Nat), parse s = .ok v → spell v = s) := by
  intro h
  have := h [12549, 12570, 713] 525 (by decide)
  revert this
  decide

/-- the parser accepts exactly the strings of symbols with strictly increasing kinds … -/
theorem parse_accepts_iff (s : List Nat) : (∃ v, parse s = .ok v) ↔ KindsOK 0 s := by
  unfold parse
  exact go_iff s absOk_new

/-- … so components out of order, repeated, or foreign characters are rejected -/
theorem parse_rejects {s : List Nat} (h : ¬ KindsOK 0 s) : ∃ e, parse s = .error e := by
  cases hp : parse s with
  | ok v => exact absurd ((parse_accepts_iff s).mp ⟨v, hp⟩) h
  | error e => exact ⟨e, rfl⟩

/-- `update` (used by every keyboard layout) replaces exactly the component of the symbol's kind -/
theorem update_component {i m r t c b : Nat} (h : Tup 5 i m r t) (hc : compose i m r t = .ok c)
    (hb : b < 41) :
    update c b = some (enc4 (setAt (kindOf b) (indexOf b) i m r t)) := by
  rw [compose_ok h] at hc
  cases hc
  exact update_encode (tup5_to6 h) (by omega)

/-- removing a component zeroes exactly that component -/
theorem remove_component {i m r t c k : Nat} (h : Tup 5 i m r t) (hc : compose i m r t = .ok c)
    (hk : k < 4) : removeKind k c = enc4 (zeroAt k i m r t) := by
  rw [compose_ok h] at hc
  cases hc
  have := allLt_spec (allT_spec remove_tbl h.1 h.2.1 h.2.2.1 h.2.2.2) k hk
  simpa using this

/-- the prefix relation: `s` begins with the non-empty partial syllable `p` exactly when they agree
    on every component up to and including the last one present in `p` -/
theorem startsWith_iff {s p : Nat} (hs : Composable s) (hp : Composable p) (hne : p ≠ 32768) :
    startsWith s p = true ↔ ∀ k, k ≤ lastPresent p → comp k s = comp k p := by
  obtain ⟨i, m, r, t, ht, rfl⟩ := composable_iff.mp hs
  obtain ⟨i', m', r', t', ht', rfl⟩ := composable_iff.mp hp
  refine startsWith_encode ht ht' ?_
  rintro ⟨rfl, rfl, rfl, rfl⟩
  exact hne (by decide)

/-! ### non-vacuity: concrete instances of the hypotheses -/

example : Composable 10268 := composable_iff.mpr ⟨20, 0, 3, 4, by unfold Tup; omega, by decide⟩
example : parse [12568, 12572, 715] = .ok 10268 ∧ ∀ c ∈ [12568, 12572, 715], c ≠ 713 := by decide
example : ¬ KindsOK 0 [12572, 12568] := by
  intro h
  obtain ⟨b, hb, _, b', hb', hk, _⟩ := h
  have e : bopoOfChar 12572 = some 26 := by decide
  have e' : bopoOfChar 12568 = some 19 := by decide
  rw [e] at hb; rw [e'] at hb'
  cases hb; cases hb'
  revert hk; decide
example : startsWith 10268 10240 = true ∧ lastPresent 10240 = 0 := by decide

end Chewing.C13
