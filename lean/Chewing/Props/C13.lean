import Chewing.Proofs.SyllableParse
import Chewing.Proofs.SyllablePrefix
import Chewing.Proofs.SyllableDecode
/-!
# C13 — Syllable code, components and Bopomofo spelling convert losslessly

Model: `Chewing.Model.Syllable` (bit masks and symbol tables generated from
`src/zhuyin/{syllable,bopomofo}.rs`).  A symbol is its enum discriminant, a character its code
point, a syllable its 16-bit code.  `Tup 5 i m r t` are the 22×4×14×5 optional-component tuples
(0 = absent); `compose` builds the syllable through the order-checking builder, as `syl![…]` does.

Fixed finding F47: `Syllable::try_from(u16)` accepted every non-zero value ("TODO check invalid value"), e.g. `0x6a07`
(spelling `""`) or `0x8208` / `0x020e` (the spelling of `0x0208`); since the repair it accepts exactly the codes of the
tuples with `t ≤ 5` (`decode_total_iff`), so that every accepted code converts back from its components and its
spelling (`accepted_roundtrip`; the tone value 5 of F18 is the one exception, `accepted_roundtrip_full_refuted`), and
`validCode` is an invariant of the type (`parse_valid`, `update_valid`, `remove_valid`, `pop_valid`).

Known finding F18: the first-tone mark `ˉ` (code point 713) is accepted by the parser and stored
as tone value 5, which no accessor decodes; `spell_parse` therefore carries `NoTone1`, and
`spell_parse_full_refuted` proves the unrestricted statement false with the witness "ㄅㄚˉ".
-/
namespace Chewing.C13
open Chewing Gen

/-- a syllable that can be composed from an optional initial, medial, rime and tone -/
def Composable (c : Nat) : Prop := ∃ i m r t, Tup 5 i m r t ∧ compose i m r t = .ok c

theorem compose_ok {i m r t : Nat} (h : Tup 5 i m r t) : compose i m r t = .ok (encode i m r t) := by
  have := allT_spec compose_tbl h.1 h.2.1 h.2.2.1 h.2.2.2
  simpa using this

theorem composable_iff {c : Nat} : Composable c ↔ ∃ i m r t, Tup 5 i m r t ∧ c = encode i m r t := by
  constructor
  · rintro ⟨i, m, r, t, h, hc⟩
    rw [compose_ok h] at hc
    exact ⟨i, m, r, t, h, (Except.ok.inj hc).symm⟩
  · rintro ⟨i, m, r, t, h, rfl⟩
    exact ⟨i, m, r, t, h, compose_ok h⟩

/-- every composable syllable has a non-zero 16-bit code -/
theorem code_nonzero {c : Nat} (h : Composable c) : 0 < c ∧ c < 65536 := by
  obtain ⟨i, m, r, t, ht, rfl⟩ := composable_iff.mp h
  exact ⟨encode_pos, encode_lt (tup5_to6 ht)⟩

/-- … and the code is unique: different tuples give different codes -/
theorem code_unique {i m r t i' m' r' t' : Nat} (h : Tup 5 i m r t) (h' : Tup 5 i' m' r' t')
    (e : compose i m r t = compose i' m' r' t') : i = i' ∧ m = m' ∧ r = r' ∧ t = t' := by
  rw [compose_ok h, compose_ok h'] at e
  exact encode_inj (tup5_to6 h) (tup5_to6 h') (Except.ok.inj e)

/-- syllable → components gives back the tuple it was composed from -/
theorem components_roundtrip {i m r t c : Nat} (h : Tup 5 i m r t) (hc : compose i m r t = .ok c) :
    initial c = tupleComp 0 i m r t ∧ medial c = tupleComp 1 i m r t ∧
    rime c = tupleComp 2 i m r t ∧ tone c = tupleComp 3 i m r t := by
  rw [compose_ok h] at hc
  cases hc
  exact ⟨comp_encode h (k := 0) (by omega), comp_encode h (k := 1) (by omega),
    comp_encode h (k := 2) (by omega), comp_encode h (k := 3) (by omega)⟩

/-- code → syllable → code -/
theorem code_roundtrip {c : Nat} (h : Composable c) : tryFromU16 c = some c := by
  obtain ⟨i, m, r, t, ht, rfl⟩ := composable_iff.mp h
  exact (tryFrom_iff (encode_lt (tup5_to6 ht))).mpr ⟨i, m, r, t, tup5_to6 ht, rfl⟩

/-- syllable → spelling → syllable -/
theorem parse_spell {c : Nat} (h : Composable c) : parse (spell c) = .ok c := by
  obtain ⟨i, m, r, t, ht, rfl⟩ := composable_iff.mp h
  have := allT_spec parse_spell_tbl ht.1 ht.2.1 ht.2.2.1 ht.2.2.2
  simpa using this

/-- unique spelling -/
theorem spelling_unique {c c' : Nat} (h : Composable c) (h' : Composable c') (e : spell c = spell c') :
    c = c' := by
  have p := parse_spell h
  rw [e, parse_spell h'] at p
  cases p; rfl

/-- spelling → syllable → spelling, for every string without the first-tone mark (F18) -/
theorem spell_parse {s : List Nat} {v : Nat} (hp : parse s = .ok v) (hno : ∀ c ∈ s, c ≠ 713) :
    Composable v ∧ spell v = s := by
  unfold parse at hp
  obtain ⟨i, m, r, t, ht, hv, hs⟩ := go_spell s absOk_new (by unfold Tup; omega) hp hno
  refine ⟨composable_iff.mpr ⟨i, m, r, t, ht, hv⟩, ?_⟩
  rw [hs]
  have : spell Builder.new.value = [] := by decide
  rw [this]; rfl

/-- the full-strength round trip is false on the unchanged tree: `"ㄅㄚˉ"` parses (to 0x20d) and
    spells back as `"ㄅㄚ"`.  (known finding F18) -/
theorem spell_parse_full_refuted :
    ¬ (∀ (s : List Nat) (v : Nat), parse s = .ok v → spell v = s) := by
  intro h
  have := h [12549, 12570, 713] 525 (by decide)
  revert this
  decide

/-- the parser accepts exactly the strings of symbols with strictly increasing kinds … -/
theorem parse_accepts_iff (s : List Nat) : (∃ v, parse s = .ok v) ↔ KindsOK 0 s := by
  unfold parse
  exact go_iff s absOk_new

/-- … so components out of order, repeated, or foreign characters are rejected -/
theorem parse_rejects {s : List Nat} (h : ¬ KindsOK 0 s) : ∃ e, parse s = .error e := by
  cases hp : parse s with
  | ok v => exact absurd ((parse_accepts_iff s).mp ⟨v, hp⟩) h
  | error e => exact ⟨e, rfl⟩

/-- `update` (used by every keyboard layout) replaces exactly the component of the symbol's kind -/
theorem update_component {i m r t c b : Nat} (h : Tup 5 i m r t) (hc : compose i m r t = .ok c)
    (hb : b < 41) :
    update c b = some (enc4 (setAt (kindOf b) (indexOf b) i m r t)) := by
  rw [compose_ok h] at hc
  cases hc
  exact update_encode (tup5_to6 h) (by omega)

/-- removing a component zeroes exactly that component -/
theorem remove_component {i m r t c k : Nat} (h : Tup 5 i m r t) (hc : compose i m r t = .ok c)
    (hk : k < 4) : removeKind k c = enc4 (zeroAt k i m r t) := by
  rw [compose_ok h] at hc
  cases hc
  have := allLt_spec (allT_spec remove_tbl h.1 h.2.1 h.2.2.1 h.2.2.2) k hk
  simpa using this

/-- the prefix relation: `s` begins with the non-empty partial syllable `p` exactly when they agree
    on every component up to and including the last one present in `p` -/
theorem startsWith_iff {s p : Nat} (hs : Composable s) (hp : Composable p) (hne : p ≠ 32768) :
    startsWith s p = true ↔ ∀ k, k ≤ lastPresent p → comp k s = comp k p := by
  obtain ⟨i, m, r, t, ht, rfl⟩ := composable_iff.mp hs
  obtain ⟨i', m', r', t', ht', rfl⟩ := composable_iff.mp hp
  refine startsWith_encode ht ht' ?_
  rintro ⟨rfl, rfl, rfl, rfl⟩
  exact hne (by decide)

/-! ### every 16-bit code: what `try_from` accepts, and the round trips of every accepted code (F47) -/

/-- a value `Syllable::try_from` accepts (it then is the code of the syllable handed out) -/
def Accepted (c : Nat) : Prop := tryFromU16 c = some c

instance (c : Nat) : Decidable (Accepted c) := by unfold Accepted; exact inferInstance

/-- `try_from` rejects or hands out the syllable with exactly that code -/
theorem decode_total (c : Nat) : tryFromU16 c = none ∨ Accepted c := by
  cases h : tryFromU16 c with
  | none => exact Or.inl rfl
  | some s => right; unfold Accepted; rw [h, tryFrom_some h]

/-- **the accepted codes**: exactly the codes of the tuples with `i ≤ 21, m ≤ 3, r ≤ 13, t ≤ 5` (the all-absent tuple
    being the empty pattern `0x8000`); every other one of the 65536 values — zero, a component index beyond its
    table, the empty-marker bit next to other bits — is rejected -/
theorem decode_total_iff {c : Nat} (hc : c < 65536) :
    Accepted c ↔ ∃ i m r t, Tup 6 i m r t ∧ c = encode i m r t := tryFrom_iff hc

/-- accepted = composable, or carrying the tone value 5 that only the first-tone mark produces (F18) -/
theorem accepted_iff {c : Nat} (hc : c < 65536) :
    Accepted c ↔ Composable c ∨ ∃ i m r, Tup 6 i m r 5 ∧ c = encode i m r 5 := by
  rw [decode_total_iff hc, composable_iff]
  constructor
  · rintro ⟨i, m, r, t, ht, rfl⟩
    by_cases h5 : t = 5
    · subst h5; exact Or.inr ⟨i, m, r, ht, rfl⟩
    · exact Or.inl ⟨i, m, r, t, by unfold Tup at ht ⊢; omega, rfl⟩
  · rintro (⟨i, m, r, t, ht, rfl⟩ | ⟨i, m, r, ht, rfl⟩)
    · exact ⟨i, m, r, t, tup5_to6 ht, rfl⟩
    · exact ⟨i, m, r, 5, ht, rfl⟩

/-- an accepted code whose tone field is not 5 is the code of a composable syllable -/
theorem accepted_composable {c : Nat} (hc : c < 65536) (ha : Accepted c) (hno : c % 8 ≠ 5) : Composable c := by
  rcases (accepted_iff hc).mp ha with h | ⟨i, m, r, ht, rfl⟩
  · exact h
  · exact absurd (encode_fields ht).2.2.2.1 hno

/-- a rejected value is not the code of any composable syllable -/
theorem rejected_not_composable {c : Nat} (h : tryFromU16 c = none) : ¬ Composable c := by
  intro hc
  rw [code_roundtrip hc] at h
  cases h

/-- the syllable rebuilt from the components the accessors decode, through the order-checking builder -/
def recompose (c : Nat) : Except BuildErr Nat :=
  (Builder.new.insertAll ([initial c, medial c, rime c, tone c].filterMap id)).map (·.value)

theorem recompose_composable {c : Nat} (h : Composable c) : recompose c = .ok c := by
  obtain ⟨i, m, r, t, ht, hc⟩ := h
  obtain ⟨h0, h1, h2, h3⟩ := components_roundtrip ht hc
  have e : [initial c, medial c, rime c, tone c].filterMap id = tupleSyms i m r t := by
    rw [h0, h1, h2, h3, filterMap_id4]
    unfold tupleComp tupleSyms
    simp only [ite_toList]
  unfold recompose
  rw [e]
  exact hc

/-- the full-strength statement for EVERY value the API can hand out through `try_from`: the accepted code converts
    back from its spelling and from its components -/
def accepted_roundtrip_full : Prop :=
  ∀ c, c < 65536 → Accepted c → parse (spell c) = .ok c ∧ recompose c = .ok c

/-- … which holds for every accepted code whose tone field is not the value 5 of the first-tone mark — with no other
    premise: since the repair of F47 no accepted code has a component index outside of its table -/
theorem accepted_roundtrip {c : Nat} (hc : c < 65536) (ha : Accepted c) (hno : c % 8 ≠ 5) :
    parse (spell c) = .ok c ∧ recompose c = .ok c :=
  have h := accepted_composable hc ha hno
  ⟨parse_spell h, recompose_composable h⟩

/-- … and is false at the tone value 5 (known finding F18): `0x20d` is accepted, spells as `"ㄅㄚ"`, which is `0x208` -/
theorem accepted_roundtrip_full_refuted : ¬ accepted_roundtrip_full := by
  intro h
  have := (h 525 (by omega) (by decide)).1
  revert this
  decide

/-- accepted codes with different values have different spellings (tone value 5 aside) -/
theorem accepted_spelling_unique {c c' : Nat} (hc : c < 65536) (hc' : c' < 65536) (ha : Accepted c) (ha' : Accepted c')
    (hno : c % 8 ≠ 5) (hno' : c' % 8 ≠ 5) (e : spell c = spell c') : c = c' :=
  spelling_unique (accepted_composable hc ha hno) (accepted_composable hc' ha' hno') e

/-- `validCode` is an invariant of the type: every value the spelling parser hands out is an accepted code … -/
theorem parse_valid {s : List Nat} {v : Nat} (hp : parse s = .ok v) : v < 65536 ∧ validCode v = true := by
  unfold parse at hp
  obtain ⟨i, m, r, t, ht, rfl⟩ := go_tup6 s absOk_new hp
  exact ⟨encode_lt ht, validCode_encode ht⟩

/-- … and `update` (every keyboard layout) maps accepted codes to accepted codes and never panics on them -/
theorem update_valid {c b : Nat} (hc : c < 65536) (hv : validCode c = true) (hb : b < 42) :
    ∃ v, update c b = some v ∧ v < 65536 ∧ validCode v = true := Chewing.update_valid hc hv hb

/-- … and so do the four removers and `pop` -/
theorem remove_valid {c : Nat} (k : Nat) (hc : c < 65536) (hv : validCode c = true) :
    removeKind k c < 65536 ∧ validCode (removeKind k c) = true := removeKind_valid k hc hv

theorem pop_valid {c : Nat} (hc : c < 65536) (hv : validCode c = true) :
    (pop c).2 < 65536 ∧ validCode (pop c).2 = true := Chewing.pop_valid hc hv

/-- `chewing_phone_to_bopomofo`: a rejected value is answered with -1 and nothing is written; the text written for an
    accepted one parses back to the value -/
theorem phone_rejected {c len : Nat} (h : tryFromU16 c = none) : phoneToBopomofo c len = (-1, none) := by
  unfold phoneToBopomofo; rw [h]

theorem phone_text_parses {c len : Nat} {s : List Nat} (hc : c < 65536) (hno : c % 8 ≠ 5)
    (h : (phoneToBopomofo c len).2 = some s) : parse s = .ok c := by
  unfold phoneToBopomofo at h
  rcases decode_total c with hn | ha
  · rw [hn] at h; cases h
  · unfold Accepted at ha
    rw [ha] at h
    simp only at h
    split at h
    · cases h; exact (accepted_roundtrip hc ha hno).1
    · cases h

/-! ### non-vacuity: concrete instances of the hypotheses -/

example : Accepted 10268 ∧ 10268 % 8 ≠ 5 := by decide
example : tryFromU16 27143 = none ∧ tryFromU16 33288 = none ∧ tryFromU16 526 = none ∧ Accepted 32768 := by decide
example : (phoneToBopomofo 10268 10).2 = some [12568, 12572, 715] := by decide

example : Composable 10268 := composable_iff.mpr ⟨20, 0, 3, 4, by unfold Tup; omega, by decide⟩
example : parse [12568, 12572, 715] = .ok 10268 ∧ ∀ c ∈ [12568, 12572, 715], c ≠ 713 := by decide
example : ¬ KindsOK 0 [12572, 12568] := by
  intro h
  obtain ⟨b, hb, _, b', hb', hk, _⟩ := h
  have e : bopoOfChar 12572 = some 26 := by decide
  have e' : bopoOfChar 12568 = some 19 := by decide
  rw [e] at hb; rw [e'] at hb'
  cases hb; cases hb'
  revert hk; decide
example : startsWith 10268 10240 = true ∧ lastPresent 10240 = 0 := by decide

end Chewing.C13
