import Chewing.Props.C13
import Chewing.Proofs.LayoutSound
import Chewing.Proofs.LayoutPinyinSound
import Chewing.Proofs.ReadingsTable
import Chewing.Proofs.KeyboardTables
import Chewing.Proofs.LayoutComplete_standard
import Chewing.Proofs.LayoutComplete_et
import Chewing.Proofs.LayoutComplete_ibm
import Chewing.Proofs.LayoutComplete_ginyieh
import Chewing.Proofs.LayoutComplete_hsu
import Chewing.Proofs.LayoutComplete_et26
import Chewing.Proofs.LayoutComplete_dc26
import Chewing.Proofs.LayoutComplete_hanyu
import Chewing.Proofs.LayoutComplete_thl
import Chewing.Proofs.LayoutComplete_mps2
import Chewing.Proofs.LayoutUnreachAll
import Chewing.Proofs.Bisim
import Chewing.Proofs.LayoutEditor
import Chewing.Proofs.ReadingsMini
import Chewing.Proofs.EditorLinkSyl2
/-!
# C14 — Every phonetic layout is sound, and complete for the dictionary's readings

Models: `Model/Keyboard.lean` (key codes, key indices, `KEYCODE_MAP`, the keyboard matrices),
`Model/Layout.lean` (Standard, Hsu, IBM, Gin-Yieh, ET, ET26, DaChen26: state = one 16-bit syllable code,
`key_press` written with C13's `update` / `remove_*` / `pop`), `Model/LayoutPinyin.lean` (three Pinyin
variants: typed letters + last syllable + its alternative), `Model/LayoutKeys.lean` (explicit inverses).
Every table is regenerated from the Rust source, the readings from `data/word.src`.

* **Soundness** (`sound_layout`, `sound_buffer`, `sound_pinyin`, `sound_pinyin_buffer`): for ANY list of
  operations on a layout (key presses with arbitrary key events, fuzzy key presses, `remove_last`,
  `clear` — every schedule the editor can produce is such a list) every state, hence every syllable handed
  over by `Commit`, and every `Fuzzy(s)` is well-formed in C13's sense (composable: components in range,
  decodable, re-spellable); what the editor then *inserts* is moreover non-empty, because it inserts only
  syllables the dictionary has a word for and the shipped dictionary has none for the empty syllable.
  At the layout itself the empty syllable CAN be committed (`pinyin_commits_empty`: F38;
  `dc26_commits_empty`) — the editor drops it.
* **Completeness** (`complete_*`): every reading of `data/word.src` can be entered — by an explicit key list
  typed unmodified on Qwerty from the fresh state, committing the reading itself or a syllable that has a
  word of its own and whose `alt_syllables` contain the reading.  Full strength for Standard, ET, IBM and
  Gin-Yieh (the latter two after the repairs F19 / F20); for Hsu, ET26, DaChen26 and the Pinyin variants
  the statement is false (known finding F21) and proved with the listed readings excluded.
* **ASCII round trip** (`ascii_roundtrip`, `ascii_roundtrip_qwerty`): on the seven keyboards implemented by
  `generic_map_keycode` (all but Dvorak-on-Qwerty, which remaps) `map_ascii(c)` carries the character `c`,
  for the 95 printable characters.
-/
namespace Chewing.C14
open Chewing Gen

/-- a well-formed syllable: C13's composable syllables -/
def WellFormed (c : Nat) : Prop := C13.Composable c

theorem wellFormed_iff {c : Nat} : WellFormed c ↔ Comp c := C13.composable_iff

/-- … which are exactly the decodable, re-spellable ones (C13) -/
theorem wellFormed_respellable {c : Nat} (h : WellFormed c) :
    tryFromU16 c = some c ∧ parse (spell c) = .ok c :=
  ⟨C13.code_roundtrip h, C13.parse_spell h⟩

/-! ## Soundness -/

/-- the seven layouts whose state is one syllable -/
def finiteLayouts : List Layout := [standardL, hsuL, ibmL, ginyiehL, etL, et26L, dc26L]

theorem finite_sound {L : Layout} (hL : L ∈ finiteLayouts) : SoundLayout L := by
  simp only [finiteLayouts, List.mem_cons, List.not_mem_nil, or_false] at hL
  rcases hL with rfl | rfl | rfl | rfl | rfl | rfl | rfl
  · exact sound_standard
  · exact sound_hsu
  · exact sound_ibm
  · exact sound_ginyieh
  · exact sound_et
  · exact sound_et26
  · exact sound_dc26

/-- Soundness at the layout, for all operation lists of any length: no step panics, every state (so every
    syllable `read()` after `Commit`) is well-formed, every `Fuzzy(s)` carries a well-formed non-empty `s`. -/
theorem sound_layout {L : Layout} (hL : L ∈ finiteLayouts) (ops : List LOp) :
    ∃ tr, L.run clearSyl ops = some tr ∧
      ∀ x ∈ tr, WellFormed x.2 ∧ ∀ s, x.1 = .fuzzy s → WellFormed s ∧ s ≠ emptyPattern := by
  obtain ⟨tr, h, hall⟩ := run_ok (finite_sound hL) ops clearSyl comp_clear
  refine ⟨tr, h, fun x hx => ?_⟩
  obtain ⟨h1, h2⟩ := hall x hx
  exact ⟨wellFormed_iff.mpr h1, fun s hs => ⟨wellFormed_iff.mpr (h2 s hs).1, (h2 s hs).2⟩⟩

/-- what `EnteringSyllable::next` inserts into the pre-edit buffer after a layout step with behaviour `b`
    and `read() = c`, for a dictionary that has a word exactly for the syllables with `hasWord` -/
def inserted (hasWord : Nat → Bool) (b : Behavior) (c : Nat) : Option Nat :=
  match b with
  | .commit => if hasWord c then some c else none
  | .fuzzy s => if hasWord s then some s else none
  | _ => none

/-- Soundness at the buffer: if the dictionary has no word for the empty syllable, every syllable the
    editor inserts — after any operation list — is well-formed and non-empty. -/
theorem sound_buffer {L : Layout} (hL : L ∈ finiteLayouts) (hasWord : Nat → Bool)
    (hne : hasWord emptyPattern = false) (ops : List LOp) :
    ∃ tr, L.run clearSyl ops = some tr ∧
      ∀ x ∈ tr, ∀ s, inserted hasWord x.1 x.2 = some s → WellFormed s ∧ s ≠ emptyPattern := by
  obtain ⟨tr, h, hall⟩ := sound_layout hL ops
  refine ⟨tr, h, fun x hx s hs => ?_⟩
  obtain ⟨h1, h2⟩ := hall x hx
  unfold inserted at hs
  split at hs
  · split at hs
    · rename_i hw
      cases hs
      exact ⟨h1, by intro e; rw [e, hne] at hw; cases hw⟩
    · cases hs
  · rename_i s' hb
    split at hs
    · cases hs
      exact h2 s hb
    · cases hs
  · cases hs

/-- … and the shipped character dictionary has no word for the empty syllable (table fact), and all its
    readings are well-formed -/
theorem shipped_no_empty_reading : readingCodes.contains emptyPattern = false := readings_no_empty

theorem parsed_wellFormed : ∀ (sp : List (List Nat)) (cs : List Nat), sp.map parse = cs.map .ok →
    (sp.all fun s => s.all fun c => c != 713) = true → ∀ r ∈ cs, WellFormed r := by
  intro sp
  induction sp with
  | nil =>
    intro cs h _ r hr
    cases cs with
    | nil => cases hr
    | cons _ _ => simp at h
  | cons s ss ih =>
    intro cs h hno r hr
    cases cs with
    | nil => cases hr
    | cons c cs' =>
      simp only [List.map_cons, List.cons.injEq] at h
      simp only [List.all_cons, Bool.and_eq_true] at hno
      rcases List.mem_cons.mp hr with rfl | hr'
      · refine (C13.spell_parse h.1 ?_).1
        intro x hx
        have := List.all_eq_true.mp hno.1 x hx
        simpa using this
      · exact ih cs' h.2 hno.2 r hr'

theorem shipped_readings_wellFormed : ∀ r ∈ readingCodes, WellFormed r :=
  parsed_wellFormed readingSpellings readingCodes readings_parse readings_no_tone1

/-- Pinyin: whatever a run leaves in `syllable` (what `Commit` hands over) and `syllable_alt` is
    well-formed, and `Fuzzy` is never returned.  (`none` = a builder `unwrap()` would panic; that this never
    happens is established by the correspondence run, not by this theorem.) -/
theorem sound_pinyin (v : Nat) : ∀ (ops : List POp) (st : PinyinState) (tr : List (Behavior × PinyinState)),
    PinyinInv st → pinyinRun v st ops = some tr →
      ∀ x ∈ tr, WellFormed x.2.syl ∧ WellFormed x.2.alt := by
  intro ops
  induction ops with
  | nil => intro st tr _ h; simp [pinyinRun] at h; subst h; simp
  | cons op ops ih =>
    intro st tr hst h
    unfold pinyinRun at h
    split at h
    · cases h
    · rename_i b st' hstep
      have hinv : PinyinInv st' := by
        cases op with
        | key k => exact pinyinPress_inv hst hstep
        | removeLast => simp [pinyinStep] at hstep; rw [← hstep.2]; exact hst
        | clear => simp [pinyinStep] at hstep; rw [← hstep.2]; exact pinyinInv_init
      cases hr : pinyinRun v st' ops with
      | none => simp [hr] at h
      | some tr' =>
        simp [hr] at h
        subst h
        intro x hx
        rcases List.mem_cons.mp hx with rfl | hx
        · exact ⟨wellFormed_iff.mpr hinv.1, wellFormed_iff.mpr hinv.2⟩
        · exact ih st' tr' hinv hr x hx

theorem sound_pinyin_buffer (v : Nat) (hasWord : Nat → Bool) (hne : hasWord emptyPattern = false)
    (ops : List POp) (tr : List (Behavior × PinyinState)) (h : pinyinRun v PinyinState.init ops = some tr) :
    ∀ x ∈ tr, x.1 = .commit → hasWord x.2.syl = true → WellFormed x.2.syl ∧ x.2.syl ≠ emptyPattern := by
  intro x hx _ hw
  refine ⟨(sound_pinyin v ops _ tr pinyinInv_init h x hx).1, ?_⟩
  intro e
  rw [e, hne] at hw
  cases hw

/-- F38 (layout level only): every Pinyin variant commits the empty syllable on `i h Space` … -/
theorem pinyin_commits_empty :
    (List.range 3).all (fun v => pinyinEnter v PinyinState.init ([22, 32, 48].map qwertyKey) == some emptyPattern) = true := by
  decide

/-- … and DaChen26, left in the state `ㄧㄚˊ` by a Commit, goes through the tone-only state `ˊ` and commits
    the empty syllable on Space (`K21 K21 K21 K17 K21 K48`).  Both are dropped by the editor (`sound_buffer`). -/
theorem dc26_commits_empty :
    (dc26L.run clearSyl ([21, 21, 21, 17, 21, 48].map fun c => LOp.key (qwertyKey c))).map (·.getLast?) =
      some (some (.commit, emptyPattern)) := by
  decide

/-! ## Completeness -/

/-- the reading `r` can be entered on `L`: some list of Qwerty key codes, typed unmodified from the fresh
    state the way the editor drives the layout (Backspace = `remove_last`; every other key but the last is
    absorbed; the last commits), commits `r` itself, or a syllable that is itself a reading of the
    dictionary (so the editor inserts it) and whose `alt_syllables` contain `r` -/
def Enters (L : Layout) (r : Nat) : Prop := ∃ keys : List Nat, entersB L keys r = true

/-- Pinyin has no `alt_syllables`: the reading itself must be committed -/
def PinyinEnters (v r : Nat) : Prop := ∃ keys : List Nat, entersPinyinB v keys r = true

def Complete (L : Layout) : Prop := ∀ r ∈ readingCodes, Enters L r
def PinyinComplete (v : Nat) : Prop := ∀ r ∈ readingCodes, PinyinEnters v r

/-- the full-strength statement -/
def C14_complete_full : Prop := (∀ L ∈ finiteLayouts, Complete L) ∧ ∀ v, v < 3 → PinyinComplete v

theorem complete_standard : Complete standardL := fun r hr =>
  ⟨_, readings_all_of_blocks complete_standard_0 complete_standard_1 complete_standard_2 complete_standard_3 r hr⟩

theorem complete_et : Complete etL := fun r hr =>
  ⟨_, readings_all_of_blocks complete_et_0 complete_et_1 complete_et_2 complete_et_3 r hr⟩

/-- IBM, after the repair of F19 (`K18 → ㄓ`) -/
theorem complete_ibm : Complete ibmL := fun r hr =>
  ⟨_, readings_all_of_blocks complete_ibm_0 complete_ibm_1 complete_ibm_2 complete_ibm_3 r hr⟩

/-- Gin-Yieh, after the repair of F20 (`K35 → ㄠ`, `K25 → ㄨ`) -/
theorem complete_ginyieh : Complete ginyiehL := fun r hr =>
  ⟨_, readings_all_of_blocks complete_ginyieh_0 complete_ginyieh_1 complete_ginyieh_2 complete_ginyieh_3 r hr⟩

theorem enters_of_any {L : Layout} {cands : List (List Nat)} {r : Nat} (h : entersAny L cands r = true) :
    Enters L r := by
  unfold entersAny at h
  obtain ⟨keys, _, hk⟩ := List.any_eq_true.mp h
  exact ⟨keys, hk⟩

theorem pinyinEnters_of_any {v : Nat} {cands : List (List Nat)} {r : Nat}
    (h : entersPinyinAny v cands r = true) : PinyinEnters v r := by
  unfold entersPinyinAny at h
  obtain ⟨keys, _, hk⟩ := List.any_eq_true.mp h
  exact ⟨keys, hk⟩

/-- known finding F21, 26-key layouts: (layout, reading) pairs that cannot be entered -/
theorem complete_hsu_partial : ∀ r ∈ readingCodes, r ∉ hsuGaps → Enters hsuL r := by
  intro r hr hg
  have := readings_all_of_blocks complete_hsu_0 complete_hsu_1 complete_hsu_2 complete_hsu_3 r hr
  simp only [Bool.or_eq_true, List.contains_eq_mem, decide_eq_true_eq] at this
  rcases this with h | h
  · exact absurd h hg
  · exact enters_of_any h

theorem complete_et26_partial : ∀ r ∈ readingCodes, r ∉ et26Gaps → Enters et26L r := by
  intro r hr hg
  have := readings_all_of_blocks complete_et26_0 complete_et26_1 complete_et26_2 complete_et26_3 r hr
  simp only [Bool.or_eq_true, List.contains_eq_mem, decide_eq_true_eq] at this
  rcases this with h | h
  · exact absurd h hg
  · exact enters_of_any h

theorem complete_dc26_partial : ∀ r ∈ readingCodes, r ∉ dc26Gaps → Enters dc26L r := by
  intro r hr hg
  have := readings_all_of_blocks complete_dc26_0 complete_dc26_1 complete_dc26_2 complete_dc26_3 r hr
  simp only [Bool.or_eq_true, List.contains_eq_mem, decide_eq_true_eq] at this
  rcases this with h | h
  · exact absurd h hg
  · exact ⟨_, h⟩

/-- known finding F21, Pinyin -/
theorem complete_pinyin_partial : ∀ v, v < 3 → ∀ r ∈ readingCodes, r ∉ pinyinGaps v → PinyinEnters v r := by
  intro v hv r hr hg
  have : ((pinyinGaps v).contains r || entersPinyinAny v (pinyinCands r) r) = true := by
    match v, hv with
    | 0, _ => exact readings_all_of_blocks complete_hanyu_0 complete_hanyu_1 complete_hanyu_2 complete_hanyu_3 r hr
    | 1, _ => exact readings_all_of_blocks complete_thl_0 complete_thl_1 complete_thl_2 complete_thl_3 r hr
    | 2, _ => exact readings_all_of_blocks complete_mps2_0 complete_mps2_1 complete_mps2_2 complete_mps2_3 r hr
  simp only [Bool.or_eq_true, List.contains_eq_mem, decide_eq_true_eq] at this
  rcases this with h | h
  · exact absurd h hg
  · exact pinyinEnters_of_any h

/-! ### the refuted side of known finding F21: the excluded readings really cannot be entered

For Hsu / ET26 / DaChen26: an invariant of the editor's way of driving the layout (no tone; the lone rimes
ㄝ / ㄟ / ㄥ never stand alone) holds along every key list, from no such state does a key commit a listed reading
(kernel evaluation over all 22×4×14 toneless syllables × the keys the layout reacts to), and no
`alt_syllables` list offers one.  For Pinyin: no exact-match row and no (initial row, final row, tone)
combination of the tables builds a listed reading. -/

theorem gap_is_reading {r : Nat}
    (h : r ∈ hsuGaps ++ et26Gaps ++ dc26Gaps ++ pinyinGaps 0 ++ pinyinGaps 1 ++ pinyinGaps 2) : r ∈ readingCodes := by
  have := List.all_eq_true.mp gaps_are_readings r h
  simpa using this

theorem hsu_gap_unenterable {r : Nat} (hr : r ∈ hsuGaps) : r ∈ readingCodes ∧ ¬ Enters hsuL r :=
  ⟨gap_is_reading (by simp [hr]), fun ⟨keys, hk⟩ => by rw [never_enters hsu_unreach hr keys] at hk; cases hk⟩

theorem et26_gap_unenterable {r : Nat} (hr : r ∈ et26Gaps) : r ∈ readingCodes ∧ ¬ Enters et26L r :=
  ⟨gap_is_reading (by simp [hr]), fun ⟨keys, hk⟩ => by rw [never_enters et26_unreach hr keys] at hk; cases hk⟩

theorem dc26_gap_unenterable {r : Nat} (hr : r ∈ dc26Gaps) : r ∈ readingCodes ∧ ¬ Enters dc26L r :=
  ⟨gap_is_reading (by simp [hr]), fun ⟨keys, hk⟩ => by rw [never_enters dc26_unreach hr keys] at hk; cases hk⟩

theorem pinyin_gap_unenterable {v : Nat} (hv : v < 3) {r : Nat} (hr : r ∈ pinyinGaps v) :
    r ∈ readingCodes ∧ ¬ PinyinEnters v r := by
  refine ⟨gap_is_reading ?_, fun ⟨keys, hk⟩ => by rw [pinyin_never_enters (pinyin_unreach v hv) hr keys] at hk; cases hk⟩
  match v, hv with
  | 0, _ => simp [hr]
  | 1, _ => simp [hr]
  | 2, _ => simp [hr]

/-- so the excluded sets are exact: a reading can be entered iff it is not listed -/
theorem complete_hsu_exact : ∀ r ∈ readingCodes, (Enters hsuL r ↔ r ∉ hsuGaps) := fun r hr =>
  ⟨fun he hg => (hsu_gap_unenterable hg).2 he, complete_hsu_partial r hr⟩

theorem complete_et26_exact : ∀ r ∈ readingCodes, (Enters et26L r ↔ r ∉ et26Gaps) := fun r hr =>
  ⟨fun he hg => (et26_gap_unenterable hg).2 he, complete_et26_partial r hr⟩

theorem complete_dc26_exact : ∀ r ∈ readingCodes, (Enters dc26L r ↔ r ∉ dc26Gaps) := fun r hr =>
  ⟨fun he hg => (dc26_gap_unenterable hg).2 he, complete_dc26_partial r hr⟩

theorem complete_pinyin_exact : ∀ v, v < 3 → ∀ r ∈ readingCodes, (PinyinEnters v r ↔ r ∉ pinyinGaps v) :=
  fun v hv r hr => ⟨fun he hg => (pinyin_gap_unenterable hv hg).2 he, complete_pinyin_partial v hv r hr⟩

theorem complete_hsu_refuted : ¬ Complete hsuL := fun h =>
  (hsu_gap_unenterable (r := 36) (by decide)).2 (h 36 (hsu_gap_unenterable (r := 36) (by decide)).1)

theorem complete_et26_refuted : ¬ Complete et26L := fun h =>
  (et26_gap_unenterable (r := 36) (by decide)).2 (h 36 (et26_gap_unenterable (r := 36) (by decide)).1)

theorem complete_dc26_refuted : ¬ Complete dc26L := fun h =>
  (dc26_gap_unenterable (r := 96) (by decide)).2 (h 96 (dc26_gap_unenterable (r := 96) (by decide)).1)

theorem complete_pinyin_refuted : ∀ v, v < 3 → ¬ PinyinComplete v := fun v hv h =>
  have hg : 170 ∈ pinyinGaps v := by unfold pinyinGaps; split <;> simp
  (pinyin_gap_unenterable hv hg).2 (h 170 (pinyin_gap_unenterable hv hg).1)

/-- the full-strength completeness statement is false for the current code (F21) -/
theorem C14_complete_full_refuted : ¬ C14_complete_full := fun h =>
  complete_hsu_refuted (h.1 hsuL (by simp [finiteLayouts]))


/-- the key events of the witnesses are what `Qwerty.map(code)` returns -/
theorem qwertyKey_spec {code : Nat} (h : code < 63) : genericMap qwertyKb code 0 = some (qwertyKey code) := by
  have := allLt_spec qwertyKey_tbl code h
  exact of_decide_eq_true this

/-! ## ASCII round trip -/

/-- on every keyboard implemented by `generic_map_keycode` (Qwerty, Dvorak, Qgmlwy, Colemak, Colemak-DH ANSI /
    Orth, Workman) the key event of a printable ASCII character carries that character -/
theorem ascii_roundtrip {kb : String × KbTables} (hkb : kb ∈ genericKeyboards) {a : Nat} (h1 : 32 ≤ a) (h2 : a < 127) :
    ∃ e, mapAsciiT kb.2 a = some e ∧ e.unicode = a := by
  have := allLt_spec (List.all_eq_true.mp ascii_roundtrip_tbl kb hkb) (a - 32) (by omega)
  have e : 32 + (a - 32) = a := by omega
  rw [e] at this
  split at this
  · rename_i ev hev
    exact ⟨ev, hev, by simpa using this⟩
  · cases this

/-- on Qwerty the event is the physical key of that character (position = key code = key index, not the
    `Unknown` key), and mapping its code and modifiers again returns the same event -/
theorem ascii_roundtrip_qwerty {a : Nat} (h1 : 32 ≤ a) (h2 : a < 127) :
    ∃ e, mapAsciiT qwertyKb a = some e ∧ e.unicode = a ∧ e.index = e.code ∧ e.code ≠ 0 ∧
      genericMap qwertyKb e.code e.mods = some e := by
  obtain ⟨e, he, hu⟩ := ascii_roundtrip (kb := ("qwerty", qwertyKb)) (by decide) h1 h2
  have := allLt_spec ascii_qwerty_tbl (a - 32) (by omega)
  have e' : 32 + (a - 32) = a := by omega
  rw [e'] at this
  simp only at he
  rw [he] at this
  simp only [Bool.and_eq_true, beq_iff_eq, bne_iff_ne, ne_eq, decide_eq_true_eq] at this
  exact ⟨e, he, hu, this.1.1, this.1.2, this.2⟩

/-- every keyboard produces every key index and every key code, so the key lists above (Qwerty key codes =
    key indices) can be typed on each of the 17 keyboard types' keyboards -/
theorem keyboards_surjective {kb : String × KbTables} (hkb : kb ∈ genericKeyboards) {x : Nat} (hx : x < 63) :
    (∃ code e, genericMap kb.2 code 0 = some e ∧ e.index = x) ∧
    (∃ code e, genericMap kb.2 code 0 = some e ∧ e.code = x) := by
  have := allLt_spec (List.all_eq_true.mp kb_surjective_tbl kb hkb) x hx
  simp only [Bool.and_eq_true, List.any_eq_true] at this
  obtain ⟨⟨c1, -, h1⟩, ⟨c2, -, h2⟩⟩ := this
  constructor
  · split at h1
    · rename_i e he
      exact ⟨c1, e, he, by simpa using h1⟩
    · cases h1
  · split at h2
    · rename_i e he
      exact ⟨c2, e, he, by simpa using h2⟩
    · cases h2

/-! ## The tie: from the exhaustive transition comparison to every key sequence -/

theorem layout_run_eq_runM (L : Layout) : ∀ (ops : List LOp) (c : Nat), L.run c ops = runM L.step c ops := by
  intro ops
  induction ops with
  | nil => intro c; rfl
  | cons op ops ih =>
    intro c
    unfold Layout.run runM
    cases L.step c op with
    | none => rfl
    | some p => simp only [ih]

/-- `bisim_lift` for the layouts.  `impl` stands for the real layout (observed through `read()` = the
    16-bit code, driven through `clone()`), `S` for the set of states the exhaustive run visited, `I` for the
    operations it tried from each of them.  If the visited set contains the fresh state and is closed under
    the implementation's own steps (the BFS work list ran empty) and implementation and model agree on every
    transition out of it (zero DIFF records), then on EVERY operation list over `I`, of any length, the
    implementation produces the model's run — so it never panics, every state it goes through (what `read()`
    returns after `Commit`) is well-formed, and every `Fuzzy(s)` carries a well-formed non-empty `s`. -/
theorem correspondence_lift {L : Layout} (hL : L ∈ finiteLayouts) (impl : Nat → LOp → PressResult)
    (S : Nat → Prop) (I : LOp → Prop) (h0 : S clearSyl)
    (hclosed : ∀ s i o s', S s → I i → impl s i = some (o, s') → S s')
    (hagree : ∀ s i, S s → I i → impl s i = L.step s i)
    (ops : List LOp) (hI : ∀ op ∈ ops, I op) :
    runM impl clearSyl ops = L.run clearSyl ops ∧
    ∃ tr, runM impl clearSyl ops = some tr ∧
      ∀ x ∈ tr, S x.2 ∧ WellFormed x.2 ∧ ∀ s, x.1 = .fuzzy s → WellFormed s ∧ s ≠ emptyPattern := by
  have e := bisim_lift impl L.step S I hclosed hagree ops clearSyl h0 hI
  rw [← layout_run_eq_runM] at e
  obtain ⟨tr, htr, hall⟩ := sound_layout hL ops
  refine ⟨e, tr, by rw [e, htr], fun x hx => ⟨?_, hall x hx⟩⟩
  exact runM_states impl S I hclosed ops clearSyl tr h0 hI (by rw [e, htr]) x hx

/-- the layout models read exactly one field of a key event (key index for the table-driven layouts and
    DaChen26, key code for Hsu and ET26): comparing the 63 values of that field covers every key event -/
theorem press_reads_one_field :
    (∀ L ∈ [standardL, etL, ibmL, ginyiehL, dc26L], ∀ c k, L.press c k = L.press c (mkKey k.index)) ∧
    (∀ L ∈ [hsuL, et26L], ∀ c k, L.press c k = L.press c (mkKey k.code)) := by
  constructor
  · intro L hL c k
    simp only [List.mem_cons, List.not_mem_nil, or_false] at hL
    rcases hL with rfl | rfl | rfl | rfl | rfl <;> rfl
  · intro L hL c k
    simp only [List.mem_cons, List.not_mem_nil, or_false] at hL
    rcases hL with rfl | rfl <;> rfl

/-! ## Stage B: the layouts inside the editor

`Proofs/LayoutEditor.lean`, over the validated editor model (`Model/Editor.lean`, any environment whose
layout component is one of the layout models): one key in state `EnteringSyllable` changes the pre-edit
buffer only by inserting the syllable the layout handed over. -/

/-- what the editor inserts is exactly what the layout's `read()` spelled after `Commit` (or the `Fuzzy`
    payload), it is well-formed and non-empty, and the layout is left in a well-formed state -/
theorem editor_inserts_what_layout_read {D : Type} {L : Layout} (hL : L ∈ finiteLayouts) (base : Env D Nat)
    (sh : Shared D Nat) (ev : KeyEvent) (hc : WellFormed sh.syl)
    (hne : (layoutEnv L base).hasPhrase sh.dict [emptyPattern] sh.options.lookupStrategy = false)
    (sh' : Shared D Nat) (t : Trans) (h : enteringSyllableNext (layoutEnv L base) sh ev = .ok (sh', t)) :
    WellFormed sh'.syl ∧
    (sh'.com = sh.com.clear ∨ sh'.com.inner = sh.com.inner ∨
      ∃ s com1, WellFormed s ∧ s ≠ emptyPattern ∧
        HandedOver (layoutStepFor L sh.options.lookupStrategy sh.syl (toKeyEv ev)) s ∧
        sh.com.insert (.syl s) = .ok com1 ∧ sh'.com.inner = com1.inner) := by
  obtain ⟨h1, h2⟩ := enteringSyllable_sound (finite_sound hL) base sh ev (wellFormed_iff.mp hc) hne sh' t h
  refine ⟨wellFormed_iff.mpr h1, ?_⟩
  rcases h2 with h2 | h2 | ⟨s, com1, hs, hne', hh, hi, hcm⟩
  · exact Or.inl h2
  · exact Or.inr (Or.inl h2)
  · exact Or.inr (Or.inr ⟨s, com1, wellFormed_iff.mpr hs, hne', hh, hi, hcm⟩)

/-! ## Completeness for the built-in fallback dictionary (`data/mini.src`) -/

def CompleteMini (L : Layout) : Prop := ∀ r ∈ miniReadingCodes, Enters L r

theorem complete_mini_of_complete {L : Layout} (h : Complete L) : CompleteMini L :=
  fun r hr => h r (mini_readings_subset r hr)

theorem complete_mini_table_layouts : ∀ L ∈ [standardL, etL, ibmL, ginyiehL], CompleteMini L := by
  intro L hL
  simp only [List.mem_cons, List.not_mem_nil, or_false] at hL
  rcases hL with rfl | rfl | rfl | rfl
  · exact complete_mini_of_complete complete_standard
  · exact complete_mini_of_complete complete_et
  · exact complete_mini_of_complete complete_ibm
  · exact complete_mini_of_complete complete_ginyieh

/-- for the other layouts: exactly the F21 readings that also occur in `data/mini.src` are missing -/
theorem complete_mini_26key_partial :
    (∀ r ∈ miniReadingCodes, r ∉ hsuGaps → Enters hsuL r) ∧
    (∀ r ∈ miniReadingCodes, r ∉ et26Gaps → Enters et26L r) ∧
    (∀ r ∈ miniReadingCodes, r ∉ dc26Gaps → Enters dc26L r) ∧
    (∀ v, v < 3 → ∀ r ∈ miniReadingCodes, r ∉ pinyinGaps v → PinyinEnters v r) :=
  ⟨fun r hr => complete_hsu_partial r (mini_readings_subset r hr),
   fun r hr => complete_et26_partial r (mini_readings_subset r hr),
   fun r hr => complete_dc26_partial r (mini_readings_subset r hr),
   fun v hv r hr => complete_pinyin_partial v hv r (mini_readings_subset r hr)⟩

/-! ### non-vacuity -/

example : standardL ∈ finiteLayouts ∧ dc26L ∈ finiteLayouts := by simp [finiteLayouts]
example : readingCodes.contains 10268 = true ∧ entersB standardL (tableKeysFor standardTable 10268) 10268 = true := by
  decide +kernel
example : readingCodes.contains 52 = true ∧ 52 ∈ hsuGaps ∧ readingCodes.contains 44 = true ∧ 44 ∉ hsuGaps := by
  decide +kernel
example : ("dvorak", (genericKeyboards.getD 1 ("", [], [], [])).2) ∈ genericKeyboards := by decide
/-- Dvorak-on-Qwerty does remap: `q` arrives as `'` -/
example : (mapAscii "dvorak_on_qwerty" 113).map (·.unicode) = some 39 := by decide
/-- a `hasWord` as in `sound_buffer`: membership in the shipped readings -/
example : (fun c => readingCodes.contains c) emptyPattern = false := readings_no_empty

/-- `correspondence_lift` is not vacuous: the model itself is an implementation satisfying its premises -/
example (ops : List LOp) : runM hsuL.step clearSyl ops = hsuL.run clearSyl ops :=
  (correspondence_lift (L := hsuL) (by simp [finiteLayouts]) hsuL.step (fun _ => True) (fun _ => True) trivial
    (fun _ _ _ _ _ _ _ => trivial) (fun _ _ _ _ => rfl) ops (fun _ _ => trivial)).1

/-- an environment for `editor_inserts_what_layout_read`: the dictionary is the list of syllables that have a
    word; everything the layout arms do not use is trivial -/
def wordEnv : Env (List Nat) Nat :=
  { lookupAll := fun d key _ => match key with
      | [s] => if d.contains s then [{ text := [19968], freq := 1 }] else []
      | _ => []
    userLookupAll := fun _ _ _ => []
    addPhrase := fun d _ _ => some d
    updatePhrase := fun d _ _ _ _ => d
    removePhrase := fun d _ _ => d
    reopenFlush := fun d => d
    convert := fun _ _ _ => .ok []
    estimate := fun _ _ _ => .ok 0
    keyPress := fun c _ => (.error, c)
    fuzzyKeyPress := fun c _ => (.error, c)
    removeLast := fun c => c
    clearSyl := fun c => c
    sylIsEmpty := fun _ => true
    read := fun c => c
    altSyllables := fun _ _ => [] }

/-- its hypotheses hold for the shipped readings, and the Standard layout in the state `ㄅㄚ` (keys `1 8`)
    answers Space by handing over `ㄅㄚ`, which the editor inserts -/
example :
    (layoutEnv standardL wordEnv).hasPhrase readingCodes [emptyPattern] .standard = false ∧
    (match enteringSyllableNext (layoutEnv standardL wordEnv)
        { syl := 1088, dict := readingCodes } { index := 48, code := 48, unicode := 32 } with
      | .ok (sh', _) => sh'.com.inner.symbols == [.syl 1088] && sh'.syl == clearSyl
      | _ => false) = true := by
  decide +kernel

/-! ## linked (round 2): stage B over whole key histories

`editor_inserts_what_layout_read` is about ONE key in state `EnteringSyllable`.  Here it is lifted to an
invariant of the editor model (`Model/Editor.lean`) that holds after EVERY history of key events (and of the
other public operations), in all four states, for the environment `layoutEnv L base` whose layout component is
the layout model `L` (everything else — dictionary, engines, estimator — arbitrary):

* the layout state is well formed, and
* every syllable symbol in the pre-edit buffer was handed over by the layout (it is the `Commit` reading or the
  `Fuzzy` payload of some step of `L` from a well-formed layout state), is well formed (C13) and non-empty.

Proof (`Proofs/EditorLinkSyl.lean`, `Proofs/EditorLinkSyl2.lean`): syllable symbols enter the buffer only in
`syllableAnswer` (state `EnteringSyllable`; `enteringSyllable_sound`); every arm of `Entering`, `Selecting`,
`Highlighting`, the auto-commit tail and every other entry point of `Editor` inserts / writes CHARACTER
symbols only, or removes / keeps symbols (`LinkSyl.NoNewSyl`, arm by arm, for every environment); the layout
state changes only by `key_press` / `fuzzy_key_press` / `remove_last` / `clear` of the sound layout `L`.

Relation to C01.  C01's invariant has two facts about buffered syllables that are DIFFERENT from this one:
`SylInv` (Props/C04.lean, `CInv.syl` in Proofs/C01Inv.lean) says that *selections cover syllable symbols only*,
and `ShInv.word` says that *every buffered syllable has a word in the dictionary* (a fact about the dictionary,
kept under hypotheses on learning).  Neither says where the syllable came from or that it is a well-formed
code; `BufferFromLayout` says exactly that, needs no hypothesis on the dictionary operations, and is independent
of C01 (this file does not import C01). -/

/-- `s` was handed over by layout `L`: it is the `Commit` reading or the `Fuzzy` payload of some step of `L`
    (plain or fuzzy key press) from a well-formed layout state -/
def HandedBy (L : Layout) (s : Nat) : Prop :=
  ∃ c k strat, WellFormed c ∧ HandedOver (layoutStepFor L strat c k) s

/-- invariant: the layout state is well formed and every syllable in the pre-edit buffer was handed over by
    the layout, is well formed (C13) and non-empty -/
def BufferFromLayout {D : Type} (L : Layout) (e : Editor D Nat) : Prop :=
  WellFormed e.shared.syl ∧
    ∀ s, Sym.syl s ∈ e.shared.com.inner.symbols → HandedBy L s ∧ WellFormed s ∧ s ≠ emptyPattern

theorem handedBy_iff {L : Layout} {s : Nat} : HandedBy L s ↔ LinkSyl.HandedByC L s :=
  ⟨fun ⟨c, k, strat, hc, h⟩ => ⟨c, k, strat, wellFormed_iff.mp hc, h⟩,
   fun ⟨c, k, strat, hc, h⟩ => ⟨c, k, strat, wellFormed_iff.mpr hc, h⟩⟩

theorem bufferFromLayout_iff {D : Type} {L : Layout} {e : Editor D Nat} :
    BufferFromLayout L e ↔ LinkSyl.BufInv L e.shared :=
  ⟨fun ⟨h1, h2⟩ => ⟨wellFormed_iff.mp h1, fun s hs =>
      ⟨handedBy_iff.mp (h2 s hs).1, wellFormed_iff.mp (h2 s hs).2.1, (h2 s hs).2.2⟩⟩,
   fun ⟨h1, h2⟩ => ⟨wellFormed_iff.mpr h1, fun s hs =>
      ⟨handedBy_iff.mpr (h2 s hs).1, wellFormed_iff.mpr (h2 s hs).2.1, (h2 s hs).2.2⟩⟩⟩

/-- the operations covered besides keys: all of them (`select`, `start_selecting`, `cancel_selecting`, `commit`,
    `clear`, `ack`, `clear_syllable_editor`, `set_editor_options`, `set_conversion_engine`, `learn_phrase`,
    `unlearn_phrase`, the four jumps); `set_syllable_editor` must install a well-formed layout state -/
def OpAllowed : Op Nat → Prop
  | .setLayout l => WellFormed l
  | _ => True

/-- **Stage B, every history of public operations.**  `hne`: the dictionary has no word under the empty
    syllable — for every dictionary value and strategy, because keys change the dictionary (learning). -/
theorem buffer_syllables_from_layout_ops {D : Type} {L : Layout} (hL : L ∈ finiteLayouts) (base : Env D Nat)
    (hne : ∀ d strat, (layoutEnv L base).hasPhrase d [emptyPattern] strat = false)
    (ops : List (Op Nat)) (hops : ∀ op ∈ ops, OpAllowed op) (e e' : Editor D Nat) (h0 : BufferFromLayout L e)
    (hrun : e.run (layoutEnv L base) ops = .ok e') : BufferFromLayout L e' := by
  refine bufferFromLayout_iff.mpr
    (LinkSyl.run_inv (finite_sound hL) base hne ops e e' (fun op ho => ?_) (bufferFromLayout_iff.mp h0) hrun)
  have := hops op ho
  cases op <;> first | trivial | exact wellFormed_iff.mp this

/-- **Stage B, every key history.** -/
theorem buffer_syllables_from_layout {D : Type} {L : Layout} (hL : L ∈ finiteLayouts) (base : Env D Nat)
    (hne : ∀ d strat, (layoutEnv L base).hasPhrase d [emptyPattern] strat = false)
    (keys : List KeyEvent) (e e' : Editor D Nat) (h0 : BufferFromLayout L e)
    (hrun : e.run (layoutEnv L base) (keys.map Op.key) = .ok e') : BufferFromLayout L e' :=
  bufferFromLayout_iff.mpr
    (LinkSyl.run_inv (finite_sound hL) base hne _ e e' (LinkSyl.opOK_keys keys) (bufferFromLayout_iff.mp h0) hrun)

/-- a fresh editor (empty pre-edit buffer, well-formed layout state — e.g. the cleared one) satisfies the
    invariant -/
theorem bufferFromLayout_fresh {D : Type} (L : Layout) (e : Editor D Nat) (hcom : e.shared.com = {})
    (hsyl : WellFormed e.shared.syl) : BufferFromLayout L e := by
  refine ⟨hsyl, fun s hs => ?_⟩
  rw [hcom] at hs
  cases hs

/-- from a fresh editor: after every key history every buffered syllable was handed over by the layout, is
    well formed — so it decodes and re-spells (C13) — and is not the empty syllable -/
theorem buffer_syllables_from_layout_fresh {D : Type} {L : Layout} (hL : L ∈ finiteLayouts) (base : Env D Nat)
    (hne : ∀ d strat, (layoutEnv L base).hasPhrase d [emptyPattern] strat = false)
    (keys : List KeyEvent) (e e' : Editor D Nat) (hcom : e.shared.com = {}) (hsyl : WellFormed e.shared.syl)
    (hrun : e.run (layoutEnv L base) (keys.map Op.key) = .ok e') :
    WellFormed e'.shared.syl ∧
    ∀ s, Sym.syl s ∈ e'.shared.com.inner.symbols →
      HandedBy L s ∧ WellFormed s ∧ s ≠ emptyPattern ∧ tryFromU16 s = some s ∧ parse (spell s) = .ok s := by
  obtain ⟨h1, h2⟩ := buffer_syllables_from_layout hL base hne keys e e' (bufferFromLayout_fresh L e hcom hsyl) hrun
  exact ⟨h1, fun s hs => ⟨(h2 s hs).1, (h2 s hs).2.1, (h2 s hs).2.2, wellFormed_respellable (h2 s hs).2.1⟩⟩

theorem wellFormed_clearSyl : WellFormed clearSyl := wellFormed_iff.mpr comp_clear

/-! ### non-vacuity -/

/-- the words of a dictionary that has one exactly for the shipped readings -/
def readingsLookup (key : List Nat) : List Phrase :=
  match key with
  | [s] => if readingCodes.contains s then [{ text := [19968], freq := 1 }] else []
  | _ => []

/-- an environment for `buffer_syllables_from_layout`: the dictionary (no state) has a word exactly for the
    shipped readings -/
def readingsEnv : Env Unit Nat :=
  { lookupAll := fun _ key _ => readingsLookup key
    userLookupAll := fun _ _ _ => []
    addPhrase := fun d _ _ => some d
    updatePhrase := fun d _ _ _ _ => d
    removePhrase := fun d _ _ => d
    reopenFlush := fun d => d
    convert := fun _ _ _ => .ok []
    estimate := fun _ _ _ => .ok 0
    keyPress := fun c _ => (.error, c)
    fuzzyKeyPress := fun c _ => (.error, c)
    removeLast := fun c => c
    clearSyl := fun c => c
    sylIsEmpty := fun _ => true
    read := fun c => c
    altSyllables := fun _ _ => [] }

theorem readingsLookup_empty : readingsLookup [emptyPattern] = [] := by
  simp only [readingsLookup, readings_no_empty, Bool.false_eq_true, ↓reduceIte]

/-- its `hne` hypothesis holds … -/
theorem readingsEnv_no_empty (L : Layout) :
    ∀ d strat, (layoutEnv L readingsEnv).hasPhrase d [emptyPattern] strat = false := by
  intro d strat
  simp only [Env.hasPhrase, layoutEnv, readingsEnv, readingsLookup_empty, List.head?_nil, Option.isSome_none]

/-- … and the key history `1 8 Space` on the Standard layout, from the fresh editor, goes through
    `Entering → EnteringSyllable → Entering` and really inserts the syllable `ㄅㄚ` -/
example :
    (match ({ shared := { syl := clearSyl, dict := () } } : Editor Unit Nat).run (layoutEnv standardL readingsEnv)
        ([{ index := 1, code := 1, unicode := 49 }, { index := 8, code := 8, unicode := 56 },
          { index := 48, code := 48, unicode := 32 }].map Op.key) with
      | .ok e' => e'.shared.com.inner.symbols == [.syl 520] && e'.shared.syl == clearSyl && e'.state == .entering
      | _ => false) = true := by
  decide +kernel

/-- so the theorem applies to that history -/
example (e' : Editor Unit Nat)
    (h : ({ shared := { syl := clearSyl, dict := () } } : Editor Unit Nat).run (layoutEnv standardL readingsEnv)
        ([{ index := 1, code := 1, unicode := 49 }, { index := 8, code := 8, unicode := 56 },
          { index := 48, code := 48, unicode := 32 }].map Op.key) = .ok e') : BufferFromLayout standardL e' :=
  buffer_syllables_from_layout (by simp [finiteLayouts]) readingsEnv (readingsEnv_no_empty _) _ _ e'
    (bufferFromLayout_fresh _ _ rfl wellFormed_clearSyl) h

end Chewing.C14
