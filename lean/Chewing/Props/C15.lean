import Chewing.Proofs.CStr
import Chewing.Proofs.Owned
import Chewing.Gen.CApi
import Chewing.Gen.Bopomofo
/-!
# C15 — The C API stays memory-safe and its strings well-formed under any call order

Level: **partial** (see the MANIFEST text).  What the theorems carry:

* the byte-level contract of `copy_cstr` — for ALL texts and ALL capacities ≥ 1 the buffer holds a NUL-terminated,
  valid-UTF-8, longest whole-character prefix of the text; it is the whole text (= the heap variant) whenever the
  text is shorter than the buffer (`cstr_wellformed`, `cstr_wellformed_all`, `static_eq_heap_partial`);
* the byte-level contract of every write into a buffer the CALLER supplies (`chewing_userphrase_get`,
  `chewing_phone_to_bopomofo`; the translator enumerates every `*mut c_char` parameter) — for ALL texts and ALL
  capacities the bytes written stay inside the capacity, the buffer is NUL-terminated valid UTF-8 cut at a character
  boundary, the whole text when it fits (`caller_copy_in_bounds`, `caller_copy_len_le`, `fit_copy_in_bounds`,
  `caller_buf_params_reviewed`; `old_caller_copy_refuted` for the byte cut before the fix);
* the ownership protocol — all FOUR stored iterators own their data (since `fix: chewing_userphrase_enumerate takes a
  snapshot …` the user-phrase iterator too; since `fix: chewing_kbtype_String stops at the end …` the keyboard-type
  counter is fused): every call other than `chewing_free` is defined in every state (`collected_iters_safe`,
  `ub_only_at`), NO history of calls whatsoever is undefined (`history_defined`, `userphrase_iter_safe` — the former
  finding F22, refuted for the code before the fix in `old_userphrase_iter_refuted`), an interleaved call cannot change
  a pending user-phrase enumeration (`userphrase_iter_frame`: it is a snapshot), an exhausted enumeration stays
  exhausted (`kbtype_walk_total`; `old_kbtype_counter_refuted` for the earlier `u8` counter), and under the allocator's
  contract every live heap result is registered with its true kind and released by `chewing_free` (`history_ok`,
  `free_releases`, `free_total`);
* `chewing_config_get_str("chewing.selection_keys")` hands out valid UTF-8 (one character per key) or ERROR for EVERY
  array of integers the legacy setters may have stored (`selkeys_getter_wellformed`);
* table facts regenerated from the source: buffer capacities, keyboard names < 32 bytes, the syllable buffer
  text < 16 bytes, the inventory of exported functions / `unsafe` blocks / iterator sites.

"The process performs no invalid access" is inferred through the ghost model (validated against valgrind memcheck
and a layout-checking allocator by the harness) and Rust's type system for the safe code; it is not a theorem.
-/
namespace Chewing.C15
open Chewing.CStr Chewing.Owned Chewing.Gen.CApi

/-! ## 1. Strings -/

/-- **cstr_wellformed** (DESIGN §8).  For every byte string shorter than the buffer, `copy_cstr` leaves the string
followed by NULs — for all strings and all capacities. -/
theorem cstr_wellformed (cap : Nat) (s : List Nat) (h : s.length < cap) :
    copyCstr cap s = s ++ List.replicate (cap - s.length) 0 := by
  unfold copyCstr copyLen
  have : min (cap - 1) s.length = s.length := by omega
  rw [this, floorBoundary_length, List.take_length]

/-- … hence NUL-terminated, and the C reader sees exactly the text the heap variant (`CString::new`) holds. -/
theorem cstr_text_eq_heap (cap : Nat) (s : List Nat) (h : s.length < cap) (h0 : ∀ b ∈ s, b ≠ 0) :
    cText (copyCstr cap s) = some s ∧ ∃ buf, heapCstr s = some buf ∧ cText buf = some s := by
  refine ⟨?_, heapCstr_text s h0⟩
  rw [cstr_wellformed cap s h]
  obtain ⟨m, hm⟩ : ∃ m, cap - s.length = m + 1 := ⟨cap - s.length - 1, by omega⟩
  rw [hm]; exact cText_append_zeros s h0 m

/-- the text of a Rust `str`: scalar values; the C API never stores U+0000 in a text it returns -/
def IsText (cs : List Nat) : Prop := ∀ c ∈ cs, IsScalar c ∧ c ≠ 0

/-- **cstr_wellformed_all** (after `fix: copy_cstr …`).  For EVERY text and every capacity ≥ 1 the buffer is
`cap` bytes long, NUL-terminated, and what a C reader sees is the encoding of the longest whole-character prefix
`cs.take k` that fits in `cap - 1` bytes — valid UTF-8 that decodes to that prefix; the whole text iff it fits. -/
theorem cstr_wellformed_all (cap : Nat) (hcap : 1 ≤ cap) (cs : List Nat) (hcs : IsText cs) :
    (copyCstr cap (utf8Encode cs)).length = cap ∧
    ∃ k, k ≤ cs.length ∧
      cText (copyCstr cap (utf8Encode cs)) = some (utf8Encode (cs.take k)) ∧
      utf8Decode (utf8Encode (cs.take k)) = some (cs.take k) ∧
      utf8Len (cs.take k) ≤ cap - 1 ∧
      (k = cs.length ∨ cap - 1 < utf8Len (cs.take (k + 1))) ∧
      (utf8Len cs < cap → k = cs.length) := by
  have hlt : ∀ c ∈ cs, c < 0x110000 := fun c hc => (hcs c hc).1.lt
  have hmin : min (cap - 1) (utf8Encode cs).length ≤ (utf8Encode cs).length := Nat.min_le_right _ _
  obtain ⟨k, hk, hfl, hmax⟩ := floorBoundary_encode cs hlt _ hmin
  have hle : copyLen cap (utf8Encode cs) ≤ cap - 1 := by
    unfold copyLen
    exact Nat.le_trans (floorBoundary_le _ _) (Nat.min_le_left _ _)
  have hle' : copyLen cap (utf8Encode cs) ≤ (utf8Encode cs).length := by
    unfold copyLen
    exact Nat.le_trans (floorBoundary_le _ _) (Nat.min_le_right _ _)
  have hcl : copyLen cap (utf8Encode cs) = (utf8Encode (cs.take k)).length := hfl
  refine ⟨?_, k, hk, ?_, ?_, ?_, ?_, ?_⟩
  · unfold copyCstr; simp only [List.length_append, List.length_take, List.length_replicate]; omega
  · unfold copyCstr
    rw [hcl, take_encode_prefix]
    obtain ⟨m, hm⟩ : ∃ m, cap - (utf8Encode (cs.take k)).length = m + 1 :=
      ⟨cap - (utf8Encode (cs.take k)).length - 1, by omega⟩
    rw [hm]
    apply cText_append_zeros
    apply utf8Encode_nonzero
    intro c hc; exact (hcs c (List.mem_of_mem_take hc)).2
  · exact decode_encode _ (fun c hc => (hcs c (List.mem_of_mem_take hc)).1)
  · unfold utf8Len; omega
  · rcases hmax with h | h
    · exact Or.inl h
    · right
      unfold utf8Len
      by_cases hfit : (utf8Encode cs).length ≤ cap - 1
      · -- the whole text fits: the prefix of k+1 characters is no longer than the text, contradiction unless …
        exfalso
        rw [Nat.min_eq_right hfit] at h
        have : (utf8Encode (cs.take (k + 1))).length ≤ (utf8Encode cs).length := by
          conv => rhs; rw [← List.take_append_drop (k + 1) cs, utf8Encode_append]
          simp
        omega
      · rw [Nat.min_eq_left (by omega)] at h; exact h
  · intro hfit
    unfold utf8Len at hfit
    rcases hmax with h | h
    · exact h
    · exfalso
      rw [Nat.min_eq_right (by omega)] at h
      have : (utf8Encode (cs.take (k + 1))).length ≤ (utf8Encode cs).length := by
        conv => rhs; rw [← List.take_append_drop (k + 1) cs, utf8Encode_append]
        simp
      omega

/-- in particular: every string a static getter returns is NUL-terminated valid UTF-8 -/
theorem static_text_valid (cap : Nat) (hcap : 1 ≤ cap) (cs : List Nat) (hcs : IsText cs) :
    ∃ t, cText (copyCstr cap (utf8Encode cs)) = some t ∧ ValidUtf8 t := by
  obtain ⟨_, k, _, ht, hd, _⟩ := cstr_wellformed_all cap hcap cs hcs
  exact ⟨_, ht, by unfold ValidUtf8; rw [hd]; rfl⟩

/-- the heap variant holds the whole text, NUL-terminated, valid UTF-8 -/
theorem heap_text_valid (cs : List Nat) (hcs : IsText cs) :
    ∃ buf, heapCstr (utf8Encode cs) = some buf ∧ cText buf = some (utf8Encode cs) ∧ ValidUtf8 (utf8Encode cs) := by
  obtain ⟨buf, h1, h2⟩ := heapCstr_text (utf8Encode cs) (utf8Encode_nonzero cs (fun c hc => (hcs c hc).2))
  exact ⟨buf, h1, h2, valid_encode cs (fun c hc => (hcs c hc).1)⟩

/-- FULL statement "the static-buffer and heap variants of a getter return the same text", for a buffer of `cap` bytes -/
def StaticEqHeap (cap : Nat) : Prop :=
  ∀ cs, IsText cs → cText (copyCstr cap (utf8Encode cs)) = some (utf8Encode cs)

/-- **refuted** for every fixed capacity (known finding F35: a pre-edit text longer than the 256-byte buffer is
reachable — word-less syllables displayed as their spelling after an engine change): `cap` letters `a` do not fit -/
theorem static_eq_heap_refuted (cap : Nat) (hcap : 1 ≤ cap) : ¬ StaticEqHeap cap := by
  intro h
  have hcs : IsText (List.replicate cap 97) := by
    intro c hc; rw [List.eq_of_mem_replicate hc]; exact ⟨Or.inl (by omega), by omega⟩
  have hlen : ∀ n, (utf8Encode (List.replicate n 97)).length = n := by
    intro n; induction n with
    | zero => rfl
    | succ n ih => simp [List.replicate_succ, utf8Encode, encChar, ih]
  obtain ⟨_, k, _, ht, _, hk, _⟩ := cstr_wellformed_all cap hcap _ hcs
  rw [h _ hcs] at ht
  have := congrArg List.length (Option.some.inj ht)
  unfold utf8Len at hk
  rw [hlen] at this
  omega

/-- **partial**: the two variants agree for every text shorter than the buffer (excluded class: F35 `same-overlong`) -/
theorem static_eq_heap_partial (cap : Nat) (cs : List Nat) (hcs : IsText cs) (hfit : utf8Len cs < cap) :
    cText (copyCstr cap (utf8Encode cs)) = some (utf8Encode cs) :=
  (cstr_text_eq_heap cap _ hfit (utf8Encode_nonzero cs (fun c hc => (hcs c hc).2))).1

/-- the code BEFORE the fix (recorded as `fixed:`): a text of exactly the buffer size was stored without a NUL, and a
longer one could be cut inside a character — two `測` (6 bytes) into 4 bytes: no terminator, invalid UTF-8 -/
theorem old_copy_cstr_refuted :
    cText (copyCstrOld 4 (utf8Encode [0x6E2C, 0x6E2C])) = none ∧
    utf8Decode (copyCstrOld 4 (utf8Encode [0x6E2C, 0x6E2C])) = none := by
  constructor <;> decide

/-! ### text written into a buffer the CALLER supplies

`chewing_userphrase_get(ctx, phrase_buf, phrase_len, bopomofo_buf, bopomofo_len)` and
`chewing_phone_to_bopomofo(phone, buf, len)` write into memory the library does not own: the only bound is the length
the caller passes — whatever it is (the caller may pass less than `chewing_userphrase_has_next` reported). -/

/-- the number of bytes `copy_cstr_to_caller` writes never exceeds the capacity — for EVERY byte string (valid UTF-8 or
not) and EVERY capacity; nothing at all is written into a buffer of 0 bytes -/
theorem caller_copy_len_le (cap : Nat) (s : List Nat) :
    (callerCopy cap s).length ≤ cap ∧ (cap = 0 → callerCopy cap s = []) := by
  unfold callerCopy
  by_cases h : cap = 0
  · simp [h]
  · have hle : copyLen cap s ≤ cap - 1 := by
      unfold copyLen; exact Nat.le_trans (floorBoundary_le _ _) (Nat.min_le_left _ _)
    simp only [if_neg h, List.length_append, List.length_take, List.length_cons, List.length_nil]
    exact ⟨by omega, fun h0 => absurd h0 h⟩

/-- FULL contract of a truncating caller-buffer write `w` of the text `cs` into `cap` bytes: in bounds; nothing for
`cap = 0`; else the encoding of a whole-character prefix `cs.take k` followed by one NUL — so whatever the buffer held
before (`old`, `cap` bytes), a C reader now sees exactly that prefix, which is valid UTF-8 decoding to `cs.take k`, the
longest prefix that fits, and the whole text whenever the text fits -/
def CallerCopyContract (cap : Nat) (cs w : List Nat) : Prop :=
  w.length ≤ cap ∧ (cap = 0 → w = []) ∧
  (1 ≤ cap → ∃ k, k ≤ cs.length ∧
    w = utf8Encode (cs.take k) ++ [0] ∧
    (∀ old, cText (overwrite w old) = some (utf8Encode (cs.take k))) ∧
    utf8Decode (utf8Encode (cs.take k)) = some (cs.take k) ∧
    (k = cs.length ∨ cap - 1 < utf8Len (cs.take (k + 1))) ∧
    (utf8Len cs < cap → k = cs.length))

/-- **caller_copy_in_bounds**: `copy_cstr_to_caller` (after `fix: chewing_userphrase_get truncates at a character
boundary`) meets the full contract for ALL texts and ALL capacities -/
theorem caller_copy_in_bounds (cap : Nat) (cs : List Nat) (hcs : IsText cs) :
    CallerCopyContract cap cs (callerCopy cap (utf8Encode cs)) := by
  refine ⟨(caller_copy_len_le cap _).1, (caller_copy_len_le cap _).2, fun hcap => ?_⟩
  obtain ⟨_, k, hk, ht, hd, _, hmax, hfit⟩ := cstr_wellformed_all cap hcap cs hcs
  have hlt : ∀ c ∈ cs, c < 0x110000 := fun c hc => (hcs c hc).1.lt
  have hmin : min (cap - 1) (utf8Encode cs).length ≤ (utf8Encode cs).length := Nat.min_le_right _ _
  -- the prefix length of `copyLen` is a whole number of characters; identify it with the `k` of `copy_cstr`
  have hnz : ∀ b ∈ utf8Encode (cs.take k), b ≠ 0 :=
    utf8Encode_nonzero _ (fun c hc => (hcs c (List.mem_of_mem_take hc)).2)
  have hcl : (utf8Encode cs).take (copyLen cap (utf8Encode cs)) = utf8Encode (cs.take k) := by
    -- from `ht`: the text of `copyCstr` is the copied prefix
    have hle : copyLen cap (utf8Encode cs) ≤ cap - 1 := by
      unfold copyLen; exact Nat.le_trans (floorBoundary_le _ _) (Nat.min_le_left _ _)
    have hpre : ∀ b ∈ (utf8Encode cs).take (copyLen cap (utf8Encode cs)), b ≠ 0 := fun b hb =>
      utf8Encode_nonzero cs (fun c hc => (hcs c hc).2) b (List.mem_of_mem_take hb)
    obtain ⟨m, hm⟩ : ∃ m, cap - copyLen cap (utf8Encode cs) = m + 1 :=
      ⟨cap - copyLen cap (utf8Encode cs) - 1, by omega⟩
    have := cText_append_zeros _ hpre m
    unfold copyCstr at ht
    rw [hm, this] at ht
    exact Option.some.inj ht
  have hw : callerCopy cap (utf8Encode cs) = utf8Encode (cs.take k) ++ [0] := by
    unfold callerCopy; rw [if_neg (by omega), hcl]
  refine ⟨k, hk, hw, fun old => ?_, hd, hmax, hfit⟩
  rw [hw]; unfold overwrite
  rw [List.append_assoc]
  exact cText_append_zero_cons _ hnz _

/-- in particular: what `chewing_userphrase_get` leaves in either buffer of ≥ 1 byte is NUL-terminated valid UTF-8 -/
theorem caller_text_valid (cap : Nat) (hcap : 1 ≤ cap) (cs : List Nat) (hcs : IsText cs) (old : List Nat) :
    ∃ t, cText (overwrite (callerCopy cap (utf8Encode cs)) old) = some t ∧ ValidUtf8 t := by
  obtain ⟨_, _, h⟩ := caller_copy_in_bounds cap cs hcs
  obtain ⟨k, _, _, ht, hd, _⟩ := h hcap
  exact ⟨_, ht old, by unfold ValidUtf8; rw [hd]; rfl⟩

/-- the caller's buffer keeps its length: an in-bounds write over `cap` bytes leaves `cap` bytes -/
theorem overwrite_length (w old : List Nat) (h : w.length ≤ old.length) : (overwrite w old).length = old.length := by
  unfold overwrite; simp only [List.length_append, List.length_drop]; omega

/-- the code BEFORE that fix (recorded as `fixed:` F35b): in bounds and NUL-terminated, but the cut fell wherever byte
`cap - 1` was — `測` (3 bytes) into a 3-byte buffer left the first two bytes of the character: not valid UTF-8 -/
theorem old_caller_copy_refuted :
    callerCopyOld 3 (utf8Encode [0x6E2C]) = [0xE6, 0xB8, 0] ∧ utf8Decode [0xE6, 0xB8] = none ∧
    ¬ CallerCopyContract 3 [0x6E2C] (callerCopyOld 3 (utf8Encode [0x6E2C])) := by
  refine ⟨by decide, by decide, fun h => ?_⟩
  obtain ⟨k, hk, hw, _⟩ := h.2.2 (by omega)
  have h1 : callerCopyOld 3 (utf8Encode [0x6E2C]) = [0xE6, 0xB8, 0] := by decide
  rw [h1] at hw
  have hk' : k = 0 ∨ k = 1 := by simp at hk; omega
  rcases hk' with rfl | rfl
  · exact absurd hw (by decide)
  · exact absurd hw (by decide)

/-- `chewing_phone_to_bopomofo`: all or nothing — in bounds for every text and capacity; the whole text and one NUL when
the caller's length admits it, not a single byte otherwise -/
theorem fit_copy_in_bounds (cap : Nat) (s : List Nat) :
    (fitCopy cap s).length ≤ cap ∧
    (s.length + 1 ≤ cap → fitCopy cap s = s ++ [0]) ∧ (cap < s.length + 1 → fitCopy cap s = []) := by
  unfold fitCopy
  by_cases h : s.length + 1 ≤ cap
  · rw [if_pos h]
    exact ⟨by simp only [List.length_append, List.length_cons, List.length_nil]; omega, fun _ => rfl, fun h' => by omega⟩
  · rw [if_neg h]
    exact ⟨Nat.zero_le _, fun h' => absurd h' h, fun _ => rfl⟩

/-- … and when it is written, the reader sees the text itself (the syllable texts contain no NUL: `bopo_chars_short`) -/
theorem fit_copy_text (cap : Nat) (s : List Nat) (hs : ∀ b ∈ s, b ≠ 0) (h : s.length + 1 ≤ cap) (old : List Nat) :
    cText (overwrite (fitCopy cap s) old) = some s := by
  rw [(fit_copy_in_bounds cap s).2.1 h]; unfold overwrite
  rw [List.append_assoc]; exact cText_append_zero_cons s hs _

/-- the translator's enumeration of EVERY `*mut c_char` parameter of an exported function is the reviewed one — three
caller buffers, two written by `copy_cstr_to_caller`, one all-or-nothing; a new caller buffer in capi/src/io.rs
breaks this theorem (and the harness's `cstr callerparams` record) -/
theorem caller_buf_params_reviewed :
    callerBufParams = [("chewing_phone_to_bopomofo", "buf", "len", 1),
                       ("chewing_userphrase_get", "bopomofo_buf", "bopomofo_len", 0),
                       ("chewing_userphrase_get", "phrase_buf", "phrase_len", 0)] ∧ callerCopyShape = 1 := by decide

example : callerCopy 3 (utf8Encode [0x6E2C]) = [0] ∧ callerCopy 4 (utf8Encode [0x6E2C]) = [0xE6, 0xB8, 0xAC, 0] ∧
    callerCopy 0 (utf8Encode [0x6E2C]) = [] ∧ callerCopy 6 (utf8Encode [0x6E2C, 0x8A66]) = [0xE6, 0xB8, 0xAC, 0] := by decide
example : cText (overwrite (callerCopy 6 (utf8Encode [0x6E2C, 0x8A66])) [7, 7, 7, 7, 7, 7]) = some [0xE6, 0xB8, 0xAC] ∧
    overwrite (callerCopy 6 (utf8Encode [0x6E2C, 0x8A66])) [7, 7, 7, 7, 7, 7] = [0xE6, 0xB8, 0xAC, 0, 7, 7] := by decide
example : fitCopy 9 [0xE3, 0x84, 0x98] = [0xE3, 0x84, 0x98, 0] ∧ fitCopy 3 [0xE3, 0x84, 0x98] = [] := by decide

/-- the translator recognised the fixed shapes of `copy_cstr`, of `chewing_free`, of the user-phrase iterator (an owned
`vec::IntoIter` filled by `entries().collect()`, no borrow of the dictionary), of the fused keyboard-type counter and
of the selection-keys arm of `chewing_config_get_str` (chars collected into a `String`, `CString::new`) -/
theorem source_shapes :
    copyCstrShape = 1 ∧ freeShape = 1 ∧ freeRemoves = 1 ∧ userphraseIterBorrows = 0 ∧ kbIterFused = 1 ∧
    selKeysGetterShape = 1 := by decide

/-! ### the selection keys as a string

`chewing_set_selKey` / `chewing_Configure` store ANY ten integers (finding F05b of C16: not only ASCII codes);
`chewing_config_get_str("chewing.selection_keys")` must still hand out well-formed text. -/

theorem selKeysChars_lt (keys : List Int) : ∀ c ∈ selKeysChars keys, c < 256 := by
  intro c hc
  obtain ⟨k, _, rfl⟩ := List.mem_map.mp hc
  omega

theorem zero_mem_utf8Encode (cs : List Nat) (h : 0 ∈ cs) : 0 ∈ utf8Encode cs := by
  induction cs with
  | nil => cases h
  | cons c r ih =>
    simp only [utf8Encode, List.mem_append]
    rcases List.mem_cons.mp h with h0 | hr
    · left; rw [← h0]; decide
    · right; exact ih hr

/-- **selkeys_getter_wellformed**: for EVERY ten (or any number of) integers the context may hold as selection keys —
Latin-1 codes, 0, values beyond a byte, negative values — the getter either reports ERROR, exactly when some key's low
byte is 0, or hands out a NUL-terminated buffer whose text is valid UTF-8 and decodes to one character per key, the
key's low byte as a code point. -/
theorem selkeys_getter_wellformed (keys : List Int) :
    (selKeysCStr keys = none ↔ ∃ k ∈ keys, k % 256 = 0) ∧
    ∀ buf, selKeysCStr keys = some buf →
      cText buf = some (utf8Encode (selKeysChars keys)) ∧
      utf8Decode (utf8Encode (selKeysChars keys)) = some (selKeysChars keys) ∧
      ValidUtf8 (utf8Encode (selKeysChars keys)) := by
  have hsc : ∀ c ∈ selKeysChars keys, IsScalar c := fun c hc => Or.inl (by have := selKeysChars_lt keys c hc; omega)
  have hzero : (0 ∈ selKeysChars keys) ↔ ∃ k ∈ keys, k % 256 = 0 := by
    unfold selKeysChars
    constructor
    · intro h
      obtain ⟨k, hk, h0⟩ := List.mem_map.mp h
      exact ⟨k, hk, by omega⟩
    · rintro ⟨k, hk, h0⟩
      exact List.mem_map.mpr ⟨k, hk, by omega⟩
  constructor
  · unfold selKeysCStr heapCstr
    constructor
    · intro h
      by_cases hz : 0 ∈ utf8Encode (selKeysChars keys)
      · apply hzero.mp
        apply Classical.byContradiction
        intro hn
        exact utf8Encode_nonzero _ (fun c hc h0 => hn (h0 ▸ hc)) 0 hz rfl
      · rw [if_neg hz] at h; cases h
    · intro h
      rw [if_pos (zero_mem_utf8Encode _ (hzero.mpr h))]
  · intro buf hb
    have hnz : ∀ b ∈ utf8Encode (selKeysChars keys), b ≠ 0 := by
      intro b hbm h0
      unfold selKeysCStr heapCstr at hb
      rw [if_pos (h0 ▸ hbm)] at hb; cases hb
    obtain ⟨buf', h1, h2⟩ := heapCstr_text _ hnz
    unfold selKeysCStr at hb
    rw [h1] at hb
    cases hb
    exact ⟨h2, decode_encode _ hsc, valid_encode _ hsc⟩

/-- a C string built from the RAW low bytes instead (NOT the code; the shape the translator rejects and the harness
oracle catches): ten keys 0xE9 — the keysym of `é` — would be handed out as ten bytes 0xE9, which is not UTF-8 -/
theorem raw_selkeys_refuted :
    ∃ buf, selKeysCStrRaw (List.replicate 10 0xE9) = some buf ∧ cText buf = some (List.replicate 10 0xE9) ∧
      ¬ ValidUtf8 (List.replicate 10 0xE9) := ⟨_, rfl, by decide, by unfold ValidUtf8; decide⟩

/-- … while the code hands out `é` ten times: 20 bytes `C3 A9`; and an array with 0 in unused slots is an ERROR -/
example : (selKeysCStr (List.replicate 10 0xE9)).bind cText = some ((List.replicate 10 [0xC3, 0xA9]).flatten) := by decide
example : selKeysCStr [49, 50, 51, 52, 53, 0, 0, 0, 0, 0] = none ∧ selKeysCStr [256, 49, 50, 51, 52, 53, 54, 55, 56, 57] = none := by
  decide
example : (selKeysCStr [-1, -128, 0x1E9, 65]).bind cText = some [0xC3, 0xBF, 0xC2, 0x80, 0xC3, 0xA9, 65] := by decide

/-! ## 2. Buffers suffice (tables regenerated from the source) -/

def capOf (field : String) : Nat := ((ctxBuffers.find? (fun p => p.1 == field)).map (·.2)).getD 0

/-- the capacities the model and the harness use are the ones declared in `struct ChewingContext` -/
theorem buffers_reviewed :
    ctxBuffers = [("commit_buf", 256), ("preedit_buf", 256), ("bopomofo_buf", 16), ("cand_buf", 256),
                  ("aux_buf", 256), ("kbtype_buf", 32)] := by decide

/-- every static getter writes one of these buffers, each of capacity ≥ 1 (so `cstr_wellformed_all` applies) -/
theorem static_getters_buffers : ∀ g ∈ staticGetters, 1 ≤ capOf g.2 := by decide

theorem static_getters_reviewed :
    staticGetters.map (·.1) = ["chewing_commit_String_static", "chewing_buffer_String_static",
      "chewing_bopomofo_String_static", "chewing_cand_String_static", "chewing_cand_string_by_index_static",
      "chewing_aux_String_static", "chewing_kbtype_String_static"] := by decide

/-- Bool form of the check below (kernel-evaluated on the generated table) -/
def kbNamesOk : Bool :=
  kbNames.all fun n => decide (n.length < capOf "kbtype_buf") && n.all fun b => b != 0 && decide (b < 128)

theorem kbNamesOk_true : kbNamesOk = true := by decide

/-- keyboard-type names are ASCII without NUL and shorter than their buffer: `kbtype_String_static = kbtype_String` -/
theorem kbnames_fit : ∀ n ∈ kbNames, n.length < capOf "kbtype_buf" ∧ ∀ b ∈ n, b ≠ 0 ∧ b < 128 := by
  intro n hn
  have h := kbNamesOk_true
  unfold kbNamesOk at h
  rw [List.all_eq_true] at h
  have h1 := h n hn
  simp only [Bool.and_eq_true, decide_eq_true_eq, List.all_eq_true, bne_iff_ne, ne_eq] at h1
  exact ⟨h1.1, fun b hb => h1.2 b hb⟩

theorem kbnames_static_eq_heap (n : List Nat) (hn : n ∈ kbNames) :
    copyCstr (capOf "kbtype_buf") n = n ++ List.replicate (capOf "kbtype_buf" - n.length) 0 :=
  cstr_wellformed _ n (kbnames_fit n hn).1

theorem bopo_chars_short : ∀ c ∈ Chewing.Gen.bopoChar, (encChar c).length ≤ 3 ∧ IsScalar c ∧ c ≠ 0 := by decide

/-- a syllable is displayed with at most four Bopomofo symbols: its text is shorter than `bopomofo_buf` -/
theorem bopomofo_fits (syms : List Nat) (hn : syms.length ≤ 4) (hs : ∀ c ∈ syms, c ∈ Chewing.Gen.bopoChar) :
    utf8Len syms < capOf "bopomofo_buf" := by
  have key : ∀ l : List Nat, (∀ c ∈ l, c ∈ Chewing.Gen.bopoChar) → utf8Len l ≤ 3 * l.length := by
    intro l
    induction l with
    | nil => intro _; simp [utf8Len, utf8Encode]
    | cons c r ih =>
      intro h
      have h1 := (bopo_chars_short c (h c (by simp))).1
      have h2 := ih (fun x hx => h x (by simp [hx]))
      unfold utf8Len at *
      simp only [utf8Encode, List.length_append, List.length_cons]
      omega
  have := key syms hs
  have hc : capOf "bopomofo_buf" = 16 := by decide
  omega

/-- Pinyin layouts display the typed keys: at most `MAX_PINYIN_LEN` ASCII letters -/
theorem pinyin_fits : maxPinyinLen < capOf "bopomofo_buf" := by decide

/-! ## 3. Inventory of the unsafe surface (a new exported function / unsafe block / iterator site breaks these) -/

/- reviewed at the integration of C01's F06 fix (`fix: chewing_userphrase_get truncates …`): the two in-line
   `slice::from_raw_parts_mut(buf, size)` + unchecked copies of `chewing_userphrase_get` became two calls of the new
   helper `copy_cstr_to_caller(buf, cap, src)`, which writes `min(src.len(), cap-1) + 1 ≤ cap` bytes and nothing for
   `cap = 0` (one `unsafe` block more, one helper more; exported functions unchanged). -/
set_option maxRecDepth 10000 in
theorem inventory :
    exportedFns.length = 126 ∧ unsafeBlocksTotal = 65 ∧
    helperUnsafeFns = ["slice_from_ptr_with_nul", "copy_cstr_to_caller", "str_from_ptr_with_nul"] ∧
    ownedKinds = ["CString", "CUShortSlice"] ∧
    iterFields = ["kbcompat_iter", "cand_iter", "interval_iter", "userphrase_iter"] := by decide

/-- the functions that hand out heap results: ten `CString` getters and the phone sequence (`u16` slice) — each
registers its result in `OWNED` (the translator rejects an `into_raw` that is not wrapped in `owned_into_raw`) -/
theorem heap_getters_reviewed :
    heapGetters = [("chewing_config_get_str", 0), ("chewing_get_KBString", 0), ("chewing_get_phoneSeq", 1),
      ("chewing_commit_String", 0), ("chewing_buffer_String", 0), ("chewing_bopomofo_String", 0),
      ("chewing_cand_String", 0), ("chewing_cand_string_by_index", 0), ("chewing_aux_String", 0),
      ("chewing_kbtype_String", 0), ("chewing_zuin_String", 0)] := by decide

/-- each stored iterator is touched by exactly its enumerate / hasNext / get functions, and by `chewing_Reset`,
    which drops all four (C17 fix "chewing_Reset drops the pending enumeration iterators"; model op `.reset`) -/
theorem iter_sites_reviewed :
    iterSites =
      [("kbcompat_iter", ["chewing_Reset", "chewing_kbtype_Enumerate", "chewing_kbtype_hasNext", "chewing_kbtype_String",
                          "chewing_kbtype_String_static"]),
       ("cand_iter", ["chewing_Reset", "chewing_cand_Enumerate", "chewing_cand_hasNext", "chewing_cand_String",
                      "chewing_cand_String_static"]),
       ("interval_iter", ["chewing_Reset", "chewing_interval_Enumerate", "chewing_interval_hasNext", "chewing_interval_Get"]),
       ("userphrase_iter", ["chewing_Reset", "chewing_userphrase_enumerate", "chewing_userphrase_has_next",
                            "chewing_userphrase_get"])] := by decide

/-- functions classified as possibly mutating the user dictionary take the context mutably, and none of the
functions of the user-phrase protocol itself is among them -/
theorem dict_mut_sane :
    (∀ f ∈ dictMutFns, (exportedFns.find? (fun r => r.1 == f)).map (·.2.1) = some 2) ∧
    "chewing_userphrase_enumerate" ∉ dictMutFns ∧ "chewing_userphrase_has_next" ∉ dictMutFns ∧
    "chewing_userphrase_get" ∉ dictMutFns := by decide

/-! ## 4. Ownership protocol -/

/-- every call that is not `chewing_free`: the operations on the FOUR stored iterators (candidates, intervals,
keyboard types, user phrases) and every call without an arm of its own -/
def IsCollectedOp (op : Op) : Prop := ∀ a, op ≠ .free a

/-- **collected_iters_safe**: the candidate, interval, keyboard-type AND user-phrase iterators own their data — in
EVERY state of the context (after any history, mutating calls included) every operation on them is defined. -/
theorem collected_iters_safe (c : Ctx) (op : Op) (h : IsCollectedOp op) : ∃ c' r, step c op = .ok (c', r) :=
  step_collected_ok c op h

/-- undefined behaviour can only arise at `chewing_free` (and only on a registry that names a block which is not a
live result of that kind — never the case after a history, see `history_defined`) -/
theorem ub_only_at (c : Ctx) (op : Op) (s : String) (h : step c op = .ub s) : ∃ a, op = .free a := by
  by_cases h3 : ∃ a, op = .free a
  · exact h3
  · exfalso
    obtain ⟨c', r, hs⟩ := step_collected_ok c op (fun a ha => h3 ⟨a, ha⟩)
    rw [hs] at h; cases h

/-- **history_defined** — the FULL statement of the ownership half of C15: NO history of calls, in any order, of any
length, with any arguments (any pointer passed to `chewing_free`, any address handed out by the allocator), makes the
context use an invalid object.  No premise. -/
theorem history_defined (ops : List Op) : ∃ c rs, run init ops = .ok (c, rs) := by
  obtain ⟨c, rs, h, _⟩ := run_defined ops init regSound_init
  exact ⟨c, rs, h⟩

/-- FULL statement for the user-phrase enumeration: no history makes it touch a stale dictionary -/
def UserphraseIterSafe : Prop := ∀ ops, run init ops ≠ .ub "userphrase_iter"

/-- **userphrase_iter_safe** (the former finding F22, now a theorem at full strength) -/
theorem userphrase_iter_safe : UserphraseIterSafe := by
  intro ops h
  obtain ⟨c, rs, hr⟩ := history_defined ops
  rw [hr] at h; cases h

/-- F22 witness: enumerate, get, a key that learns (⇒ reload replaces the `Trie`), get -/
def witnessF22 : List Op := [.upEnumerate 3, .upGet, .mutate, .upGet]

/-- the code BEFORE `fix: chewing_userphrase_enumerate takes a snapshot …` (recorded as `fixed:`): the stored iterator
borrowed the dictionary, the witness history was undefined at its last call; `Peekable`'s cached entry was an owned
clone, so a `has_next` before the mutation made the NEXT `get` safe and the one after it undefined -/
theorem old_userphrase_iter_refuted :
    runWith stepBorrow init witnessF22 = .ub "userphrase_iter" ∧
    runWith stepBorrow init [.upEnumerate 3, .upHasNext, .mutate, .upGet, .upGet] = .ub "userphrase_iter" ∧
    (runWith stepBorrow init [.upEnumerate 3, .upHasNext, .mutate, .upGet]).results = some [0, 1, 0, 0] := by
  refine ⟨by decide, by decide, by decide⟩

/-- the same histories on the current code: defined, and the enumeration goes on over the snapshot of 3 entries -/
example : (run init witnessF22).results = some [0, 0, 0, 0] := by decide
example : (run init [.upEnumerate 3, .upHasNext, .mutate, .upGet, .upGet, .upGet, .upGet, .upHasNext]).results =
    some [0, 1, 0, 0, 0, 0, -1, 0] := by decide

/-- calls that write the stored user-phrase iterator -/
def touchesU : Op → Bool
  | .reset | .upEnumerate _ | .upHasNext | .upGet => true
  | _ => false

/-- **userphrase_iter_frame** (the enumeration is a SNAPSHOT taken at `chewing_userphrase_enumerate`): no other call —
learning keys, `chewing_userphrase_add` / `remove`, anything — changes the pending enumeration … -/
theorem userphrase_iter_frame (c : Ctx) (op : Op) (h : touchesU op = false) (c' : Ctx) (r : Res)
    (hs : step c op = .ok (c', r)) : c'.uiter = c.uiter :=
  step_uiter_frame c op (by cases op <;> simp_all [touchesU]) c' r hs

/-- … and what `has_next` / `get` answer and leave behind is a function of the pending enumeration alone -/
theorem userphrase_iter_local (c₁ c₂ : Ctx) (h : c₁.uiter = c₂.uiter) (op : Op) (hop : op = .upHasNext ∨ op = .upGet) :
    ∃ u r c₁' c₂', step c₁ op = .ok (c₁', r) ∧ step c₂ op = .ok (c₂', r) ∧ c₁'.uiter = u ∧ c₂'.uiter = u := by
  have h2 : c₂.uiter = c₁.uiter := h.symm
  rcases hop with rfl | rfl
  · simp only [step, h2]
    cases hu : c₁.uiter with
    | none => exact ⟨none, _, _, _, rfl, rfl, hu, by rw [h2, hu]⟩
    | some u => dsimp only; split <;> exact ⟨_, _, _, _, rfl, rfl, rfl, rfl⟩
  · simp only [step, h2]
    cases hu : c₁.uiter with
    | none => exact ⟨none, _, _, _, rfl, rfl, hu, by rw [h2, hu]⟩
    | some u => exact ⟨_, _, _, _, rfl, rfl, rfl, rfl⟩

/-- **kbtype_walk_total** (after `fix: chewing_kbtype_String stops at the end of the enumeration`): however often the
keyboard-type enumeration of `n` names is read, the first `n` reads deliver a name and EVERY later one the empty
string; the history is defined for every `m` -/
theorem kbtype_walk_total (n m : Nat) :
    ∃ c, run init (.kbEnumerate n :: List.replicate m .kbStringStatic) =
      .ok (c, 0 :: (List.replicate (min n m) 1 ++ List.replicate (m - n) 0)) := by
  obtain ⟨hw, hl⟩ := PeekVec.new_wf n
  obtain ⟨c, h⟩ := kb_walk_static m { init with kbt := some (PeekVec.new n) } (PeekVec.new n) rfl hw
  rw [hl] at h
  exact ⟨c, run_cons_ok rfl h⟩

/-- the code BEFORE that fix (recorded as `fixed:`): the counter was an un-fused `RangeFrom<u8>` that every read past
the end advanced again — the 256th pull after one `chewing_kbtype_Enumerate` overflowed it (abort in a debug build;
wrap-around and a second enumeration in a release build), for any number of valid layouts; 255 pulls were fine -/
theorem old_kbtype_counter_refuted (valid : Nat) :
    KbOld.pulls 256 { start := 0, valid := valid } = none ∧
    (KbOld.pulls 255 { start := 0, valid := 17 }).isSome = true :=
  ⟨KbOld.pulls_overflow valid, by decide +kernel⟩

/-- **history_ok** + **free_releases** along histories: if the allocator keeps its contract (`heapOkRun`: a fresh block
is never at the address of a live result; `chewing_free` has no precondition), then EVERY history — no discipline on the
order of calls — ends with exactly the live heap results registered, each under its true kind. -/
theorem history_ok (ops : List Op) (hh : heapOkRun init ops = true) :
    ∃ c rs, run init ops = .ok (c, rs) ∧ RegOK c :=
  run_ok ops init regOK_init hh

/-- **free_releases**: in a state where the registry and the live results agree (`RegOK`, an invariant of all
histories by `history_ok`), `chewing_free` of a live result is defined, releases exactly that block (as the kind
it was allocated with), forgets it, and keeps the invariant. -/
theorem free_releases (c : Ctx) (hr : RegOK c) (a : Nat) (k : Kind) (ha : a ≠ 0) (hl : lookup a c.live = some k) :
    lookup a c.owned = some k ∧
    ∃ c', step c (.free a) = .ok (c', 0) ∧ lookup a c'.live = none ∧ lookup a c'.owned = none ∧ RegOK c' ∧
      ∀ b, b ≠ a → lookup b c'.live = lookup b c.live := by
  obtain ⟨c', hs, hr', _, _, hrest, hgone⟩ := freeStep_ok c hr a
  exact ⟨(hr.1 a k hl).1, c', hs, (hgone ha).1, (hgone ha).2, hr', hrest⟩

/-- **chewing_free is total** (after `fix: chewing_free forgets …`): ANY pointer may be passed, any number of times —
NULL, a foreign pointer, the interior pointer of `chewing_get_selKey`, a pointer released before: it is either a live
result (released) or ignored; live results at other addresses are untouched. -/
theorem free_total (c : Ctx) (hr : RegOK c) (a : Nat) :
    ∃ c', step c (.free a) = .ok (c', 0) ∧ RegOK c' ∧ ∀ b, b ≠ a → lookup b c'.live = lookup b c.live := by
  obtain ⟨c', hs, hr', _, _, hrest, _⟩ := freeStep_ok c hr a
  exact ⟨c', hs, hr', hrest⟩

/-- releasing twice is harmless: the second call finds no entry -/
theorem free_twice (c : Ctx) (hr : RegOK c) (a : Nat) (ha : a ≠ 0) :
    ∃ c', step c (.free a) = .ok (c', 0) ∧ step c' (.free a) = .ok (c', 0) := by
  obtain ⟨c', hs, _, _, _, _, hgone⟩ := freeStep_ok c hr a
  refine ⟨c', hs, ?_⟩
  simp [step, freeStep, ha, (hgone ha).2]

/-- the code BEFORE that fix (recorded as `fixed:`): entries were never removed, so a pointer that is not a live
result but whose address equals a released result's — the allocator reuses addresses; `chewing_get_selKey` returns an
interior pointer of the context that the documentation tells the caller to pass to `chewing_free` — was released
again: result at 1000 released, then `chewing_free(1000)` for a block the library does not own -/
theorem stale_registry_refuted :
    ∃ c, (match stepOld init (.heapGet 1000 .cstring) with
          | .ok (c1, _) => (match stepOld c1 (.free 1000) with | .ok (c2, _) => some c2 | _ => none)
          | _ => none) = some c ∧
      stepOld c (.free 1000) = .ub "free-not-live" := by
  refine ⟨_, rfl, ?_⟩
  decide

/-! ## 5. Non-vacuity -/

/-- a history satisfying the premise of `history_ok` that exercises every kind of call: enumerations of all four kinds
interleaved, mutations INSIDE the user-phrase window, heap results of both kinds released -/
def sampleHistory : List Op :=
  [.mutate, .upEnumerate 2, .candEnumerate true 3, .upHasNext, .candHasNext true, .candString 1000, .mutate, .upGet,
   .intvEnumerate 1, .kbEnumerate 17, .kbString 1008, .free 1000, .mutate, .upGet, .upHasNext, .mutate, .candString 1000,
   .heapGet 1016 (.u16slice 4), .heapGet 2 (.u16slice 0), .free 1016, .free 2, .free 77, .free 1016, .free 0,
   .intvGet, .intvGet, .upEnumerate 1, .mutate, .upGet, .free 1008, .free 1000, .free 1000]

example : heapOkRun init sampleHistory = true := by decide

/-- `userphrase_iter_frame` applies to the mutating calls -/
example : touchesU .mutate = false ∧ touchesU (.free 5) = false ∧ touchesU (.heapGet 8 .cstring) = false := by decide

example : IsText [0x6E2C, 0x8A66, 97, 0x20000] := by
  intro c hc; simp at hc; rcases hc with h | h | h | h <;> subst h <;> exact ⟨by unfold IsScalar; omega, by omega⟩

/-- truncation at a character boundary, concretely: `測試a𠀀` (3+3+1+4 bytes) into 9 bytes keeps `測試a` -/
example : cText (copyCstr 9 (utf8Encode [0x6E2C, 0x8A66, 97, 0x20000])) = some (utf8Encode [0x6E2C, 0x8A66, 97]) := by
  decide

end Chewing.C15
