import Chewing.Proofs.Config
import Chewing.Proofs.Enum
/-!
# C16 — Configuration round-trips, rejects bad values, and its aliases agree

Statement (properties.jsonl): every documented option can be set to each value of its documented range
and read back unchanged; a value outside the range is rejected with an error and leaves every option
unchanged (except that an unknown keyboard number selects the default layout, as documented); each legacy
setter/getter is equivalent to the named option it stands for; selecting a keyboard layout by number and
by name results in identical handling of every key, and the layout reported as current is always the one
in effect.

The theorems are about `Chewing.Config` (Model/Config.lean), an interpreter of the tables that the
translator regenerates from `capi/src/io.rs` & co. on every run (`Chewing.Gen.Cfg`).  The *specification*
side — the documented names, ranges, legacy pairs and layout numbering — is written out here by hand
(`DocRange`, `DocNames`, `LegacySpec`, `DocKbNames`) from `capi/src/lib.rs` / `doc/libchewing.texi` and
uses the public constants by name.  Statements quantify over every context `c`, every integer `v`, every
name/string, every history of configuration calls.  `decide` is used only for facts about the finite
generated tables (13 option rows, 17 layouts) and for the values inside a documented range.

Handling of a key is a function of the context (`keyboard`, syllable editor, options); the theorems
`kb_select_equiv` / `kb_current_is_effective` show the two selection APIs produce the *same context*,
resp. that the reported layout determines the pair in effect.  That the real key handlers depend on
nothing else is checked behaviourally by the harness (all 17 layouts × 95 keys × both APIs).
-/
namespace Chewing.C16
open Chewing Chewing.Config Chewing.Gen.Cfg

-- =============================================================================================
-- specification side (documentation), hand-written

/-- the 15 documented option names -/
def DocNames : List String :=
  ["chewing.user_phrase_add_direction", "chewing.disable_auto_learn_phrase", "chewing.auto_shift_cursor",
   "chewing.candidates_per_page", "chewing.language_mode", "chewing.easy_symbol_input",
   "chewing.esc_clear_all_buffer", "chewing.keyboard_type", "chewing.auto_commit_threshold",
   "chewing.phrase_choice_rearward", "chewing.selection_keys", "chewing.character_form",
   "chewing.space_is_select_key", "chewing.conversion_engine", "chewing.enable_fullwidth_toggle_key"]

/-- the two string-valued options -/
def DocStrNames : List String := ["chewing.keyboard_type", "chewing.selection_keys"]

/-- documented range of every integer option, in terms of the public constants -/
def DocRange : List (String × Int × Int) :=
  [("chewing.user_phrase_add_direction", 0, 1),
   ("chewing.disable_auto_learn_phrase", AUTOLEARN_ENABLED, AUTOLEARN_DISABLED),
   ("chewing.auto_shift_cursor", 0, 1),
   ("chewing.candidates_per_page", MIN_SELKEY, MAX_SELKEY),
   ("chewing.language_mode", SYMBOL_MODE, CHINESE_MODE),
   ("chewing.easy_symbol_input", 0, 1),
   ("chewing.esc_clear_all_buffer", 0, 1),
   ("chewing.auto_commit_threshold", MIN_CHI_SYMBOL_LEN, MAX_CHI_SYMBOL_LEN),
   ("chewing.phrase_choice_rearward", 0, 1),
   ("chewing.character_form", HALFSHAPE_MODE, FULLSHAPE_MODE),
   ("chewing.space_is_select_key", 0, 1),
   ("chewing.conversion_engine", SIMPLE_CONVERSION_ENGINE, FUZZY_CHEWING_CONVERSION_ENGINE),
   ("chewing.enable_fullwidth_toggle_key", 0, 1)]

/-- `v` is a documented value of the integer option `name` -/
def InRange (name : String) (v : Int) : Prop := ∃ lo hi, (name, lo, hi) ∈ DocRange ∧ lo ≤ v ∧ v ≤ hi

/-- legacy function pairs and the option each stands for -/
def LegacySpec : List (String × String × String) :=
  [("chewing_set_ChiEngMode", "chewing_get_ChiEngMode", "chewing.language_mode"),
   ("chewing_set_ShapeMode", "chewing_get_ShapeMode", "chewing.character_form"),
   ("chewing_set_candPerPage", "chewing_get_candPerPage", "chewing.candidates_per_page"),
   ("chewing_set_maxChiSymbolLen", "chewing_get_maxChiSymbolLen", "chewing.auto_commit_threshold"),
   ("chewing_set_addPhraseDirection", "chewing_get_addPhraseDirection", "chewing.user_phrase_add_direction"),
   ("chewing_set_spaceAsSelection", "chewing_get_spaceAsSelection", "chewing.space_is_select_key"),
   ("chewing_set_escCleanAllBuf", "chewing_get_escCleanAllBuf", "chewing.esc_clear_all_buffer"),
   ("chewing_set_autoShiftCur", "chewing_get_autoShiftCur", "chewing.auto_shift_cursor"),
   ("chewing_set_easySymbolInput", "chewing_get_easySymbolInput", "chewing.easy_symbol_input"),
   ("chewing_set_phraseChoiceRearward", "chewing_get_phraseChoiceRearward", "chewing.phrase_choice_rearward"),
   ("chewing_set_autoLearn", "chewing_get_autoLearn", "chewing.disable_auto_learn_phrase")]

/-- documented layout names; the position is the documented number (`enum KB`, tests/test-keyboard.c) -/
def DocKbNames : List String :=
  ["KB_DEFAULT", "KB_HSU", "KB_IBM", "KB_GIN_YIEH", "KB_ET", "KB_ET26", "KB_DVORAK", "KB_DVORAK_HSU",
   "KB_DACHEN_CP26", "KB_HANYU_PINYIN", "KB_THL_PINYIN", "KB_MPS2_PINYIN", "KB_CARPALX",
   "KB_COLEMAK_DH_ANSI", "KB_COLEMAK_DH_ORTH", "KB_WORKMAN", "KB_COLEMAK"]

def nKb : Nat := 17

/-- a valid selection-key string: 10 ASCII characters (a C string has no NUL) -/
def ValidSelKeys (s : Text) : Prop := s.length = 10 ∧ ∀ x ∈ s, 0 < x ∧ x < 128

-- =============================================================================================
-- the generated tables describe the documented interface

/-- `EditorOptions` in the source has exactly the fields of the model's `Options`, in order -/
theorem fields_match : optFields = Options.fieldNames ∧ optFields.length = nFields := by decide +kernel

/-- has_option / get_int / set_int / get_str / set_str list the same (documented) names
    (as sets: the order of the `match` arms in the source is irrelevant) -/
theorem names_agree :
    (∀ n, n ∈ getIntArms.map Prod.fst ↔ n ∈ setIntArms.map Prod.fst) ∧
    (∀ n, n ∈ getStrNames ↔ n ∈ setStrNames) ∧ (∀ n, n ∈ setStrNames ↔ n ∈ DocStrNames) ∧
    (∀ n, n ∈ hasOptionNames ↔ n ∈ setIntArms.map Prod.fst ∨ n ∈ setStrNames) ∧
    (∀ n, n ∈ hasOptionNames ↔ n ∈ DocNames) ∧
    (∀ n, n ∈ setIntArms.map Prod.fst ↔ n ∈ DocRange.map Prod.fst) ∧
    (setIntArms.map Prod.fst).Nodup ∧ (getIntArms.map Prod.fst).Nodup := by
  refine ⟨?_, ?_, ?_, ?_, ?_, ?_, by decide +kernel, by decide +kernel⟩
  · have h1 : ∀ n ∈ getIntArms.map Prod.fst, n ∈ setIntArms.map Prod.fst := by decide +kernel
    have h2 : ∀ n ∈ setIntArms.map Prod.fst, n ∈ getIntArms.map Prod.fst := by decide +kernel
    exact fun n => ⟨h1 n, h2 n⟩
  · have h1 : ∀ n ∈ getStrNames, n ∈ setStrNames := by decide +kernel
    have h2 : ∀ n ∈ setStrNames, n ∈ getStrNames := by decide +kernel
    exact fun n => ⟨h1 n, h2 n⟩
  · have h1 : ∀ n ∈ setStrNames, n ∈ DocStrNames := by decide +kernel
    have h2 : ∀ n ∈ DocStrNames, n ∈ setStrNames := by decide +kernel
    exact fun n => ⟨h1 n, h2 n⟩
  · have h1 : ∀ n ∈ hasOptionNames, n ∈ setIntArms.map Prod.fst ∨ n ∈ setStrNames := by decide +kernel
    have h2 : ∀ n ∈ setIntArms.map Prod.fst ++ setStrNames, n ∈ hasOptionNames := by decide +kernel
    exact fun n => ⟨h1 n, fun h => h2 n (List.mem_append.mpr h)⟩
  · have h1 : ∀ n ∈ hasOptionNames, n ∈ DocNames := by decide +kernel
    have h2 : ∀ n ∈ DocNames, n ∈ hasOptionNames := by decide +kernel
    exact fun n => ⟨h1 n, h2 n⟩
  · have h1 : ∀ n ∈ setIntArms.map Prod.fst, n ∈ DocRange.map Prod.fst := by decide +kernel
    have h2 : ∀ n ∈ DocRange.map Prod.fst, n ∈ setIntArms.map Prod.fst := by decide +kernel
    exact fun n => ⟨h1 n, h2 n⟩

/-- `has_option` answers 1 exactly on the documented names -/
theorem has_option_iff (name : String) : hasOption name = 1 ↔ name ∈ DocNames := by
  unfold hasOption
  rw [← names_agree.2.2.2.2.1 name]
  split <;> simp [*]

-- =============================================================================================
-- integer options

/-- kernel-evaluated: every documented value of every integer option is accepted and read back
    (context-free row check, see `rowRoundTrip_sound`) -/
theorem rows_round_trip :
    (DocRange.all fun (n, lo, hi) => (intRange lo hi).all (rowRoundTrip n)) = true := by decide +kernel

/-- **set_get**: an in-range value is accepted and reads back unchanged — every option, value, context -/
theorem set_get (name : String) (v : Int) (c : Ctx) (h : InRange name v) :
    (setInt name v c).2 = OK ∧ getInt name (setInt name v c).1 = v := by
  obtain ⟨lo, hi, hmem, hlo, hhi⟩ := h
  have h1 := List.all_eq_true.mp rows_round_trip _ hmem
  exact rowRoundTrip_sound (List.all_eq_true.mp h1 v (mem_intRange hlo hhi)) c

/-- per documented row: a value outside the range has no effect (validation fails) -/
theorem row_rejects (name : String) (lo hi : Int) (hmem : (name, lo, hi) ∈ DocRange) (v : Int)
    (hv : ¬ (lo ≤ v ∧ v ≤ hi)) : setIntEffect name v = none := by
  simp only [DocRange, List.mem_cons, List.mem_nil_iff, or_false, Prod.mk.injEq] at hmem
  rcases hmem with h|h|h|h|h|h|h|h|h|h|h|h|h <;> obtain ⟨rfl, rfl, rfl⟩ := h
  all_goals
    try simp only [AUTOLEARN_ENABLED, AUTOLEARN_DISABLED, MIN_SELKEY, MAX_SELKEY, SYMBOL_MODE, CHINESE_MODE,
      MIN_CHI_SYMBOL_LEN, MAX_CHI_SYMBOL_LEN, HALFSHAPE_MODE, FULLSHAPE_MODE, SIMPLE_CONVERSION_ENGINE,
      FUZZY_CHEWING_CONVERSION_ENGINE] at hv
    simp [setIntEffect, setIntRejectsNegative, setIntArms, assoc, ruleEffect, Rej.holds]
    intros
    repeat' split
    all_goals first | rfl | omega

/-- **set_rejects** (and **unknown_name_rejected** for set_int): anything that is not a documented value of
    a documented integer option is rejected with ERROR and the WHOLE context is unchanged -/
theorem set_rejects (name : String) (v : Int) (c : Ctx) (h : ¬ InRange name v) :
    setInt name v c = (c, ERROR) := by
  apply setInt_of_none
  cases hs : assoc name setIntArms with
  | none => unfold setIntEffect; rw [hs]; split <;> rfl
  | some r =>
    have hk : name ∈ DocRange.map Prod.fst := (names_agree.2.2.2.2.2.1 name).mp (assoc_key_mem hs)
    obtain ⟨⟨n, lo, hi⟩, hmem, hn⟩ := List.mem_map.mp hk
    simp only at hn; subst hn
    exact row_rejects n lo hi hmem v fun hv => h ⟨lo, hi, hmem, hv⟩

/-- the validation of the code accepts exactly the documented range -/
theorem accepted_iff_documented (name : String) (v : Int) (c : Ctx) :
    (setInt name v c).2 = OK ↔ InRange name v := by
  constructor
  · intro h
    refine Classical.byContradiction fun hn => ?_
    rw [set_rejects name v c hn] at h
    simp [ERROR, OK] at h
  · exact fun h => (set_get name v c h).1

/-- **unknown_name_rejected**: a name that is not a documented integer option is refused by both
    entry points (this includes the two string options) -/
theorem unknown_name_rejected (name : String) (v : Int) (c : Ctx) (h : name ∉ DocRange.map Prod.fst) :
    setInt name v c = (c, ERROR) ∧ getInt name c = ERROR := by
  refine ⟨set_rejects name v c ?_, ?_⟩
  · rintro ⟨lo, hi, hmem, _⟩
    exact h (List.mem_map.mpr ⟨_, hmem, rfl⟩)
  · unfold getInt
    rw [assoc_none fun hm => h ((names_agree.2.2.2.2.2.1 name).mp ((names_agree.1 name).mp hm))]

theorem frames_ok : framesOK = true := by decide +kernel

/-- **other_options_unchanged**: `set_int name` changes what no other option reports — neither another
    integer option, nor the layout, nor the selection keys -/
theorem other_options_unchanged (name name' : String) (v : Int) (c : Ctx) (hne : name' ≠ name) :
    getInt name' (setInt name v c).1 = getInt name' c ∧
    (setInt name v c).1.kbCompat = c.kbCompat ∧ (setInt name v c).1.keyboard = c.keyboard ∧
    (setInt name v c).1.syl = c.syl ∧ (setInt name v c).1.selKeys = c.selKeys :=
  ⟨getInt_setInt_other frames_ok hne v c, setInt_kbCompat _ _ _, setInt_keyboard _ _ _, setInt_syl _ _ _,
   setInt_selKeys _ _ _⟩

/-- a successful `set_int` reports exactly: the new value for `name`, the old one for everything else -/
theorem set_get_all (name name' : String) (v : Int) (c : Ctx) (h : InRange name v) :
    getInt name' (setInt name v c).1 = if name' = name then v else getInt name' c := by
  split
  · next he => subst he; exact (set_get _ v c h).2
  · next hne => exact (other_options_unchanged name name' v c hne).1

/-- `get_int` looks at the options only -/
theorem getInt_congr (name : String) (c c' : Ctx) (h : c'.opts = c.opts) : getInt name c' = getInt name c := by
  unfold getInt
  split
  · rfl
  · next f g _ => cases g <;> simp [readRule, h]

theorem init_in_range : (DocRange.all fun (n, lo, hi) => decide (lo ≤ getInt n init ∧ getInt n init ≤ hi)) = true := by
  decide

/-- what every getter reports is a documented value — an invariant of all histories.  (In particular the
    model's `illTyped` sentinel is never returned.) -/
def GettersInRange (c : Ctx) : Prop := ∀ name ∈ DocRange.map Prod.fst, InRange name (getInt name c)

theorem gettersInRange_setInt (name : String) (v : Int) (c : Ctx) (h : GettersInRange c) :
    GettersInRange (setInt name v c).1 := by
  by_cases hr : InRange name v
  · intro name' hn
    rw [set_get_all name name' v c hr]
    split
    · next he => subst he; exact hr
    · exact h name' hn
  · rw [set_rejects name v c hr]; exact h

theorem gettersInRange_of_opts (c c' : Ctx) (ho : c'.opts = c.opts) (h : GettersInRange c) : GettersInRange c' :=
  fun name hn => by rw [getInt_congr name c c' ho]; exact h name hn

-- =============================================================================================
-- legacy setters / getters

/-- the forwarders found in the source are exactly the documented pairs (each setter and its getter go to the
    same, documented, option; there are no other forwarders) -/
theorem legacy_tables :
    (LegacySpec.all fun t => assoc t.1 legacySetters == some t.2.2 && assoc t.2.1 legacyGetters == some t.2.2) = true ∧
    legacySetters.length = LegacySpec.length ∧ legacyGetters.length = LegacySpec.length := by decide +kernel

/-- **legacy_equiv**: each legacy setter is `set_int` on the option it stands for (return code dropped),
    each legacy getter is `get_int` on the same option — all values, all contexts -/
theorem legacy_equiv (s g name : String) (hmem : (s, g, name) ∈ LegacySpec) (v : Int) (c : Ctx) :
    legacySet s v c = (setInt name v c).1 ∧ legacyGet g c = getInt name c := by
  simp only [LegacySpec, List.mem_cons, List.mem_nil_iff, or_false, Prod.mk.injEq] at hmem
  rcases hmem with h|h|h|h|h|h|h|h|h|h|h <;> obtain ⟨rfl, rfl, rfl⟩ := h <;>
    exact ⟨by simp [legacySet, legacySetters, assoc], by simp [legacyGet, legacyGetters, assoc]⟩

/-- consequently a legacy pair round-trips documented values and ignores the others -/
theorem legacy_set_get (s g name : String) (hmem : (s, g, name) ∈ LegacySpec) (v : Int) (c : Ctx) :
    (InRange name v → legacyGet g (legacySet s v c) = v) ∧ (¬ InRange name v → legacySet s v c = c) := by
  obtain ⟨h1, _⟩ := legacy_equiv s g name hmem v c
  refine ⟨fun h => ?_, fun h => ?_⟩
  · rw [h1, (legacy_equiv s g name hmem v _).2]; exact (set_get name v c h).2
  · rw [h1, set_rejects name v c h]

-- =============================================================================================
-- keyboard layouts

/-- names, numbers and `Display` of `KeyboardLayoutCompat` are the documented ones and are mutually inverse -/
theorem kb_name_tables :
    kbDisplay = DocKbNames ∧ kbVariants.length = nKb ∧
    (allLt nKb fun k => assoc k kbTryFrom == some k) = true ∧ kbTryFrom.length = nKb ∧
    (allLt nKb fun k => assoc (kbDisplayText.getD k []) kbFromStrText == some k) = true ∧
    kbFromStrText.map Prod.fst = kbFromStr.map (fun p => p.1.toList.map Char.toNat) ∧
    kbDisplayText = kbDisplay.map (fun s => s.toList.map Char.toNat) ∧
    kbDefault = 0 ∧ kbStr2NumDefault = 0 ∧ kbTypeTruncates = false := by decide +kernel

/-- **kb_tables_agree**: the dispatch table inside `chewing_config_set_str("chewing.keyboard_type")` and the
    one inside `chewing_set_KBType` map every layout to the same (keyboard, syllable editor) -/
theorem kb_tables_agree : ∀ kb, pairByName kb = pairByNum kb := by
  have h : kbByName = kbByNum := by decide
  intro kb; unfold pairByName pairByNum; rw [h]

theorem kbOfNum_known : (allLt nKb fun k => kbOfNum (k : Int) == k) = true := by decide

theorem setStr_kb {value : Text} {k : Nat} (c : Ctx) (h : assoc value kbFromStrText = some k) :
    setStr kbTypeName value c =
      ({ c with kbCompat := k, keyboard := (pairByName k).1, syl := (pairByName k).2 }, OK) := by
  have h1 : ¬ (kbTypeName ∉ setStrNames) := by decide
  unfold setStr
  rw [if_neg h1, if_pos rfl, h]

/-- **kb_select_equiv** (⇒ identical handling of every key): selecting a layout by its number and by its
    name yields the same context, from any context -/
theorem kb_select_equiv (kb : Nat) (hkb : kb < nKb) (c : Ctx) :
    (setKBType kb c).1 = (setStr kbTypeName (kbDisplayText.getD kb []) c).1 ∧
    (setKBType kb c).2 = OK ∧ (setStr kbTypeName (kbDisplayText.getD kb []) c).2 = OK := by
  have h1 : kbOfNum (kb : Int) = kb := by
    have := allLt_spec kbOfNum_known kb hkb; simpa using this
  have h2 : assoc (kbDisplayText.getD kb []) kbFromStrText = some kb := by
    have := allLt_spec kb_name_tables.2.2.2.2.1 kb hkb; simpa using this
  rw [setStr_kb c h2]
  refine ⟨?_, ?_, rfl⟩
  · show ({ c with kbCompat := kbOfNum kb, keyboard := (pairByNum (kbOfNum kb)).1, syl := (pairByNum (kbOfNum kb)).2 } : Ctx) = _
    rw [h1, kb_tables_agree]
  · show (if kbOfNum (kb : Int) = kbDefault ∧ ((kbOfNum (kb : Int) : Nat) : Int) ≠ kb then (-1 : Int) else 0) = OK
    rw [h1]; simp [OK]

/-- every key handler `h` (any function of the keyboard and syllable editor in effect, and the rest of the
    context) therefore treats every key the same under both selection APIs -/
theorem kb_same_keys {α κ : Type} (h : Ctx → κ → α) (kb : Nat) (hkb : kb < nKb) (c : Ctx) (key : κ) :
    h (setKBType kb c).1 key = h (setStr kbTypeName (kbDisplayText.getD kb []) c).1 key := by
  rw [(kb_select_equiv kb hkb c).1]

theorem kbOfNum_unknown (n : Int) (h : n < 0 ∨ (nKb : Int) ≤ n) : kbOfNum n = kbDefault := by
  have ht : kbTypeTruncates = false := by decide
  have hk : ∀ k ∈ kbTryFrom.map Prod.fst, k < nKb := by decide
  unfold kbOfNum
  simp only [ht, Bool.false_eq_true, if_false]
  by_cases hr : 0 ≤ n ∧ n ≤ 255
  · have : assoc n.toNat kbTryFrom = none := assoc_none fun hm => by
      have := hk _ hm; unfold nKb at *; omega
    simp [hr, this]
  · simp [hr]

/-- **kb_unknown_default**: a number that is not a layout number selects the default layout and the
    call reports -1; nothing else changes -/
theorem kb_unknown_default (n : Int) (c : Ctx) (h : n < 0 ∨ (nKb : Int) ≤ n) :
    setKBType n c =
      ({ c with kbCompat := kbDefault, keyboard := (pairByNum kbDefault).1, syl := (pairByNum kbDefault).2 }, -1) := by
  unfold setKBType
  rw [kbOfNum_unknown n h]
  have hd : kbDefault = 0 := by decide
  have : ((kbDefault : Nat) : Int) ≠ n := by rw [hd]; unfold nKb at h; omega
  simp [this]

/-- the invariant behind "the layout reported as current is the one in effect" -/
def KbInv (c : Ctx) : Prop := c.kbCompat < nKb ∧ (c.keyboard, c.syl) = pairByNum c.kbCompat

theorem kbOfNum_lt (n : Int) : kbOfNum n < nKb := by
  have ht : kbTypeTruncates = false := by decide
  have hv : ∀ p ∈ kbTryFrom, p.2 < nKb := by decide
  have hd : kbDefault < nKb := by decide
  unfold kbOfNum
  simp only [ht, Bool.false_eq_true, if_false]
  by_cases hr : 0 ≤ n ∧ n ≤ 255
  · cases hb : assoc n.toNat kbTryFrom with
    | none => simp [hr, hb, hd]
    | some k => simpa [hr, hb] using hv _ (assoc_mem hb)
  · simp [hr, hd]

theorem kbInv_step (c : Ctx) (op : Op) (h : KbInv c) : KbInv (step c op) := by
  obtain ⟨h1, h2⟩ := h
  cases op with
  | setInt name v =>
    show KbInv (setInt name v c).1
    unfold KbInv
    rw [setInt_kbCompat, setInt_keyboard, setInt_syl]; exact ⟨h1, h2⟩
  | legacySet fn v =>
    obtain ⟨a, b, d, _⟩ := legacySet_kb fn v c
    show KbInv (legacySet fn v c)
    unfold KbInv
    rw [a, b, d]; exact ⟨h1, h2⟩
  | setKBType n =>
    exact ⟨kbOfNum_lt n, rfl⟩
  | setSelKey keys len =>
    show KbInv (setSelKey keys len c)
    unfold setSelKey; split <;> exact ⟨h1, h2⟩
  | setStr name value =>
    show KbInv (setStr name value c).1
    unfold setStr
    split
    · exact ⟨h1, h2⟩
    · split
      · cases hk : assoc value kbFromStrText with
        | none => exact ⟨h1, h2⟩
        | some k =>
          have hv : ∀ p ∈ kbFromStrText, p.2 < nKb := by decide
          exact ⟨hv _ (assoc_mem hk), by simp [kb_tables_agree]⟩
      · split
        · split <;> exact ⟨h1, h2⟩
        · exact ⟨h1, h2⟩
  | configure field selKey =>
    show KbInv (configure field selKey c)
    unfold configure
    have : ∀ (l : List (String × String)) (c : Ctx), KbInv c →
        KbInv (l.foldl (fun c (call : String × String) =>
          if call.1 = "chewing_set_selKey" then setSelKey selKey maxSelKey c else legacySet call.1 (field call.2) c) c) := by
      intro l
      induction l with
      | nil => intro c hc; exact hc
      | cons x xs ih =>
        intro c hc
        apply ih
        show KbInv (if x.1 = "chewing_set_selKey" then _ else _)
        split
        · unfold setSelKey; split <;> exact hc
        · obtain ⟨a, b, d, _⟩ := legacySet_kb x.1 (field x.2) c
          unfold KbInv; rw [a, b, d]; exact hc
    exact this _ c ⟨h1, h2⟩

/-- **kb_current_is_effective**: after ANY history of configuration calls, the layout reported by
    `chewing_get_KBType` / `chewing_get_KBString` / `get_str("chewing.keyboard_type")` is a valid layout and
    the keyboard and syllable editor in effect are the pair that layout stands for -/
theorem kb_current_is_effective (c : Ctx) (h : Reachable c) :
    c.kbCompat < nKb ∧ (c.keyboard, c.syl) = pairByNum c.kbCompat ∧
    getKBType c = c.kbCompat ∧ kbStr2Num (getKBString c) = c.kbCompat := by
  obtain ⟨ops, rfl⟩ := h
  have hinit : KbInv init := by unfold KbInv; decide
  have : ∀ (ops : List Op) (c : Ctx), KbInv c → KbInv (ops.foldl step c) := by
    intro ops
    induction ops with
    | nil => exact fun c hc => hc
    | cons op ops ih => exact fun c hc => ih _ (kbInv_step c op hc)
  obtain ⟨h1, h2⟩ := this ops init hinit
  refine ⟨h1, h2, rfl, ?_⟩
  have := allLt_spec kb_name_tables.2.2.2.2.1 _ h1
  unfold kbStr2Num getKBString
  simp only [beq_iff_eq] at this
  unfold run
  rw [this]; rfl

-- =============================================================================================
-- selection keys

theorem selKeys_flags : selKeysStrLen = 10 ∧ selKeysRequireAscii = true ∧ getStrAbortsOnNul = false ∧
    setSelKeyLen = 10 ∧ maxSelKey = 10 ∧ initSelKeys.length = 10 := by decide

theorem setStr_selKeys_eq (s : Text) (c : Ctx) :
    setStr selKeysName s c =
      if utf8Size s = 10 ∧ s.all (· < 128) = true then ({ c with selKeys := padKeys (s.map Int.ofNat) }, OK)
      else (c, ERROR) := by
  have h1 : ¬ (selKeysName ∉ setStrNames) := by decide
  have h2 : selKeysName ≠ kbTypeName := by decide
  unfold setStr
  rw [if_neg h1, if_neg h2, if_pos rfl]
  simp only [selKeys_flags.1, selKeys_flags.2.1, true_and]
  by_cases h : utf8Size s = 10 ∧ s.all (· < 128) = true
  · rw [if_pos h, if_neg (by simp [h.1, h.2])]
  · rw [if_neg h, if_pos]
    by_cases h' : utf8Size s = 10
    · right; simpa [h'] using h
    · left; exact h'

/-- **selkeys_roundtrip**: a valid selection-key string is accepted, stored key by key, and reads back
    unchanged through both getters; nothing else changes -/
theorem selkeys_roundtrip (s : Text) (c : Ctx) (h : ValidSelKeys s) :
    setStr selKeysName s c = ({ c with selKeys := s.map Int.ofNat }, OK) ∧
    getStr selKeysName (setStr selKeysName s c).1 = .ok (OK, some s) ∧
    getSelKey (setStr selKeysName s c).1 = s.map Int.ofNat := by
  obtain ⟨hl, hx⟩ := h
  have hlt : ∀ x ∈ s, x < 128 := fun x hx' => (hx x hx').2
  have hall : s.all (· < 128) = true := List.all_eq_true.mpr fun x hx' => by simpa using hlt x hx'
  have hsz : utf8Size s = 10 := by rw [utf8Size_ascii s hlt, hl]
  have hset : setStr selKeysName s c = ({ c with selKeys := s.map Int.ofNat }, OK) := by
    rw [setStr_selKeys_eq, if_pos ⟨hsz, hall⟩, padKeys_of_length _ (by simp [hl, maxSelKey])]
  refine ⟨hset, ?_, by rw [hset]; rfl⟩
  rw [hset]
  have h1 : ¬ (selKeysName ∉ getStrNames) := by decide
  have h2 : selKeysName ≠ kbTypeName := by decide
  unfold getStr
  rw [if_neg h1]
  simp only [if_neg h2]
  have htxt : selKeysText { c with selKeys := s.map Int.ofNat } = s := selKeysText_ofNat s hlt
  rw [htxt]
  have hz : s.contains 0 = false := by
    rw [Bool.eq_false_iff]; intro hc
    have := hx 0 (List.contains_iff_mem.mp hc); omega
  rw [hz]; rfl

/-- **selkeys_rejects**: a string that is not 10 ASCII characters is rejected, the whole context is
    unchanged (in particular a 10-byte string of fewer characters, the F05 witness) -/
theorem selkeys_rejects (s : Text) (c : Ctx) (h : ¬ (s.length = 10 ∧ ∀ x ∈ s, x < 128)) :
    setStr selKeysName s c = (c, ERROR) := by
  rw [setStr_selKeys_eq, if_neg]
  rintro ⟨hsz, hall⟩
  have hlt : ∀ x ∈ s, x < 128 := fun x hx => by simpa using List.all_eq_true.mp hall x hx
  exact h ⟨by rw [← utf8Size_ascii s hlt]; exact hsz, hlt⟩

/-- the F05 witness `"ééééé"` (10 bytes, 5 characters) is rejected by the repaired code -/
example (c : Ctx) : setStr selKeysName [233, 233, 233, 233, 233] c = (c, ERROR) :=
  selkeys_rejects _ c (by decide)

/-- the string options and `set_KBType` / `set_selKey` leave every integer option alone, and the two
    string options do not disturb each other -/
theorem str_ops_frame (name : String) (value : Text) (n : Int) (keys : List Int) (len : Int) (c : Ctx) :
    (setStr name value c).1.opts = c.opts ∧ (setKBType n c).1.opts = c.opts ∧
    (setSelKey keys len c).opts = c.opts ∧
    (setKBType n c).1.selKeys = c.selKeys ∧ (setSelKey keys len c).kbCompat = c.kbCompat ∧
    (setStr kbTypeName value c).1.selKeys = c.selKeys ∧ (setStr selKeysName value c).1.kbCompat = c.kbCompat := by
  refine ⟨?_, rfl, ?_, rfl, ?_, ?_, ?_⟩
  · unfold setStr; repeat' split
    all_goals rfl
  · unfold setSelKey; split <;> rfl
  · unfold setSelKey; split <;> rfl
  · cases hk : assoc value kbFromStrText with
    | none =>
      have h1 : ¬ (kbTypeName ∉ setStrNames) := by decide
      unfold setStr; rw [if_neg h1, if_pos rfl, hk]
    | some k => rw [setStr_kb c hk]
  · rw [setStr_selKeys_eq]; split <;> rfl

/-- an unknown string-option name, or an unknown layout name, is rejected and changes nothing -/
theorem str_unknown_rejected (name : String) (value : Text) (c : Ctx) :
    (name ∉ DocStrNames → setStr name value c = (c, ERROR) ∧ getStr name c = .ok (ERROR, none)) ∧
    (assoc value kbFromStrText = none → setStr kbTypeName value c = (c, ERROR)) := by
  constructor
  · intro h
    have hs : name ∉ setStrNames := fun hm => h ((names_agree.2.2.1 name).mp hm)
    have hg : name ∉ getStrNames := fun hm => hs ((names_agree.2.1 name).mp hm)
    exact ⟨by unfold setStr; rw [if_pos hs], by unfold getStr; rw [if_pos hg]⟩
  · intro h
    have h1 : ¬ (kbTypeName ∉ setStrNames) := by decide
    unfold setStr
    rw [if_neg h1, if_pos rfl, h]

/-- `get_str("chewing.keyboard_type")` is the name of the reported layout -/
theorem getStr_kb (c : Ctx) (h : c.kbCompat < nKb) :
    getStr kbTypeName c = .ok (OK, some (getKBString c)) := by
  have h1 : ¬ (kbTypeName ∉ getStrNames) := by decide
  have hz : (allLt nKb fun k => !(kbDisplayText.getD k []).contains 0) = true := by decide
  have := allLt_spec hz _ h
  simp only [Bool.not_eq_true'] at this
  unfold getStr
  rw [if_neg h1]
  simp only [↓reduceIte, getKBString, this]
  rfl

-- ---------------------------------------------------------------------------------------------
-- the legacy selection-key setter: known finding F05b

/-- full-strength claim: whatever `chewing_set_selKey` accepts, the named option accepts too (so the
    legacy setter is the named option in another syntax) -/
def LegacySelKeyEquivFull : Prop :=
  ∀ (keys : List Int) (c : Ctx), keys.length = 10 →
    ∃ s : Text, (∀ x ∈ s, x ≠ 0) ∧ (setStr selKeysName s c).2 = OK ∧ setSelKey keys 10 c = (setStr selKeysName s c).1

/-- the class of the known finding: some key is not an ASCII code -/
def KnownF05b (keys : List Int) : Prop := ∃ k ∈ keys, ¬ (0 < k ∧ k < 128)

/-- **refuted** on the current tree: `chewing_set_selKey` stores `[200; 10]`, which no accepted
    `chewing.selection_keys` string produces (finding F05b, recorded in KNOWN_FINDINGS.txt) -/
theorem legacy_selkey_equiv_refuted : ¬ LegacySelKeyEquivFull := by
  intro h
  obtain ⟨s, _, hok, heq⟩ := h (List.replicate 10 200) init (by decide)
  rw [setStr_selKeys_eq] at hok heq
  by_cases hv : utf8Size s = 10 ∧ s.all (· < 128) = true
  · rw [if_pos hv] at heq
    have hlt : ∀ x ∈ s, x < 128 := fun x hx => by simpa using List.all_eq_true.mp hv.2 x hx
    have hlen : s.length = 10 := by rw [← utf8Size_ascii s hlt]; exact hv.1
    have hsel : List.replicate 10 (200 : Int) = s.map Int.ofNat := by
      have := congrArg Ctx.selKeys heq
      rw [padKeys_of_length _ (by simp [hlen, maxSelKey])] at this
      simpa [setSelKey, selKeys_flags.2.2.2.1] using this
    match s, hlen with
    | x :: _, _ =>
      have hx := hlt x List.mem_cons_self
      simp only [List.map_cons, List.replicate_succ, List.cons.injEq, Int.ofNat_eq_natCast] at hsel
      have := hsel.1
      omega
  · rw [if_neg hv] at hok
    simp [ERROR, OK] at hok

/-- **partial**: outside the known class — every key an ASCII code, as documented for `chewing_set_selKey` —
    the legacy setter/getter pair is the named option: same resulting context, same keys read back -/
theorem legacy_selkey_equiv_partial (keys : List Int) (c : Ctx) (hl : keys.length = 10) (hk : ¬ KnownF05b keys) :
    let s : Text := keys.map Int.toNat
    ValidSelKeys s ∧ setSelKey keys 10 c = (setStr selKeysName s c).1 ∧
    getStr selKeysName (setSelKey keys 10 c) = .ok (OK, some s) ∧ getSelKey (setSelKey keys 10 c) = keys := by
  intro s
  have hk' : ∀ k ∈ keys, 0 < k ∧ k < 128 := fun k hm => Classical.byContradiction fun hn => hk ⟨k, hm, hn⟩
  have hv : ValidSelKeys s := by
    refine ⟨by simp [s, hl], fun x hx => ?_⟩
    obtain ⟨k, hm, rfl⟩ := List.mem_map.mp hx
    have := hk' k hm; omega
  have hback : s.map Int.ofNat = keys := by
    simp only [s, List.map_map]
    conv => rhs; rw [← List.map_id keys]
    apply List.map_congr_left
    intro k hm
    have := hk' k hm
    show ((k.toNat : Nat) : Int) = k
    omega
  obtain ⟨h1, h2, _⟩ := selkeys_roundtrip s c hv
  have hset : setSelKey keys 10 c = (setStr selKeysName s c).1 := by
    rw [h1, hback]; simp [setSelKey, selKeys_flags.2.2.2.1]
  refine ⟨hv, hset, by rw [hset]; exact h2, ?_⟩
  simp [setSelKey, selKeys_flags.2.2.2.1, getSelKey]

/-- a wrong length is ignored by the legacy setter (whole context unchanged) -/
theorem legacy_selkey_bad_len (keys : List Int) (len : Int) (c : Ctx) (h : len ≠ 10) : setSelKey keys len c = c := by
  simp [setSelKey, selKeys_flags.2.2.2.1, h]

/-- since the repair of F05, `get_str` never aborts, whatever the legacy setter stored -/
theorem getStr_never_panics (name : String) (c : Ctx) : (getStr name c).isOk = true := by
  have : getStrAbortsOnNul = false := by decide
  unfold getStr
  split
  · rfl
  · simp only [this]; split <;> (split <;> simp [Outcome.isOk])

-- =============================================================================================
-- invariant: getters always report documented values

theorem legacySet_eq (fn : String) (v : Int) (c : Ctx) : legacySet fn v c = c ∨ ∃ name, legacySet fn v c = (setInt name v c).1 := by
  unfold legacySet
  split
  · next name _ => exact Or.inr ⟨name, rfl⟩
  · exact Or.inl rfl

theorem gettersInRange_step (c : Ctx) (op : Op) (h : GettersInRange c) : GettersInRange (step c op) := by
  cases op with
  | setInt name v => exact gettersInRange_setInt name v c h
  | legacySet fn v =>
    show GettersInRange (legacySet fn v c)
    rcases legacySet_eq fn v c with he | ⟨name, he⟩ <;> rw [he]
    · exact h
    · exact gettersInRange_setInt name v c h
  | setKBType n => exact gettersInRange_of_opts c _ rfl h
  | setSelKey keys len => exact gettersInRange_of_opts c _ (str_ops_frame "" [] 0 keys len c).2.2.1 h
  | setStr name value => exact gettersInRange_of_opts c _ (str_ops_frame name value 0 [] 0 c).1 h
  | configure field selKey =>
    show GettersInRange (configure field selKey c)
    unfold configure
    have : ∀ (l : List (String × String)) (c : Ctx), GettersInRange c →
        GettersInRange (l.foldl (fun c (call : String × String) =>
          if call.1 = "chewing_set_selKey" then setSelKey selKey maxSelKey c else legacySet call.1 (field call.2) c) c) := by
      intro l
      induction l with
      | nil => intro c hc; exact hc
      | cons x xs ih =>
        intro c hc
        apply ih
        show GettersInRange (if x.1 = "chewing_set_selKey" then _ else _)
        split
        · exact gettersInRange_of_opts c _ (str_ops_frame "" [] 0 selKey maxSelKey c).2.2.1 hc
        · rcases legacySet_eq x.1 (field x.2) c with he | ⟨name, he⟩ <;> rw [he]
          · exact hc
          · exact gettersInRange_setInt name _ c hc
    exact this _ c h

/-- **getters_in_range**: after ANY history of configuration calls (valid or not, through any entry point)
    every integer option reports a value of its documented range -/
theorem getters_in_range (c : Ctx) (h : Reachable c) : GettersInRange c := by
  obtain ⟨ops, rfl⟩ := h
  have hinit : GettersInRange init := by
    intro name hn
    obtain ⟨⟨n, lo, hi⟩, hmem, rfl⟩ := List.mem_map.mp hn
    have := List.all_eq_true.mp init_in_range _ hmem
    simp only [decide_eq_true_eq] at this
    exact ⟨lo, hi, hmem, this.1, this.2⟩
  have : ∀ (ops : List Op) (c : Ctx), GettersInRange c → GettersInRange (ops.foldl step c) := by
    intro ops
    induction ops with
    | nil => exact fun c hc => hc
    | cons op ops ih => exact fun c hc => ih _ (gettersInRange_step c op hc)
  exact this ops init hinit

-- =============================================================================================
-- non-vacuity: the hypotheses above are satisfiable, and the model is not trivial

example : InRange "chewing.candidates_per_page" 7 := ⟨1, 10, by decide, by decide, by decide⟩
example : ¬ InRange "chewing.candidates_per_page" 11 := by
  rintro ⟨lo, hi, hm, h1, h2⟩
  simp only [DocRange, List.mem_cons, List.mem_nil_iff, or_false, Prod.mk.injEq] at hm
  rcases hm with h|h|h|h|h|h|h|h|h|h|h|h|h <;> obtain ⟨hn, rfl, rfl⟩ := h <;> first | (revert hn; decide) | (revert h2; decide)
example : (setInt "chewing.candidates_per_page" 7 init).1 ≠ init := by decide
example : getInt "chewing.candidates_per_page" (setInt "chewing.candidates_per_page" 7 init).1 = 7 := by decide
example : ValidSelKeys [97, 115, 100, 102, 103, 104, 106, 107, 108, 59] := by unfold ValidSelKeys; decide
example : (setKBType 6 init).1.keyboard = 1 ∧ (setKBType 6 init).1 ≠ init := by decide
example : Reachable (setKBType 6 init).1 := ⟨[.setKBType 6], rfl⟩
example : KnownF05b (List.replicate 10 200) := ⟨200, by decide, by decide⟩
example : ¬ KnownF05b [49, 50, 51, 52, 53, 54, 55, 56, 57, 48] := by
  rintro ⟨k, hm, hn⟩; revert hn; revert k; decide

end Chewing.C16
