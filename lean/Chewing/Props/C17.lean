import Chewing.Proofs.EditorPure
import Chewing.Proofs.EditorLinkMeta2
import Chewing.Proofs.ProcessState
/-!
# C17 — Queries are pure, contexts are independent, reset gives a clean editor

Model: `Chewing.Model.Editor` (validated per step against the real editor, harness `editor`), the
definitions of `Proofs/EditorPure.lean`.  All theorems hold for EVERY environment `env`.

**1. Queries are pure.**  In a functional model a getter is a function `Editor → value`: it cannot
change the editor.  `query_pure`, `insert_getters`, `getter_repeat`, `queries_block` are therefore true by
construction (proved by induction over the history, nothing deep).  The substance is the
correspondence: that the REAL getters behave like functions of the state — checked on the real editor
by `oracle_c17.rs` (every getter twice after every operation: equal answers, snapshot (hook H1) and
dictionary unchanged; forked twins with / without getter bursts) and on the real C API by
`capi_pure.rs` (all `chewing_*` getters incl. `_static` and enumerate/hasNext/get loops inserted at
random positions vs. the same calls without them).  The C layer is covered by that differential
execution, not by a model; `Ctx` below is only a small wrapper model of the four iterator slots:
the enumerate-style calls write nothing but their own slot (`cgetters_keep_editor`,
`insert_cgetters`), and a slot read after its own `Enumerate` is a function of the editor alone
(`enumerate_overwrites`).

**2. Contexts are independent.**  Two contexts are two editor values, each with its own dictionary
value (= they do not share a user-dictionary file; a shared file would be an `Env` operation of one
changing the `D` of the other and is outside this product model).  `contexts_independent`: an
interleaved history projects to the two separate histories, results included; `contexts_independent_panic`:
an interleaved history that panics does so with the panic of one context running alone; `steps_commute`;
`other_context_untouched`.  Real shared process state, by reading `capi/src/io.rs`: the `OWNED`
registry (pointer → kind, consulted by `chewing_free` only; feeds no result) and the logger slot
`LOGGER`.  The logger slot IS observable by the application (a callback receives another context's
lines, or none): `LoggerIsolated` is the full statement, `logger_isolated_refuted` the witness
(finding F33, class `F33-logger-global`, reproduced on the real C API in every run by
`capi_pure.rs`), `logger_isolated_partial` excludes exactly that class.  "From different threads":
the schedule is not modelled; the C harness runs the two contexts on two threads.
CREATION is part of the statement: `Proofs/ProcessState.lean` models the process (`Proc`: live contexts by
id + the logger slot) with `chewing_new2` taking the contents found under ITS syspath / userpath as an
argument (`CreateArgs`: dictionaries, `swkb.dat`, `symbols.dat`, estimator clock), and
`creation_args_local` proves that a context's events are a function of its creation arguments and its
call history only — whatever other contexts, created before or after it with other arguments, do.  That
the code has no process-wide item besides the reviewed ones (`LOGGER`, `OWNED`, the cfg-guarded hook
`CALLBACK`; every other `static` is an immutable table) is checked by the translator
(`tools/extractors/process_state.py`, fails closed on a new stateful item) and pinned by
`process_state_inventory`; the experiment itself runs on the real C API in `capi_pure.rs` section D
(contexts with different data directories in one process, both creation orders, interleaved and one
thread per context, vs. each alone in a fresh process).

**3. Reset gives a clean editor.**  `clear_eq_fresh`: after the F25 fix `e.clear` IS the editor the
constructors produce from the same configuration, dictionary, tables, layout object and estimator
clock (`Editor.fresh (e.config)`), except for the pending flush level `dirty`; hence every
continuation, with queries anywhere, returns the same (`reset_is_fresh`), and `dirty` is 0 after every
key (`processKey_dirty`), so the exception concerns only a reset directly after an API learn/unlearn.
The estimator clock is a constructor argument (`LaxUserFreqEstimate::new`), so "same clock" is a
legitimate fresh editor; the C API instead restarts the clock from the newest stored time
(`max_from`).
Before the fix the statement was FALSE (`reset_is_fresh_refuted_before_fix`, DESIGN F25);
`f25_history_now_agrees` replays the former counter-example on the repaired model.  At the C level
`chewing_Reset` additionally has to drop the four iterator slots (second fix; `ctx_reset_eq_fresh`,
`ctx_reset_is_fresh` over ALL call lists incl. slot reads without Enumerate, `ctx_reset_refuted_before_fix`).
Bisimulation form: `Bisim`, `bisim_runs` (bisimilar editors are indistinguishable by any history of
operations and queries), `reset_is_fresh_bisim`; `query_meta_blind` (no getter reads the clock or the
flush level), `simple_ops_meta_blind` (the seven operations that neither read nor write them), and the
reduction `resetFreshModuloClock_of_relation`: the clock-and-flush-insensitive statement follows from the
step property of ONE relation.
Linked (round 2, section at the end): that step property IS proved, through every arm of `processKey` and
every other entry point (all 14 operations; `Proofs/EditorLinkMeta.lean`, `Proofs/EditorLinkMeta2.lean`:
`applyR_metaEq`), for the relation "equal up to the estimator clock and the pending flush level"
(`EdMetaEq`), in every environment in which time stamps and flushing are unobservable (`MetaBlindEnv`:
`estimate` does not depend on the clock — C08: Δt = 0 on the editor path —, the time stamp stored by
`update_phrase` is unobservable, `reopen` + `flush` leaves the observable dictionary unchanged).  Hence
`reset_is_fresh_modulo_clock`: a reset editor and a fresh editor whose clock is ARBITRARY (a new C context
restarts it from the newest stored time) and whose flush level is 0 show the client the same on every
history of operations and queries.  `metaBlind_needed`: without the hypothesis the statement is false (an
estimator that reads the clock tells them apart).  The hypothesis itself is about the components behind
`Env` (C08 / C09 / C10), not about the editor; the C harness compares reset contexts with new contexts whose
clock differs, the Rust harness masks the flush level until the first key.
-/
namespace Chewing.C17
open Chewing

variable {D L : Type} (env : Env D L)

/-! ## 1. Queries are pure -/

/-- a query returns its answer and leaves the editor value as it is (by construction of the model) -/
theorem query_keeps_state (e : Editor D L) (q : Query) :
    e.stepQ env (.query q) = .ok (e, .ans q (e.query env q)) := rfl

/-- **query_pure**: for EVERY editor value (reachable or not) and every getter: the call leaves the state
    unchanged, a repetition returns an equal value, and whatever operation follows behaves as if the
    getter had not been called -/
theorem query_pure (e : Editor D L) (q : Query) (o : Op L) :
    (∃ v, e.stepQ env (.query q) = .ok (e, .ans q v) ∧ e.runQ env [.query q, .query q] = .ok (e, [.ans q v, .ans q v])) ∧
    (e.runQ env [.query q, .op o]).map (fun r => (r.1, Ev.rets r.2)) = (e.runQ env [.op o]).map (fun r => (r.1, Ev.rets r.2)) := by
  refine ⟨⟨e.query env q, rfl, rfl⟩, ?_⟩
  simp only [Editor.runQ, Editor.stepQ, Outcome.map_map]
  cases e.applyR env o <;> rfl

/-- **inserting getters changes nothing**: a history with queries interleaved at arbitrary positions
    ends in the same editor, with the same return values of all operations (and the same panic, if an
    operation panics), as the history without them -/
theorem insert_getters (l : List (OpQ L)) : ∀ e : Editor D L,
    (e.runQ env l).map (fun r => (r.1, Ev.rets r.2)) = e.runR env (OpQ.strip l) := by
  induction l with
  | nil => intro e; rfl
  | cons c cs ih =>
    intro e
    cases c with
    | query q =>
      simp only [Editor.runQ, Editor.stepQ, OpQ.strip, Outcome.map_map, Ev.rets]
      exact ih e
    | op o =>
      simp only [Editor.runQ, Editor.stepQ, OpQ.strip, Editor.runR]
      cases e.applyR env o with
      | ok x =>
        obtain ⟨e', v⟩ := x
        simp only [Outcome.map_ok, Outcome.map_map]
        rw [← ih e', Outcome.map_map]
        rfl
      | panic p => rfl
      | outOfFuel => rfl

/-- the same, quantified the way the property is worded: whatever mixed history `l` is obtained from
    `ops` by inserting queries -/
theorem insert_getters_of_strip (ops : List (Op L)) (l : List (OpQ L)) (h : OpQ.strip l = ops) (e : Editor D L) :
    (e.runQ env l).map (fun r => (r.1, Ev.rets r.2)) = e.runR env ops := by
  rw [← h]; exact insert_getters env l e

/-- **repeating a getter returns an equal value** (and the rest of the history is unaffected) -/
theorem getter_repeat (e : Editor D L) (q : Query) (rest : List (OpQ L)) :
    e.runQ env (.query q :: .query q :: rest) =
      (e.runQ env rest).map fun r => (r.1, .ans q (e.query env q) :: .ans q (e.query env q) :: r.2) := by
  simp only [Editor.runQ, Editor.stepQ, Outcome.map_map]

/-- a block of queries anywhere: each is answered from the same editor value, whatever was asked
    before it in the block -/
theorem queries_block (e : Editor D L) (qs : List Query) (rest : List (OpQ L)) :
    e.runQ env (qs.map .query ++ rest) =
      (e.runQ env rest).map fun r => (r.1, qs.map (fun q => .ans q (e.query env q)) ++ r.2) := by
  induction qs with
  | nil => simp [Outcome.map_id']
  | cons q qs ih =>
    simp only [List.map_cons, List.cons_append, Editor.runQ, Editor.stepQ, ih, Outcome.map_map]

/-! ### the iterator slots of the C context -/

/-- every C-level getter, the enumerate-style ones included, leaves the editor alone -/
theorem cgetters_keep_editor (c : Ctx D L) (q : CQuery) : (c.cquery env q).1.ed = c.ed := by
  cases q <;> simp only [Ctx.cquery] <;> (try split) <;> rfl

/-- inserting any C-level getters (partial enumerations included) changes neither the editor nor the
    return value of any operation -/
theorem insert_cgetters (l : List (CCall L)) : ∀ c : Ctx D L,
    (c.run env l).map (fun r => (r.1.ed, r.2)) = c.ed.runR env (CCall.strip l) := by
  induction l with
  | nil => intro c; rfl
  | cons x xs ih =>
    intro c
    cases x with
    | q q =>
      simp only [Ctx.run, CCall.strip]
      rw [ih, cgetters_keep_editor]
    | op o =>
      simp only [Ctx.run, CCall.strip, Editor.runR, Ctx.cop]
      cases c.ed.applyR env o with
      | ok x =>
        obtain ⟨e', v⟩ := x
        simp only [Outcome.map_ok, Outcome.map_map]
        have := ih { c with ed := e' }
        simp only at this
        rw [← this, Outcome.map_map]
      | panic p => rfl
      | outOfFuel => rfl

/-- a slot that has just been (re)started by its own `Enumerate` depends on the editor only, not on
    what earlier enumerations left in it; outside `Selecting`, where `chewing_cand_Enumerate` leaves a
    stale slot, `chewing_cand_hasNext` answers 0 whatever the slot holds -/
theorem enumerate_overwrites (c₁ c₂ : Ctx D L) (h : c₁.ed = c₂.ed) :
    (c₁.cquery env .kbtypeEnumerate).1.kb = (c₂.cquery env .kbtypeEnumerate).1.kb ∧
    (∀ l, Shared.conversion env c₁.ed.shared = .ok l →
      (c₁.cquery env .intervalEnumerate).1.iv = (c₂.cquery env .intervalEnumerate).1.iv) ∧
    (∀ l, c₁.ed.query env .paginatedCandidates = .ok (.texts l) →
      (c₁.cquery env .candEnumerate).1.cand = (c₂.cquery env .candEnumerate).1.cand) ∧
    ((c₁.ed.query env .isSelecting = .ok (.bool false)) →
      (c₁.cquery env .candHasNext).2 = .bool false ∧ (c₂.cquery env .candHasNext).2 = .bool false) := by
  refine ⟨rfl, ?_, ?_, ?_⟩
  · intro l hl
    have hl2 : Shared.conversion env c₂.ed.shared = .ok l := by rw [← h]; exact hl
    simp only [Ctx.cquery, hl, hl2]
  · intro l hl
    have hl2 : c₂.ed.query env .paginatedCandidates = .ok (.texts l) := by rw [← h]; exact hl
    simp only [Ctx.cquery, hl, hl2]
  · intro hs
    have hs2 : c₂.ed.query env .isSelecting = .ok (.bool false) := by rw [← h]; exact hs
    simp only [Editor.query] at hs hs2
    constructor
    · simp only [Ctx.cquery]
      split
      · next s hst => rw [hst] at hs; simp at hs
      · rfl
    · simp only [Ctx.cquery]
      split
      · next s hst => rw [hst] at hs2; simp at hs2
      · rfl

/-- the documented loop `Enumerate; while hasNext { Get }` returns the phrase intervals of the current
    conversion, whatever an earlier (possibly abandoned) enumeration left in the slot -/
theorem interval_loop (c : Ctx D L) (l : List Interval) (h : Shared.conversion env c.ed.shared = .ok l) (fuel : Nat)
    (hf : l.length ≤ fuel) :
    (Slot.drain fuel (c.cquery env .intervalEnumerate).1.iv).1 = l.filter (·.isPhrase) := by
  simp only [Ctx.cquery, h]
  rw [Slot.drain_some]
  exact Nat.le_trans (List.length_filter_le ..) hf

/-! ## 2. Contexts are independent -/

section pair
variable {D₁ L₁ D₂ L₂ : Type} (envA : Env D₁ L₁) (envB : Env D₂ L₂)

/-- a call on one context leaves the other context's editor value untouched -/
theorem other_context_untouched (p p' : Pair D₁ L₁ D₂ L₂) (v : Tagged) :
    (∀ o, p.step envA envB (.inl o) = .ok (p', v) → p'.b = p.b) ∧
    (∀ o, p.step envA envB (.inr o) = .ok (p', v) → p'.a = p.a) := by
  constructor <;> intro o h <;> simp only [Pair.step] at h
  · cases hr : p.a.applyR envA o <;> rw [hr] at h <;> simp only [Outcome.map] at h
    · cases h; rfl
    · cases h
    · cases h
  · cases hr : p.b.applyR envB o <;> rw [hr] at h <;> simp only [Outcome.map] at h
    · cases h; rfl
    · cases h
    · cases h

/-- a call on A and a call on B commute: either order gives the same pair of editors and the same two
    return values -/
theorem steps_commute (p : Pair D₁ L₁ D₂ L₂) (o₁ : Op L₁) (o₂ : Op L₂) (a' : Editor D₁ L₁) (b' : Editor D₂ L₂)
    (v₁ v₂ : Value) (h₁ : p.a.applyR envA o₁ = .ok (a', v₁)) (h₂ : p.b.applyR envB o₂ = .ok (b', v₂)) :
    p.run envA envB [.inl o₁, .inr o₂] = .ok ({ a := a', b := b' }, [.a v₁, .b v₂]) ∧
    p.run envA envB [.inr o₂, .inl o₁] = .ok ({ a := a', b := b' }, [.b v₂, .a v₁]) := by
  constructor <;> simp [Pair.run, Pair.step, h₁, h₂, Outcome.map]

/-- **A interleaved with B behaves as A alone, and B as B alone**: any interleaved history that runs
    to completion projects to the two separate histories — final editors and every return value -/
theorem contexts_independent (h : List (Op L₁ ⊕ Op L₂)) :
    ∀ (p p' : Pair D₁ L₁ D₂ L₂) (vs : List Tagged), p.run envA envB h = .ok (p', vs) →
      p.a.runR envA (lefts h) = .ok (p'.a, Tagged.as vs) ∧ p.b.runR envB (rights h) = .ok (p'.b, Tagged.bs vs) := by
  induction h with
  | nil => intro p p' vs hr; simp only [Pair.run] at hr; cases hr; exact ⟨rfl, rfl⟩
  | cons c cs ih =>
    intro p p' vs hr
    cases c with
    | inl o =>
      simp only [Pair.run, Pair.step] at hr
      cases ha : p.a.applyR envA o with
      | ok x =>
        obtain ⟨a', v⟩ := x
        rw [ha] at hr; simp only [Outcome.map_ok] at hr
        cases hrest : Pair.run envA envB { p with a := a' } cs with
        | ok y =>
          obtain ⟨p2, vs2⟩ := y
          rw [hrest] at hr; simp only [Outcome.map] at hr; cases hr
          obtain ⟨i1, i2⟩ := ih _ _ _ hrest
          simp only [lefts, rights, Editor.runR, ha, Tagged.as, Tagged.bs]
          simp only at i1 i2
          rw [i1]; exact ⟨rfl, i2⟩
        | panic s => rw [hrest] at hr; cases hr
        | outOfFuel => rw [hrest] at hr; cases hr
      | panic s => rw [ha] at hr; cases hr
      | outOfFuel => rw [ha] at hr; cases hr
    | inr o =>
      simp only [Pair.run, Pair.step] at hr
      cases hb : p.b.applyR envB o with
      | ok x =>
        obtain ⟨b', v⟩ := x
        rw [hb] at hr; simp only [Outcome.map_ok] at hr
        cases hrest : Pair.run envA envB { p with b := b' } cs with
        | ok y =>
          obtain ⟨p2, vs2⟩ := y
          rw [hrest] at hr; simp only [Outcome.map] at hr; cases hr
          obtain ⟨i1, i2⟩ := ih _ _ _ hrest
          simp only [lefts, rights, Editor.runR, hb, Tagged.as, Tagged.bs]
          simp only at i1 i2
          rw [i2]; exact ⟨i1, rfl⟩
        | panic s => rw [hrest] at hr; cases hr
        | outOfFuel => rw [hrest] at hr; cases hr
      | panic s => rw [hb] at hr; cases hr
      | outOfFuel => rw [hb] at hr; cases hr

/-- … and when the interleaved history panics, it is the panic of one of the two contexts running alone
    (same message): interleaving creates no new failures -/
theorem contexts_independent_panic (h : List (Op L₁ ⊕ Op L₂)) :
    ∀ (p : Pair D₁ L₁ D₂ L₂) (s : String), p.run envA envB h = .panic s →
      p.a.runR envA (lefts h) = .panic s ∨ p.b.runR envB (rights h) = .panic s := by
  induction h with
  | nil => intro p s hr; simp only [Pair.run] at hr; cases hr
  | cons c cs ih =>
    intro p s hr
    cases c with
    | inl o =>
      simp only [Pair.run, Pair.step] at hr
      simp only [lefts, rights, Editor.runR]
      cases ha : p.a.applyR envA o with
      | ok x =>
        obtain ⟨a', v⟩ := x
        rw [ha] at hr; simp only [Outcome.map_ok] at hr
        cases hrest : Pair.run envA envB { p with a := a' } cs with
        | ok y => rw [hrest] at hr; cases hr
        | panic s' =>
          rw [hrest] at hr; simp only [Outcome.map] at hr; cases hr
          rcases ih _ _ hrest with h1 | h2
          · left; simp only at h1; show Outcome.map _ (Editor.runR envA a' (lefts cs)) = _; rw [h1]; rfl
          · right; exact h2
        | outOfFuel => rw [hrest] at hr; cases hr
      | panic s' => rw [ha] at hr; simp only [Outcome.map] at hr; cases hr; left; rfl
      | outOfFuel => rw [ha] at hr; cases hr
    | inr o =>
      simp only [Pair.run, Pair.step] at hr
      simp only [lefts, rights, Editor.runR]
      cases hb : p.b.applyR envB o with
      | ok x =>
        obtain ⟨b', v⟩ := x
        rw [hb] at hr; simp only [Outcome.map_ok] at hr
        cases hrest : Pair.run envA envB { p with b := b' } cs with
        | ok y => rw [hrest] at hr; cases hr
        | panic s' =>
          rw [hrest] at hr; simp only [Outcome.map] at hr; cases hr
          rcases ih _ _ hrest with h1 | h2
          · left; exact h1
          · right; simp only at h2; show Outcome.map _ (Editor.runR envB b' (rights cs)) = _; rw [h2]; rfl
        | outOfFuel => rw [hrest] at hr; cases hr
      | panic s' => rw [hb] at hr; simp only [Outcome.map] at hr; cases hr; right; rfl
      | outOfFuel => rw [hb] at hr; cases hr

end pair

/-! ### creation: a context is a function of ITS creation arguments and ITS call history -/

section process
variable (dflt : NewDefaults L)

/-- `chewing_new2` on a free id yields the context made of the code's defaults and of the arguments of
    THIS call, whatever the process already holds (other contexts, logger slot) -/
theorem new2_reads_its_arguments_only (p : Proc D L) (id : Nat) (a : CreateArgs D) (hfree : p.ctxs id = none) :
    ∃ p', p.step env dflt (.new2 id a) = .ok (p', some (id, .created)) ∧ p'.ctxs id = some (Ctx.create dflt a) ∧
      ∀ j, j ≠ id → p'.ctxs j = p.ctxs j := by
  refine ⟨{ (p.set id (some (Ctx.create dflt a))) with logger := (p.logger.step (.new2 id a.withLogger)).1 }, ?_, ?_, ?_⟩
  · simp only [Proc.step, hfree]
  · simp [Proc.set]
  · intro j hj; simp [Proc.set, hj]

/-- **`creation_args_local`**: run ANY history of creations (with any arguments: other data directories,
    other user paths), calls and deletions in a fresh process; if it runs to completion, the events of
    context `id` are exactly the events of the calls made on `id` — its own `chewing_new2` with its own
    arguments included — run ALONE in a fresh process, and the context ends in the same state -/
theorem creation_args_local (id : Nat) (h : List (PCall D L)) (p' : Proc D L) (es : List (Nat × PEv))
    (hr : (Proc.empty : Proc D L).run env dflt h = .ok (p', es)) :
    ∃ q', (Proc.empty : Proc D L).run env dflt (PCall.only id h) = .ok (q', PEv.only id es) ∧
      p'.ctxs id = q'.ctxs id :=
  Proc.run_local env dflt id h Proc.empty Proc.empty p' es rfl hr

/-- the same from any two processes that agree on context `id` only (e.g. one of them already holds
    other contexts, or another logger) -/
theorem creation_args_local_any_process (id : Nat) (h : List (PCall D L)) (p q p' : Proc D L)
    (es : List (Nat × PEv)) (hpq : p.ctxs id = q.ctxs id) (hr : p.run env dflt h = .ok (p', es)) :
    ∃ q', q.run env dflt (PCall.only id h) = .ok (q', PEv.only id es) ∧ p'.ctxs id = q'.ctxs id :=
  Proc.run_local env dflt id h p q p' es hpq hr

/-- a call on one context neither changes nor shows anything of another one (creation and deletion
    included) -/
theorem process_step_other (p p' : Proc D L) (c : PCall D L) (e : Option (Nat × PEv)) (id : Nat) (hne : c.id ≠ id)
    (h : p.step env dflt c = .ok (p', e)) : p'.ctxs id = p.ctxs id ∧ ∀ x, e = some x → x.1 ≠ id :=
  Proc.step_other env dflt p p' c e id hne h

/-- the translator's inventory of process-wide items that can change: exactly the reviewed ones — the
    logger slot (modelled, F33), the `OWNED` registry (C15) and the cfg-guarded verification hook -/
theorem process_state_inventory :
    Gen.processStateful = [("capi/src/io.rs", "LOGGER"), ("capi/src/io.rs", "OWNED"), ("src/verif.rs", "CALLBACK")] := rfl

/-- of the stateful items, the body of `chewing_new2` names the logger slot only -/
theorem new2_names_logger_only : Gen.new2Statics = ["LOGGER"] := rfl

/-- non-vacuity: two contexts with different symbol tables in one process, one deleted, the other queried -/
example (a b : CreateArgs D) :
    ((Proc.empty : Proc D L).run env dflt [.new2 0 a, .new2 1 b, .call 1 (.q .kbtypeEnumerate), .delete 0]).map (·.2) =
      .ok [(0, .created), (1, .created), (1, .ev (.ans .none)), (0, .deleted)] := rfl

example (a b : CreateArgs D) :
    (PCall.only 1 [.new2 0 a, .new2 1 b, .call 1 (.q .kbtypeEnumerate), .delete 0] : List (PCall D L)) =
      [.new2 1 b, .call 1 (.q .kbtypeEnumerate)] := rfl

end process

/-! ### the process-wide logger slot (finding F33) -/

/-- full statement: as long as context `c` has not removed its own callback, every log line emitted by
    `c` is delivered to `c`'s callback -/
def LoggerIsolated : Prop :=
  ∀ (c : Nat) (h : List LogCall), (∀ x ∈ h, x.uninstalls c = false) →
    ∀ d ∈ LogSlot.run (some c) h, d.1 = c → d.2 = some c

/-- **F33**: context 0 has its logger installed; `chewing_new2(.., loggerB, dataB)` for context 1
    redirects context 0's lines to context 1's callback and data pointer -/
theorem logger_isolated_refuted : ¬ LoggerIsolated := by
  intro h
  have := h 0 [.new2 1 true, .work 0] (by decide) (0, some 1) (by decide) rfl
  exact absurd this (by decide)

/-- the second half of F33: after `chewing_delete(B)` context A's lines reach no callback at all -/
theorem logger_silenced_by_delete :
    LogSlot.run (some 0) [.new2 1 true, .delete 1, .work 0] = [(0, none)] := by decide

/-- outside the class `F33-logger-global` (no other context is created with a logger, deleted, or has
    its logger changed while `c` is logging) the lines of `c` reach `c`'s callback -/
theorem logger_isolated_partial (c : Nat) (h : List LogCall)
    (hown : ∀ x ∈ h, x.uninstalls c = false) (hforeign : ∀ x ∈ h, x.foreign c = false) :
    ∀ d ∈ LogSlot.run (some c) h, d.1 = c → d.2 = some c := by
  induction h with
  | nil => intro d hd; simp [LogSlot.run] at hd
  | cons x xs ih =>
    have ih' := ih (fun y hy => hown y (List.mem_cons_of_mem _ hy)) (fun y hy => hforeign y (List.mem_cons_of_mem _ hy))
    have h1 := hown x (List.mem_cons_self ..)
    have h2 := hforeign x (List.mem_cons_self ..)
    intro d hd hc
    cases x with
    | new2 k w =>
      cases w with
      | true =>
        simp only [LogCall.foreign, bne_eq_false_iff_eq] at h2
        subst h2
        simp only [LogSlot.run, LogSlot.step] at hd
        exact ih' d hd hc
      | false =>
        simp only [LogSlot.run, LogSlot.step] at hd
        exact ih' d hd hc
    | delete k =>
      simp only [LogCall.foreign, bne_eq_false_iff_eq] at h2
      simp only [LogCall.uninstalls, beq_eq_false_iff_ne] at h1
      exact absurd h2 h1
    | setLogger k w =>
      simp only [LogCall.foreign, bne_eq_false_iff_eq] at h2
      subst h2
      cases w with
      | true =>
        simp only [LogSlot.run, LogSlot.step] at hd
        exact ih' d hd hc
      | false => simp [LogCall.uninstalls] at h1
    | work k =>
      simp only [LogSlot.run, LogSlot.step, List.mem_cons] at hd
      rcases hd with rfl | hd
      · rfl
      · exact ih' d hd hc

/-! ## 3. Reset gives a clean editor -/

/-- **a reset editor is a fresh editor**: `Editor::clear` yields exactly what the constructors produce
    from the same configuration, dictionary, tables, layout object (cleared) and estimator clock — every
    other field has its initial value — except that the pending flush level is carried over -/
theorem clear_eq_fresh (e : Editor D L) :
    e.clear env = (Editor.fresh (e.config env)).withDirty e.shared.dirty := by
  simp [Editor.clear, Shared.clear, Editor.fresh, Editor.config, Editor.withDirty, CompEditor.clear,
    Composition.clear]

/-- … and with no flush pending (the case after every key, see `processKey_dirty`) it IS the fresh editor -/
theorem clear_eq_fresh_of_clean (e : Editor D L) (h : e.shared.dirty = 0) :
    e.clear env = Editor.fresh (e.config env) := by
  rw [clear_eq_fresh, h]; rfl

/-- **reset_is_fresh**: after a reset issued in ANY editor value `e` (every state, reachable or not),
    every continuation — operations and queries in any order — ends in the same editor and returns the
    same values as on the fresh editor -/
theorem reset_is_fresh (e : Editor D L) (l : List (OpQ L)) :
    (e.clear env).runQ env l = ((Editor.fresh (e.config env)).withDirty e.shared.dirty).runQ env l := by
  rw [clear_eq_fresh]

/-- every key event ends with the dictionary flushed: `dirty = 0` -/
theorem processKey_dirty (e e' : Editor D L) (ev : KeyEvent) (b : KB) (h : e.processKey env ev = .ok (e', b)) :
    e'.shared.dirty = 0 := by
  unfold Editor.processKey at h
  simp only at h
  split at h
  · cases h
  · cases h
  · split at h
    · cases h
    · cases h
    · injection h with h; injection h with h1 h2
      rw [← h1]
      simp only
      split
      · rfl
      · next hd => simp only [Nat.not_lt, Nat.le_zero_eq] at hd; exact hd

/-- the fresh editor is what the public constructors give: `Editor::new` (default options, default engine
    kind, some initial layout `l0`), then `set_editor_options`, `set_conversion_engine`,
    `set_syllable_editor` -/
theorem fresh_by_constructors (cfg : Config D L) (l0 : L) :
    let new : Editor D L := Editor.fresh { cfg with options := {}, engine := .chewing, syl := l0 }
    (fun e : Editor D L => e.setLayout env cfg.syl)
      ((fun e : Editor D L => { e with shared := { e.shared with engine := cfg.engine } })
        (new.setOptions env cfg.options)) = Editor.fresh cfg := by
  simp only [Editor.setOptions, Editor.setLayout, Editor.leaveIfEmpty, Editor.fresh]
  have : (St.entering == St.enteringSyllable) = false := by decide
  by_cases h : (LangMode.chinese != cfg.options.languageMode) = true <;> simp [h, this]

/-! ### bisimulation form, and what is known about the clock and the pending flush level -/

/-- what the client sees of a run: every return value and every answer, or the panic -/
def seen (r : Outcome (Editor D L × List Ev)) : Outcome (List Ev) := r.map (·.2)

/-- `R` is a bisimulation for the calls of the editor (operations AND queries): related editors answer
    every call alike — same value and related successors, or the same panic -/
def Bisim (R : Editor D L → Editor D L → Prop) : Prop :=
  ∀ e₁ e₂ c, R e₁ e₂ →
    match e₁.stepQ env c, e₂.stepQ env c with
    | .ok (e₁', v₁), .ok (e₂', v₂) => R e₁' e₂' ∧ v₁ = v₂
    | .panic p, .panic q => p = q
    | .outOfFuel, .outOfFuel => True
    | _, _ => False

/-- bisimilar editors are indistinguishable by any history -/
theorem bisim_runs (R : Editor D L → Editor D L → Prop) (hR : Bisim env R) :
    ∀ (l : List (OpQ L)) (e₁ e₂ : Editor D L), R e₁ e₂ → seen (e₁.runQ env l) = seen (e₂.runQ env l) := by
  intro l
  induction l with
  | nil => intro e₁ e₂ _; rfl
  | cons c cs ih =>
    intro e₁ e₂ h
    have hs := hR e₁ e₂ c h
    simp only [Editor.runQ, seen]
    cases h₁ : e₁.stepQ env c with
    | ok x₁ =>
      obtain ⟨a₁, v₁⟩ := x₁
      cases h₂ : e₂.stepQ env c with
      | ok x₂ =>
        obtain ⟨a₂, v₂⟩ := x₂
        rw [h₁, h₂] at hs
        obtain ⟨hr, hv⟩ := hs
        have := ih a₁ a₂ hr
        simp only [seen] at this
        subst hv
        show Outcome.map (·.2) ((a₁.runQ env cs).map fun r => (r.1, v₁ :: r.2))
          = Outcome.map (·.2) ((a₂.runQ env cs).map fun r => (r.1, v₁ :: r.2))
        rw [Outcome.map_map, Outcome.map_map]
        calc _ = ((a₁.runQ env cs).map (·.2)).map (v₁ :: ·) := (Outcome.map_map _ _ _).symm
          _ = ((a₂.runQ env cs).map (·.2)).map (v₁ :: ·) := by rw [this]
          _ = _ := Outcome.map_map _ _ _
      | panic q => rw [h₁, h₂] at hs; exact hs.elim
      | outOfFuel => rw [h₁, h₂] at hs; exact hs.elim
    | panic p =>
      cases h₂ : e₂.stepQ env c with
      | ok x₂ => rw [h₁, h₂] at hs; exact hs.elim
      | panic q => rw [h₁, h₂] at hs; simp only at hs; subst hs; rfl
      | outOfFuel => rw [h₁, h₂] at hs; exact hs.elim
    | outOfFuel =>
      cases h₂ : e₂.stepQ env c with
      | ok x₂ => rw [h₁, h₂] at hs; exact hs.elim
      | panic q => rw [h₁, h₂] at hs; exact hs.elim
      | outOfFuel => rfl

/-- equality is a bisimulation (the model is a function of the editor value) -/
theorem bisim_eq : Bisim env (fun e₁ e₂ : Editor D L => e₁ = e₂) := by
  intro e₁ e₂ c h
  subst h
  cases e₁.stepQ env c with
  | ok x => exact ⟨rfl, rfl⟩
  | panic p => rfl
  | outOfFuel => trivial

/-- **reset_is_fresh, bisimulation form**: whatever bisimulation `R` relates the reset editor to a candidate
    fresh editor `f`, no history tells them apart.  With `R := Eq` and `f := fresh (config e)` (up to the
    flush level) this is `reset_is_fresh`; a coarser `R` that ignores the clock and the flush level would
    give the C-level statement (see `ResetFreshModuloClock`, not proved) -/
theorem reset_is_fresh_bisim (R : Editor D L → Editor D L → Prop) (hR : Bisim env R) (e f : Editor D L)
    (h : R (e.clear env) f) (l : List (OpQ L)) : seen ((e.clear env).runQ env l) = seen (f.runQ env l) :=
  bisim_runs env R hR l _ _ h

/-- the two fields no getter reads: the estimator clock and the pending flush level -/
def setMeta (e : Editor D L) (t k : Nat) : Editor D L := { e with shared := { e.shared with time := t, dirty := k } }

/-- **no getter can see the clock or the flush level** -/
theorem query_meta_blind (e : Editor D L) (t k : Nat) (q : Query) : (setMeta e t k).query env q = e.query env q := by
  cases q <;> rfl

/-- `revalidate_selecting` (F32 repair) reads neither of them -/
theorem revalidate_setMeta (e : Editor D L) (t k : Nat) :
    (setMeta e t k).revalidate env = (e.revalidate env).map fun e' => setMeta e' t k := by
  obtain ⟨sh, st⟩ := e
  cases st with
  | selecting s =>
    have ht : Selecting.totalPage env s { sh with time := t, dirty := k } = Selecting.totalPage env s sh := rfl
    simp only [Editor.revalidate, setMeta, ht]
    cases Selecting.totalPage env s sh with
    | ok tp =>
      simp only
      split
      · rfl
      · split <;> rfl
    | panic q => rfl
    | outOfFuel => rfl
  | entering => rfl
  | enteringSyllable => rfl
  | highlighting m => rfl

/-- the operations that neither read nor write them commute with changing them -/
theorem simple_ops_meta_blind (e : Editor D L) (t k : Nat) (o : Op L)
    (ho : match o with
      | .clear | .ack | .clearSyl | .setOptions _ | .setLayout _ | .setEngine _ | .cancelSelecting => True
      | _ => False) :
    (setMeta e t k).applyR env o = (e.applyR env o).map fun r => (setMeta r.1 t k, r.2) := by
  cases o <;> simp only at ho
  case clear => rfl
  case ack => rfl
  case setEngine => rfl
  case cancelSelecting =>
    obtain ⟨sh, st⟩ := e
    cases st <;> rfl
  case clearSyl =>
    simp only [Editor.applyR, Editor.clearSyllableEditor, Editor.leaveIfEmpty, setMeta, Outcome.map]
    split <;> rename_i h <;> simp only [h, ↓reduceIte] <;> rfl
  case setLayout l =>
    have hpre : (setMeta e t k).setLayout env l = setMeta (e.setLayout env l) t k := by
      simp only [Editor.setLayout, Editor.leaveIfEmpty, setMeta]
      split <;> rename_i h <;> simp only [h, ↓reduceIte] <;> rfl
    simp only [Editor.applyR, hpre, revalidate_setMeta, Outcome.map_map]
  case setOptions o =>
    have hpre : (setMeta e t k).setOptions env o = setMeta (e.setOptions env o) t k := by
      simp only [Editor.setOptions, Editor.leaveIfEmpty, setMeta]
      by_cases h1 : (e.shared.options.languageMode != o.languageMode) = true
      · simp only [h1, ↓reduceIte]
        by_cases h2 : (env.sylIsEmpty (env.clearSyl e.shared.syl) && e.state == St.enteringSyllable) = true <;>
          simp only [h2, ↓reduceIte] <;> (try rfl)
      · simp only [h1, Bool.false_eq_true, ↓reduceIte]
        by_cases h2 : (env.sylIsEmpty e.shared.syl && e.state == St.enteringSyllable) = true <;>
          simp only [h2, Bool.false_eq_true, ↓reduceIte] <;> (try rfl)
    simp only [Editor.applyR, hpre, revalidate_setMeta, Outcome.map_map]

/-- the statement a C client cares about — a reset context against a NEW context, whose clock restarts from
    the newest stored time and whose flush level is 0 — for environments in which timestamps and flushing
    are unobservable.  (Round 2: now PROVED under `MetaBlindEnv`, see `reset_is_fresh_modulo_clock` at the end of
    this file; the remark that follows describes the state before.)  NOT proved: it needs the frame property "the clock reaches nothing but the time
    argument of `estimate` / `updatePhrase`, the flush level nothing but `reopenFlush`" through every arm
    of `processKey`; covered by the paired executions of the harness (C API: the new context's clock differs;
    Rust API: flush level masked until the first key). -/
def ResetFreshModuloClock : Prop :=
  ∀ (R : Editor D L → Editor D L → Prop), (∀ e t k, R e (setMeta e t k)) → (∀ e₁ e₂ e₃, R e₁ e₂ → R e₂ e₃ → R e₁ e₃) →
    (∀ e₁ e₂, R e₁ e₂ → ∀ q, e₁.query env q = e₂.query env q) →
    (∀ e₁ e₂ o, R e₁ e₂ → match e₁.applyR env o, e₂.applyR env o with
      | .ok (a₁, v₁), .ok (a₂, v₂) => R a₁ a₂ ∧ v₁ = v₂ | .panic p, .panic q => p = q | .outOfFuel, .outOfFuel => True | _, _ => False) →
    ∀ (e : Editor D L) (t : Nat) (l : List (OpQ L)),
      seen ((e.clear env).runQ env l) = seen ((Editor.fresh { e.config env with time := t }).runQ env l)

/-- … which DOES follow once such a relation is exhibited (so the open obligation is exactly the step
    property of the relation "equal up to clock, flush level and unobservable dictionary details") -/
theorem resetFreshModuloClock_of_relation : ResetFreshModuloClock env := by
  intro R hmeta htrans hq hstep e t l
  have hb : Bisim env R := by
    intro e₁ e₂ c h
    cases c with
    | query q => exact ⟨h, by rw [hq e₁ e₂ h q]⟩
    | op o =>
      have := hstep e₁ e₂ o h
      simp only [Editor.stepQ]
      cases h₁ : e₁.applyR env o with
      | ok x₁ =>
        obtain ⟨a₁, v₁⟩ := x₁
        cases h₂ : e₂.applyR env o with
        | ok x₂ => obtain ⟨a₂, v₂⟩ := x₂; rw [h₁, h₂] at this; exact ⟨this.1, by rw [this.2]⟩
        | panic q => rw [h₁, h₂] at this; exact this.elim
        | outOfFuel => rw [h₁, h₂] at this; exact this.elim
      | panic p =>
        cases h₂ : e₂.applyR env o with
        | ok x₂ => rw [h₁, h₂] at this; exact this.elim
        | panic q => rw [h₁, h₂] at this; exact this
        | outOfFuel => rw [h₁, h₂] at this; exact this.elim
      | outOfFuel =>
        cases h₂ : e₂.applyR env o with
        | ok x₂ => rw [h₁, h₂] at this; exact this.elim
        | panic q => rw [h₁, h₂] at this; exact this.elim
        | outOfFuel => trivial
  refine reset_is_fresh_bisim env R hb e _ ?_ l
  rw [clear_eq_fresh]
  have h1 := hmeta (Editor.fresh { e.config env with time := t }) (e.shared.time) (e.shared.dirty)
  -- `fresh cfg` with its clock and flush level set IS `(fresh (config e)).withDirty dirty`
  have h2 : setMeta (Editor.fresh { e.config env with time := t }) e.shared.time e.shared.dirty
      = (Editor.fresh (e.config env)).withDirty e.shared.dirty := rfl
  rw [h2] at h1
  -- symmetry is not assumed: go through the relation from the other side
  have h3 := hmeta ((Editor.fresh (e.config env)).withDirty e.shared.dirty) t 0
  have h4 : setMeta ((Editor.fresh (e.config env)).withDirty e.shared.dirty) t 0 = Editor.fresh { e.config env with time := t } := rfl
  rw [h4] at h3
  exact h3

/-! ### the C context: `chewing_Reset` -/

/-- **a reset context is a new context**: `chewing_Reset` yields the context `chewing_new2` gives for the
    same configuration (editor as in `clear_eq_fresh`, all iterator slots empty) -/
theorem ctx_reset_eq_fresh (c : Ctx D L) :
    c.reset env = { Ctx.fresh (c.ed.config env) with ed := (Editor.fresh (c.ed.config env)).withDirty c.ed.shared.dirty } := by
  simp only [Ctx.reset, Ctx.fresh, clear_eq_fresh]

/-- … hence every continuation of C calls — operations, plain getters, enumerate-style calls, and slot reads
    WITHOUT a preceding Enumerate — shows the client the same on both -/
theorem ctx_reset_is_fresh (c : Ctx D L) (l : List (CCall L)) :
    (c.reset env).trace env l =
      ({ Ctx.fresh (c.ed.config env) with ed := (Editor.fresh (c.ed.config env)).withDirty c.ed.shared.dirty } : Ctx D L).trace env l := by
  rw [ctx_reset_eq_fresh]

/-- the reset as it was coded before kept the slots; for clients that follow the documented protocol (a
    slot is read only after its own Enumerate) that was invisible on the editor part: the editors agree -/
theorem ctx_reset_before_fix_editor (c : Ctx D L) : (c.resetBeforeFix env).ed = (c.reset env).ed := rfl

/-! ### F25: the statement was false before the fix -/

/-- a minimal environment in which syllables can be typed and a candidate list opened: key `h`
    (code 32) starts a syllable, key `4` (code 4) completes it; every syllable has one word -/
def f25Env : Env Unit Nat where
  lookupAll _ key _ := if key.length = 1 then [{ text := [28204], freq := 1 }] else []
  userLookupAll _ _ _ := []
  addPhrase _ _ _ := some ()
  updatePhrase _ _ _ _ _ := ()
  removePhrase _ _ _ := ()
  reopenFlush _ := ()
  convert _ _ _ := .ok [[]]
  estimate _ f _ := .ok f
  keyPress l ev := if ev.code = 32 then (.absorb, 1) else if ev.code = 4 ∧ l ≠ 0 then (.commit, l) else (.keyError, l)
  fuzzyKeyPress l ev := if ev.code = 32 then (.absorb, 1) else if ev.code = 4 ∧ l ≠ 0 then (.commit, l) else (.keyError, l)
  removeLast _ := 0
  clearSyl _ := 0
  sylIsEmpty l := l == 0
  read l := l
  altSyllables _ _ := []

/-- the same, but the conversion engine finds no path (C01's finding class) -/
def noWordEnv : Env Unit Nat := { f25Env with convert := fun _ _ _ => .panic "conv-no-path" }

def f25Start : Editor Unit Nat := Editor.fresh { syl := 0, engine := .chewing, dict := (), abbr := [], symSel := {}, options := {}, time := 0 }

def kH : Op Nat := .key { index := 32, code := 32, unicode := 104 }
def k4 : Op Nat := .key { index := 4, code := 4, unicode := 52 }
def kDown : Op Nat := .key { index := 57, code := KC.down, unicode := 65533 }
def kHome : Op Nat := .key { index := 58, code := KC.home, unicode := 65533 }
def kEsc : Op Nat := .key { index := 49, code := KC.esc, unicode := 65533 }

/-- type four syllables, open the candidate list -/
def f25Prefix : List (Op Nat) := [kH, k4, kH, k4, kH, k4, kH, k4, kDown]
/-- type two syllables, Home, open the candidate list, Esc -/
def f25Cont : List (Op Nat) := [kH, k4, kH, k4, kHome, kDown, kEsc]

/-- **F25 (before the fix)**: reset while the candidate list is open kept the saved cursor 4; after the
    same seven keys the reset editor has its cursor at 2, the fresh editor at 0 -/
theorem reset_is_fresh_refuted_before_fix :
    ∃ e : Editor Unit Nat, f25Start.run f25Env f25Prefix = .ok e ∧
      ((e.clearBeforeFix f25Env).run f25Env f25Cont).map (·.query f25Env .cursor) = .ok (.ok (.nat 2)) ∧
      ((Editor.fresh (e.config f25Env)).run f25Env f25Cont).map (·.query f25Env .cursor) = .ok (.ok (.nat 0)) := by
  refine ⟨_, rfl, ?_, ?_⟩ <;> decide

/-- the same history on the repaired model: the reset editor and the fresh editor end equal -/
theorem f25_history_now_agrees :
    ∃ e : Editor Unit Nat, f25Start.run f25Env f25Prefix = .ok e ∧
      ((e.clear f25Env).run f25Env f25Cont).map (·.query f25Env .cursor) = .ok (.ok (.nat 0)) ∧
      ((Editor.fresh (e.config f25Env)).run f25Env f25Cont).map (·.query f25Env .cursor) = .ok (.ok (.nat 0)) := by
  refine ⟨_, rfl, ?_, ?_⟩ <;> decide

/-- **the iterator half of the reset defect (before the second fix)**: open a candidate list,
    `chewing_cand_Enumerate`, `chewing_Reset`, `chewing_cand_String`: the old reset hands out the first
    candidate of the list that no longer exists, a new context (and the repaired reset) nothing -/
theorem ctx_reset_refuted_before_fix :
    ∃ c : Ctx Unit Nat, (Ctx.trace f25Env { ed := f25Start } [.op kH, .op k4, .op kDown, .q .candEnumerate]).map (·.1) = .ok c ∧
      ((c.resetBeforeFix f25Env).cquery f25Env .candString).2 = .text (some [28204]) ∧
      ((c.reset f25Env).cquery f25Env .candString).2 = .text none ∧
      ((Ctx.fresh (c.ed.config f25Env)).cquery f25Env .candString).2 = .text none := by
  refine ⟨_, rfl, ?_, ?_, ?_⟩ <;> decide

/-! ## Non-vacuity -/

/-- a history with getters at several positions, on a state with an open candidate list -/
example : ∃ e tr, f25Start.runQ f25Env
      [.op kH, .query .syllableBuffer, .op k4, .query .symbols, .query .symbols, .op kDown,
       .query .allCandidates, .query .totalPage, .op kEsc, .query .cursor] = .ok (e, tr) ∧
    Ev.rets tr = [.kb .absorb, .kb .absorb, .kb .absorb, .kb .absorb] := ⟨_, _, rfl, by decide⟩

example : (f25Start.run f25Env f25Prefix).map (·.query f25Env .allCandidates) = .ok (.ok (.texts [[28204]])) := by decide

/-- non-vacuity: two contexts, an interleaved history that completes; each context's return values in its own order -/
example : ∃ p' vs, (Pair.run f25Env f25Env { a := f25Start, b := f25Start }
      [.inl kH, .inr kH, .inr k4, .inl k4, .inr kDown]) = .ok (p', vs) ∧
    Tagged.as vs = [.kb .absorb, .kb .absorb] ∧ Tagged.bs vs = [.kb .absorb, .kb .absorb, .kb .absorb] :=
  ⟨_, _, rfl, by decide, by decide⟩


/-- the hypothesis of `contexts_independent_panic` is satisfiable: when the conversion
    engine of context B finds no path its commit panics (C01's finding class), and it is B alone that panics -/
example : (Pair.run f25Env noWordEnv { a := f25Start, b := f25Start } [.inl kH, .inr kH, .inr k4, .inl k4, .inr .commit]) = .panic "conv-no-path" ∧
    f25Start.runR noWordEnv (rights ([.inl kH, .inr kH, .inr k4, .inl k4, .inr .commit] : List (Op Nat ⊕ Op Nat))) = .panic "conv-no-path" :=
  ⟨rfl, rfl⟩

/-! ## linked (round 2): the clock and the flush level are unobservable -/

/-- `setMeta` stays inside the relation "equal up to the clock and the flush level" -/
theorem edMetaEq_setMeta (e : Editor D L) (t k : Nat) : EdMetaEq e (setMeta e t k) := ⟨rfl, rfl⟩

/-- … and the relation is exactly that: the second editor is the first with another clock / flush level -/
theorem edMetaEq_iff (e₁ e₂ : Editor D L) : EdMetaEq e₁ e₂ ↔ ∃ t k, e₂ = setMeta e₁ t k :=
  ⟨fun h => h.out, fun ⟨t, k, h⟩ => h ▸ edMetaEq_setMeta e₁ t k⟩

/-- related editors answer every getter alike -/
theorem edMetaEq_query {e₁ e₂ : Editor D L} (h : EdMetaEq e₁ e₂) (q : Query) : e₁.query env q = e₂.query env q := by
  obtain ⟨t, k, rfl⟩ := h.out
  exact (query_meta_blind env e₁ t k q).symm

/-- the four obligations of `ResetFreshModuloClock`, discharged by `EdMetaEq` (obligation (d), the step
    property through every arm of the state machine, is `applyR_metaEq`) -/
theorem edMetaEq_bisim (h : MetaBlindEnv env) : Bisim env (EdMetaEq (D := D) (L := L)) := by
  intro e₁ e₂ c hr
  cases c with
  | query q => exact ⟨hr, by rw [edMetaEq_query env hr q]⟩
  | op o =>
    have hs := applyR_rel env h hr o
    simp only [Editor.stepQ]
    rcases hs.cases with ⟨⟨a₁, v₁⟩, ⟨a₂, v₂⟩, h1, h2, hm, hv⟩ | ⟨p, h1, h2⟩ | ⟨h1, h2⟩ <;> rw [h1, h2]
    · exact ⟨hm, by dsimp only at hv ⊢; rw [hv]⟩
    · rfl
    · trivial

/-- **reset gives a fresh editor modulo the estimator clock and the pending flush level**: in every
    environment in which time stamps and flushing are unobservable, the reset editor and the fresh editor
    built from the same configuration with ANY clock `t` (and flush level 0) are indistinguishable by any
    history of operations and queries — same return values, same answers, same panic -/
theorem reset_is_fresh_modulo_clock (h : MetaBlindEnv env) (e : Editor D L) (t : Nat) (l : List (OpQ L)) :
    seen ((e.clear env).runQ env l) = seen ((Editor.fresh { e.config env with time := t }).runQ env l) :=
  resetFreshModuloClock_of_relation env EdMetaEq (fun e t k => edMetaEq_setMeta e t k)
    (fun _ _ _ h1 h2 => h1.trans h2) (fun _ _ hr q => edMetaEq_query env hr q) (applyR_metaEq env h) e t l

/-- more generally: changing the clock and the flush level of ANY editor is invisible -/
theorem setMeta_invisible (h : MetaBlindEnv env) (e : Editor D L) (t k : Nat) (l : List (OpQ L)) :
    seen (e.runQ env l) = seen ((setMeta e t k).runQ env l) :=
  bisim_runs env EdMetaEq (edMetaEq_bisim env h) l _ _ (edMetaEq_setMeta e t k)

/-- non-vacuity of the hypothesis: the toy environment of this file satisfies it -/
theorem f25Env_metaBlind : MetaBlindEnv f25Env := ⟨fun _ _ _ _ => rfl, fun _ _ _ _ _ _ => rfl, fun _ => rfl⟩

/-- a history that reaches the clock readers: an API learn of a known phrase (estimate + update_phrase at
    the clock, flush level raised), keys, a commit, queries -/
def metaHist : List (OpQ Nat) :=
  [.op (.learn [1] [28204]), .op kH, .op k4, .query .symbols, .op (.learn [1] [28204]), .op .commit,
   .query .displayCommit, .op (.unlearn [1] [28204]), .op kH, .query .syllableBuffer]

/-- non-vacuity: after nine keys the clock stands at 9; the reset editor (clock 9) and the fresh editor with
    clock 0 really differ, both run `metaHist` to the end, and show the same -/
example : ∃ e : Editor Unit Nat, f25Start.run f25Env f25Prefix = .ok e ∧
    (e.clear f25Env).shared.time = 9 ∧ (Editor.fresh { e.config f25Env with time := 0 }).shared.time = 0 ∧
    (e.clear f25Env) ≠ Editor.fresh { e.config f25Env with time := 0 } ∧
    seen ((e.clear f25Env).runQ f25Env metaHist) = seen ((Editor.fresh { e.config f25Env with time := 0 }).runQ f25Env metaHist) ∧
    (seen ((e.clear f25Env).runQ f25Env metaHist)).isOk = true := by
  refine ⟨_, rfl, by decide, by decide, ?_, reset_is_fresh_modulo_clock f25Env f25Env_metaBlind _ 0 _, by decide⟩
  intro hc
  have : (Editor.clear f25Env _).shared.time = (Editor.fresh _).shared.time := congrArg (·.shared.time) hc
  revert this
  decide

/-- an environment whose estimator READS the clock (it overflows from clock 5 on) -/
def clockEnv : Env Unit Nat :=
  { f25Env with estimate := fun t f _ => if t < 5 then .ok f else .panic "estimate-clock" }

/-- **the hypothesis is needed**: with an estimator that reads the clock, a reset editor (clock 9) and a
    fresh editor with clock 0 are told apart by one API learn -/
theorem metaBlind_needed :
    ∃ (e : Editor Unit Nat) (t : Nat) (l : List (OpQ Nat)),
      seen ((e.clear clockEnv).runQ clockEnv l) ≠ seen ((Editor.fresh { e.config clockEnv with time := t }).runQ clockEnv l) :=
  ⟨setMeta f25Start 9 0, 0, [.op (.learn [1] [28204])], by decide⟩

/-- … and `clockEnv` indeed violates `MetaBlindEnv` -/
theorem clockEnv_not_metaBlind : ¬ MetaBlindEnv clockEnv := by
  intro h
  have := h.estimate_clock 0 9 0 0
  exact absurd this (by decide)

end Chewing.C17
