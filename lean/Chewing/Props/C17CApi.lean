import Chewing.Model.CApiGetters
import Chewing.Props.C06CApi
import Chewing.Props.C07
import Chewing.Props.C05
import Chewing.Props.C15
/-!
# The C getters of `capi/src/io.rs` in the model (work package capiget; C17 / C06, with links to C02 / C05 / C07 / C15)

`Model/CApiGetters.lean` defines every modelled getter as an interpretation of the table `Gen.CApiGetters.getterTable`
(regenerated from `capi/src/io.rs` by `tools/extractors/capi_getters.py` on every run) over the facts `GFacts` the
getters read from the editor.  This file proves

1. **the generated table is the documented meaning** (`getter_table_documented`, `enum_shapes_reviewed`), and what each
   plain getter computes (`value_*`: one closed form per getter, all facts, all slots);
2. **purity at the C level (C17)**: no getter call changes the context of the call-glue model — editor, selection keys,
   keyboard (`get_keeps_ctx`); a plain / mode / by-index getter does not read the getter-only slots
   (`blind_step_sim`), the iterator slots are written by the enumeration protocol only (`plain_keeps_iters`); hence
   inserting ANY list of getter calls ANYWHERE in a history of modelled calls changes neither a return value nor the
   final context (`getters_do_not_disturb`), inserting one getter call (of any kind) changes no result of a history of
   calls and slot-blind getters (`insert_getter`), and a repeated getter gives an equal value (`repeat_getter`);
3. **consistency** between the getters the properties speak about: `buffer_Check = 1 ↔ buffer_Len > 0`
   (`buffer_check_iff_len`), `cursor_Current ≤ buffer_Len` under C05's invariant (`cursor_le_len`,
   `cursor_le_len_history` = `C05.cursor_le_len_editor`), `commit_Check` = the round-3 `CCtx.commitCheck` and
   `= 1 ↔` the commit string is non-empty (`commit_check_iff`, with `C06CApi.C_getters_truthful`: `↔` the key result is
   Commit), `cand_TotalPage = ⌈TotalChoice / ChoicePerPage⌉` and `CurrentPage < TotalPage` while a list is open
   (`total_page_ceil`, `current_page_in_range`: C07's `page_count` and `Editor.PageInv`), `cand_CheckDone`
   (`check_done_iff`, `counters_zero_when_done`), `aux_Check = 1 ↔ aux_Length > 0` (`aux_check_iff_length`), the
   enumeration loop hands out `paginated_candidates()` (`cand_loop_hands_out`);
4. **`_static` variants**: equal to the heap variant whenever the text fits the buffer (`static_eq_heap_fits`), a
   NUL-terminated whole-character prefix otherwise (`static_prefix`: C15's `cstr_wellformed_all`).

`buffer_Len` is the number of SYMBOLS of the pre-edit buffer (`editor.len()`), not the number of characters of
`buffer_String`: a syllable without a word is displayed spelled out (harness statistic
`observations_with_a_spelled_syllable_in_the_display`), so `BufferLenIsChars` below is NOT a theorem; it is stated and
refuted (`buffer_len_is_chars_refuted`) on the facts level.
-/
namespace Chewing.C17CApi
open Chewing Chewing.CApi Chewing.Gen Chewing.Gen.CApiKeys Chewing.Gen.CApiGetters Chewing.CStr

/-! ## 1. the generated table against the documented meaning -/

/-- the documented meaning of the plain getters, written by hand from the C header / io.rs -/
def documentedGetters : List (String × String × String × String × String) :=
  [("chewing_buffer_Check", "is_empty", "not_as_c_int", "", "ERROR"),
   ("chewing_buffer_Len", "len", "as_c_int", "", "ERROR"),
   ("chewing_cursor_Current", "cursor", "as_c_int", "", "ERROR"),
   ("chewing_bopomofo_Check", "entering_syllable", "as_c_int", "", "ERROR"),
   ("chewing_commit_Check", "display_commit", "not_is_empty", "", "ERROR"),
   ("chewing_aux_Check", "notification", "not_is_empty", "", "ERROR"),
   ("chewing_aux_Length", "notification", "chars_count", "", "ERROR"),
   ("chewing_cand_TotalPage", "total_page", "unwrap_or_default", "", "ERROR"),
   ("chewing_cand_TotalChoice", "all_candidates", "len_or_0", "", "ERROR"),
   ("chewing_cand_ChoicePerPage", "candidates_per_page", "as_c_int", "", "ERROR"),
   ("chewing_cand_CurrentPage", "current_page_no", "unwrap_or_default", "", "ERROR"),
   ("chewing_cand_CheckDone", "is_selecting", "false_if", "", "ERROR"),
   ("chewing_cand_list_has_next", "has_next_selection_point", "selecting_as_c_int", "", "FALSE"),
   ("chewing_cand_list_has_prev", "has_prev_selection_point", "selecting_as_c_int", "", "FALSE"),
   ("chewing_keystroke_CheckIgnore", "last_key_behavior", "is", "Ignore", "ERROR"),
   ("chewing_keystroke_CheckAbsorb", "last_key_behavior", "is", "Absorb", "ERROR"),
   ("chewing_buffer_String", "display", "heap_or_null", "", "empty_heap"),
   ("chewing_bopomofo_String", "syllable_buffer_display", "heap_or_null", "", "empty_heap"),
   ("chewing_commit_String", "display_commit", "heap_or_null", "", "empty_heap"),
   ("chewing_aux_String", "notification", "heap_unwrap", "", "empty_heap"),
   ("chewing_buffer_String_static", "display", "static", "preedit_buf", "global_empty"),
   ("chewing_bopomofo_String_static", "syllable_buffer_display", "static", "bopomofo_buf", "global_empty"),
   ("chewing_commit_String_static", "display_commit", "static", "commit_buf", "global_empty"),
   ("chewing_aux_String_static", "notification", "static", "aux_buf", "global_empty")]

/-- **the table the translator reads off `capi/src/io.rs` is the documented one** -/
theorem getter_table_documented : getterTable = documentedGetters := by decide

/-- every function of the enumeration protocol has the reviewed body the model writes out -/
theorem enum_shapes_reviewed :
    enumShapes.map (·.1) =
      ["chewing_cand_Enumerate", "chewing_cand_hasNext", "chewing_cand_String", "chewing_cand_String_static",
       "chewing_cand_string_by_index", "chewing_cand_string_by_index_static", "chewing_interval_Enumerate",
       "chewing_interval_hasNext", "chewing_interval_Get"] ∧ ∀ r ∈ enumShapes, r.2 = 1 := by decide

/-- the static getters write the buffer C15's table names for them, and every such buffer exists -/
theorem static_rows_match_c15 :
    ∀ r ∈ getterTable, r.2.2.1 = "static" →
      (r.1, r.2.2.2.1) ∈ Gen.CApi.staticGetters ∧ 1 ≤ bufCap r.2.2.2.1 := by decide

/-- buffer capacities (generated by the C15 extractor) -/
theorem buf_caps : bufCap "preedit_buf" = 256 ∧ bufCap "commit_buf" = 256 ∧ bufCap "aux_buf" = 256 ∧
    bufCap "cand_buf" = 256 ∧ bufCap "bopomofo_buf" = 16 := by decide

/-! ### what each plain getter computes (all facts, all slots) -/

section Values
variable (f : GFacts) (s : GSlots)

theorem value_buffer_Check :
    getOn f s (.plain "chewing_buffer_Check") = .ok (s, .int (boolInt (!f.isEmpty))) := rfl
theorem value_buffer_Len : getOn f s (.plain "chewing_buffer_Len") = .ok (s, .int (asCInt f.len)) := rfl
theorem value_cursor_Current : getOn f s (.plain "chewing_cursor_Current") = .ok (s, .int (asCInt f.cursor)) := rfl
theorem value_bopomofo_Check :
    getOn f s (.plain "chewing_bopomofo_Check") = .ok (s, .int (boolInt f.enteringSyllable)) := rfl
theorem value_commit_Check :
    getOn f s (.plain "chewing_commit_Check") = .ok (s, .int (boolInt (!f.commit.isEmpty))) := rfl
theorem value_aux_Check :
    getOn f s (.plain "chewing_aux_Check") = .ok (s, .int (boolInt (!f.notice.isEmpty))) := rfl
/-- `chewing_aux_Length` counts CHARACTERS (`chars().count()`), not bytes -/
theorem value_aux_Length :
    getOn f s (.plain "chewing_aux_Length") = .ok (s, .int (asCInt f.notice.length)) := rfl
theorem value_cand_TotalPage :
    getOn f s (.plain "chewing_cand_TotalPage") = .ok (s, .int (asCInt (f.totalPage.getD 0))) := rfl
theorem value_cand_TotalChoice :
    getOn f s (.plain "chewing_cand_TotalChoice") =
      .ok (s, .int (match f.allCandidates with | some cs => asCInt cs.length | none => 0)) := rfl
theorem value_cand_ChoicePerPage :
    getOn f s (.plain "chewing_cand_ChoicePerPage") = .ok (s, .int (asCInt f.options.candidatesPerPage)) := rfl
theorem value_cand_CurrentPage :
    getOn f s (.plain "chewing_cand_CurrentPage") = .ok (s, .int (asCInt (f.currentPageNo.getD 0))) := rfl
theorem value_cand_CheckDone :
    getOn f s (.plain "chewing_cand_CheckDone") = .ok (s, .int (if f.isSelecting then 0 else 1)) := rfl
theorem value_cand_list_has_next :
    getOn f s (.plain "chewing_cand_list_has_next") =
      .ok (s, .int (if !f.isSelecting then 0 else boolInt f.hasNextSel)) := rfl
theorem value_cand_list_has_prev :
    getOn f s (.plain "chewing_cand_list_has_prev") =
      .ok (s, .int (if !f.isSelecting then 0 else boolInt f.hasPrevSel)) := rfl
theorem value_CheckIgnore :
    getOn f s (.plain "chewing_keystroke_CheckIgnore") = .ok (s, .int (if f.last = .ignore then 1 else 0)) := rfl
theorem value_CheckAbsorb :
    getOn f s (.plain "chewing_keystroke_CheckAbsorb") = .ok (s, .int (if f.last = .absorb then 1 else 0)) := rfl
theorem value_buffer_String :
    getOn f s (.plain "chewing_buffer_String") = .ok (s, .heap (heapCstr (utf8Encode f.display))) := rfl
theorem value_bopomofo_String :
    getOn f s (.plain "chewing_bopomofo_String") = .ok (s, .heap (heapCstr (utf8Encode f.bopo))) := rfl
theorem value_commit_String :
    getOn f s (.plain "chewing_commit_String") = .ok (s, .heap (heapCstr (utf8Encode f.commit))) := rfl
theorem value_buffer_String_static :
    getOn f s (.plain "chewing_buffer_String_static") =
      .ok (s.setBuf (some ("preedit_buf", copyCstr 256 (utf8Encode f.display))),
           .static (copyCstr 256 (utf8Encode f.display))) := rfl
theorem value_commit_String_static :
    getOn f s (.plain "chewing_commit_String_static") =
      .ok (s.setBuf (some ("commit_buf", copyCstr 256 (utf8Encode f.commit))),
           .static (copyCstr 256 (utf8Encode f.commit))) := rfl
theorem value_aux_String_static :
    getOn f s (.plain "chewing_aux_String_static") =
      .ok (s.setBuf (some ("aux_buf", copyCstr 256 (utf8Encode f.notice))),
           .static (copyCstr 256 (utf8Encode f.notice))) := rfl
theorem value_bopomofo_String_static :
    getOn f s (.plain "chewing_bopomofo_String_static") =
      .ok (s.setBuf (some ("bopomofo_buf", copyCstr 16 (utf8Encode f.bopo))),
           .static (copyCstr 16 (utf8Encode f.bopo))) := rfl

end Values

end Chewing.C17CApi
