import Chewing.Model.CApiGetters
import Chewing.Props.C06CApi
import Chewing.Props.C07
import Chewing.Props.C05
import Chewing.Props.C15
/-!
# The C getters of `capi/src/io.rs` in the model (work package capiget; C17 / C06, with links to C02 / C05 / C07 / C15)

`Model/CApiGetters.lean` defines every modelled getter as an interpretation of the table `Gen.CApiGetters.getterTable`
(regenerated from `capi/src/io.rs` by `tools/extractors/capi_getters.py` on every run) over the facts `GFacts` the
getters read from the editor.  This file proves

1. **the generated table is the documented meaning** (`getter_table_documented`, `enum_shapes_reviewed`), and what each
   plain getter computes (`value_*`: one closed form per getter, all facts, all slots);
2. **purity at the C level (C17)**: no getter call changes the context of the call-glue model — editor, selection keys,
   keyboard (`get_keeps_ctx`); a plain / mode / by-index getter does not read the getter-only slots
   (`blind_step_sim`), the iterator slots are written by the enumeration protocol only (`plain_keeps_iters`); hence
   inserting ANY list of getter calls ANYWHERE in a history of modelled calls changes neither a return value nor the
   final context (`getters_do_not_disturb`), inserting one getter call (of any kind) changes no result of a history of
   calls and slot-blind getters (`insert_getter`), and a repeated getter gives an equal value (`repeat_getter`);
3. **consistency** between the getters the properties speak about: `buffer_Check = 1 ↔ buffer_Len > 0`
   (`buffer_check_iff_len`), `cursor_Current ≤ buffer_Len` under C05's invariant (`cursor_le_len`,
   `cursor_le_len_history` = `C05.cursor_le_len_editor`), `commit_Check` = the round-3 `CCtx.commitCheck` and
   `= 1 ↔` the commit string is non-empty (`commit_check_iff`, with `C06CApi.C_getters_truthful`: `↔` the key result is
   Commit), `cand_TotalPage = ⌈TotalChoice / ChoicePerPage⌉` and `CurrentPage < TotalPage` while a list is open
   (`total_page_ceil`, `current_page_in_range`: C07's `page_count` and `Editor.PageInv`), `cand_CheckDone`
   (`check_done_iff`, `counters_zero_when_done`), `aux_Check = 1 ↔ aux_Length > 0` (`aux_check_iff_length`), the
   enumeration loop hands out `paginated_candidates()` (`cand_loop_hands_out`);
4. **`_static` variants**: equal to the heap variant whenever the text fits the buffer (`static_eq_heap_fits`), a
   NUL-terminated whole-character prefix otherwise (`static_prefix`: C15's `cstr_wellformed_all`).

`buffer_Len` is the number of SYMBOLS of the pre-edit buffer (`editor.len()`), not the number of characters of
`buffer_String`: a syllable without a word is displayed spelled out (harness statistic
`observations_with_a_spelled_syllable_in_the_display`), so `BufferLenIsChars` below is NOT a theorem; it is stated and
refuted (`buffer_len_is_chars_refuted`) on the facts level.
-/
namespace Chewing.C17CApi
open Chewing Chewing.CApi Chewing.Gen Chewing.Gen.CApiKeys Chewing.Gen.CApiGetters Chewing.CStr

/-! ## 1. the generated table against the documented meaning -/

/-- the documented meaning of the plain getters, written by hand from the C header / io.rs -/
def documentedGetters : List (String × String × String × String × String) :=
  [("chewing_buffer_Check", "is_empty", "not_as_c_int", "", "ERROR"),
   ("chewing_buffer_Len", "len", "as_c_int", "", "ERROR"),
   ("chewing_cursor_Current", "cursor", "as_c_int", "", "ERROR"),
   ("chewing_bopomofo_Check", "entering_syllable", "as_c_int", "", "ERROR"),
   ("chewing_commit_Check", "display_commit", "not_is_empty", "", "ERROR"),
   ("chewing_aux_Check", "notification", "not_is_empty", "", "ERROR"),
   ("chewing_aux_Length", "notification", "chars_count", "", "ERROR"),
   ("chewing_cand_TotalPage", "total_page", "unwrap_or_default", "", "ERROR"),
   ("chewing_cand_TotalChoice", "all_candidates", "len_or_0", "", "ERROR"),
   ("chewing_cand_ChoicePerPage", "candidates_per_page", "as_c_int", "", "ERROR"),
   ("chewing_cand_CurrentPage", "current_page_no", "unwrap_or_default", "", "ERROR"),
   ("chewing_cand_CheckDone", "is_selecting", "false_if", "", "ERROR"),
   ("chewing_cand_list_has_next", "has_next_selection_point", "selecting_as_c_int", "", "FALSE"),
   ("chewing_cand_list_has_prev", "has_prev_selection_point", "selecting_as_c_int", "", "FALSE"),
   ("chewing_keystroke_CheckIgnore", "last_key_behavior", "is", "Ignore", "ERROR"),
   ("chewing_keystroke_CheckAbsorb", "last_key_behavior", "is", "Absorb", "ERROR"),
   ("chewing_buffer_String", "display", "heap_or_null", "", "empty_heap"),
   ("chewing_bopomofo_String", "syllable_buffer_display", "heap_or_null", "", "empty_heap"),
   ("chewing_commit_String", "display_commit", "heap_or_null", "", "empty_heap"),
   ("chewing_aux_String", "notification", "heap_unwrap", "", "empty_heap"),
   ("chewing_buffer_String_static", "display", "static", "preedit_buf", "global_empty"),
   ("chewing_bopomofo_String_static", "syllable_buffer_display", "static", "bopomofo_buf", "global_empty"),
   ("chewing_commit_String_static", "display_commit", "static", "commit_buf", "global_empty"),
   ("chewing_aux_String_static", "notification", "static", "aux_buf", "global_empty")]

/-- **the table the translator reads off `capi/src/io.rs` is the documented one** -/
theorem getter_table_documented : getterTable = documentedGetters := by decide

/-- every function of the enumeration protocol has the reviewed body the model writes out -/
theorem enum_shapes_reviewed :
    enumShapes.map (·.1) =
      ["chewing_cand_Enumerate", "chewing_cand_hasNext", "chewing_cand_String", "chewing_cand_String_static",
       "chewing_cand_string_by_index", "chewing_cand_string_by_index_static", "chewing_interval_Enumerate",
       "chewing_interval_hasNext", "chewing_interval_Get"] ∧ ∀ r ∈ enumShapes, r.2 = 1 := by decide

/-- the static getters write the buffer C15's table names for them, and every such buffer exists -/
theorem static_rows_match_c15 :
    ∀ r ∈ getterTable, r.2.2.1 = "static" →
      (r.1, r.2.2.2.1) ∈ Gen.CApi.staticGetters ∧ 1 ≤ bufCap r.2.2.2.1 := by decide

/-- buffer capacities (generated by the C15 extractor) -/
theorem buf_caps : bufCap "preedit_buf" = 256 ∧ bufCap "commit_buf" = 256 ∧ bufCap "aux_buf" = 256 ∧
    bufCap "cand_buf" = 256 ∧ bufCap "bopomofo_buf" = 16 := by decide

/-! ### what each plain getter computes (all facts, all slots) -/

section Values
variable (f : GFacts) (s : GSlots)

theorem value_buffer_Check :
    getOn f s (.plain "chewing_buffer_Check") = .ok (s, .int (boolInt (!f.isEmpty))) := rfl
theorem value_buffer_Len : getOn f s (.plain "chewing_buffer_Len") = .ok (s, .int (asCInt f.len)) := rfl
theorem value_cursor_Current : getOn f s (.plain "chewing_cursor_Current") = .ok (s, .int (asCInt f.cursor)) := rfl
theorem value_bopomofo_Check :
    getOn f s (.plain "chewing_bopomofo_Check") = .ok (s, .int (boolInt f.enteringSyllable)) := rfl
theorem value_commit_Check :
    getOn f s (.plain "chewing_commit_Check") = .ok (s, .int (boolInt (!f.commit.isEmpty))) := rfl
theorem value_aux_Check :
    getOn f s (.plain "chewing_aux_Check") = .ok (s, .int (boolInt (!f.notice.isEmpty))) := rfl
/-- `chewing_aux_Length` counts CHARACTERS (`chars().count()`), not bytes -/
theorem value_aux_Length :
    getOn f s (.plain "chewing_aux_Length") = .ok (s, .int (asCInt f.notice.length)) := rfl
theorem value_cand_TotalPage :
    getOn f s (.plain "chewing_cand_TotalPage") = .ok (s, .int (asCInt (f.totalPage.getD 0))) := rfl
theorem value_cand_TotalChoice :
    getOn f s (.plain "chewing_cand_TotalChoice") =
      .ok (s, .int (match f.allCandidates with | some cs => asCInt cs.length | none => 0)) := rfl
theorem value_cand_ChoicePerPage :
    getOn f s (.plain "chewing_cand_ChoicePerPage") = .ok (s, .int (asCInt f.options.candidatesPerPage)) := rfl
theorem value_cand_CurrentPage :
    getOn f s (.plain "chewing_cand_CurrentPage") = .ok (s, .int (asCInt (f.currentPageNo.getD 0))) := rfl
theorem value_cand_CheckDone :
    getOn f s (.plain "chewing_cand_CheckDone") = .ok (s, .int (if f.isSelecting then 0 else 1)) := rfl
theorem value_cand_list_has_next :
    getOn f s (.plain "chewing_cand_list_has_next") =
      .ok (s, .int (if !f.isSelecting then 0 else boolInt f.hasNextSel)) := rfl
theorem value_cand_list_has_prev :
    getOn f s (.plain "chewing_cand_list_has_prev") =
      .ok (s, .int (if !f.isSelecting then 0 else boolInt f.hasPrevSel)) := rfl
theorem value_CheckIgnore :
    getOn f s (.plain "chewing_keystroke_CheckIgnore") = .ok (s, .int (if f.last = .ignore then 1 else 0)) := rfl
theorem value_CheckAbsorb :
    getOn f s (.plain "chewing_keystroke_CheckAbsorb") = .ok (s, .int (if f.last = .absorb then 1 else 0)) := rfl
theorem value_buffer_String :
    getOn f s (.plain "chewing_buffer_String") = .ok (s, .heap (heapCstr (utf8Encode f.display))) := rfl
theorem value_bopomofo_String :
    getOn f s (.plain "chewing_bopomofo_String") = .ok (s, .heap (heapCstr (utf8Encode f.bopo))) := rfl
theorem value_commit_String :
    getOn f s (.plain "chewing_commit_String") = .ok (s, .heap (heapCstr (utf8Encode f.commit))) := rfl
theorem value_buffer_String_static :
    getOn f s (.plain "chewing_buffer_String_static") =
      .ok (s.setBuf (some ("preedit_buf", copyCstr 256 (utf8Encode f.display))),
           .static (copyCstr 256 (utf8Encode f.display))) := rfl
theorem value_commit_String_static :
    getOn f s (.plain "chewing_commit_String_static") =
      .ok (s.setBuf (some ("commit_buf", copyCstr 256 (utf8Encode f.commit))),
           .static (copyCstr 256 (utf8Encode f.commit))) := rfl
theorem value_aux_String_static :
    getOn f s (.plain "chewing_aux_String_static") =
      .ok (s.setBuf (some ("aux_buf", copyCstr 256 (utf8Encode f.notice))),
           .static (copyCstr 256 (utf8Encode f.notice))) := rfl
theorem value_bopomofo_String_static :
    getOn f s (.plain "chewing_bopomofo_String_static") =
      .ok (s.setBuf (some ("bopomofo_buf", copyCstr 16 (utf8Encode f.bopo))),
           .static (copyCstr 16 (utf8Encode f.bopo))) := rfl

end Values

/-! ## 2. purity at the C level -/

/-- the getters that do not read the getter-only slots: every plain getter, the mode getters, `string_by_index(_static)` -/
def Getter.blind : Getter → Bool
  | .plain _ => true
  | .mode _ => true
  | .candStringByIndex _ => true
  | .candStringByIndexStatic _ => true
  | _ => false

def GCall.blind : GCall → Bool
  | .op _ => true
  | .get q => Getter.blind q

/-- the modelled calls of a history / their return values among the results -/
def strip : List GCall → List COp
  | [] => []
  | .op o :: cs => o :: strip cs
  | .get _ :: cs => strip cs

def rcsOf : List GRes → List Int
  | [] => []
  | .rc r :: rs => r :: rcsOf rs
  | .val _ :: rs => rcsOf rs

/-- a slot-blind getter hands out the same value whatever the slots hold -/
theorem getOn_blind (f : GFacts) {q : Getter} (hb : Getter.blind q = true) {s s' : GSlots} {v : GVal}
    (h : getOn f s q = .ok (s', v)) (s2 : GSlots) : ∃ s2', getOn f s2 q = .ok (s2', v) := by
  cases q with
  | plain fn =>
    simp only [getOn] at h ⊢
    cases hr : getterRow fn with
    | none => rw [hr] at h; cases h
    | some row =>
      obtain ⟨m, conv, arg, n⟩ := row
      rw [hr] at h
      simp only at h ⊢
      cases hv : getValue f m conv arg with
      | ok r =>
        rw [hv] at h
        simp only [Outcome.map, Outcome.ok.injEq, Prod.mk.injEq] at h ⊢
        exact ⟨_, rfl, h.2⟩
      | panic p => rw [hv] at h; cases h
      | outOfFuel => rw [hv] at h; cases h
  | mode fn =>
    simp only [getOn, Outcome.ok.injEq, Prod.mk.injEq] at h ⊢
    exact ⟨_, rfl, h.2⟩
  | candStringByIndex i =>
    cases hlk : (f.allCandidates.getD [])[indexOfInt i]? with
    | none =>
      simp only [getOn, hlk, Outcome.ok.injEq, Prod.mk.injEq] at h ⊢
      exact ⟨s2, rfl, h.2⟩
    | some t =>
      cases hh : heapCstr (utf8Encode t) with
      | none => simp only [getOn, hlk, hh] at h; cases h
      | some b =>
        simp only [getOn, hlk, hh, Outcome.ok.injEq, Prod.mk.injEq] at h ⊢
        exact ⟨s2, rfl, h.2⟩
  | candStringByIndexStatic i =>
    cases hlk : (f.allCandidates.getD [])[indexOfInt i]? with
    | none =>
      simp only [getOn, hlk, Outcome.ok.injEq, Prod.mk.injEq] at h ⊢
      exact ⟨s2, rfl, h.2⟩
    | some t =>
      simp only [getOn, hlk, Outcome.ok.injEq, Prod.mk.injEq] at h ⊢
      exact ⟨_, rfl, h.2⟩
  | candEnumerate => cases hb
  | candHasNext => cases hb
  | candString => cases hb
  | candStringStatic => cases hb
  | intervalEnumerate => cases hb
  | intervalHasNext => cases hb
  | intervalGet => cases hb

section Purity
variable {D L : Type} (env : Env D L) (bopo : L → Text)

/-- a getter call, spelled out -/
theorem get_ok {g g' : GCtx D L} {q : Getter} {v : GVal} (h : g.get env bopo q = .ok (g', v)) :
    ∃ f s', GFacts.ofEditor env bopo g.ctx.editor = .ok f ∧ getOn f g.slots q = .ok (s', v) ∧
      g' = { g with slots := s' } := by
  unfold GCtx.get at h
  cases hf : GFacts.ofEditor env bopo g.ctx.editor with
  | ok f =>
    rw [hf] at h
    simp only at h
    cases hg : getOn f g.slots q with
    | ok r =>
      rw [hg] at h
      simp only [Outcome.map, Outcome.ok.injEq, Prod.mk.injEq] at h
      exact ⟨f, r.1, rfl, by rw [← h.2]; exact hg, h.1.symm⟩
    | panic p => rw [hg] at h; cases h
    | outOfFuel => rw [hg] at h; cases h
  | panic p => rw [hf] at h; cases h
  | outOfFuel => rw [hf] at h; cases h

/-- **no getter call changes the context of the modelled calls**: the editor (state, buffers, options, dictionary),
    the selection keys, the keyboard.  A getter writes the getter-only slots at most. -/
theorem get_keeps_ctx {g g' : GCtx D L} {q : Getter} {v : GVal} (h : g.get env bopo q = .ok (g', v)) :
    g'.ctx = g.ctx := by
  obtain ⟨f, s', _, _, rfl⟩ := get_ok env bopo h
  rfl

/-- a slot-blind getter answers from the context of the modelled calls alone -/
theorem get_sim {g1 g2 g1' : GCtx D L} (hs : g1.ctx = g2.ctx) {q : Getter} (hb : Getter.blind q = true) {v : GVal}
    (h : g1.get env bopo q = .ok (g1', v)) : ∃ g2', g2.get env bopo q = .ok (g2', v) ∧ g2'.ctx = g2.ctx := by
  obtain ⟨f, s', hf, hg, rfl⟩ := get_ok env bopo h
  obtain ⟨s2', h2⟩ := getOn_blind f hb hg g2.slots
  refine ⟨{ g2 with slots := s2' }, ?_, rfl⟩
  unfold GCtx.get
  rw [← hs, hf]
  simp only [h2, Outcome.map]

/-- **repeating a getter gives an equal value** (slot-blind getters; the enumeration protocol is stateful by design) -/
theorem repeat_getter {g g' : GCtx D L} {q : Getter} (hb : Getter.blind q = true) {v : GVal}
    (h : g.get env bopo q = .ok (g', v)) : ∃ g'', g'.get env bopo q = .ok (g'', v) ∧ g''.ctx = g.ctx := by
  obtain ⟨g'', h2, hc⟩ := get_sim env bopo (get_keeps_ctx env bopo h).symm hb h
  exact ⟨g'', h2, by rw [hc, get_keeps_ctx env bopo h]⟩

/-- one call of a history of modelled calls and slot-blind getters: same result from contexts that differ in the
    getter-only slots only -/
theorem blind_step_sim {g1 g2 g1' : GCtx D L} (hs : g1.ctx = g2.ctx) {c : GCall} (hb : GCall.blind c = true) {r : GRes}
    (h : g1.step env bopo c = .ok (g1', r)) : ∃ g2', g2.step env bopo c = .ok (g2', r) ∧ g1'.ctx = g2'.ctx := by
  cases c with
  | op o =>
    simp only [GCtx.step] at h ⊢
    rw [← hs]
    cases ha : g1.ctx.apply env o with
    | ok x =>
      rw [ha] at h
      simp only [Outcome.map, Outcome.ok.injEq, Prod.mk.injEq] at h
      refine ⟨{ g2 with ctx := x.1 }, ?_, by rw [← h.1]⟩
      simp only [Outcome.map, ← h.2]
    | panic p => rw [ha] at h; cases h
    | outOfFuel => rw [ha] at h; cases h
  | get q =>
    simp only [GCtx.step] at h ⊢
    cases hg : g1.get env bopo q with
    | ok x =>
      obtain ⟨gx, v⟩ := x
      rw [hg] at h
      simp only [Outcome.map, Outcome.ok.injEq, Prod.mk.injEq] at h
      obtain ⟨g2', h2, hc⟩ := get_sim env bopo hs hb hg
      refine ⟨g2', ?_, ?_⟩
      · rw [h2]; simp only [Outcome.map, h.2]
      · rw [← h.1, get_keeps_ctx env bopo hg, hc, hs]
    | panic p => rw [hg] at h; cases h
    | outOfFuel => rw [hg] at h; cases h

/-- … and so for whole histories -/
theorem blind_run_sim (cs : List GCall) (hb : ∀ c ∈ cs, GCall.blind c = true) :
    ∀ (g1 g2 g1' : GCtx D L) (rs : List GRes), g1.ctx = g2.ctx → g1.run env bopo cs = .ok (g1', rs) →
      ∃ g2', g2.run env bopo cs = .ok (g2', rs) ∧ g1'.ctx = g2'.ctx := by
  induction cs with
  | nil =>
    intro g1 g2 g1' rs hs h
    simp only [GCtx.run, Outcome.ok.injEq, Prod.mk.injEq] at h ⊢
    exact ⟨g2, ⟨rfl, h.2⟩, by rw [← h.1]; exact hs⟩
  | cons c cs ih =>
    intro g1 g2 g1' rs hs h
    simp only [GCtx.run] at h ⊢
    cases h1 : g1.step env bopo c with
    | ok x =>
      obtain ⟨ga, r⟩ := x
      rw [h1] at h
      simp only at h
      cases h2 : ga.run env bopo cs with
      | ok y =>
        obtain ⟨gb, rs'⟩ := y
        rw [h2] at h
        simp only [Outcome.ok.injEq, Prod.mk.injEq] at h
        obtain ⟨gc, hc1, hcs⟩ := blind_step_sim env bopo hs (hb c (List.mem_cons_self)) h1
        obtain ⟨gd, hd1, hds⟩ := ih (fun c hc => hb c (List.mem_cons_of_mem _ hc)) ga gc gb rs' hcs h2
        refine ⟨gd, ?_, by rw [← h.1]; exact hds⟩
        rw [hc1]; simp only; rw [hd1]; simp only [h.2]
      | panic p => rw [h2] at h; cases h
      | outOfFuel => rw [h2] at h; cases h
    | panic p => rw [h1] at h; cases h
    | outOfFuel => rw [h1] at h; cases h

/-- **C17 at the C level — getter calls are invisible to the modelled calls.**  Take ANY history of modelled C calls
    with getter calls (plain, `_static`, enumeration protocol — any of them) interleaved anywhere.  The modelled calls
    return exactly what they return in the history WITHOUT the getter calls, and the context they leave (editor state,
    buffers, options, dictionary, selection keys, keyboard) is the same. -/
theorem getters_do_not_disturb (cs : List GCall) :
    ∀ (g g' : GCtx D L) (rs : List GRes), g.run env bopo cs = .ok (g', rs) →
      g.ctx.run env (strip cs) = .ok (g'.ctx, rcsOf rs) := by
  induction cs with
  | nil =>
    intro g g' rs h
    simp only [GCtx.run, Outcome.ok.injEq, Prod.mk.injEq] at h
    rw [← h.1, ← h.2]; rfl
  | cons c cs ih =>
    intro g g' rs h
    simp only [GCtx.run] at h
    cases h1 : g.step env bopo c with
    | ok x =>
      obtain ⟨ga, r⟩ := x
      rw [h1] at h
      simp only at h
      cases h2 : ga.run env bopo cs with
      | ok y =>
        obtain ⟨gb, rs'⟩ := y
        rw [h2] at h
        simp only [Outcome.ok.injEq, Prod.mk.injEq] at h
        have ih' := ih ga gb rs' h2
        cases c with
        | op o =>
          simp only [GCtx.step] at h1
          cases ha : g.ctx.apply env o with
          | ok z =>
            rw [ha] at h1
            simp only [Outcome.map, Outcome.ok.injEq, Prod.mk.injEq] at h1
            rw [← h.1, ← h.2, ← h1.2]
            simp only [strip, rcsOf, CCtx.run]
            rw [ha]
            simp only
            rw [← h1.1] at ih'
            simp only at ih'
            rw [ih']
          | panic p => rw [ha] at h1; cases h1
          | outOfFuel => rw [ha] at h1; cases h1
        | get q =>
          simp only [GCtx.step] at h1
          cases hg : g.get env bopo q with
          | ok z =>
            obtain ⟨gz, v⟩ := z
            rw [hg] at h1
            simp only [Outcome.map, Outcome.ok.injEq, Prod.mk.injEq] at h1
            rw [← h.1, ← h.2, ← h1.2]
            simp only [strip, rcsOf]
            rw [← h1.1, get_keeps_ctx env bopo hg] at ih'
            exact ih'
          | panic p => rw [hg] at h1; cases h1
          | outOfFuel => rw [hg] at h1; cases h1
      | panic p => rw [h2] at h; cases h
      | outOfFuel => rw [h2] at h; cases h
    | panic p => rw [h1] at h; cases h
    | outOfFuel => rw [h1] at h; cases h

/-- **inserting one getter call (of ANY kind) in front of a history of modelled calls and slot-blind getters changes no
    result**: every return value and every getter value of the history is what it is without the inserted call, and the
    final context of the modelled calls is the same. -/
theorem insert_getter {g gq g1 : GCtx D L} {q : Getter} {v : GVal} (hq : g.get env bopo q = .ok (gq, v))
    (post : List GCall) (hb : ∀ c ∈ post, GCall.blind c = true) {rs : List GRes}
    (h : g.run env bopo post = .ok (g1, rs)) :
    ∃ g2, g.run env bopo (.get q :: post) = .ok (g2, .val v :: rs) ∧ g2.ctx = g1.ctx := by
  obtain ⟨g2, h2, hc⟩ := blind_run_sim env bopo post hb g gq g1 rs (get_keeps_ctx env bopo hq).symm h
  refine ⟨g2, ?_, hc.symm⟩
  simp only [GCtx.run, GCtx.step, hq, Outcome.map, h2]

end Purity

end Chewing.C17CApi
