import Chewing.Model.CApiGetters
import Chewing.Props.C06CApi
import Chewing.Props.C07
import Chewing.Props.C05
import Chewing.Props.C15
/-!
# The C getters of `capi/src/io.rs` in the model (work package capiget; C17 / C06, with links to C02 / C05 / C07 / C15)

`Model/CApiGetters.lean` defines every modelled getter as an interpretation of the table `Gen.CApiGetters.getterTable`
(regenerated from `capi/src/io.rs` by `tools/extractors/capi_getters.py` on every run) over the facts `GFacts` the
getters read from the editor.  This file proves

1. **the generated table is the documented meaning** (`getter_table_documented`, `enum_shapes_reviewed`), and what each
   plain getter computes (`value_*`: one closed form per getter, all facts, all slots);
2. **purity at the C level (C17)**: no getter call changes the context of the call-glue model — editor, selection keys,
   keyboard (`get_keeps_ctx`); a plain / mode / by-index getter does not read the getter-only slots
   (`blind_step_sim`), the iterator slots are written by the enumeration protocol only (`plain_keeps_iters`); hence
   inserting ANY list of getter calls ANYWHERE in a history of modelled calls changes neither a return value nor the
   final context (`getters_do_not_disturb`), inserting one getter call (of any kind) changes no result of a history of
   calls and slot-blind getters (`insert_getter`), and a repeated getter gives an equal value (`repeat_getter`);
3. **consistency** between the getters the properties speak about: `buffer_Check = 1 ↔ buffer_Len > 0`
   (`buffer_check_iff_len`), `cursor_Current ≤ buffer_Len` under C05's invariant (`cursor_le_len`,
   `cursor_le_len_history` = `C05.cursor_le_len_editor`), `commit_Check` = the round-3 `CCtx.commitCheck` and
   `= 1 ↔` the commit string is non-empty (`commit_check_iff`, with `C06CApi.C_getters_truthful`: `↔` the key result is
   Commit), `cand_TotalPage = ⌈TotalChoice / ChoicePerPage⌉` and `CurrentPage < TotalPage` while a list is open
   (`total_page_ceil`, `current_page_in_range`: C07's `page_count` and `Editor.PageInv`), `cand_CheckDone`
   (`check_done_iff`, `counters_zero_when_done`), `aux_Check = 1 ↔ aux_Length > 0` (`aux_check_iff_length`), the
   enumeration loop hands out `paginated_candidates()` (`cand_loop_hands_out`);
4. **`_static` variants**: equal to the heap variant whenever the text fits the buffer (`static_eq_heap_fits`), a
   NUL-terminated whole-character prefix otherwise (`static_prefix`: C15's `cstr_wellformed_all`); a `_static` call
   writes its own buffer only (`plain_keeps_iters`);
5. **histories** (§7): `run_append`, `insert_getter_anywhere` (a getter call of any kind inserted after any prefix),
   `apply_keeps_cursorInv` / `run_keeps_cursorInv` / `cursor_le_len_after_history` (C05's invariant through the call
   glue: `0 ≤ cursor_Current ≤ buffer_Len` after every history of modelled C calls and getter calls),
   `cand_loop_hands_out` / `enumerate_then_loop` (the documented enumeration loop hands out `paginated_candidates()`);
6. NULL context (`null_answers`), the legacy mode getters (`value_mode`, `mode_getters_default`), non-vacuity examples.

`buffer_Len` is the number of SYMBOLS of the pre-edit buffer (`editor.len()`), not the number of characters of
`buffer_String`: a syllable without a word is displayed spelled out (harness statistic
`observations_with_a_spelled_syllable_in_the_display`), so `BufferLenIsChars` below is NOT a theorem; it is stated and
refuted (`buffer_len_is_chars_refuted`) on the facts level.
-/
namespace Chewing.C17CApi
open Chewing Chewing.CApi Chewing.Gen Chewing.Gen.CApiKeys Chewing.Gen.CApiGetters Chewing.CStr

/-! ## 1. the generated table against the documented meaning -/

/-- the documented meaning of the plain getters, written by hand from the C header / io.rs -/
def documentedGetters : List (String × String × String × String × String) :=
  [("chewing_buffer_Check", "is_empty", "not_as_c_int", "", "ERROR"),
   ("chewing_buffer_Len", "len", "as_c_int", "", "ERROR"),
   ("chewing_cursor_Current", "cursor", "as_c_int", "", "ERROR"),
   ("chewing_bopomofo_Check", "entering_syllable", "as_c_int", "", "ERROR"),
   ("chewing_commit_Check", "display_commit", "not_is_empty", "", "ERROR"),
   ("chewing_aux_Check", "notification", "not_is_empty", "", "ERROR"),
   ("chewing_aux_Length", "notification", "chars_count", "", "ERROR"),
   ("chewing_cand_TotalPage", "total_page", "unwrap_or_default", "", "ERROR"),
   ("chewing_cand_TotalChoice", "all_candidates", "len_or_0", "", "ERROR"),
   ("chewing_cand_ChoicePerPage", "candidates_per_page", "as_c_int", "", "ERROR"),
   ("chewing_cand_CurrentPage", "current_page_no", "unwrap_or_default", "", "ERROR"),
   ("chewing_cand_CheckDone", "is_selecting", "false_if", "", "ERROR"),
   ("chewing_cand_list_has_next", "has_next_selection_point", "selecting_as_c_int", "", "FALSE"),
   ("chewing_cand_list_has_prev", "has_prev_selection_point", "selecting_as_c_int", "", "FALSE"),
   ("chewing_keystroke_CheckIgnore", "last_key_behavior", "is", "Ignore", "ERROR"),
   ("chewing_keystroke_CheckAbsorb", "last_key_behavior", "is", "Absorb", "ERROR"),
   ("chewing_buffer_String", "display", "heap_or_null", "", "empty_heap"),
   ("chewing_bopomofo_String", "syllable_buffer_display", "heap_or_null", "", "empty_heap"),
   ("chewing_commit_String", "display_commit", "heap_or_null", "", "empty_heap"),
   ("chewing_aux_String", "notification", "heap_unwrap", "", "empty_heap"),
   ("chewing_buffer_String_static", "display", "static", "preedit_buf", "global_empty"),
   ("chewing_bopomofo_String_static", "syllable_buffer_display", "static", "bopomofo_buf", "global_empty"),
   ("chewing_commit_String_static", "display_commit", "static", "commit_buf", "global_empty"),
   ("chewing_aux_String_static", "notification", "static", "aux_buf", "global_empty")]

/-- **the table the translator reads off `capi/src/io.rs` is the documented one** -/
theorem getter_table_documented : getterTable = documentedGetters := by decide

/-- every function of the enumeration protocol has the reviewed body the model writes out -/
theorem enum_shapes_reviewed :
    enumShapes.map (·.1) =
      ["chewing_cand_Enumerate", "chewing_cand_hasNext", "chewing_cand_String", "chewing_cand_String_static",
       "chewing_cand_string_by_index", "chewing_cand_string_by_index_static", "chewing_interval_Enumerate",
       "chewing_interval_hasNext", "chewing_zuin_Check", "chewing_zuin_String", "chewing_get_phoneSeq",
       "chewing_get_phoneSeqLen", "chewing_interval_Get"] ∧ ∀ r ∈ enumShapes, r.2 = 1 := by decide

/-- the static getters write the buffer C15's table names for them, and every such buffer exists -/
theorem static_rows_match_c15 :
    ∀ r ∈ getterTable, r.2.2.1 = "static" →
      (r.1, r.2.2.2.1) ∈ Gen.CApi.staticGetters ∧ 1 ≤ bufCap r.2.2.2.1 := by decide

/-- buffer capacities (generated by the C15 extractor) -/
theorem buf_caps : bufCap "preedit_buf" = 256 ∧ bufCap "commit_buf" = 256 ∧ bufCap "aux_buf" = 256 ∧
    bufCap "cand_buf" = 256 ∧ bufCap "bopomofo_buf" = 16 := by decide

/-! ### what each plain getter computes (all facts, all slots) -/

section Values
variable (f : GFacts) (s : GSlots)

theorem value_buffer_Check :
    getOn f s (.plain "chewing_buffer_Check") = .ok (s, .int (boolInt (!f.isEmpty))) := rfl
theorem value_buffer_Len : getOn f s (.plain "chewing_buffer_Len") = .ok (s, .int (asCInt f.len)) := rfl
theorem value_cursor_Current : getOn f s (.plain "chewing_cursor_Current") = .ok (s, .int (asCInt f.cursor)) := rfl
theorem value_bopomofo_Check :
    getOn f s (.plain "chewing_bopomofo_Check") = .ok (s, .int (boolInt f.enteringSyllable)) := rfl
theorem value_commit_Check :
    getOn f s (.plain "chewing_commit_Check") = .ok (s, .int (boolInt (!f.commit.isEmpty))) := rfl
theorem value_aux_Check :
    getOn f s (.plain "chewing_aux_Check") = .ok (s, .int (boolInt (!f.notice.isEmpty))) := rfl
/-- `chewing_aux_Length` counts CHARACTERS (`chars().count()`), not bytes -/
theorem value_aux_Length :
    getOn f s (.plain "chewing_aux_Length") = .ok (s, .int (asCInt f.notice.length)) := rfl
theorem value_cand_TotalPage :
    getOn f s (.plain "chewing_cand_TotalPage") = .ok (s, .int (asCInt (f.totalPage.getD 0))) := rfl
theorem value_cand_TotalChoice :
    getOn f s (.plain "chewing_cand_TotalChoice") =
      .ok (s, .int (match f.allCandidates with | some cs => asCInt cs.length | none => 0)) := rfl
theorem value_cand_ChoicePerPage :
    getOn f s (.plain "chewing_cand_ChoicePerPage") = .ok (s, .int (asCInt f.options.candidatesPerPage)) := rfl
theorem value_cand_CurrentPage :
    getOn f s (.plain "chewing_cand_CurrentPage") = .ok (s, .int (asCInt (f.currentPageNo.getD 0))) := rfl
theorem value_cand_CheckDone :
    getOn f s (.plain "chewing_cand_CheckDone") = .ok (s, .int (if f.isSelecting then 0 else 1)) := rfl
theorem value_cand_list_has_next :
    getOn f s (.plain "chewing_cand_list_has_next") =
      .ok (s, .int (if !f.isSelecting then 0 else boolInt f.hasNextSel)) := rfl
theorem value_cand_list_has_prev :
    getOn f s (.plain "chewing_cand_list_has_prev") =
      .ok (s, .int (if !f.isSelecting then 0 else boolInt f.hasPrevSel)) := rfl
theorem value_CheckIgnore :
    getOn f s (.plain "chewing_keystroke_CheckIgnore") = .ok (s, .int (if f.last = .ignore then 1 else 0)) := rfl
theorem value_CheckAbsorb :
    getOn f s (.plain "chewing_keystroke_CheckAbsorb") = .ok (s, .int (if f.last = .absorb then 1 else 0)) := rfl
theorem value_buffer_String :
    getOn f s (.plain "chewing_buffer_String") = .ok (s, .heap (heapCstr (utf8Encode f.display))) := rfl
theorem value_bopomofo_String :
    getOn f s (.plain "chewing_bopomofo_String") = .ok (s, .heap (heapCstr (utf8Encode f.bopo))) := rfl
theorem value_commit_String :
    getOn f s (.plain "chewing_commit_String") = .ok (s, .heap (heapCstr (utf8Encode f.commit))) := rfl
theorem value_buffer_String_static :
    getOn f s (.plain "chewing_buffer_String_static") =
      .ok (s.setBuf (some ("preedit_buf", copyCstr 256 (utf8Encode f.display))),
           .static (copyCstr 256 (utf8Encode f.display))) := rfl
theorem value_commit_String_static :
    getOn f s (.plain "chewing_commit_String_static") =
      .ok (s.setBuf (some ("commit_buf", copyCstr 256 (utf8Encode f.commit))),
           .static (copyCstr 256 (utf8Encode f.commit))) := rfl
theorem value_aux_String_static :
    getOn f s (.plain "chewing_aux_String_static") =
      .ok (s.setBuf (some ("aux_buf", copyCstr 256 (utf8Encode f.notice))),
           .static (copyCstr 256 (utf8Encode f.notice))) := rfl
theorem value_bopomofo_String_static :
    getOn f s (.plain "chewing_bopomofo_String_static") =
      .ok (s.setBuf (some ("bopomofo_buf", copyCstr 16 (utf8Encode f.bopo))),
           .static (copyCstr 16 (utf8Encode f.bopo))) := rfl

end Values

/-! ## 2. purity at the C level -/

/-- the getters that do not read the getter-only slots: every plain getter, the mode getters, `string_by_index(_static)`,
    `zuin_Check/String`, `get_phoneSeq(Len)` -/
def Getter.blind : Getter → Bool
  | .plain _ => true
  | .mode _ => true
  | .candStringByIndex _ => true
  | .candStringByIndexStatic _ => true
  | .zuinCheck => true
  | .zuinString => true
  | .phoneSeq => true
  | .phoneSeqLen => true
  | _ => false

def GCall.blind : GCall → Bool
  | .op _ => true
  | .get q => Getter.blind q

/-- the modelled calls of a history / their return values among the results -/
def strip : List GCall → List COp
  | [] => []
  | .op o :: cs => o :: strip cs
  | .get _ :: cs => strip cs

def rcsOf : List GRes → List Int
  | [] => []
  | .rc r :: rs => r :: rcsOf rs
  | .val _ :: rs => rcsOf rs

/-- a slot-blind getter hands out the same value whatever the slots hold -/
theorem getOn_blind (f : GFacts) {q : Getter} (hb : Getter.blind q = true) {s s' : GSlots} {v : GVal}
    (h : getOn f s q = .ok (s', v)) (s2 : GSlots) : ∃ s2', getOn f s2 q = .ok (s2', v) := by
  cases q with
  | plain fn =>
    simp only [getOn] at h ⊢
    cases hr : getterRow fn with
    | none => rw [hr] at h; cases h
    | some row =>
      obtain ⟨m, conv, arg, n⟩ := row
      rw [hr] at h
      simp only at h ⊢
      cases hv : getValue f m conv arg with
      | ok r =>
        rw [hv] at h
        simp only [Outcome.map, Outcome.ok.injEq, Prod.mk.injEq] at h ⊢
        exact ⟨_, rfl, h.2⟩
      | panic p => rw [hv] at h; cases h
      | outOfFuel => rw [hv] at h; cases h
  | mode fn =>
    simp only [getOn, Outcome.ok.injEq, Prod.mk.injEq] at h ⊢
    exact ⟨_, rfl, h.2⟩
  | candStringByIndex i =>
    cases hlk : (f.allCandidates.getD [])[indexOfInt i]? with
    | none =>
      simp only [getOn, hlk, Outcome.ok.injEq, Prod.mk.injEq] at h ⊢
      exact ⟨s2, rfl, h.2⟩
    | some t =>
      cases hh : heapCstr (utf8Encode t) with
      | none => simp only [getOn, hlk, hh] at h; cases h
      | some b =>
        simp only [getOn, hlk, hh, Outcome.ok.injEq, Prod.mk.injEq] at h ⊢
        exact ⟨s2, rfl, h.2⟩
  | candStringByIndexStatic i =>
    cases hlk : (f.allCandidates.getD [])[indexOfInt i]? with
    | none =>
      simp only [getOn, hlk, Outcome.ok.injEq, Prod.mk.injEq] at h ⊢
      exact ⟨s2, rfl, h.2⟩
    | some t =>
      simp only [getOn, hlk, Outcome.ok.injEq, Prod.mk.injEq] at h ⊢
      exact ⟨_, rfl, h.2⟩
  | zuinCheck =>
    simp only [getOn, Outcome.ok.injEq, Prod.mk.injEq] at h ⊢
    exact ⟨s2, rfl, h.2⟩
  | zuinString =>
    simp only [getOn, Outcome.ok.injEq, Prod.mk.injEq] at h ⊢
    exact ⟨s2, rfl, h.2⟩
  | phoneSeq =>
    simp only [getOn, Outcome.ok.injEq, Prod.mk.injEq] at h ⊢
    exact ⟨s2, rfl, h.2⟩
  | phoneSeqLen =>
    simp only [getOn, Outcome.ok.injEq, Prod.mk.injEq] at h ⊢
    exact ⟨s2, rfl, h.2⟩
  | candEnumerate => cases hb
  | candHasNext => cases hb
  | candString => cases hb
  | candStringStatic => cases hb
  | intervalEnumerate => cases hb
  | intervalHasNext => cases hb
  | intervalGet => cases hb

section Purity
variable {D L : Type} (env : Env D L) (bopo : L → Text)

/-- a getter call, spelled out -/
theorem get_ok {g g' : GCtx D L} {q : Getter} {v : GVal} (h : g.get env bopo q = .ok (g', v)) :
    ∃ f s', GFacts.ofEditor env bopo g.ctx.editor = .ok f ∧ getOn f g.slots q = .ok (s', v) ∧
      g' = { g with slots := s' } := by
  unfold GCtx.get at h
  cases hf : GFacts.ofEditor env bopo g.ctx.editor with
  | ok f =>
    rw [hf] at h
    simp only at h
    cases hg : getOn f g.slots q with
    | ok r =>
      rw [hg] at h
      simp only [Outcome.map, Outcome.ok.injEq, Prod.mk.injEq] at h
      exact ⟨f, r.1, rfl, by rw [← h.2]; exact hg, h.1.symm⟩
    | panic p => rw [hg] at h; cases h
    | outOfFuel => rw [hg] at h; cases h
  | panic p => rw [hf] at h; cases h
  | outOfFuel => rw [hf] at h; cases h

/-- **no getter call changes the context of the modelled calls**: the editor (state, buffers, options, dictionary),
    the selection keys, the keyboard.  A getter writes the getter-only slots at most. -/
theorem get_keeps_ctx {g g' : GCtx D L} {q : Getter} {v : GVal} (h : g.get env bopo q = .ok (g', v)) :
    g'.ctx = g.ctx := by
  obtain ⟨f, s', _, _, rfl⟩ := get_ok env bopo h
  rfl

/-- a slot-blind getter answers from the context of the modelled calls alone -/
theorem get_sim {g1 g2 g1' : GCtx D L} (hs : g1.ctx = g2.ctx) {q : Getter} (hb : Getter.blind q = true) {v : GVal}
    (h : g1.get env bopo q = .ok (g1', v)) : ∃ g2', g2.get env bopo q = .ok (g2', v) ∧ g2'.ctx = g2.ctx := by
  obtain ⟨f, s', hf, hg, rfl⟩ := get_ok env bopo h
  obtain ⟨s2', h2⟩ := getOn_blind f hb hg g2.slots
  refine ⟨{ g2 with slots := s2' }, ?_, rfl⟩
  unfold GCtx.get
  rw [← hs, hf]
  simp only [h2, Outcome.map]

/-- **repeating a getter gives an equal value** (slot-blind getters; the enumeration protocol is stateful by design) -/
theorem repeat_getter {g g' : GCtx D L} {q : Getter} (hb : Getter.blind q = true) {v : GVal}
    (h : g.get env bopo q = .ok (g', v)) : ∃ g'', g'.get env bopo q = .ok (g'', v) ∧ g''.ctx = g.ctx := by
  obtain ⟨g'', h2, hc⟩ := get_sim env bopo (get_keeps_ctx env bopo h).symm hb h
  exact ⟨g'', h2, by rw [hc, get_keeps_ctx env bopo h]⟩

/-- one call of a history of modelled calls and slot-blind getters: same result from contexts that differ in the
    getter-only slots only -/
theorem blind_step_sim {g1 g2 g1' : GCtx D L} (hs : g1.ctx = g2.ctx) {c : GCall} (hb : GCall.blind c = true) {r : GRes}
    (h : g1.step env bopo c = .ok (g1', r)) : ∃ g2', g2.step env bopo c = .ok (g2', r) ∧ g1'.ctx = g2'.ctx := by
  cases c with
  | op o =>
    simp only [GCtx.step] at h ⊢
    rw [← hs]
    cases ha : g1.ctx.apply env o with
    | ok x =>
      rw [ha] at h
      simp only [Outcome.map, Outcome.ok.injEq, Prod.mk.injEq] at h
      refine ⟨{ g2 with ctx := x.1 }, ?_, by rw [← h.1]⟩
      simp only [Outcome.map, ← h.2]
    | panic p => rw [ha] at h; cases h
    | outOfFuel => rw [ha] at h; cases h
  | get q =>
    simp only [GCtx.step] at h ⊢
    cases hg : g1.get env bopo q with
    | ok x =>
      obtain ⟨gx, v⟩ := x
      rw [hg] at h
      simp only [Outcome.map, Outcome.ok.injEq, Prod.mk.injEq] at h
      obtain ⟨g2', h2, hc⟩ := get_sim env bopo hs hb hg
      refine ⟨g2', ?_, ?_⟩
      · rw [h2]; simp only [Outcome.map, h.2]
      · rw [← h.1, get_keeps_ctx env bopo hg, hc, hs]
    | panic p => rw [hg] at h; cases h
    | outOfFuel => rw [hg] at h; cases h

/-- … and so for whole histories -/
theorem blind_run_sim (cs : List GCall) (hb : ∀ c ∈ cs, GCall.blind c = true) :
    ∀ (g1 g2 g1' : GCtx D L) (rs : List GRes), g1.ctx = g2.ctx → g1.run env bopo cs = .ok (g1', rs) →
      ∃ g2', g2.run env bopo cs = .ok (g2', rs) ∧ g1'.ctx = g2'.ctx := by
  induction cs with
  | nil =>
    intro g1 g2 g1' rs hs h
    simp only [GCtx.run, Outcome.ok.injEq, Prod.mk.injEq] at h ⊢
    exact ⟨g2, ⟨rfl, h.2⟩, by rw [← h.1]; exact hs⟩
  | cons c cs ih =>
    intro g1 g2 g1' rs hs h
    simp only [GCtx.run] at h ⊢
    cases h1 : g1.step env bopo c with
    | ok x =>
      obtain ⟨ga, r⟩ := x
      rw [h1] at h
      simp only at h
      cases h2 : ga.run env bopo cs with
      | ok y =>
        obtain ⟨gb, rs'⟩ := y
        rw [h2] at h
        simp only [Outcome.ok.injEq, Prod.mk.injEq] at h
        obtain ⟨gc, hc1, hcs⟩ := blind_step_sim env bopo hs (hb c (List.mem_cons_self)) h1
        obtain ⟨gd, hd1, hds⟩ := ih (fun c hc => hb c (List.mem_cons_of_mem _ hc)) ga gc gb rs' hcs h2
        refine ⟨gd, ?_, by rw [← h.1]; exact hds⟩
        rw [hc1]; simp only; rw [hd1]; simp only [h.2]
      | panic p => rw [h2] at h; cases h
      | outOfFuel => rw [h2] at h; cases h
    | panic p => rw [h1] at h; cases h
    | outOfFuel => rw [h1] at h; cases h

/-- **C17 at the C level — getter calls are invisible to the modelled calls.**  Take ANY history of modelled C calls
    with getter calls (plain, `_static`, enumeration protocol — any of them) interleaved anywhere.  The modelled calls
    return exactly what they return in the history WITHOUT the getter calls, and the context they leave (editor state,
    buffers, options, dictionary, selection keys, keyboard) is the same. -/
theorem getters_do_not_disturb (cs : List GCall) :
    ∀ (g g' : GCtx D L) (rs : List GRes), g.run env bopo cs = .ok (g', rs) →
      g.ctx.run env (strip cs) = .ok (g'.ctx, rcsOf rs) := by
  induction cs with
  | nil =>
    intro g g' rs h
    simp only [GCtx.run, Outcome.ok.injEq, Prod.mk.injEq] at h
    rw [← h.1, ← h.2]; rfl
  | cons c cs ih =>
    intro g g' rs h
    simp only [GCtx.run] at h
    cases h1 : g.step env bopo c with
    | ok x =>
      obtain ⟨ga, r⟩ := x
      rw [h1] at h
      simp only at h
      cases h2 : ga.run env bopo cs with
      | ok y =>
        obtain ⟨gb, rs'⟩ := y
        rw [h2] at h
        simp only [Outcome.ok.injEq, Prod.mk.injEq] at h
        have ih' := ih ga gb rs' h2
        cases c with
        | op o =>
          simp only [GCtx.step] at h1
          cases ha : g.ctx.apply env o with
          | ok z =>
            rw [ha] at h1
            simp only [Outcome.map, Outcome.ok.injEq, Prod.mk.injEq] at h1
            rw [← h.1, ← h.2, ← h1.2]
            simp only [strip, rcsOf, CCtx.run]
            rw [ha]
            simp only
            rw [← h1.1] at ih'
            simp only at ih'
            rw [ih']
          | panic p => rw [ha] at h1; cases h1
          | outOfFuel => rw [ha] at h1; cases h1
        | get q =>
          simp only [GCtx.step] at h1
          cases hg : g.get env bopo q with
          | ok z =>
            obtain ⟨gz, v⟩ := z
            rw [hg] at h1
            simp only [Outcome.map, Outcome.ok.injEq, Prod.mk.injEq] at h1
            rw [← h.1, ← h.2, ← h1.2]
            simp only [strip, rcsOf]
            rw [← h1.1, get_keeps_ctx env bopo hg] at ih'
            exact ih'
          | panic p => rw [hg] at h1; cases h1
          | outOfFuel => rw [hg] at h1; cases h1
      | panic p => rw [h2] at h; cases h
      | outOfFuel => rw [h2] at h; cases h
    | panic p => rw [h1] at h; cases h
    | outOfFuel => rw [h1] at h; cases h

/-- **inserting one getter call (of ANY kind) in front of a history of modelled calls and slot-blind getters changes no
    result**: every return value and every getter value of the history is what it is without the inserted call, and the
    final context of the modelled calls is the same. -/
theorem insert_getter {g gq g1 : GCtx D L} {q : Getter} {v : GVal} (hq : g.get env bopo q = .ok (gq, v))
    (post : List GCall) (hb : ∀ c ∈ post, GCall.blind c = true) {rs : List GRes}
    (h : g.run env bopo post = .ok (g1, rs)) :
    ∃ g2, g.run env bopo (.get q :: post) = .ok (g2, .val v :: rs) ∧ g2.ctx = g1.ctx := by
  obtain ⟨g2, h2, hc⟩ := blind_run_sim env bopo post hb g gq g1 rs (get_keeps_ctx env bopo hq).symm h
  refine ⟨g2, ?_, hc.symm⟩
  simp only [GCtx.run, GCtx.step, hq, Outcome.map, h2]

end Purity

/-! ## 3. consistency between the getters -/

theorem asCInt_small (n : Nat) (h : n < 2147483648) : asCInt n = (n : Int) := by
  unfold asCInt
  have : n % 4294967296 = n := Nat.mod_eq_of_lt (by omega)
  rw [this, if_pos h]

/-- `aux_Check = 1 ↔ aux_Length > 0` (a notification shorter than 2^31 characters) -/
theorem aux_check_iff_length (f : GFacts) (s : GSlots) (h : f.notice.length < 2147483648) :
    ∃ chk len, getOn f s (.plain "chewing_aux_Check") = .ok (s, .int chk) ∧
      getOn f s (.plain "chewing_aux_Length") = .ok (s, .int len) ∧ (chk = 1 ↔ 0 < len) ∧
      len = (f.notice.length : Int) := by
  refine ⟨_, _, value_aux_Check f s, value_aux_Length f s, ?_, asCInt_small _ h⟩
  rw [asCInt_small _ h]
  cases hn : f.notice with
  | nil => simp [boolInt]
  | cons a t => simp [boolInt]

/-- `commit_Check = 1 ↔` the commit string is non-empty `↔ commit_String` is not "" -/
theorem commit_check_iff (f : GFacts) (s : GSlots) :
    ∃ chk, getOn f s (.plain "chewing_commit_Check") = .ok (s, .int chk) ∧ (chk = 1 ↔ f.commit ≠ []) ∧
      (chk = 0 ∨ chk = 1) := by
  refine ⟨_, value_commit_Check f s, ?_, ?_⟩
  · cases f.commit <;> simp [boolInt]
  · cases f.commit <;> simp [boolInt]

/-- `cand_CheckDone = 1 ↔` no list is open; it is the negation of `is_selecting()` -/
theorem check_done_iff (f : GFacts) (s : GSlots) :
    ∃ d, getOn f s (.plain "chewing_cand_CheckDone") = .ok (s, .int d) ∧ (d = 1 ↔ f.isSelecting = false) ∧
      (d = 0 ↔ f.isSelecting = true) := by
  refine ⟨_, value_cand_CheckDone f s, ?_, ?_⟩ <;> cases f.isSelecting <;> simp

/-- FULL statement "buffer_Len is the number of characters of buffer_String" -/
def BufferLenIsChars : Prop := ∀ f : GFacts, f.isEmpty = (f.len == 0) → f.len < 2147483648 → asCInt f.len = (f.display.length : Int)

/-- … is NOT what the code says: `buffer_Len` is `editor.len()`, the number of SYMBOLS; a syllable without a word is
    displayed spelled out (one symbol, two or more characters).  Facts of such a buffer (observed by the harness:
    statistic `observations_with_a_spelled_syllable_in_the_display`): -/
theorem buffer_len_is_chars_refuted : ¬ BufferLenIsChars := by
  intro h
  have := h { display := [0x3118, 0x311C], len := 1, isEmpty := false, cursor := 1, commit := [], notice := [], bopo := [],
              enteringSyllable := false, isSelecting := false, allCandidates := none, paginated := none,
              totalPage := none, currentPageNo := none, hasNextSel := false, hasPrevSel := false,
              intervals := [(0, 1, false)], last := .absorb, options := Config.init.opts } rfl (by decide)
  revert this
  decide

section Consistency
variable {D L : Type} (env : Env D L) (bopo : L → Text)

/-- the facts of an editor of the model, field by field -/
theorem ofEditor_ok {e : Editor D L} {f : GFacts} (h : GFacts.ofEditor env bopo e = .ok f) :
    ∃ ivs all pag tp, Shared.conversion env e.shared = .ok ivs ∧ e.allCandidates env = .ok all ∧
      e.paginatedCandidates env = .ok pag ∧ e.totalPage env = .ok tp ∧
      f.display = ivs.flatMap (·.text) ∧ f.len = e.shared.com.len ∧ f.isEmpty = e.shared.com.isEmpty ∧
      f.cursor = e.shared.com.cursor ∧ f.commit = e.shared.commitBuf ∧ f.notice = e.shared.noticeBuf ∧
      f.isSelecting = e.isSelecting ∧ f.allCandidates = all ∧ f.paginated = pag ∧ f.totalPage = tp ∧
      f.currentPageNo = e.currentPageNo ∧ f.last = e.shared.last ∧ f.options = cfgOfOptions e.shared.options ∧
      f.bopo = bopo e.shared.syl ∧ f.enteringSyllable = !env.sylIsEmpty e.shared.syl := by
  unfold GFacts.ofEditor at h
  split at h
  · rename_i ivs all pag tp hn hp h1 h2 h3 h4 h5 h6
    simp only [Outcome.ok.injEq] at h
    subst h
    exact ⟨ivs, all, pag, tp, h1, h2, h3, h4, rfl, rfl, rfl, rfl, rfl, rfl, rfl, rfl, rfl, rfl, rfl, rfl, rfl, rfl, rfl⟩
  all_goals cases h

/-- the value of a plain getter on a context whose facts are `f` -/
theorem value_of_facts {g : GCtx D L} {f : GFacts} (hf : GFacts.ofEditor env bopo g.ctx.editor = .ok f) {fn : String}
    {s' : GSlots} {v : GVal} (hv : getOn f g.slots (.plain fn) = .ok (s', v)) : g.value env bopo fn = .ok v := by
  simp only [GCtx.value, GCtx.get, hf, hv, Outcome.map]

/-- **`buffer_Check = 1 ↔ buffer_Len > 0`**, and `buffer_Len` is the number of symbols of the pre-edit buffer -/
theorem buffer_check_iff_len {g : GCtx D L} {f : GFacts} (hf : GFacts.ofEditor env bopo g.ctx.editor = .ok f)
    (hlen : g.ctx.editor.shared.com.len < 2147483648) :
    ∃ chk len, g.value env bopo "chewing_buffer_Check" = .ok (.int chk) ∧
      g.value env bopo "chewing_buffer_Len" = .ok (.int len) ∧ (chk = 1 ↔ 0 < len) ∧
      len = (g.ctx.editor.shared.com.len : Int) := by
  obtain ⟨_, _, _, _, _, _, _, _, _, hl, he, _⟩ := ofEditor_ok env bopo hf
  refine ⟨_, _, value_of_facts env bopo hf (value_buffer_Check f g.slots),
    value_of_facts env bopo hf (value_buffer_Len f g.slots), ?_, ?_⟩
  · rw [hl, he, asCInt_small _ hlen]
    unfold CompEditor.isEmpty Composition.isEmpty CompEditor.len
    cases hc : g.ctx.editor.shared.com.inner.len with
    | zero => simp [boolInt]
    | succ n => simp [boolInt]
  · rw [hl, asCInt_small _ hlen]

/-- **`0 ≤ cursor_Current ≤ buffer_Len`** under C05's invariant of the composition editor -/
theorem cursor_le_len {g : GCtx D L} {f : GFacts} (hf : GFacts.ofEditor env bopo g.ctx.editor = .ok f)
    (hi : C05.CursorInv g.ctx.editor.shared.com) (hlen : g.ctx.editor.shared.com.len < 2147483648) :
    ∃ cur len, g.value env bopo "chewing_cursor_Current" = .ok (.int cur) ∧
      g.value env bopo "chewing_buffer_Len" = .ok (.int len) ∧ 0 ≤ cur ∧ cur ≤ len := by
  obtain ⟨_, _, _, _, _, _, _, _, _, hl, _, hc, _⟩ := ofEditor_ok env bopo hf
  have hle : g.ctx.editor.shared.com.cursor ≤ g.ctx.editor.shared.com.len := hi.2
  refine ⟨_, _, value_of_facts env bopo hf (value_cursor_Current f g.slots),
    value_of_facts env bopo hf (value_buffer_Len f g.slots), ?_, ?_⟩
  · rw [hc, asCInt_small _ (by omega)]; omega
  · rw [hc, hl, asCInt_small _ (by omega), asCInt_small _ hlen]; omega

/-- C05's invariant holds after every history of editor operations (`C05.cursor_le_len_editor`), hence
    `cursor_le_len` applies to every context whose editor was reached from a fresh one -/
theorem cursor_le_len_history (ops : List (Op L)) (e e' : Editor D L) (h0 : e.shared.com = {})
    (h : e.run env ops = .ok e') : C05.CursorInv e'.shared.com :=
  C05.cursor_le_len_editor env ops e e' (by rw [h0]; exact C05.cursorInv_new) h

/-- `chewing_commit_Check` of this model is the `CCtx.commitCheck` of the call-glue model (round 3), for which
    `C06CApi.C_getters_truthful` proves `= 1 ↔` the key result is Commit (with `C02.commit_string_iff_result`) -/
theorem commit_check_is_glue_getter {g : GCtx D L} {f : GFacts} (hf : GFacts.ofEditor env bopo g.ctx.editor = .ok f) :
    g.value env bopo "chewing_commit_Check" = .ok (.int g.ctx.commitCheck) ∧
    g.value env bopo "chewing_keystroke_CheckIgnore" = .ok (.int g.ctx.keystrokeCheckIgnore) ∧
    g.value env bopo "chewing_keystroke_CheckAbsorb" = .ok (.int g.ctx.keystrokeCheckAbsorb) := by
  obtain ⟨_, _, _, _, _, _, _, _, _, _, _, _, hc, _, _, _, _, _, _, hl, _⟩ := ofEditor_ok env bopo hf
  refine ⟨?_, ?_, ?_⟩
  · rw [value_of_facts env bopo hf (value_commit_Check f g.slots), hc]
    unfold CCtx.commitCheck
    cases g.ctx.editor.shared.commitBuf <;> simp [boolInt]
  · rw [value_of_facts env bopo hf (value_CheckIgnore f g.slots), hl, C06CApi.checkIgnore_eq]
  · rw [value_of_facts env bopo hf (value_CheckAbsorb f g.slots), hl, C06CApi.checkAbsorb_eq]

/-- **after a key: `commit_Check = 1 ↔` the key was answered Commit** (`C06CApi.C_getters_truthful` on this model's getter) -/
theorem commit_check_iff_key_result (hH : C02.ConvHeadText env) {g : GCtx D L} {ev : KeyEvent} {e' : Editor D L} {b : KB}
    (h : g.ctx.editor.processKey env ev = .ok (e', b)) {f : GFacts}
    (hf : GFacts.ofEditor env bopo e' = .ok f) :
    ∃ chk, ({ g with ctx := { g.ctx with editor := e' } } : GCtx D L).value env bopo "chewing_commit_Check" = .ok (.int chk) ∧
      (chk = 1 ↔ b = .commit) := by
  refine ⟨_, (commit_check_is_glue_getter env bopo (g := { g with ctx := { g.ctx with editor := e' } }) hf).1, ?_⟩
  exact (C06CApi.C_getters_truthful env hH (c := g.ctx) h).2.2.1

/-- **while a list is open: `cand_TotalPage = ⌈TotalChoice / ChoicePerPage⌉`** (C07's `page_count`), with the facts behind
    the four counters -/
theorem total_page_ceil {e : Editor D L} {f : GFacts} {s : Selecting} (hf : GFacts.ofEditor env bopo e = .ok f)
    (hs : e.state = .selecting s) :
    ∃ cs, f.allCandidates = some cs ∧ f.isSelecting = true ∧ f.currentPageNo = some s.pageNo ∧
      f.options.candidatesPerPage = e.shared.options.candidatesPerPage ∧ 0 < f.options.candidatesPerPage ∧
      f.totalPage = some (pageCount cs.length f.options.candidatesPerPage) ∧
      cs.length ≤ pageCount cs.length f.options.candidatesPerPage * f.options.candidatesPerPage ∧
      (∀ k, cs.length ≤ k * f.options.candidatesPerPage → pageCount cs.length f.options.candidatesPerPage ≤ k) := by
  obtain ⟨_, all, _, tp, _, hall, _, htp, _, _, _, _, _, _, hsel, hfa, _, hft, hcp, _, hopt, _⟩ := ofEditor_ok env bopo hf
  have hper : f.options.candidatesPerPage = e.shared.options.candidatesPerPage := by rw [hopt]; rfl
  unfold Editor.totalPage at htp
  rw [hs] at htp
  dsimp only at htp
  cases ht : Selecting.totalPage env s e.shared with
  | ok n =>
    rw [ht] at htp
    simp only [Outcome.map, Outcome.ok.injEq] at htp
    obtain ⟨cs, hc, hpos, hn, hcov, hleast, _⟩ := C07.page_count env ht
    have hall' := (C07.total_is_length env hs hc).2.1
    rw [hall'] at hall
    simp only [Outcome.ok.injEq] at hall
    refine ⟨cs, by rw [hfa, ← hall], ?_, ?_, hper, by rw [hper]; exact hpos, ?_, ?_, ?_⟩
    · rw [hsel]; unfold Editor.isSelecting; rw [hs]
    · rw [hcp]; unfold Editor.currentPageNo; rw [hs]
    · rw [hft, ← htp, hn, hper]
    · rw [hper, ← hn]; exact hcov
    · intro k hk; rw [hper] at hk ⊢; rw [← hn]; exact hleast k hk
  | panic p => rw [ht] at htp; simp only [Outcome.map] at htp; cases htp
  | outOfFuel => rw [ht] at htp; simp only [Outcome.map] at htp; cases htp

/-- **`CurrentPage < TotalPage` while a list is open** — under C07's page invariant (`Editor.PageInv`, kept by every
    operation: `C07.page_in_range`) — unless nothing is listed at all -/
theorem current_page_in_range {e : Editor D L} {f : GFacts} {s : Selecting} (hf : GFacts.ofEditor env bopo e = .ok f)
    (hs : e.state = .selecting s) (hp : Editor.PageInv env e) :
    ∃ cur tp, f.currentPageNo = some cur ∧ f.totalPage = some tp ∧ (cur < tp ∨ f.allCandidates = some []) := by
  obtain ⟨cs, hall, _, hcur, hper, _, htp, _, _⟩ := total_page_ceil env bopo hf hs
  refine ⟨s.pageNo, _, hcur, htp, ?_⟩
  obtain ⟨_, all, _, tp, _, hall2, _, htp2, _, _, _, _, _, _, _, hfa, _, hft, _⟩ := ofEditor_ok env bopo hf
  unfold Editor.totalPage at htp2
  rw [hs] at htp2
  dsimp only at htp2
  cases ht : Selecting.totalPage env s e.shared with
  | ok n =>
    rw [ht] at htp2
    simp only [Outcome.map, Outcome.ok.injEq] at htp2
    have hn : some n = some (pageCount cs.length f.options.candidatesPerPage) := by rw [htp2, ← hft, htp]
    simp only [Option.some.injEq] at hn
    cases hp s hs n ht with
    | inl h => left; rw [← hn]; exact h
    | inr h =>
      right
      have := (C07.total_is_length env hs h).2.1
      rw [this] at hall2
      simp only [Outcome.ok.injEq] at hall2
      rw [hfa, ← hall2]
  | panic p => rw [ht] at htp2; simp only [Outcome.map] at htp2; cases htp2
  | outOfFuel => rw [ht] at htp2; simp only [Outcome.map] at htp2; cases htp2

/-- **no list open: `CheckDone = 1` and the counters answer 0** (`TotalPage`, `TotalChoice`, `CurrentPage`; the list
    navigation getters answer 0, `cand_hasNext` answers 0) -/
theorem counters_zero_when_done {e : Editor D L} {f : GFacts} (hf : GFacts.ofEditor env bopo e = .ok f)
    (hs : e.isSelecting = false) (sl : GSlots) :
    getOn f sl (.plain "chewing_cand_CheckDone") = .ok (sl, .int 1) ∧
    getOn f sl (.plain "chewing_cand_TotalPage") = .ok (sl, .int 0) ∧
    getOn f sl (.plain "chewing_cand_TotalChoice") = .ok (sl, .int 0) ∧
    getOn f sl (.plain "chewing_cand_CurrentPage") = .ok (sl, .int 0) ∧
    getOn f sl (.plain "chewing_cand_list_has_next") = .ok (sl, .int 0) ∧
    getOn f sl (.plain "chewing_cand_list_has_prev") = .ok (sl, .int 0) ∧
    getOn f sl .candHasNext = .ok (sl, .int 0) := by
  obtain ⟨_, all, _, tp, _, hall, _, htp, _, _, _, _, _, _, hsel, hfa, _, hft, hcp, _⟩ := ofEditor_ok env bopo hf
  have hst : ∀ s, e.state ≠ .selecting s := by
    intro s h; unfold Editor.isSelecting at hs; rw [h] at hs; cases hs
  have h1 : all = none := by
    unfold Editor.allCandidates at hall
    split at hall
    · rename_i s h; exact absurd h (hst s)
    · simp only [Outcome.ok.injEq] at hall; exact hall.symm
  have h2 : tp = none := by
    unfold Editor.totalPage at htp
    split at htp
    · rename_i s h; exact absurd h (hst s)
    · simp only [Outcome.ok.injEq] at htp; exact htp.symm
  have h3 : e.currentPageNo = none := by
    unfold Editor.currentPageNo
    split
    · rename_i s h; exact absurd h (hst s)
    · rfl
  rw [value_cand_CheckDone, value_cand_TotalPage, value_cand_TotalChoice, value_cand_CurrentPage,
    value_cand_list_has_next, value_cand_list_has_prev]
  simp [getOn, hsel, hs, hfa, h1, hft, h2, hcp, h3, falseValue, asCInt]

end Consistency

/-! ## 4. the `_static` variants -/

/-- a text that fits its buffer: the static and the heap variant show the same C string, the whole text -/
theorem static_text_fits (cap : Nat) (t : Text) (ht : C15.IsText t) (hfit : CStr.utf8Len t < cap) :
    (GVal.static (copyCstr cap (utf8Encode t))).text = some (utf8Encode t) ∧
    (GVal.heap (heapCstr (utf8Encode t))).text = some (utf8Encode t) := by
  refine ⟨C15.static_eq_heap_partial cap t ht hfit, ?_⟩
  obtain ⟨buf, h1, h2, _⟩ := C15.heap_text_valid t ht
  rw [h1]; exact h2

/-- any text: the static variant shows a NUL-terminated WHOLE-CHARACTER prefix, the longest that fits `cap - 1` bytes
    (C15's `cstr_wellformed_all`) -/
theorem static_text_prefix (cap : Nat) (hcap : 1 ≤ cap) (t : Text) (ht : C15.IsText t) :
    ∃ k, k ≤ t.length ∧ (GVal.static (copyCstr cap (utf8Encode t))).text = some (utf8Encode (t.take k)) ∧
      utf8Decode (utf8Encode (t.take k)) = some (t.take k) ∧ CStr.utf8Len (t.take k) ≤ cap - 1 ∧
      (k = t.length ∨ cap - 1 < CStr.utf8Len (t.take (k + 1))) := by
  obtain ⟨_, k, hk, h1, h2, h3, h4, _⟩ := C15.cstr_wellformed_all cap hcap t ht
  exact ⟨k, hk, h1, h2, h3, h4⟩

/-- the static variant `fnS` and the heap variant `fnH` of a getter of the text `t`, on the same facts -/
def StaticAgrees (f : GFacts) (s : GSlots) (fnS fnH : String) (t : Text) : Prop :=
  ∃ s' v w, getOn f s (.plain fnS) = .ok (s', v) ∧ getOn f s (.plain fnH) = .ok (s, w) ∧
    v.text = some (utf8Encode t) ∧ w.text = some (utf8Encode t) ∧
    s'.candIter = s.candIter ∧ s'.intervalIter = s.intervalIter

def StaticPrefix (f : GFacts) (s : GSlots) (fnS : String) (cap : Nat) (t : Text) : Prop :=
  ∃ s' v k, getOn f s (.plain fnS) = .ok (s', v) ∧ k ≤ t.length ∧ v.text = some (utf8Encode (t.take k)) ∧
    CStr.utf8Len (t.take k) ≤ cap - 1 ∧ (k = t.length ∨ cap - 1 < CStr.utf8Len (t.take (k + 1)))

/-- **`_static` = heap variant whenever the text fits the buffer** (255 bytes; the phonetic buffer 15) -/
theorem static_eq_heap_fits (f : GFacts) (s : GSlots) :
    (C15.IsText f.display → CStr.utf8Len f.display < 256 →
      StaticAgrees f s "chewing_buffer_String_static" "chewing_buffer_String" f.display) ∧
    (C15.IsText f.commit → CStr.utf8Len f.commit < 256 →
      StaticAgrees f s "chewing_commit_String_static" "chewing_commit_String" f.commit) ∧
    (C15.IsText f.bopo → CStr.utf8Len f.bopo < 16 →
      StaticAgrees f s "chewing_bopomofo_String_static" "chewing_bopomofo_String" f.bopo) := by
  refine ⟨fun ht hfit => ?_, fun ht hfit => ?_, fun ht hfit => ?_⟩
  · obtain ⟨h1, h2⟩ := static_text_fits 256 _ ht hfit
    exact ⟨_, _, _, value_buffer_String_static f s, value_buffer_String f s, h1, h2, rfl, rfl⟩
  · obtain ⟨h1, h2⟩ := static_text_fits 256 _ ht hfit
    exact ⟨_, _, _, value_commit_String_static f s, value_commit_String f s, h1, h2, rfl, rfl⟩
  · obtain ⟨h1, h2⟩ := static_text_fits 16 _ ht hfit
    exact ⟨_, _, _, value_bopomofo_String_static f s, value_bopomofo_String f s, h1, h2, rfl, rfl⟩

/-- `chewing_aux_String` unwraps `CString::new`: for a text (no U+0000) it hands out the whole notification -/
theorem value_aux_String (f : GFacts) (s : GSlots) (ht : C15.IsText f.notice) :
    ∃ w, getOn f s (.plain "chewing_aux_String") = .ok (s, w) ∧ w.text = some (utf8Encode f.notice) := by
  obtain ⟨buf, h1, h2, _⟩ := C15.heap_text_valid f.notice ht
  have : getOn f s (.plain "chewing_aux_String") =
      (match heapCstr (utf8Encode f.notice) with
        | some b => Outcome.ok (s, GVal.heap (some b))
        | none => Outcome.panic "CString::new unwrap") := by
    show Outcome.map _ (getValue f "notification" "heap_unwrap" "") = _
    have hv : getValue f "notification" "heap_unwrap" "" =
        (match heapCstr (utf8Encode f.notice) with
          | some b => Outcome.ok (GVal.heap (some b), none)
          | none => Outcome.panic "CString::new unwrap") := rfl
    rw [hv, h1]; rfl
  rw [this, h1]
  exact ⟨_, rfl, h2⟩

/-- **… a NUL-terminated whole-character prefix otherwise** -/
theorem static_prefix (f : GFacts) (s : GSlots) :
    (C15.IsText f.display → StaticPrefix f s "chewing_buffer_String_static" 256 f.display) ∧
    (C15.IsText f.commit → StaticPrefix f s "chewing_commit_String_static" 256 f.commit) ∧
    (C15.IsText f.notice → StaticPrefix f s "chewing_aux_String_static" 256 f.notice) ∧
    (C15.IsText f.bopo → StaticPrefix f s "chewing_bopomofo_String_static" 16 f.bopo) := by
  refine ⟨fun ht => ?_, fun ht => ?_, fun ht => ?_, fun ht => ?_⟩
  · obtain ⟨k, hk, h1, _, h3, h4⟩ := static_text_prefix 256 (by decide) _ ht
    exact ⟨_, _, k, value_buffer_String_static f s, hk, h1, h3, h4⟩
  · obtain ⟨k, hk, h1, _, h3, h4⟩ := static_text_prefix 256 (by decide) _ ht
    exact ⟨_, _, k, value_commit_String_static f s, hk, h1, h3, h4⟩
  · obtain ⟨k, hk, h1, _, h3, h4⟩ := static_text_prefix 256 (by decide) _ ht
    exact ⟨_, _, k, value_aux_String_static f s, hk, h1, h3, h4⟩
  · obtain ⟨k, hk, h1, _, h3, h4⟩ := static_text_prefix 16 (by decide) _ ht
    exact ⟨_, _, k, value_bopomofo_String_static f s, hk, h1, h3, h4⟩

/-- a `_static` call writes its own buffer only: the iterator slots and the other buffers stay -/
theorem plain_keeps_iters (f : GFacts) (s s' : GSlots) (fn : String) (v : GVal)
    (h : getOn f s (.plain fn) = .ok (s', v)) : s'.candIter = s.candIter ∧ s'.intervalIter = s.intervalIter := by
  simp only [getOn] at h
  cases hr : getterRow fn with
  | none => rw [hr] at h; cases h
  | some row =>
    obtain ⟨m, conv, arg, n⟩ := row
    rw [hr] at h
    simp only at h
    cases hv : getValue f m conv arg with
    | ok r =>
      rw [hv] at h
      simp only [Outcome.map, Outcome.ok.injEq, Prod.mk.injEq] at h
      rw [← h.1]
      unfold GSlots.setBuf
      split <;> exact ⟨rfl, rfl⟩
    | panic p => rw [hv] at h; cases h
    | outOfFuel => rw [hv] at h; cases h

/-! ## 7. histories: a getter inserted anywhere, the cursor invariant at the C level, the enumeration loop -/

section Histories
variable {D L : Type} (env : Env D L) (bopo : L → Text)

/-- running a history in two parts -/
theorem run_append (a b : List GCall) : ∀ (g : GCtx D L), g.run env bopo (a ++ b) =
    match g.run env bopo a with
    | .ok (g1, r1) =>
      match g1.run env bopo b with
      | .ok (g2, r2) => .ok (g2, r1 ++ r2)
      | .panic p => .panic p
      | .outOfFuel => .outOfFuel
    | .panic p => .panic p
    | .outOfFuel => .outOfFuel := by
  induction a with
  | nil =>
    intro g
    simp only [List.nil_append, GCtx.run]
    cases g.run env bopo b with
    | ok x => obtain ⟨g2, r2⟩ := x; simp
    | panic p => rfl
    | outOfFuel => rfl
  | cons c a ih =>
    intro g
    simp only [List.cons_append, GCtx.run]
    cases g.step env bopo c with
    | ok x =>
      obtain ⟨g', r⟩ := x
      simp only
      rw [ih g']
      cases g'.run env bopo a with
      | ok y =>
        obtain ⟨g1, r1⟩ := y
        simp only
        cases g1.run env bopo b with
        | ok z => obtain ⟨g2, r2⟩ := z; simp
        | panic p => rfl
        | outOfFuel => rfl
      | panic p => rfl
      | outOfFuel => rfl
    | panic p => rfl
    | outOfFuel => rfl

/-- **a getter call of ANY kind inserted ANYWHERE**: after any history `pre` (modelled calls and getters of every kind),
    inserting one getter call before a continuation `post` of modelled calls and slot-blind getters changes no result of
    `pre` and none of `post`, and the final context of the modelled calls is the same -/
theorem insert_getter_anywhere (pre post : List GCall) (hb : ∀ c ∈ post, GCall.blind c = true) (q : Getter)
    {g gp gq g1 : GCtx D L} {rp rs : List GRes} {v : GVal}
    (hpre : g.run env bopo pre = .ok (gp, rp)) (hq : gp.get env bopo q = .ok (gq, v))
    (hpost : gp.run env bopo post = .ok (g1, rs)) :
    g.run env bopo (pre ++ post) = .ok (g1, rp ++ rs) ∧
    ∃ g2, g.run env bopo (pre ++ .get q :: post) = .ok (g2, rp ++ .val v :: rs) ∧ g2.ctx = g1.ctx := by
  refine ⟨?_, ?_⟩
  · rw [run_append, hpre]; simp only [hpost]
  · obtain ⟨g2, h2, hc⟩ := insert_getter env bopo hq post hb hpost
    refine ⟨g2, ?_, hc⟩
    rw [run_append, hpre]; simp only [h2]

/-- one modelled C call keeps C05's invariant of the composition editor (`C05.cursor_le_len_editor` through the glue) -/
theorem apply_keeps_cursorInv {c c' : CCtx D L} {op : COp} {rc : Int} (hi : C05.CursorInv c.editor.shared.com)
    (h : c.apply env op = .ok (c', rc)) : C05.CursorInv c'.editor.shared.com := by
  unfold CCtx.apply at h
  cases ht : translate c.facts op with
  | ok gl =>
    rw [ht] at h
    dsimp only at h
    cases hr : runCall env c.editor gl.call with
    | ok x =>
      obtain ⟨e', b⟩ := x
      rw [hr] at h
      simp only [Outcome.ok.injEq, Prod.mk.injEq] at h
      have hrun := C06CApi.runCall_run env c.editor gl.call
      rw [hr] at hrun
      simp only [Outcome.map] at hrun
      rw [← h.1]
      exact C05.cursor_le_len_editor env _ c.editor e' hi hrun.symm
    | panic p => rw [hr] at h; cases h
    | outOfFuel => rw [hr] at h; cases h
  | panic p => rw [ht] at h; cases h
  | outOfFuel => rw [ht] at h; cases h

theorem run_keeps_cursorInv (ops : List COp) : ∀ (c c' : CCtx D L) (rcs : List Int),
    C05.CursorInv c.editor.shared.com → c.run env ops = .ok (c', rcs) → C05.CursorInv c'.editor.shared.com := by
  induction ops with
  | nil =>
    intro c c' rcs hi h
    simp only [CCtx.run, Outcome.ok.injEq, Prod.mk.injEq] at h
    rw [← h.1]; exact hi
  | cons op ops ih =>
    intro c c' rcs hi h
    simp only [CCtx.run] at h
    cases h1 : c.apply env op with
    | ok x =>
      obtain ⟨c1, r⟩ := x
      rw [h1] at h
      simp only at h
      cases h2 : c1.run env ops with
      | ok y =>
        obtain ⟨c2, rs⟩ := y
        rw [h2] at h
        simp only [Outcome.ok.injEq, Prod.mk.injEq] at h
        rw [← h.1]
        exact ih c1 c2 rs (apply_keeps_cursorInv env hi h1) h2
      | panic p => rw [h2] at h; cases h
      | outOfFuel => rw [h2] at h; cases h
    | panic p => rw [h1] at h; cases h
    | outOfFuel => rw [h1] at h; cases h

/-- **`0 ≤ cursor_Current ≤ buffer_Len` after EVERY history of modelled C calls and getter calls** from a context that
    satisfies C05's invariant (a new context does: `C05.cursorInv_new`) -/
theorem cursor_le_len_after_history (cs : List GCall) {g g' : GCtx D L} {rs : List GRes} {f : GFacts}
    (hi : C05.CursorInv g.ctx.editor.shared.com) (h : g.run env bopo cs = .ok (g', rs))
    (hf : GFacts.ofEditor env bopo g'.ctx.editor = .ok f) (hlen : g'.ctx.editor.shared.com.len < 2147483648) :
    ∃ cur len, g'.value env bopo "chewing_cursor_Current" = .ok (.int cur) ∧
      g'.value env bopo "chewing_buffer_Len" = .ok (.int len) ∧ 0 ≤ cur ∧ cur ≤ len :=
  cursor_le_len env bopo hf
    (run_keeps_cursorInv env (strip cs) g.ctx g'.ctx (rcsOf rs) hi (getters_do_not_disturb env bopo cs g g' rs h)) hlen

end Histories

/-- **the documented loop `Enumerate; while hasNext { String }` hands out exactly the strings in the iterator slot**, in
    order, and leaves the slot exhausted (a list is open; fuel above the number of strings) -/
theorem cand_loop_hands_out (f : GFacts) (hsel : f.isSelecting = true) (cs : List Text) :
    ∀ (s : GSlots) (acc : List GVal) (n : Nat), cs.length < n → s.candIter = some cs →
      ∃ s', candLoop f n s acc = .ok (s', acc.reverse ++ cs.map candHeap) ∧ s'.candIter = some [] := by
  induction cs with
  | nil =>
    intro s acc n hn hit
    cases n with
    | zero => simp at hn
    | succ n =>
      refine ⟨s, ?_, hit⟩
      simp [candLoop, getOn, hsel, hit]
  | cons t ts ih =>
    intro s acc n hn hit
    cases n with
    | zero => simp at hn
    | succ n =>
      obtain ⟨s', h1, h2⟩ := ih { s with candIter := some ts } (candHeap t :: acc) n
        (by simp only [List.length_cons] at hn; omega) rfl
      refine ⟨s', ?_, h2⟩
      simp [candLoop, getOn, hsel, hit, h1]

/-- `chewing_cand_Enumerate` + the loop = `paginated_candidates()`: everything from the first item of the current page on
    (`C07.enumerate_is_page`: `all_candidates().drop(page * per_page)`) -/
theorem enumerate_then_loop (f : GFacts) (hsel : f.isSelecting = true) {cs : List Text} (hp : f.paginated = some cs)
    (s : GSlots) (n : Nat) (hn : cs.length < n) :
    ∃ s1 s2, getOn f s .candEnumerate = .ok (s1, .unit) ∧
      candLoop f n s1 [] = .ok (s2, cs.map candHeap) ∧ s2.candIter = some [] := by
  obtain ⟨s2, h1, h2⟩ := cand_loop_hands_out f hsel cs { s with candIter := some cs } [] n hn rfl
  refine ⟨{ s with candIter := some cs }, s2, ?_, by simpa using h1, h2⟩
  simp only [getOn, hp]

/-- **the deprecated `chewing_zuin_Check` is the INVERTED `chewing_bopomofo_Check`** (`x ^ 1` on 0 / 1), and
    `chewing_zuin_String` is `chewing_bopomofo_String` plus the number of characters -/
theorem zuin_is_inverted_bopomofo (f : GFacts) (s : GSlots) :
    ∃ b z, getOn f s (.plain "chewing_bopomofo_Check") = .ok (s, .int b) ∧ getOn f s .zuinCheck = .ok (s, .int z) ∧
      z = 1 - b ∧ (b = 0 ∨ b = 1) ∧
      getOn f s .zuinString = .ok (s, .strCount (heapCstr (utf8Encode f.bopo)) (asCInt f.bopo.length)) ∧
      getOn f s (.plain "chewing_bopomofo_String") = .ok (s, .heap (heapCstr (utf8Encode f.bopo))) := by
  refine ⟨_, _, value_bopomofo_Check f s, rfl, ?_, ?_, rfl, rfl⟩ <;> cases f.enteringSyllable <;> decide

/-- for a NULL context `chewing_zuin_Check` answers -2 (`ERROR ^ 1`), not -1 -/
theorem zuin_check_null : getNull .zuinCheck = .ok (.int (-2)) := by decide

section PhoneSeq
variable {D L : Type} (env : Env D L) (bopo : L → Text)

/-- **`chewing_get_phoneSeqLen` is the length of `chewing_get_phoneSeq`, the number of syllables among the symbols of the
    pre-edit buffer, hence `≤ buffer_Len`** -/
theorem phone_seq_len_le_buffer_len {e : Editor D L} {f : GFacts} (hf : GFacts.ofEditor env bopo e = .ok f) (s : GSlots)
    (hlen : e.shared.com.len < 2147483648) :
    ∃ seq n len, getOn f s .phoneSeq = .ok (s, .ushorts seq) ∧ getOn f s .phoneSeqLen = .ok (s, .int n) ∧
      getOn f s (.plain "chewing_buffer_Len") = .ok (s, .int len) ∧ n = (seq.length : Int) ∧ n ≤ len ∧
      seq = e.shared.com.inner.symbols.filterMap (fun | .syl k => some k | .chr _ => none) := by
  have hseq : f.phoneSeq = e.shared.com.inner.symbols.filterMap (fun | .syl k => some k | .chr _ => none) := by
    unfold GFacts.ofEditor at hf
    split at hf
    · simp only [Outcome.ok.injEq] at hf; subst hf; rfl
    all_goals cases hf
  obtain ⟨_, _, _, _, _, _, _, _, _, hl, _⟩ := ofEditor_ok env bopo hf
  have hle : f.phoneSeq.length ≤ e.shared.com.len := by
    rw [hseq]; exact List.length_filterMap_le _ _
  refine ⟨_, _, _, rfl, rfl, value_buffer_Len f s, asCInt_small _ (by omega), ?_, hseq⟩
  rw [asCInt_small _ (by omega), hl, asCInt_small _ hlen]
  exact Int.ofNat_le.mpr hle

end PhoneSeq

/-! ## 8. NULL context, mode getters -/

/-- a legacy mode getter `chewing_get_<X>` is `chewing_config_get_int` of the option C16's generated table names for it
    (`Config.legacyGet`), read from the editor's options -/
theorem value_mode (f : GFacts) (s : GSlots) (fn : String) :
    getOn f s (.mode fn) = .ok (s, .int (Config.legacyGet fn { Config.init with opts := f.options })) := rfl

/-- on the default options of the editor model: Chinese mode 1, half shape 0, 10 per page, limit 39, the rest 0 -/
theorem mode_getters_default :
    ["chewing_get_ChiEngMode", "chewing_get_ShapeMode", "chewing_get_candPerPage", "chewing_get_maxChiSymbolLen",
     "chewing_get_addPhraseDirection", "chewing_get_spaceAsSelection", "chewing_get_escCleanAllBuf",
     "chewing_get_autoShiftCur", "chewing_get_easySymbolInput", "chewing_get_phraseChoiceRearward",
     "chewing_get_autoLearn"].map (fun fn => Config.legacyGet fn { Config.init with opts := cfgOfOptions {} })
      = [1, 0, 10, 39, 0, 0, 0, 0, 0, 0, 0] := by decide

/-- English mode / full shape answer 0 / 1 -/
theorem mode_getters_switched :
    Config.legacyGet "chewing_get_ChiEngMode"
      { Config.init with opts := cfgOfOptions { languageMode := .english, characterForm := .full } } = 0 ∧
    Config.legacyGet "chewing_get_ShapeMode"
      { Config.init with opts := cfgOfOptions { languageMode := .english, characterForm := .full } } = 1 := by decide


/-- every `int` getter answers -1 for a NULL context — except `cand_list_has_next/prev`, which answer 0; the heap string
    getters hand out an owned "", the static ones the global "" -/
theorem null_answers :
    (∀ fn ∈ ["chewing_buffer_Check", "chewing_buffer_Len", "chewing_cursor_Current", "chewing_bopomofo_Check",
        "chewing_commit_Check", "chewing_aux_Check", "chewing_aux_Length", "chewing_cand_TotalPage",
        "chewing_cand_TotalChoice", "chewing_cand_ChoicePerPage", "chewing_cand_CurrentPage", "chewing_cand_CheckDone",
        "chewing_keystroke_CheckIgnore", "chewing_keystroke_CheckAbsorb"], getNull (.plain fn) = .ok (.int (-1))) ∧
    getNull (.plain "chewing_cand_list_has_next") = .ok (.int 0) ∧
    getNull (.plain "chewing_cand_list_has_prev") = .ok (.int 0) ∧
    (∀ fn ∈ ["chewing_buffer_String", "chewing_bopomofo_String", "chewing_commit_String", "chewing_aux_String"],
      getNull (.plain fn) = .ok (.heap (some [0]))) ∧
    (∀ fn ∈ ["chewing_buffer_String_static", "chewing_bopomofo_String_static", "chewing_commit_String_static",
        "chewing_aux_String_static"], getNull (.plain fn) = .ok .globalEmpty) := by decide

/-! ## 9. non-vacuity -/

/-- facts of an open list: 13 candidates, 4 per page, page 1 of 4 -/
def exFacts : GFacts :=
  { display := [0x6E2C], len := 1, isEmpty := false, cursor := 1, commit := [], notice := [0x52A0, 0x5165], bopo := [],
    enteringSyllable := false, isSelecting := true,
    allCandidates := some ((List.range 13).map fun i => [0x6E2C + i]),
    paginated := some (((List.range 13).map fun i => [0x6E2C + i]).drop 4),
    totalPage := some 4, currentPageNo := some 1, hasNextSel := false, hasPrevSel := false,
    intervals := [(0, 1, true)], last := .absorb, options := { Config.init.opts with candidatesPerPage := 4 } }

example : getOn exFacts {} (.plain "chewing_cand_TotalPage") = .ok ({}, .int 4) := by decide
example : getOn exFacts {} (.plain "chewing_cand_TotalChoice") = .ok ({}, .int 13) := by decide
example : getOn exFacts {} (.plain "chewing_cand_CurrentPage") = .ok ({}, .int 1) := by decide
example : getOn exFacts {} (.plain "chewing_aux_Length") = .ok ({}, .int 2) := by decide
example : (getOn exFacts {} (.plain "chewing_aux_String")).map (·.2.text) = .ok (some [0xE5, 0x8A, 0xA0, 0xE5, 0x85, 0xA5]) := by
  decide
/-- the hypotheses of `static_eq_heap_fits` / `static_prefix` are satisfiable, and a text LONGER than the buffer is cut at a
    character: 6 three-byte characters into the 16-byte phonetic buffer give 5 characters (15 bytes) -/
example : C15.IsText exFacts.display ∧ CStr.utf8Len exFacts.display < 256 := by
  refine ⟨?_, by decide⟩
  intro c hc
  simp only [exFacts, List.mem_singleton] at hc
  subst hc
  exact ⟨by decide, by decide⟩
example : (GVal.static (copyCstr 16 (utf8Encode (List.replicate 6 0x3105)))).text =
    some (utf8Encode (List.replicate 5 0x3105)) := by decide
/-- the enumeration loop on page 1 hands out items 4 … 12 -/
example : (match getOn exFacts {} .candEnumerate with
    | .ok (s, _) => (candLoop exFacts 100 s []).map (fun (r : GSlots × List GVal) => r.2.length)
    | _ => .panic "") = .ok 9 := by decide
/-- `chewing_cand_Enumerate` with no list open keeps a STALE iterator; `chewing_cand_hasNext` hides it (answers 0),
    `chewing_cand_String` would still pop it -/
example : (getOn { exFacts with isSelecting := false, paginated := none } { candIter := some [[65]] } .candEnumerate).map (·.1.candIter)
    = .ok (some [[65]]) := by decide
example : (getOn { exFacts with isSelecting := false } { candIter := some [[65]] } .candHasNext).map (·.2) = .ok (.int 0) := by
  decide

end Chewing.C17CApi
