import Chewing.Props.C05
import Chewing.Proofs.EditorModes
import Chewing.Proofs.FullWidthTable
import Chewing.Proofs.EditorLink
/-!
# C18 — English and full-width modes pass characters through faithfully

Statement (properties.jsonl): *in English mode with half-width form every printable ASCII key yields
exactly that character — committed at once when the buffer is empty, otherwise inserted at the cursor —
and in full-width form each printable ASCII character is replaced by one full-width character, distinct
characters staying distinct.  Caps Lock toggles the language mode, Shift-Space toggles the character
form only while that toggle is enabled, and changing a mode never alters text already in the buffer.*

Theorems, all over the editor state-machine model (`Model/Editor.lean`), for EVERY environment
(dictionary, phonetic layout, engines — English mode never consults them) and every editor value
(hence at every point of every history: `after_any_history`):

* table part (kernel evaluation over the tables regenerated from `src/conversion/symbol.rs`):
  `fullwidth_total`, `fullwidth_not_ascii`, `fullwidth_inj` on the 95 printable characters;
* `AsciiKey` — the events `KeyboardLayout::map_ascii` produces for the 95 characters (a character key,
  no Ctrl / NumLock, Space unshifted); `english_key` — such a key in English mode reaches
  `commitOrInsert` with `charOut form c` (`c` itself / its full-width replacement);
* `eng_key_commits` — empty buffer: the key answers *commit*, the commit buffer is exactly that one
  character, buffer, state and every option untouched (total: no panic);
* `eng_key_inserts` — non-empty buffer: the character is inserted exactly at the cursor, cursor + 1,
  every other symbol in place, nothing committed (total given `cursor ≤ len`, which C05 proves
  invariant); `eng_key_inserts_dispatch` is the same before the auto-commit tail with no assumption on
  the threshold;
* `eng_distinct` — distinct printable characters produce distinct output in either form;
* `capslock_toggles_lang` (all four states), `shiftspace_toggles_form` / `shiftspace_disabled` /
  `shiftspace_other_states`, `options_change_only_by_toggle` (no other key in any state changes any
  option), `toggle_preserves_buffer`, `setOptions_preserves_buffer`.
* Chinese mode, the branches that share the tables: `chinese_shifted_key`, `chinese_shifted_letter`
  (same behaviour as English mode), `chinese_shifted_symbol` (special symbols are inserted into the buffer).
* linked (section at the end): `buffer_bounded_along` — `EditorInv` (C01) + "buffer within the threshold in
  `Entering`" is an invariant of key histories — and the whole-key theorems restated without a premise on the
  buffer length (`capslock_toggles_lang_linked`, `shiftspace_toggles_form_linked`, `eng_key_inserts_linked`).
* the text SHOWN (last section): `SameText` / `SameText.display`, `capslock_dispatch_text`, `capslock_keeps_text`,
  `shiftspace_keeps_text`, `setOptions_keeps_text`, `capslock_keeps_nth` / `shiftspace_keeps_nth` (no premise on the
  length), `toggle_keeps_display_full` (def) + `toggle_keeps_display_refuted` + `toggle_keeps_display_partial`: no mode
  change touches the chosen alternative `nth_conversion`, the engine, the dictionary or the composition, hence not
  what `display()` answers — in every state, for every environment.
* Outside the statement but recorded: `numlock_key_verbatim` (keypad keys ignore the character form),
  `eng_full_unprintable_bell` (F01 as repaired).
-/
namespace Chewing.C18
open Chewing.C05 Chewing.C06

/-! ## The table -/

/-- the 95 printable ASCII code points -/
def Printable (c : Nat) : Prop := 32 ≤ c ∧ c ≤ 126

instance (c : Nat) : Decidable (Printable c) := by unfold Printable; infer_instance

theorem printable_index {c : Nat} (h : Printable c) : c - 32 < 95 ∧ asciiAt (c - 32) = c := by
  unfold Printable at h; unfold asciiAt; omega

/-- every printable character has a full-width replacement … -/
theorem fullwidth_total {c : Nat} (h : Printable c) : ∃ w, fullWidthSymbolInput c = some w := by
  have := allLt_spec fullwidth_total_tab (c - 32) (printable_index h).1
  rw [(printable_index h).2] at this
  split at this
  · next w hw => exact ⟨w, hw⟩
  · cases this

/-- … which is never a printable ASCII character itself (one full-width character, visibly replaced) -/
theorem fullwidth_not_ascii {c w : Nat} (h : Printable c) (hw : fullWidthSymbolInput c = some w) : 126 < w := by
  have := allLt_spec fullwidth_total_tab (c - 32) (printable_index h).1
  rw [(printable_index h).2, hw] at this
  simpa using this

/-- distinct characters stay distinct -/
theorem fullwidth_inj {c d : Nat} (hc : Printable c) (hd : Printable d)
    (h : fullWidthSymbolInput c = fullWidthSymbolInput d) : c = d := by
  have := allLt_spec2 fullwidth_inj_tab (c - 32) (d - 32) (printable_index hc).1 (printable_index hd).1
  rw [(printable_index hc).2, (printable_index hd).2] at this
  simp only [Bool.or_eq_true, beq_iff_eq, bne_iff_ne, ne_eq] at this
  rcases this with h1 | h1
  · unfold Printable at hc hd; omega
  · exact absurd h h1

/-- what a printable character becomes in the given character form -/
def charOut (form : CharForm) (c : Nat) : Nat :=
  match form with
  | .half => c
  | .full => (fullWidthSymbolInput c).getD c

/-- faithful in half-width form, injective in both -/
theorem charOut_half (c : Nat) : charOut .half c = c := rfl

theorem eng_distinct (form : CharForm) {c d : Nat} (hc : Printable c) (hd : Printable d)
    (h : charOut form c = charOut form d) : c = d := by
  cases form with
  | half => exact h
  | full =>
    obtain ⟨w, hw⟩ := fullwidth_total hc
    obtain ⟨v, hv⟩ := fullwidth_total hd
    simp only [charOut, hw, hv, Option.getD_some] at h
    exact fullwidth_inj hc hd (by rw [hw, hv, h])

/-- in full-width form the output is never the typed ASCII character -/
theorem charOut_full_wide {c : Nat} (hc : Printable c) : 126 < charOut .full c := by
  obtain ⟨w, hw⟩ := fullwidth_total hc
  simp only [charOut, hw, Option.getD_some]
  exact fullwidth_not_ascii hc hw

/-! ## The English arm -/

section English
variable {D L : Type} (env : Env D L)

/-- the key events `KeyboardLayout::map_ascii` produces for the 95 printable characters: a character
    key (codes `N1`…`Space`), the character itself as `unicode`, Shift at most (never on Space), no
    Ctrl, no NumLock.  CapsLock as a *modifier* is allowed (it only selects the shifted character). -/
structure AsciiKey (ev : KeyEvent) : Prop where
  code : 1 ≤ ev.code ∧ ev.code ≤ 48
  uni : Printable ev.unicode
  noCtrl : ev.mods.ctrl = false
  noNum : ev.mods.numlock = false
  space : ev.code = KC.space → ev.mods.shift = false

theorem asciiKey_defaultArm {sh : Shared D L} {ev : KeyEvent} (hk : AsciiKey ev)
    (hl : sh.options.languageMode = .english) : DefaultArm sh ev := by
  obtain ⟨⟨h1, h2⟩, _, h3, _, h5⟩ := hk
  refine ⟨?_, ?_, ?_, ?_, ?_⟩
  · simp only [isNamedKey, KC.backspace, KC.tab, KC.del, KC.home, KC.left, KC.right, KC.up, KC.down, KC.end_,
      KC.pageUp, KC.pageDown, KC.enter, KC.esc, Bool.or_eq_false_iff, beq_eq_false_iff_ne, ne_eq]
    omega
  · intro ⟨h, _⟩; simp only [KC.unknown] at h; omega
  · intro ⟨_, h⟩; rw [h3] at h; cases h
  · intro ⟨h, hs, _⟩; rw [h5 h] at hs; cases hs
  · intro ⟨_, _, h⟩; rw [hl] at h; cases h

/-- in English mode a printable key goes to `commitOrInsert` with the character in the current form —
    the dictionary, the phonetic layout and the engines are not consulted -/
theorem english_key {sh : Shared D L} {ev : KeyEvent} (hk : AsciiKey ev)
    (hl : sh.options.languageMode = .english) :
    enteringNext env sh ev = commitOrInsert sh (charOut sh.options.characterForm ev.unicode) := by
  rw [enteringNext_default env (asciiKey_defaultArm hk hl), if_neg (by simp [hk.noNum])]
  unfold enteringDefault
  rw [hl]
  dsimp only
  unfold inputChar
  cases hf : sh.options.characterForm with
  | half => rfl
  | full =>
    obtain ⟨w, hw⟩ := fullwidth_total hk.uni
    simp only [fullOrBell, hw, charOut, Option.getD_some]

/-- the dictionary flush at the end of `process_keyevent` -/
def flushed (sh : Shared D L) : Shared D L :=
  if sh.dirty > 0 then { sh with dict := env.reopenFlush sh.dict, dirty := 0 } else sh

theorem flushed_fields (sh : Shared D L) :
    (flushed env sh).com = sh.com ∧ (flushed env sh).options = sh.options ∧
    (flushed env sh).commitBuf = sh.commitBuf ∧ (flushed env sh).syl = sh.syl ∧ (flushed env sh).last = sh.last := by
  unfold flushed; split <;> exact ⟨rfl, rfl, rfl, rfl, rfl⟩

/-- the tail of `process_keyevent` after a step that did not report *absorb*: nothing but the
    dictionary flush -/
theorem tail_not_absorb (sh : Shared D L) (st : St) (h : sh.last ≠ .absorb) :
    tail env sh st = .ok ({ shared := flushed env sh, state := st }, sh.last) := by
  unfold tail
  have : ((st == .entering || st == .enteringSyllable) && sh.last == .absorb) = false := by
    cases hl : sh.last <;> simp_all
  simp only [this, Bool.false_eq_true, if_false]
  show Outcome.ok (({ shared := flushed env sh, state := st } : Editor D L), (flushed env sh).last) = _
  rw [(flushed_fields env sh).2.2.2.2]

/-- the tail after an absorbed step in `Entering` whose buffer is within the limit: nothing but the
    dictionary flush -/
theorem tail_within (sh : Shared D L) (h : sh.last = .absorb)
    (hlen : sh.com.len ≤ sh.options.autoCommitThreshold) :
    tail env sh .entering = .ok ({ shared := flushed env sh, state := .entering }, .absorb) := by
  unfold tail
  have h1 : (((St.entering : St) == .entering || (St.entering : St) == .enteringSyllable) && sh.last == .absorb) = true := by rw [h]; rfl
  have h2 : Shared.tryAutoCommit env sh = .ok sh := by
    unfold Shared.tryAutoCommit; dsimp only; rw [if_pos hlen]
  simp only [h1, if_true, h2]
  show Outcome.ok (({ shared := flushed env sh, state := .entering } : Editor D L), (flushed env sh).last) = _
  rw [(flushed_fields env sh).2.2.2.2, h]

/-- **English mode, empty buffer**: a printable key is committed at once — the key answers *commit*,
    the commit buffer is exactly the one character (itself in half-width form, its full-width
    replacement in full-width form), the pre-edit buffer, the state and every option are untouched.
    Total: no panic, whatever the environment. -/
theorem eng_key_commits {e : Editor D L} {ev : KeyEvent} (hs : e.state = .entering)
    (hl : e.shared.options.languageMode = .english) (hk : AsciiKey ev) (hem : e.shared.com.isEmpty = true) :
    ∃ e', e.processKey env ev = .ok (e', .commit) ∧
      e'.shared.commitBuf = [charOut e.shared.options.characterForm ev.unicode] ∧
      e'.shared.com = e.shared.com ∧ e'.state = .entering ∧ e'.shared.options = e.shared.options ∧
      e'.shared.syl = e.shared.syl := by
  have hd : dispatch env e ev =
      .ok ({ preamble e.shared with commitBuf := [charOut e.shared.options.characterForm ev.unicode], last := .commit },
           .entering) := by
    rw [dispatch_entering_eq env ev hs, english_key env (sh := preamble e.shared) hk hl]
    unfold commitOrInsert
    rw [if_pos (by exact hem)]
    rfl
  rw [processKey_eq, hd]
  dsimp only
  rw [tail_not_absorb env _ _ (by simp)]
  obtain ⟨h1, h2, h3, h4, _⟩ := flushed_fields env
    { preamble e.shared with commitBuf := [charOut e.shared.options.characterForm ev.unicode], last := .commit }
  exact ⟨_, rfl, h3, h1, rfl, h2, h4⟩

/-- **English mode, non-empty buffer**, the state-machine step (before the auto-commit tail, no
    assumption on the threshold): the character is inserted exactly at the cursor, the cursor ends
    behind it, every other symbol stays in place, the saved cursors and every option are untouched,
    nothing is committed, the key is absorbed -/
theorem eng_key_inserts_dispatch {e : Editor D L} {ev : KeyEvent} {sh : Shared D L} {st : St}
    (hs : e.state = .entering) (hl : e.shared.options.languageMode = .english) (hk : AsciiKey ev)
    (hne : e.shared.com.isEmpty = false) (h : dispatch env e ev = .ok (sh, st)) :
    st = .entering ∧ sh.last = .absorb ∧
    InsertedAt e.shared.com sh.com [.chr (charOut e.shared.options.characterForm ev.unicode)] ∧
    sh.commitBuf = [] ∧ sh.options = e.shared.options ∧ sh.syl = e.shared.syl := by
  rw [dispatch_entering_eq env ev hs, english_key env (sh := preamble e.shared) hk hl] at h
  obtain ⟨⟨sh', t⟩, hr, hx⟩ := map_ok h
  rcases commitOrInsert_spec hr with ⟨he, _, _⟩ | ⟨_, ht, hi, hsh⟩
  · rw [show (preamble e.shared).com = e.shared.com from rfl, hne] at he; cases he
  · subst ht
    simp only [applyTrans] at hx; injection hx with h2 h3; subst h2 h3
    rw [hsh]
    exact ⟨rfl, rfl, insertedAt_one hi, rfl, rfl, rfl⟩

/-- **English mode, non-empty buffer**, the whole key event while the buffer is below the limit: total
    (given `cursor ≤ len`, C05's invariant), answers *absorb*, inserts exactly the one character at the
    cursor, commits nothing, changes no option -/
theorem eng_key_inserts {e : Editor D L} {ev : KeyEvent} (hs : e.state = .entering)
    (hl : e.shared.options.languageMode = .english) (hk : AsciiKey ev) (hne : e.shared.com.isEmpty = false)
    (hi : CursorInv e.shared.com) (hlen : e.shared.com.len < e.shared.options.autoCommitThreshold) :
    ∃ e', e.processKey env ev = .ok (e', .absorb) ∧ e'.state = .entering ∧
      InsertedAt e.shared.com e'.shared.com [.chr (charOut e.shared.options.characterForm ev.unicode)] ∧
      e'.shared.commitBuf = [] ∧ e'.shared.options = e.shared.options := by
  obtain ⟨c, hc⟩ := insert_total (preamble e.shared).com
    (.chr (charOut (preamble e.shared).options.characterForm ev.unicode)) hi
  have hd : dispatch env e ev = .ok ({ preamble e.shared with com := c, last := .absorb }, .entering) := by
    rw [dispatch_entering_eq env ev hs, english_key env (sh := preamble e.shared) hk hl]
    unfold commitOrInsert
    rw [if_neg (by rw [show (preamble e.shared).com = e.shared.com from rfl, hne]; simp)]
    rw [hc]
    rfl
  have hc' : e.shared.com.insert (.chr (charOut e.shared.options.characterForm ev.unicode)) = .ok c := hc
  have hins := insertedAt_one hc'
  have hlen' : c.len ≤ e.shared.options.autoCommitThreshold := by
    have h0 : e.shared.com.symbols.length < e.shared.options.autoCommitThreshold := hlen
    have hcur : e.shared.com.cursor ≤ e.shared.com.symbols.length := hi.2
    have h1 : c.symbols.length = e.shared.com.symbols.length + 1 := by
      rw [hins.1]
      simp only [List.length_append, List.length_take, List.length_drop, List.length_cons, List.length_nil]
      omega
    show c.symbols.length ≤ _
    omega
  rw [processKey_eq, hd]
  dsimp only
  rw [tail_within env { preamble e.shared with com := c, last := .absorb } rfl hlen']
  obtain ⟨h1, h2, h3, _, _⟩ := flushed_fields env { preamble e.shared with com := c, last := .absorb }
  exact ⟨_, rfl, rfl, by rw [h1]; exact hins, h3, h2⟩

/-- F01 as repaired: in full-width form a key WITHOUT a full-width replacement (a non-printable key:
    `unicode` = U+FFFD) is answered with a bell and changes nothing (it used to `unwrap()` a `None`) -/
theorem eng_full_unprintable_bell (sh : Shared D L) (ev : KeyEvent)
    (hf : sh.options.characterForm = .full) (hn : fullWidthSymbolInput ev.unicode = none) :
    inputChar sh ev = .ok (sh, .spin .bell) := by
  unfold inputChar
  rw [hf]
  simp only [fullOrBell, hn]

/-- keypad keys (NumLock modifier) are passed through verbatim in EITHER character form and language
    mode — outside the property statement (which is about the 95 `map_ascii` keys), recorded here so
    that the scope is explicit -/
theorem numlock_key_verbatim {sh : Shared D L} {ev : KeyEvent} (hd : DefaultArm sh ev) (hn : ev.mods.numlock = true) :
    enteringNext env sh ev = commitOrInsert sh ev.unicode := by
  rw [enteringNext_default env hd, if_pos hn]

end English

/-! ## Chinese mode: the branches that share the tables

A key the phonetic layout does not get (here: any shifted character key) falls into
`chineseFallback`: a character with an entry in `SPECIAL_SYMBOLS` is inserted into the buffer as that
symbol (in either character form, never committed directly); any other printable character takes the
same commit-or-insert path as in English mode, in the current character form. -/

section ChineseShared
variable {D L : Type} (env : Env D L)

theorem inputChar_printable (sh : Shared D L) {ev : KeyEvent} (hp : Printable ev.unicode) :
    inputChar sh ev = commitOrInsert sh (charOut sh.options.characterForm ev.unicode) := by
  unfold inputChar
  cases hf : sh.options.characterForm with
  | half => rfl
  | full =>
    obtain ⟨w, hw⟩ := fullwidth_total hp
    simp only [fullOrBell, hw, charOut, Option.getD_some]

/-- a shifted character key in Chinese mode (easy-symbol input off) is not offered to the phonetic
    layout: it goes to `chineseFallback` -/
theorem chinese_shifted_key {sh : Shared D L} {ev : KeyEvent} (hk : AsciiKey ev) (hsh : ev.mods.shift = true)
    (hl : sh.options.languageMode = .chinese) (he : sh.options.easySymbolInput = false) :
    enteringNext env sh ev = chineseFallback sh ev := by
  have hsp : ev.code ≠ KC.space := fun h => by rw [hk.space h] at hsh; cases hsh
  have hd : DefaultArm sh ev := by
    obtain ⟨⟨h1, h2⟩, _, h3, _, _⟩ := hk
    refine ⟨?_, ?_, ?_, ?_, ?_⟩
    · simp only [isNamedKey, KC.backspace, KC.tab, KC.del, KC.home, KC.left, KC.right, KC.up, KC.down, KC.end_,
        KC.pageUp, KC.pageDown, KC.enter, KC.esc, Bool.or_eq_false_iff, beq_eq_false_iff_ne, ne_eq]
      omega
    · intro ⟨h, _⟩; simp only [KC.unknown] at h; omega
    · intro ⟨_, h⟩; rw [h3] at h; cases h
    · intro ⟨h, _⟩; exact hsp h
    · intro ⟨h, _⟩; exact hsp h
  have hnone : ev.mods.isNone = false := by simp [Mods.isNone, hsh]
  rw [enteringNext_default env hd, if_neg (by simp [hk.noNum])]
  unfold enteringDefault
  rw [hl]
  dsimp only
  rw [if_neg (by simp [hnone]), if_neg (by simpa using hsp), if_neg (by simp [he]), if_neg (by simp [hnone])]

/-- **Chinese mode, a shifted letter** (`A`…`Z`): exactly the English-mode behaviour — committed at
    once / inserted at the cursor, verbatim or in its full-width form -/
theorem chinese_shifted_letter {sh : Shared D L} {ev : KeyEvent} (hk : AsciiKey ev) (hsh : ev.mods.shift = true)
    (hl : sh.options.languageMode = .chinese) (he : sh.options.easySymbolInput = false)
    (hu : 65 ≤ ev.unicode ∧ ev.unicode ≤ 90) :
    enteringNext env sh ev = commitOrInsert sh (charOut sh.options.characterForm ev.unicode) := by
  rw [chinese_shifted_key env hk hsh hl he]
  have hp : Printable ev.unicode := hk.uni
  have hs : specialSymbolInput ev.unicode = none := by
    have := allLt_spec special_not_alnum_tab (ev.unicode - 32) (printable_index hp).1
    simp only [(printable_index hp).2] at this
    have h65 : (65 ≤ ev.unicode && ev.unicode ≤ 90) = true := by simp [hu.1, hu.2]
    simp only [h65, Bool.or_true, Bool.true_or, Bool.not_true, Bool.false_or, Option.isNone_iff_eq_none] at this
    exact this
  unfold chineseFallback
  rw [hs]
  dsimp only
  have : ev.isPrintable = true := by
    unfold KeyEvent.isPrintable
    have := hp.2
    simp only [bne_iff_ne, ne_eq]
    omega
  rw [if_pos this]
  exact inputChar_printable sh hp

/-- **Chinese mode, a shifted symbol key** whose character has an entry in `SPECIAL_SYMBOLS` (`!` → `！`,
    `<` → `，`, …): that symbol is inserted into the buffer at the cursor, in EITHER character form;
    nothing is committed directly -/
theorem chinese_shifted_symbol {sh : Shared D L} {ev : KeyEvent} {s : Nat} (hk : AsciiKey ev)
    (hsh : ev.mods.shift = true) (hl : sh.options.languageMode = .chinese) (he : sh.options.easySymbolInput = false)
    (hs : specialSymbolInput ev.unicode = some s) :
    enteringNext env sh ev = withCom sh (sh.com.insert (.chr s)) fun sh => .ok (sh, .spin .absorb) := by
  rw [chinese_shifted_key env hk hsh hl he]
  unfold chineseFallback
  rw [hs]

end ChineseShared

/-! ## Mode toggles -/

section Toggles
variable {D L : Type} (env : Env D L)

def flipLang : LangMode → LangMode
  | .english => .chinese
  | .chinese => .english

def flipForm : CharForm → CharForm
  | .half => .full
  | .full => .half

theorem flipLang_ne (m : LangMode) : flipLang m ≠ m := by cases m <;> simp [flipLang]
theorem flipLang_flip (m : LangMode) : flipLang (flipLang m) = m := by cases m <;> rfl
theorem flipForm_ne (f : CharForm) : flipForm f ≠ f := by cases f <;> simp [flipForm]
theorem flipForm_flip (f : CharForm) : flipForm (flipForm f) = f := by cases f <;> rfl

/-- `switch_language_mode` replaces the one option field -/
theorem switchLanguageMode_options (sh : Shared D L) :
    (Shared.switchLanguageMode sh).options = { sh.options with languageMode := flipLang sh.options.languageMode } := by
  unfold Shared.switchLanguageMode flipLang
  cases sh.options.languageMode <;> rfl

/-- `switch_character_form` replaces the one option field -/
theorem switchCharacterForm_options (sh : Shared D L) :
    (Shared.switchCharacterForm sh).options = { sh.options with characterForm := flipForm sh.options.characterForm } := by
  unfold Shared.switchCharacterForm flipForm
  cases sh.options.characterForm <;> rfl

/-- the CapsLock event as the front ends send it (`chewing_handle_Capslock`: `Unknown` + the capslock
    modifier, nothing else) -/
structure CapsLockKey (ev : KeyEvent) : Prop where
  code : ev.code = KC.unknown
  caps : ev.mods.capslock = true
  noCtrl : ev.mods.ctrl = false
  noShift : ev.mods.shift = false

/-- the Shift-Space event -/
structure ShiftSpaceKey (ev : KeyEvent) : Prop where
  code : ev.code = KC.space
  shift : ev.mods.shift = true

theorem popCursor_inner (c : CompEditor) : c.popCursor.inner = c.inner := by
  unfold CompEditor.popCursor; split <;> rfl

/-- **CapsLock, the state-machine step, in every one of the four states**: total; the editor returns to
    `Entering`, the key is absorbed, the language mode is toggled and NO other option changes; symbols,
    gaps and selections of the pre-edit buffer are exactly as before (in `Entering`, `EnteringSyllable`
    and `Highlighting` the cursor and the saved cursors too; leaving a candidate list restores the
    saved cursor); nothing is committed -/
theorem capslock_dispatch (e : Editor D L) {ev : KeyEvent} (hk : CapsLockKey ev) :
    ∃ sh, dispatch env e ev = .ok (sh, .entering) ∧ sh.last = .absorb ∧
      sh.options = { e.shared.options with languageMode := flipLang e.shared.options.languageMode } ∧
      sh.com.inner = e.shared.com.inner ∧ sh.commitBuf = [] ∧
      ((∀ s, e.state ≠ .selecting s) → sh.com = e.shared.com) := by
  obtain ⟨h1, h2, h3, h4⟩ := hk
  have hopt : (Shared.switchLanguageMode (preamble e.shared)).options =
      { e.shared.options with languageMode := flipLang e.shared.options.languageMode } :=
    switchLanguageMode_options (preamble e.shared)
  unfold dispatch
  cases hs : e.state with
  | entering =>
    dsimp only
    rw [enteringNext_capslock env h1 h2]
    exact ⟨_, rfl, rfl, hopt, rfl, rfl, fun _ => rfl⟩
  | enteringSyllable =>
    dsimp only
    have : enteringSyllableNext env (preamble e.shared) ev =
        .ok (Shared.switchLanguageMode { preamble e.shared with syl := env.clearSyl (preamble e.shared).syl },
             .toState .entering) := by
      unfold enteringSyllableNext
      simp [h1, h2, KC.unknown, KC.backspace]
    rw [this]
    exact ⟨_, rfl, rfl, switchLanguageMode_options _, rfl, rfl, fun _ => rfl⟩
  | selecting s =>
    dsimp only
    have : selectingNext env s (preamble e.shared) ev =
        .ok ⟨Shared.cancelSelecting (Shared.switchLanguageMode (preamble e.shared)), s, .toState .entering⟩ := by
      unfold selectingNext
      simp [h1, h2, h3, h4, KC.unknown, KC.backspace]
    rw [this]
    refine ⟨_, rfl, rfl, hopt, ?_, rfl, fun hn => absurd rfl (hn s)⟩
    exact popCursor_inner _
  | highlighting m =>
    dsimp only
    have : highlightingNext env m (preamble e.shared) ev =
        .ok (Shared.switchLanguageMode (preamble e.shared), m, .toState .entering) := by
      unfold highlightingNext
      simp [h1, h2, KC.unknown]
    rw [this]
    exact ⟨_, rfl, rfl, hopt, rfl, rfl, fun _ => rfl⟩

/-- **Caps Lock toggles the language mode** — the whole key event, in every state, while the buffer is
    within the limit (C05 `bounded_after_key`: it is, after every handled key): total, answers *absorb*,
    toggles the language mode and nothing else among the options, leaves the text in the buffer
    (symbols, gaps, selections) exactly as it was, commits nothing -/
theorem capslock_toggles_lang (e : Editor D L) {ev : KeyEvent} (hk : CapsLockKey ev)
    (hlen : e.shared.com.len ≤ e.shared.options.autoCommitThreshold) :
    ∃ e', e.processKey env ev = .ok (e', .absorb) ∧ e'.state = .entering ∧
      e'.shared.options = { e.shared.options with languageMode := flipLang e.shared.options.languageMode } ∧
      e'.shared.com.inner = e.shared.com.inner ∧ e'.shared.commitBuf = [] ∧
      ((∀ s, e.state ≠ .selecting s) → e'.shared.com = e.shared.com) := by
  obtain ⟨sh, hd, hl, ho, hc, hb, hsame⟩ := capslock_dispatch env e hk
  rw [processKey_eq, hd]
  dsimp only
  have hlen' : sh.com.len ≤ sh.options.autoCommitThreshold := by
    show sh.com.inner.len ≤ _
    rw [hc, ho]
    exact hlen
  rw [tail_within env sh hl hlen']
  obtain ⟨h1, h2, h3, _, _⟩ := flushed_fields env sh
  exact ⟨_, rfl, rfl, by rw [h2, ho], by rw [h1, hc], by rw [h3, hb], fun hn => by rw [h1]; exact hsame hn⟩

/-- **Shift-Space toggles the character form while the toggle key is enabled** (`Entering`): total,
    answers *absorb*, toggles the form and nothing else, buffer and cursor exactly as before -/
theorem shiftspace_toggles_form {e : Editor D L} {ev : KeyEvent} (hs : e.state = .entering) (hk : ShiftSpaceKey ev)
    (ht : e.shared.options.enableFullwidthToggleKey = true)
    (hlen : e.shared.com.len ≤ e.shared.options.autoCommitThreshold) :
    ∃ e', e.processKey env ev = .ok (e', .absorb) ∧ e'.state = .entering ∧
      e'.shared.options = { e.shared.options with characterForm := flipForm e.shared.options.characterForm } ∧
      e'.shared.com = e.shared.com ∧ e'.shared.commitBuf = [] := by
  have hd : dispatch env e ev = .ok ({ Shared.switchCharacterForm (preamble e.shared) with last := .absorb }, .entering) := by
    rw [dispatch_entering_eq env ev hs, enteringNext_shiftSpace env (sh := preamble e.shared) hk.code hk.shift ht]
    rfl
  rw [processKey_eq, hd]
  dsimp only
  have ho : (Shared.switchCharacterForm (preamble e.shared)).options =
      { e.shared.options with characterForm := flipForm e.shared.options.characterForm } :=
    switchCharacterForm_options (preamble e.shared)
  have hlen' : ({ Shared.switchCharacterForm (preamble e.shared) with last := .absorb } : Shared D L).com.len ≤
      ({ Shared.switchCharacterForm (preamble e.shared) with last := .absorb } : Shared D L).options.autoCommitThreshold := by
    show e.shared.com.len ≤ (Shared.switchCharacterForm (preamble e.shared)).options.autoCommitThreshold
    rw [ho]; exact hlen
  rw [tail_within env _ rfl hlen']
  obtain ⟨h1, h2, h3, _, _⟩ := flushed_fields env { Shared.switchCharacterForm (preamble e.shared) with last := .absorb }
  exact ⟨_, rfl, rfl, by rw [h2]; exact ho, by rw [h1]; rfl, by rw [h3]; rfl⟩

theorem applyTrans_options (sh : Shared D L) (st : St) (t : Trans) : (applyTrans sh st t).1.options = sh.options := by
  cases t <;> rfl

/-- **no key in any state changes any option except through the two toggles**: after a key event the
    14 options are exactly as before, or the event was CapsLock and exactly the language mode was
    toggled, or the state was `Entering`, the event Shift-Space, the toggle key enabled, and exactly the
    character form was toggled.  (Typing, selecting, committing, auto-commit, learning: no effect.) -/
theorem options_change_only_by_toggle {e e' : Editor D L} {ev : KeyEvent} {b : KB}
    (h : e.processKey env ev = .ok (e', b)) :
    e'.shared.options = e.shared.options ∨
    (ev.code = KC.unknown ∧ ev.mods.capslock = true ∧
      e'.shared.options = { e.shared.options with languageMode := flipLang e.shared.options.languageMode }) ∨
    (e.state = .entering ∧ ev.code = KC.space ∧ ev.mods.shift = true ∧
      e.shared.options.enableFullwidthToggleKey = true ∧
      e'.shared.options = { e.shared.options with characterForm := flipForm e.shared.options.characterForm }) := by
  obtain ⟨sh, st, hd, h2⟩ := processKey_split env h
  obtain ⟨sh2, h1, _, hopt, _⟩ := tail_com env h2
  have ho2 : sh2.options = sh.options := by
    split at h1
    · exact (tryAutoCommit_options env sh).elim h1
    · cases h1; rfl
  rw [hopt, ho2]
  have hl := switchLanguageMode_options (preamble e.shared)
  have hf := switchCharacterForm_options (preamble e.shared)
  have hp : (preamble e.shared).options = e.shared.options := rfl
  unfold dispatch at hd
  split at hd
  · next hs =>
    obtain ⟨⟨sh', t⟩, hr, hx⟩ := map_ok hd
    have ho : sh.options = sh'.options := by
      have h9 : (applyTrans sh' .entering t).1 = sh := congrArg Prod.fst hx
      rw [← h9, applyTrans_options]
    rcases enteringNext_options env (preamble e.shared) ev sh' t hr with h0 | ⟨hc, h0⟩ | ⟨hc, h0⟩
    · left; rw [ho, h0]; rfl
    · right; left; exact ⟨hc.1, hc.2, by rw [ho, h0, hl]; rfl⟩
    · right; right; exact ⟨hs, hc.1, hc.2.1, hc.2.2, by rw [ho, h0, hf]; rfl⟩
  · obtain ⟨⟨sh', t⟩, hr, hx⟩ := map_ok hd
    have ho : sh.options = sh'.options := by
      have h9 : (applyTrans sh' .enteringSyllable t).1 = sh := congrArg Prod.fst hx
      rw [← h9, applyTrans_options]
    rcases enteringSyllableNext_options env (preamble e.shared) ev sh' t hr with h0 | ⟨hc, h0⟩ | ⟨hc, _⟩
    · left; rw [ho, h0]; rfl
    · right; left; exact ⟨hc.1, hc.2, by rw [ho, h0, hl]; rfl⟩
    · exact absurd hc id
  · rename_i s _
    obtain ⟨x, hr, hx⟩ := map_ok hd
    have ho : sh.options = x.shared.options := by
      have h9 : (applyTrans x.shared (.selecting x.sel) x.trans).1 = sh := congrArg Prod.fst hx
      rw [← h9, applyTrans_options]
    rcases selectingNext_options env s (preamble e.shared) ev x hr with h0 | ⟨hc, h0⟩
    · left; rw [ho, h0]; rfl
    · right; left; exact ⟨hc.1, hc.2.1, by rw [ho, h0, hl]; rfl⟩
  · rename_i m _
    obtain ⟨⟨sh', m', t⟩, hr, hx⟩ := map_ok hd
    have ho : sh.options = sh'.options := by
      have h9 : (applyTrans sh' (.highlighting m') t).1 = sh := congrArg Prod.fst hx
      rw [← h9, applyTrans_options]
    rcases highlightingNext_options env m (preamble e.shared) ev (sh', m', t) hr with h0 | ⟨hc, h0⟩
    · left; rw [ho, h0]; rfl
    · right; left; exact ⟨hc.1, hc.2, by rw [ho, h0, hl]; rfl⟩

/-- **Shift-Space toggles the form ONLY while the toggle is enabled**: with the toggle key disabled a
    Shift-Space event leaves every option as it was, in every state -/
theorem shiftspace_disabled {e e' : Editor D L} {ev : KeyEvent} {b : KB} (hk : ShiftSpaceKey ev)
    (ht : e.shared.options.enableFullwidthToggleKey = false)
    (h : e.processKey env ev = .ok (e', b)) : e'.shared.options = e.shared.options := by
  rcases options_change_only_by_toggle env h with h0 | ⟨hc, _⟩ | ⟨_, _, _, hc, _⟩
  · exact h0
  · rw [hk.code] at hc; cases hc
  · rw [ht] at hc; cases hc

/-- outside `Entering` (phonetic keys pending, candidate list open, highlighting) NO key changes the
    character form -/
theorem form_fixed_outside_entering {e e' : Editor D L} {ev : KeyEvent} {b : KB} (hs : e.state ≠ .entering)
    (h : e.processKey env ev = .ok (e', b)) :
    e'.shared.options.characterForm = e.shared.options.characterForm := by
  rcases options_change_only_by_toggle env h with h0 | ⟨_, _, h0⟩ | ⟨hc, _⟩
  · rw [h0]
  · rw [h0]
  · exact absurd hc hs

/-- no key except the CapsLock event changes the language mode -/
theorem lang_fixed_unless_capslock {e e' : Editor D L} {ev : KeyEvent} {b : KB}
    (hk : ¬ (ev.code = KC.unknown ∧ ev.mods.capslock = true))
    (h : e.processKey env ev = .ok (e', b)) :
    e'.shared.options.languageMode = e.shared.options.languageMode := by
  rcases options_change_only_by_toggle env h with h0 | ⟨h1, h2, _⟩ | ⟨_, _, _, _, h0⟩
  · rw [h0]
  · exact absurd ⟨h1, h2⟩ hk
  · rw [h0]

/-- **changing a mode through the configuration interface never alters the buffer**
    (`set_editor_options`: `chewing_set_ChiEngMode`, `chewing_set_ShapeMode`, `chewing_config_set_int`):
    pre-edit buffer, cursor, saved cursors and commit buffer are untouched, whatever the new options -/
theorem setOptions_preserves_buffer (e : Editor D L) (o : Options) :
    (e.setOptions env o).shared.com = e.shared.com ∧ (e.setOptions env o).shared.commitBuf = e.shared.commitBuf ∧
    (e.setOptions env o).shared.options = o := by
  unfold Editor.setOptions
  rw [leaveIfEmpty_shared]
  dsimp only
  split <;> exact ⟨rfl, rfl, rfl⟩

/-- **mode toggles at every point of a history**: the toggle theorems above quantify over every editor
    value, in particular over the editor reached by ANY history from ANY start; spelled out for
    CapsLock (the invariant `cursor ≤ len` of C05 holds there too) -/
theorem capslock_after_any_history (ops : List (Op L)) (e0 e : Editor D L) {ev : KeyEvent}
    (hi : CursorInv e0.shared.com) (hrun : e0.run env ops = .ok e) (hk : CapsLockKey ev)
    (hlen : e.shared.com.len ≤ e.shared.options.autoCommitThreshold) :
    CursorInv e.shared.com ∧
    ∃ e', e.processKey env ev = .ok (e', .absorb) ∧ e'.state = .entering ∧
      e'.shared.options = { e.shared.options with languageMode := flipLang e.shared.options.languageMode } ∧
      e'.shared.com.inner = e.shared.com.inner := by
  refine ⟨cursor_le_len_editor env ops e0 e hi hrun, ?_⟩
  obtain ⟨e', h1, h2, h3, h4, _⟩ := capslock_toggles_lang env e hk hlen
  exact ⟨e', h1, h2, h3, h4⟩

end Toggles

/-! ## Non-vacuity: the theorems speak about real runs of the model -/

section Examples
open Chewing.C06

def capsEv : KeyEvent := { index := 0, code := KC.unknown, unicode := 65533, mods := { capslock := true } }
def keyA : KeyEvent := { index := 27, code := 27, unicode := 97 }
def keyBang : KeyEvent := { index := 1, code := 1, unicode := 33, mods := { shift := true } }
def shiftSpace : KeyEvent := { index := 48, code := KC.space, unicode := 32, mods := { shift := true } }

example : CapsLockKey capsEv := ⟨rfl, rfl, rfl, rfl⟩
example : AsciiKey keyA := ⟨by decide, by decide, rfl, rfl, by decide⟩
example : AsciiKey keyBang := ⟨by decide, by decide, rfl, rfl, by decide⟩
example : ShiftSpaceKey shiftSpace := ⟨rfl, rfl⟩
example : charOut .full 97 = 65345 ∧ charOut .full 33 = 65281 ∧ charOut .full 32 = 12288 ∧ charOut .half 97 = 97 := by
  decide

/-- CapsLock, then `a` in English mode on the toy environment of C06: `a` is committed verbatim -/
example : (toyEditor.run toyEnv [.key capsEv, .key keyA]).map (fun e => (e.shared.commitBuf, e.shared.options.languageMode))
    = .ok ([97], .english) := by decide

/-- … and after Shift-Space in its full-width form `ａ` -/
example : (toyEditor.run toyEnv [.key capsEv, .key shiftSpace, .key keyA]).map (fun e => e.shared.commitBuf)
    = .ok [65345] := by decide

end Examples

/-! ## linked (round 2): "buffer within the threshold" is an invariant of key histories

`capslock_toggles_lang`, `shiftspace_toggles_form` and `eng_key_inserts` assume that the buffer is within
`auto_commit_threshold`; C05's `bounded_after_key` proves the bound after a key under the hypothesis that the
conversion tiles the buffer (C03), which needs a valid composition (C04) and a word for every buffered
syllable — C01's reachable-state invariant `EditorInv`.  Here the chain is closed
(`Proofs/EditorLink.lean`): for every environment satisfying C01's `EnvOK`, `EditorInv` together with
`Bounded` (in state `Entering` the buffer is within the threshold) is an invariant of every key history
(`buffer_bounded_along`), and the three whole-key theorems are restated from it.  In the other states the
bound can be exceeded until the state returns to `Entering` (a syllable typed under the simple engine opens
its candidate list first; fuzzy input inserts while phonetic keys are pending): every transition into
`Entering` is answered *absorb* and runs the auto-commit. -/

section Linked
variable {D L : Type} {env : Env D L} {G : D → Prop} {w : Prop}

/-- in state `Entering` the buffer is within `auto_commit_threshold` -/
def Bounded (e : Editor D L) : Prop :=
  e.state = .entering → e.shared.com.len ≤ e.shared.options.autoCommitThreshold

/-- **C05's bound without the tiling premise** (`C05.bounded_after_key` / `bounded_after_absorb` /
    `bounded_after_key_syllable` in one): for every environment satisfying C01's `EnvOK`, from every state
    satisfying C01's invariant, in any of the four states, a key answered *absorb* or *commit* that ends in
    `Entering` leaves the buffer within the threshold -/
theorem bounded_after_key_linked (hE : C01.EnvOK env G) {e e' : Editor D L} (hi : C01.EditorInv env G w e)
    {ev : KeyEvent} {b : KB} (h : e.processKey env ev = .ok (e', b)) (he : e'.state = .entering)
    (hb : b = .absorb ∨ b = .commit) : e'.shared.com.len ≤ e'.shared.options.autoCommitThreshold :=
  Link.bounded_after_key_linked hE hi h he hb

/-- **C05's `tryAutoCommit_total` without the tiling premise**: at every shared state satisfying C01's invariant
    the auto-commit returns (no underflow, no over-removal, no panic of the engine) and re-establishes the bound -/
theorem tryAutoCommit_total_linked (hE : C01.EnvOK env G) {sh : Shared D L} (h : C01.ShInv env G w sh) :
    ∃ sh2, Shared.tryAutoCommit env sh = .ok sh2 ∧ sh2.com.len ≤ sh2.options.autoCommitThreshold :=
  Link.tryAutoCommit_total_linked hE h

/-- no key changes `auto_commit_threshold` (only the two mode toggles change an option at all) -/
theorem threshold_kept {e e' : Editor D L} {ev : KeyEvent} {b : KB} (h : e.processKey env ev = .ok (e', b)) :
    e'.shared.options.autoCommitThreshold = e.shared.options.autoCommitThreshold := by
  rcases options_change_only_by_toggle env h with h | ⟨_, _, h⟩ | ⟨_, _, _, _, h⟩ <;> rw [h]

/-- **one key keeps the bound**: every result — *absorb* / *commit* (auto-commit or emptied buffer),
    *ignore* (nothing changed), *bell* (buffer and threshold unchanged, handled in `Entering`) -/
theorem bounded_step (hE : C01.EnvOK env G) {e e' : Editor D L} (hi : C01.EditorInv env G w e) (hB : Bounded e)
    {ev : KeyEvent} {b : KB} (h : e.processKey env ev = .ok (e', b)) : Bounded e' := by
  intro he
  cases b with
  | absorb => exact Link.bounded_after_key_linked hE hi h he (Or.inl rfl)
  | commit => exact Link.bounded_after_key_linked hE hi h he (Or.inr rfl)
  | ignore =>
    obtain ⟨hst, hcom, _, hopt, _⟩ := ignore_persistent env h
    rw [hcom, hopt]
    exact hB (hst ▸ he)
  | bell =>
    have hcom := bell_frame env h
    have hthr := threshold_kept h
    obtain ⟨sh, st, hd, h2⟩ := processKey_split env h
    obtain ⟨hl, hst, _⟩ := tail_keeps env h2 (Or.inr rfl)
    have hs : e.state = .entering := Link.entering_of_not_absorb hd (hst.symm.trans he) (by rw [hl]; decide)
    rw [hcom, hthr]
    exact hB hs

/-- **`len ≤ auto_commit_threshold` (in `Entering`) is an invariant of key histories**, together with C01's
    invariant: every key history runs to the end (no panic, no exhausted fuel) and ends in a state
    satisfying both -/
theorem buffer_bounded_along (hE : C01.EnvOK env G) (keys : List KeyEvent) :
    ∀ e : Editor D L, C01.EditorInv env G w e → Bounded e →
      ∃ e', e.run env (keys.map .key) = .ok e' ∧ C01.EditorInv env G w e' ∧ Bounded e' := by
  induction keys with
  | nil => intro e hi hB; exact ⟨e, rfl, hi, hB⟩
  | cons ev keys ih =>
    intro e hi hB
    obtain ⟨e1, h1, hi1⟩ := C01.apply_ok hE hi (.key ev) trivial (fun _ h => h)
    have h1' : (e.processKey env ev).map (·.1) = .ok e1 := h1
    obtain ⟨⟨e1', b⟩, hp, hx⟩ := map_ok h1'
    have hx : e1' = e1 := hx
    subst hx
    obtain ⟨e2, h2, hi2, hB2⟩ := ih e1' hi1 (bounded_step hE hi hB hp)
    exact ⟨e2, by simp only [List.map_cons, Editor.run]; rw [h1]; exact h2, hi2, hB2⟩

/-- … in particular from the fresh editor (empty pre-edit) -/
theorem buffer_bounded_fresh (hE : C01.EnvOK env G) (sh : Shared D L) (hg : G sh.dict) (hcom : sh.com = {})
    (hcp : w → sh.options.lookupStrategy = .fuzzyPartialPrefix → C01.engStrategy sh.engine = .fuzzyPartialPrefix)
    (hpp : 0 < sh.options.candidatesPerPage) (hsym : C01.SymWF sh.symSel) (keys : List KeyEvent) :
    ∃ e', ({ shared := sh, state := .entering } : Editor D L).run env (keys.map .key) = .ok e' ∧
      C01.EditorInv env G w e' ∧ Bounded e' :=
  buffer_bounded_along hE keys _ (C01.initial_inv sh hg hcom hcp hpp hsym)
    (fun _ => by show sh.com.len ≤ _; rw [hcom]; exact Nat.zero_le _)

/-- **Caps Lock, restated**: at every state reached in `Entering` along a key history (invariant + bound)
    the whole key event toggles the language mode and nothing else — no premise on the buffer length -/
theorem capslock_toggles_lang_linked {e : Editor D L} (hB : Bounded e) (hs : e.state = .entering) {ev : KeyEvent}
    (hk : CapsLockKey ev) :
    ∃ e', e.processKey env ev = .ok (e', .absorb) ∧ e'.state = .entering ∧
      e'.shared.options = { e.shared.options with languageMode := flipLang e.shared.options.languageMode } ∧
      e'.shared.com = e.shared.com ∧ e'.shared.commitBuf = [] := by
  obtain ⟨e', h1, h2, h3, _, h5, h6⟩ := capslock_toggles_lang env e hk (hB hs)
  exact ⟨e', h1, h2, h3, h6 (fun s hh => by rw [hs] at hh; cases hh), h5⟩

/-- **Shift-Space, restated** -/
theorem shiftspace_toggles_form_linked {e : Editor D L} (hB : Bounded e) (hs : e.state = .entering) {ev : KeyEvent}
    (hk : ShiftSpaceKey ev) (ht : e.shared.options.enableFullwidthToggleKey = true) :
    ∃ e', e.processKey env ev = .ok (e', .absorb) ∧ e'.state = .entering ∧
      e'.shared.options = { e.shared.options with characterForm := flipForm e.shared.options.characterForm } ∧
      e'.shared.com = e.shared.com ∧ e'.shared.commitBuf = [] :=
  shiftspace_toggles_form env hs hk ht (hB hs)

/-- **English mode, non-empty buffer, restated** for states satisfying the invariants: the key is total; its
    state-machine part inserts exactly the one character at the cursor; below the threshold that is all
    (*absorb*, nothing committed); AT the threshold the buffer overflows by one and the auto-commit pushes a
    non-empty leading part out (*commit*), the rest — with the new character — stays in order and fits -/
theorem eng_key_inserts_linked (hE : C01.EnvOK env G) {e : Editor D L} (hi : C01.EditorInv env G w e) (hB : Bounded e)
    {ev : KeyEvent} (hs : e.state = .entering) (hl : e.shared.options.languageMode = .english) (hk : AsciiKey ev)
    (hne : e.shared.com.isEmpty = false) :
    ∃ e' b, e.processKey env ev = .ok (e', b) ∧ e'.state = .entering ∧ e'.shared.options = e.shared.options ∧
      e'.shared.com.len ≤ e'.shared.options.autoCommitThreshold ∧
      ((e.shared.com.len < e.shared.options.autoCommitThreshold ∧ b = .absorb ∧ e'.shared.commitBuf = [] ∧
        InsertedAt e.shared.com e'.shared.com [.chr (charOut e.shared.options.characterForm ev.unicode)]) ∨
       (e.shared.com.len = e.shared.options.autoCommitThreshold ∧ b = .commit ∧
        ∃ sh n, dispatch env e ev = .ok (sh, .entering) ∧
          InsertedAt e.shared.com sh.com [.chr (charOut e.shared.options.characterForm ev.unicode)] ∧ 0 < n ∧
          e'.shared.com.symbols = sh.com.symbols.drop n ∧ e'.shared.com.cursor = sh.com.cursor - n)) := by
  have hcur : CursorInv e.shared.com := hi.sh.ced.cursorInv
  rcases Nat.lt_or_ge e.shared.com.len e.shared.options.autoCommitThreshold with hlt | hge
  · obtain ⟨e', h1, h2, h3, h4, h5⟩ := eng_key_inserts env hs hl hk hne hcur hlt
    refine ⟨e', .absorb, h1, h2, h5, ?_, Or.inl ⟨hlt, rfl, h4, h3⟩⟩
    exact Link.bounded_after_key_linked hE hi h1 h2 (Or.inl rfl)
  · have heq : e.shared.com.len = e.shared.options.autoCommitThreshold := Nat.le_antisymm (hB hs) hge
    obtain ⟨e1, h1, _⟩ := C01.apply_ok hE hi (.key ev) trivial (fun _ h => h)
    have h1' : (e.processKey env ev).map (·.1) = .ok e1 := h1
    obtain ⟨⟨e', b⟩, hp, _⟩ := map_ok h1'
    obtain ⟨sh, st, hd, h2⟩ := processKey_split env hp
    obtain ⟨hst, hlast, hins, _, hopt, _⟩ := eng_key_inserts_dispatch env hs hl hk hne hd
    subst hst
    obtain ⟨hst', hbl, _⟩ := tail_spec env h2
    obtain ⟨sh2, hac, hcom, hopt2, _, hlast2, _⟩ := tail_com env h2
    have hcond : (((St.entering : St) == .entering || (St.entering : St) == .enteringSyllable) && sh.last == .absorb) = true := by rw [hlast]; rfl
    rw [if_pos hcond] at hac
    have htl := Link.tilingAt_of_shInv hE (Link.dispatch_shInv hE hi ev hd)
    obtain ⟨hbd, ho2, n, hsym, hcr⟩ := tryAutoCommit_bound_at env htl hac
    have hlen1 : sh.com.symbols.length = e.shared.com.symbols.length + 1 := by
      rw [hins.1]
      have hc := hcur.2
      simp only [List.length_append, List.length_take, List.length_drop, List.length_cons, List.length_nil]
      have : e.shared.com.cursor ≤ e.shared.com.symbols.length := hc
      omega
    have hlen2 : sh2.com.symbols.length = sh.com.symbols.length - n := by rw [hsym, List.length_drop]
    have hbd' : sh2.com.symbols.length ≤ sh.options.autoCommitThreshold := by rw [← ho2]; exact hbd
    have heq' : e.shared.com.symbols.length = e.shared.options.autoCommitThreshold := heq
    have hnpos : 0 < n := by rw [hopt] at hbd'; omega
    have hb : b = .commit := by
      rw [hbl, hlast2]
      rcases tryAutoCommit_last env hac with hsame | hc
      · exfalso; rw [hsame] at hlen2; omega
      · exact hc
    refine ⟨e', b, hp, hst', by rw [hopt2, ho2, hopt], by rw [hcom, hopt2]; exact hbd,
      Or.inr ⟨heq, hb, sh, n, hd, hins, hnpos, by rw [hcom]; exact hsym, by rw [hcom]; exact hcr⟩⟩

/-! ### non-vacuity: C01's toy environment satisfies `EnvOK`; its fresh editor satisfies both invariants -/

example (keys : List KeyEvent) : ∃ e', (C01.stdEditor [3]).run C01.toyEnv (keys.map .key) = .ok e' ∧
    C01.EditorInv C01.toyEnv (fun _ => True) False e' ∧ Bounded e' :=
  buffer_bounded_along C01.toyEnv_ok keys _ (C01.stdEditor_inv [3]) (fun _ => by decide)

/-- the overflow case of `eng_key_inserts_linked` happens: threshold 1, buffer `[3]` in English mode, key `a` -/
example : ∃ e e', ({ shared := { syl := 0, dict := [3], options := { autoCommitThreshold := 1 } } } : Editor (List Nat) Nat).run
      C01.toyEnv [.key C01.keyJ, .key C01.keyJ, .key capsEv] = .ok e ∧ e.state = .entering ∧
    e.shared.options.languageMode = .english ∧ e.shared.com.len = 1 ∧
    e.processKey C01.toyEnv keyA = .ok (e', .commit) ∧ e'.shared.commitBuf = [3] ∧ e'.shared.com.symbols = [.chr 97] := by
  refine ⟨_, _, rfl, ?_, ?_, ?_, rfl, ?_, ?_⟩ <;> decide

end Linked

/-! ## Changing a mode never alters the text SHOWN (round 2)

`toggle_preserves_buffer`-style statements above speak about symbols, gaps and selections.  What the user sees is
`display()`: the reading of the alternative chosen with Tab (`nth_conversion`) among those the engine offers for the
composition.  A mode change that reset `nth_conversion` would keep every symbol and still revert the text shown (and
the text committed next) to the default segmentation.  This section states, for every environment, every editor value
and every mode change — the CapsLock event in each of the four states, the effective Shift-Space event, the
configuration call with any new options — that `nth`, the engine, the dictionary and the composition are untouched, hence
the model's `Shared.display` / `Shared.conversion` (any function of those four) answer the same.  What may change
besides the option: the pending phonetic keys (dropped by CapsLock in `EnteringSyllable` and by a language change
through the setter), an open candidate list (closed by CapsLock, by the setter only if it has no candidates; the saved
cursor returns), the state (`Entering` after a key toggle), the dictionary handle (flushed at the end of a key if an
update was pending).  The FULL statement (`toggle_keeps_display_full`: nothing in the buffer moves, at every editor
value) is refuted on exactly one class — a KEY toggle pressed while the buffer is over `auto_commit_threshold`
(`overEditor`: reachable by lowering the limit; outside `Entering` also by typing): the key's auto-commit pushes the
leading part out; `nth` is untouched even then (`capslock_keeps_nth`, `shiftspace_keeps_nth`). -/

section ToggleText
variable {D L : Type} (env : Env D L)

/-- the conversion engine answers the same before and after the dictionary flush that ends a key event
    (`reopen` + `flush` write pending user phrases out; they do not change what a look-up finds) -/
def FlushKeepsConvert : Prop := ∀ k d c, env.convert k (env.reopenFlush d) c = env.convert k d c

/-- **what `display()` is computed from is as before**: the composition (symbols, gaps, selections), the chosen
    alternative `nth_conversion`, the engine, the dictionary (at most flushed, and only if an update was
    pending); cursor and saved cursors too, except that closing a candidate list returns to the saved cursor -/
structure SameText (e e' : Editor D L) : Prop where
  inner : e'.shared.com.inner = e.shared.com.inner
  nth : e'.shared.nth = e.shared.nth
  engine : e'.shared.engine = e.shared.engine
  dict : e'.shared.dict = e.shared.dict ∨ (0 < e.shared.dirty ∧ e'.shared.dict = env.reopenFlush e.shared.dict)
  cursor : e'.shared.com = e.shared.com ∨ ((∃ s, e.state = .selecting s) ∧ e'.shared.com = e.shared.com.popCursor)

/-- … hence the STRING shown is as before — for ANY function of (engine, dictionary, composition, nth), in
    particular the model's `Shared.display` (= `Editor::display`) and `Shared.conversion` (= `intervals()`) -/
theorem SameText.display {e e' : Editor D L} (h : SameText env e e')
    (hf : e.shared.dirty = 0 ∨ FlushKeepsConvert env) :
    Shared.display env e'.shared = Shared.display env e.shared ∧
    Shared.conversion env e'.shared = Shared.conversion env e.shared := by
  have hc : Shared.conversion env e'.shared = Shared.conversion env e.shared := by
    unfold Shared.conversion
    rw [h.engine, h.inner, h.nth]
    rcases h.dict with hd | ⟨hpos, hd⟩
    · rw [hd]
    · rcases hf with h0 | hf
      · omega
      · rw [hd, hf]
  exact ⟨by unfold Shared.display; rw [hc], hc⟩

theorem flushed_text (sh : Shared D L) :
    (flushed env sh).nth = sh.nth ∧ (flushed env sh).engine = sh.engine ∧
    ((flushed env sh).dict = sh.dict ∨ (0 < sh.dirty ∧ (flushed env sh).dict = env.reopenFlush sh.dict)) := by
  unfold flushed
  split
  · rename_i h; exact ⟨rfl, rfl, .inr ⟨h, rfl⟩⟩
  · exact ⟨rfl, rfl, .inl rfl⟩

/-- the auto-commit does not touch the chosen alternative, the engine, the dictionary -/
theorem tryAutoCommit_text (sh : Shared D L) :
    OutAll (fun x => x.nth = sh.nth ∧ x.engine = sh.engine ∧ x.dict = sh.dict ∧ x.dirty = sh.dirty)
      (Shared.tryAutoCommit env sh) := by
  unfold Shared.tryAutoCommit
  dsimp only
  repeat' split
  all_goals first
    | trivial
    | exact ⟨rfl, rfl, rfl, rfl⟩

/-- **CapsLock, the state-machine step, every state, every environment, no premise**: besides toggling the
    language mode (`capslock_dispatch`) it leaves the chosen alternative, the engine, the dictionary and the
    composition exactly as they were; the buffer with its cursors is untouched, except that a candidate list is
    left as by Esc (the saved cursor returns) -/
theorem capslock_dispatch_text (e : Editor D L) {ev : KeyEvent} (hk : CapsLockKey ev) :
    ∃ sh, dispatch env e ev = .ok (sh, .entering) ∧ sh.last = .absorb ∧ sh.nth = e.shared.nth ∧
      sh.engine = e.shared.engine ∧ sh.dict = e.shared.dict ∧ sh.dirty = e.shared.dirty ∧
      sh.com.inner = e.shared.com.inner ∧ sh.commitBuf = [] ∧
      sh.options = { e.shared.options with languageMode := flipLang e.shared.options.languageMode } ∧
      ((∀ s, e.state ≠ .selecting s) → sh.com = e.shared.com) ∧
      ((∃ s, e.state = .selecting s) → sh.com = e.shared.com.popCursor) := by
  obtain ⟨h1, h2, h3, h4⟩ := hk
  have hopt : (Shared.switchLanguageMode (preamble e.shared)).options =
      { e.shared.options with languageMode := flipLang e.shared.options.languageMode } :=
    switchLanguageMode_options (preamble e.shared)
  unfold dispatch
  cases hs : e.state with
  | entering =>
    dsimp only
    rw [enteringNext_capslock env h1 h2]
    exact ⟨_, rfl, rfl, rfl, rfl, rfl, rfl, rfl, rfl, hopt, fun _ => rfl, fun ⟨s, h⟩ => by cases h⟩
  | enteringSyllable =>
    dsimp only
    have : enteringSyllableNext env (preamble e.shared) ev =
        .ok (Shared.switchLanguageMode { preamble e.shared with syl := env.clearSyl (preamble e.shared).syl },
             .toState .entering) := by
      unfold enteringSyllableNext
      simp [h1, h2, KC.unknown, KC.backspace]
    rw [this]
    exact ⟨_, rfl, rfl, rfl, rfl, rfl, rfl, rfl, rfl, switchLanguageMode_options _, fun _ => rfl, fun ⟨s, h⟩ => by cases h⟩
  | selecting s =>
    dsimp only
    have : selectingNext env s (preamble e.shared) ev =
        .ok ⟨Shared.cancelSelecting (Shared.switchLanguageMode (preamble e.shared)), s, .toState .entering⟩ := by
      unfold selectingNext
      simp [h1, h2, h3, h4, KC.unknown, KC.backspace]
    rw [this]
    exact ⟨_, rfl, rfl, rfl, rfl, rfl, rfl, popCursor_inner _, rfl, hopt, fun hn => absurd rfl (hn s), fun _ => rfl⟩
  | highlighting m =>
    dsimp only
    have : highlightingNext env m (preamble e.shared) ev =
        .ok (Shared.switchLanguageMode (preamble e.shared), m, .toState .entering) := by
      unfold highlightingNext
      simp [h1, h2, KC.unknown]
    rw [this]
    exact ⟨_, rfl, rfl, rfl, rfl, rfl, rfl, rfl, rfl, hopt, fun _ => rfl, fun ⟨s, h⟩ => by cases h⟩

/-- **CapsLock never touches the chosen alternative** — the whole key event, every state, every environment,
    whatever the buffer length (the auto-commit of a buffer over the limit leaves `nth_conversion` alone too) -/
theorem capslock_keeps_nth {e e' : Editor D L} {ev : KeyEvent} {b : KB} (hk : CapsLockKey ev)
    (h : e.processKey env ev = .ok (e', b)) : e'.shared.nth = e.shared.nth ∧ e'.shared.engine = e.shared.engine := by
  obtain ⟨sh, st, hd, h2⟩ := processKey_split env h
  obtain ⟨sh0, hd0, _, hn, he, _⟩ := capslock_dispatch_text env e hk
  rw [hd0] at hd
  injection hd with hd; injection hd with hd1 hd2; subst hd1
  obtain ⟨_, _, sh2, h3, h4⟩ := C05.tail_spec env h2
  have h5 : sh2.nth = sh0.nth ∧ sh2.engine = sh0.engine := by
    split at h3
    · have := (tryAutoCommit_text env sh0).elim h3; exact ⟨this.1, this.2.1⟩
    · cases h3; exact ⟨rfl, rfl⟩
  rw [h4]
  split
  · exact ⟨by show sh2.nth = _; rw [h5.1, hn], by show sh2.engine = _; rw [h5.2, he]⟩
  · exact ⟨by rw [h5.1, hn], by rw [h5.2, he]⟩

/-- **Caps Lock never alters the text in the buffer** — the whole key event in every state, buffer within the
    limit: total, absorbed, ends in `Entering`, and everything `display()` is computed from is as before -/
theorem capslock_keeps_text (e : Editor D L) {ev : KeyEvent} (hk : CapsLockKey ev)
    (hlen : e.shared.com.len ≤ e.shared.options.autoCommitThreshold) :
    ∃ e', e.processKey env ev = .ok (e', .absorb) ∧ e'.state = .entering ∧ e'.shared.commitBuf = [] ∧
      SameText env e e' := by
  obtain ⟨sh, hd, hl, hn, he, hdi, hdr, hc, hb, ho, hsame, hpop⟩ := capslock_dispatch_text env e hk
  rw [processKey_eq, hd]
  dsimp only
  have hlen' : sh.com.len ≤ sh.options.autoCommitThreshold := by
    show sh.com.inner.len ≤ _
    rw [hc, ho]
    exact hlen
  rw [tail_within env sh hl hlen']
  obtain ⟨h1, _, h3, _, _⟩ := flushed_fields env sh
  obtain ⟨f1, f2, f3⟩ := flushed_text env sh
  refine ⟨_, rfl, rfl, by rw [h3, hb], ⟨by rw [h1, hc], by rw [f1, hn], by rw [f2, he], ?_, ?_⟩⟩
  · rcases f3 with f3 | ⟨f3, f4⟩
    · exact .inl (by rw [f3, hdi])
    · exact .inr ⟨by rw [← hdr]; exact f3, by rw [f4, hdi]⟩
  · show (flushed env sh).com = _ ∨ _
    rw [h1]
    by_cases hs : ∃ s, e.state = .selecting s
    · exact .inr ⟨hs, hpop hs⟩
    · exact .inl (hsame fun s h => hs ⟨s, h⟩)

/-- **Shift-Space (toggle enabled, `Entering`) never alters the text in the buffer** -/
theorem shiftspace_keeps_text {e : Editor D L} {ev : KeyEvent} (hs : e.state = .entering) (hk : ShiftSpaceKey ev)
    (ht : e.shared.options.enableFullwidthToggleKey = true)
    (hlen : e.shared.com.len ≤ e.shared.options.autoCommitThreshold) :
    ∃ e', e.processKey env ev = .ok (e', .absorb) ∧ e'.state = .entering ∧ e'.shared.commitBuf = [] ∧
      SameText env e e' := by
  have hd : dispatch env e ev = .ok ({ Shared.switchCharacterForm (preamble e.shared) with last := .absorb }, .entering) := by
    rw [dispatch_entering_eq env ev hs, enteringNext_shiftSpace env (sh := preamble e.shared) hk.code hk.shift ht]
    rfl
  rw [processKey_eq, hd]
  dsimp only
  have ho : (Shared.switchCharacterForm (preamble e.shared)).options =
      { e.shared.options with characterForm := flipForm e.shared.options.characterForm } :=
    switchCharacterForm_options (preamble e.shared)
  have hlen' : ({ Shared.switchCharacterForm (preamble e.shared) with last := .absorb } : Shared D L).com.len ≤
      ({ Shared.switchCharacterForm (preamble e.shared) with last := .absorb } : Shared D L).options.autoCommitThreshold := by
    show e.shared.com.len ≤ (Shared.switchCharacterForm (preamble e.shared)).options.autoCommitThreshold
    rw [ho]; exact hlen
  rw [tail_within env _ rfl hlen']
  obtain ⟨h1, _, h3, _, _⟩ := flushed_fields env { Shared.switchCharacterForm (preamble e.shared) with last := .absorb }
  obtain ⟨f1, f2, f3⟩ := flushed_text env { Shared.switchCharacterForm (preamble e.shared) with last := .absorb }
  refine ⟨_, rfl, rfl, by rw [h3]; rfl, ⟨by rw [h1]; rfl, by rw [f1]; rfl, by rw [f2]; rfl, ?_, .inl (by rw [h1]; rfl)⟩⟩
  rcases f3 with f3 | ⟨f3, f4⟩
  · exact .inl (by rw [f3]; rfl)
  · exact .inr ⟨f3, by rw [f4]; rfl⟩

/-- **Shift-Space never touches the chosen alternative**, whatever the buffer length -/
theorem shiftspace_keeps_nth {e e' : Editor D L} {ev : KeyEvent} {b : KB} (hs : e.state = .entering)
    (hk : ShiftSpaceKey ev) (ht : e.shared.options.enableFullwidthToggleKey = true)
    (h : e.processKey env ev = .ok (e', b)) : e'.shared.nth = e.shared.nth ∧ e'.shared.engine = e.shared.engine := by
  obtain ⟨sh, st, hd, h2⟩ := processKey_split env h
  have hd0 : dispatch env e ev = .ok ({ Shared.switchCharacterForm (preamble e.shared) with last := .absorb }, .entering) := by
    rw [dispatch_entering_eq env ev hs, enteringNext_shiftSpace env (sh := preamble e.shared) hk.code hk.shift ht]
    rfl
  rw [hd0] at hd
  injection hd with hd; injection hd with hd1 hd2; subst hd1
  obtain ⟨_, _, sh2, h3, h4⟩ := C05.tail_spec env h2
  have h5 : sh2.nth = e.shared.nth ∧ sh2.engine = e.shared.engine := by
    split at h3
    · have := (tryAutoCommit_text env _).elim h3; exact ⟨this.1, this.2.1⟩
    · cases h3; exact ⟨rfl, rfl⟩
  rw [h4]
  split
  · exact h5
  · exact h5

theorem leaveIfEmpty_selecting (x : Editor D L) {s : Selecting} (h : (Editor.leaveIfEmpty env x).state = .selecting s) :
    x.state = .selecting s := by
  unfold Editor.leaveIfEmpty at h
  split at h
  · cases h
  · exact h

/-- `set_editor_options` (before its final re-validation) neither opens nor closes a candidate list -/
theorem setOptions_selecting {e : Editor D L} {o : Options} {s : Selecting}
    (h : (e.setOptions env o).state = .selecting s) : e.state = .selecting s := by
  unfold Editor.setOptions at h
  have h2 := leaveIfEmpty_selecting env _ h
  exact h2

/-- **a mode changed through the configuration interface never alters the text in the buffer**
    (`set_editor_options` including its final `revalidate_selecting`), whatever the new options: composition,
    chosen alternative, engine, dictionary, commit string untouched; the cursor too unless the call closes a
    candidate list that has no candidates -/
theorem setOptions_keeps_text {e e' : Editor D L} {o : Options} (h : e.apply env (.setOptions o) = .ok e') :
    SameText env e e' ∧ e'.shared.commitBuf = e.shared.commitBuf ∧ e'.shared.options = o := by
  have h : Editor.revalidate env (e.setOptions env o) = .ok e' := h
  have hx : (e.setOptions env o).shared.com = e.shared.com ∧ (e.setOptions env o).shared.nth = e.shared.nth ∧
      (e.setOptions env o).shared.engine = e.shared.engine ∧ (e.setOptions env o).shared.dict = e.shared.dict ∧
      (e.setOptions env o).shared.commitBuf = e.shared.commitBuf ∧ (e.setOptions env o).shared.options = o := by
    unfold Editor.setOptions
    rw [leaveIfEmpty_shared]
    dsimp only
    split <;> exact ⟨rfl, rfl, rfl, rfl, rfl, rfl⟩
  obtain ⟨x1, x2, x3, x4, x5, x6⟩ := hx
  obtain ⟨hf, hcom⟩ := revalidate_fields env h
  have hsel : e'.shared.com = e.shared.com ∨ ((∃ s, e.state = .selecting s) ∧ e'.shared.com = e.shared.com.popCursor) := by
    rcases revalidate_cases env h with rfl | ⟨s, tp, _, _, _, _, rfl⟩ | ⟨s, hs, _, rfl⟩
    · exact .inl x1
    · exact .inl x1
    · refine .inr ⟨⟨s, ?_⟩, ?_⟩
      · exact setOptions_selecting env hs
      · show (e.setOptions env o).shared.com.popCursor = _
        rw [x1]
  refine ⟨⟨?_, ?_, ?_, .inl ?_, hsel⟩, ?_, ?_⟩
  · rcases hsel with h1 | ⟨_, h1⟩
    · rw [h1]
    · rw [h1]; exact popCursor_inner _
  · rw [hf]; exact x2
  · rw [hf]; exact x3
  · rw [hf]; exact x4
  · rw [hf]; exact x5
  · rw [hf]; exact x6

/-- … and the call is total whenever no candidate list is open (with a list open it is as total as the page
    count of that list) -/
theorem setOptions_total (e : Editor D L) (o : Options) (hs : ∀ s, e.state ≠ .selecting s) :
    ∃ e', e.apply env (.setOptions o) = .ok e' := by
  refine ⟨e.setOptions env o, ?_⟩
  show Editor.revalidate env (e.setOptions env o) = _
  apply revalidate_not_selecting
  intro s h
  exact hs s (setOptions_selecting env h)

/-! ### the statement in one piece -/

/-- the events that change a mode -/
inductive ModeChange where
  /-- the CapsLock event, in any state -/
  | capsLock (ev : KeyEvent)
  /-- the Shift-Space event in `Entering` while the toggle key is enabled (disabled, it is an ordinary Space and
      changes no option: `shiftspace_disabled`; in the other states it changes no option either:
      `form_fixed_outside_entering`) -/
  | shiftSpace (ev : KeyEvent)
  /-- `set_editor_options` changing only the two mode fields, to any values -/
  | setModes (lang : LangMode) (form : CharForm)

def ModeChange.op (e : Editor D L) : ModeChange → Op L
  | .capsLock ev => .key ev
  | .shiftSpace ev => .key ev
  | .setModes l f => .setOptions { e.shared.options with languageMode := l, characterForm := f }

def ModeChange.Valid (e : Editor D L) : ModeChange → Prop
  | .capsLock ev => CapsLockKey ev
  | .shiftSpace ev => ShiftSpaceKey ev ∧ e.state = .entering ∧ e.shared.options.enableFullwidthToggleKey = true
  | .setModes _ _ => True

/-- the one class the full statement fails on: a KEY toggle pressed while the buffer is over
    `auto_commit_threshold` (possible after the limit was lowered, and outside `Entering`): the key's auto-commit
    pushes the leading part of the buffer out -/
def ModeChange.Within (e : Editor D L) : ModeChange → Prop
  | .setModes _ _ => True
  | _ => e.shared.com.len ≤ e.shared.options.autoCommitThreshold

/-- the FULL statement: every mode change, at every editor value of every environment, returns and leaves the
    buffer (composition, cursor, saved cursors), the chosen alternative and the text shown exactly as they were -/
def toggle_keeps_display_full : Prop :=
  ∀ (D L : Type) (env : Env D L) (e : Editor D L) (t : ModeChange), t.Valid e →
    ∃ e', e.apply env (t.op e) = .ok e' ∧ e'.shared.com = e.shared.com ∧ e'.shared.nth = e.shared.nth ∧
      Shared.display env e'.shared = Shared.display env e.shared

/-- what holds: for every environment, every editor value and every mode change that returns — always, when no
    list is open or the change is a key — the chosen alternative and the engine are untouched; and unless a key
    toggle meets a buffer over the limit, everything the text shown is computed from (`SameText`) and therefore
    the text shown itself (`Editor::display`, `intervals()`; given that no dictionary update is pending or that
    the flush does not change what the engine answers) are as before, the cursor included unless a candidate
    list is closed (CapsLock; the setter only for a list without candidates), which restores the saved cursor -/
def toggle_keeps_display_stmt : Prop :=
  ∀ (D L : Type) (env : Env D L) (e : Editor D L) (t : ModeChange), t.Valid e →
    (∀ e', e.apply env (t.op e) = .ok e' →
      e'.shared.nth = e.shared.nth ∧ e'.shared.engine = e.shared.engine ∧
      (t.Within e → SameText env e e' ∧
        ((e.shared.dirty = 0 ∨ FlushKeepsConvert env) →
          Shared.display env e'.shared = Shared.display env e.shared ∧
          Shared.conversion env e'.shared = Shared.conversion env e.shared))) ∧
    (t.Within e → (∀ s, e.state ≠ .selecting s) → ∃ e', e.apply env (t.op e) = .ok e')

theorem toggle_keeps_display_partial : toggle_keeps_display_stmt := by
  intro D L env e t hv
  cases t with
  | capsLock ev =>
    have hk : CapsLockKey ev := hv
    refine ⟨fun e' h => ?_, fun hw _ => ?_⟩
    · have h : (e.processKey env ev).map (·.1) = .ok e' := h
      obtain ⟨⟨e1, b⟩, hp, hx⟩ := map_ok h
      have hx : e1 = e' := hx
      subst hx
      obtain ⟨n1, n2⟩ := capslock_keeps_nth env hk hp
      refine ⟨n1, n2, fun hw => ?_⟩
      obtain ⟨e2, h1, _, _, hst⟩ := capslock_keeps_text env e hk hw
      rw [h1] at hp
      injection hp with hp; injection hp with hp1 _
      subst hp1
      exact ⟨hst, hst.display env⟩
    · obtain ⟨e2, h1, _⟩ := capslock_keeps_text env e hk hw
      exact ⟨e2, by show (e.processKey env ev).map (·.1) = _; rw [h1]; rfl⟩
  | shiftSpace ev =>
    obtain ⟨hk, hs, ht⟩ : ShiftSpaceKey ev ∧ e.state = .entering ∧ e.shared.options.enableFullwidthToggleKey = true := hv
    refine ⟨fun e' h => ?_, fun hw _ => ?_⟩
    · have h : (e.processKey env ev).map (·.1) = .ok e' := h
      obtain ⟨⟨e1, b⟩, hp, hx⟩ := map_ok h
      have hx : e1 = e' := hx
      subst hx
      obtain ⟨n1, n2⟩ := shiftspace_keeps_nth env hs hk ht hp
      refine ⟨n1, n2, fun hw => ?_⟩
      obtain ⟨e2, h1, _, _, hst⟩ := shiftspace_keeps_text env hs hk ht hw
      rw [h1] at hp
      injection hp with hp; injection hp with hp1 _
      subst hp1
      exact ⟨hst, hst.display env⟩
    · obtain ⟨e2, h1, _⟩ := shiftspace_keeps_text env hs hk ht hw
      exact ⟨e2, by show (e.processKey env ev).map (·.1) = _; rw [h1]; rfl⟩
  | setModes l f =>
    refine ⟨fun e' h => ?_, fun _ hs => setOptions_total env e _ hs⟩
    obtain ⟨hst, _, _⟩ := setOptions_keeps_text env h
    exact ⟨hst.nth, hst.engine, fun _ => ⟨hst, hst.display env⟩⟩


/-! ### the full statement fails, exactly on the excluded class -/

/-- a REACHABLE editor with the buffer over the limit: two syllables typed, then `auto_commit_threshold` lowered to 1
    through the configuration interface (which does not auto-commit) -/
def overEditor : Editor (List Nat) Nat :=
  match (C01.stdEditor [3]).run C01.toyEnv
      [.key C01.keyJ, .key C01.keyJ, .key C01.keyJ, .key C01.keyJ, .setOptions { autoCommitThreshold := 1 }] with
  | .ok e => e
  | _ => C01.stdEditor [3]

/-- CapsLock there: the key's auto-commit pushes the first character out (commit string `[3]`), one symbol stays;
    the language mode is toggled and `nth` untouched all the same -/
theorem overEditor_capslock :
    (overEditor.apply C01.toyEnv (.key capsEv)).map
      (fun e => (e.shared.com.symbols.length, e.shared.commitBuf, e.shared.options.languageMode, e.shared.nth)) =
      .ok (1, [3], .english, 0) ∧ overEditor.shared.com.symbols.length = 2 := by decide

theorem toggle_keeps_display_refuted : ¬ toggle_keeps_display_full := by
  intro h
  obtain ⟨e', h1, h2, _⟩ := h (List Nat) Nat C01.toyEnv overEditor (.capsLock capsEv) ⟨rfl, rfl, rfl, rfl⟩
  have h3 := overEditor_capslock.1
  have h1 : overEditor.apply C01.toyEnv (.key capsEv) = .ok e' := h1
  rw [h1] at h3
  have h4 : e'.shared.com.symbols.length = 1 := by
    injection h3 with h3
    exact congrArg Prod.fst h3
  rw [h2, overEditor_capslock.2] at h4
  cases h4

/-! ### non-vacuity: a state whose chosen alternative is not the default one and READS differently -/

/-- an environment whose engine offers two alternatives that read differently (`[65, 66]` / `[67, 68]`) -/
def twoEnv : Env (List Nat) Nat :=
  { C01.toyEnv with convert := fun _ _ _ => .ok [[⟨0, 2, true, [65, 66]⟩], [⟨0, 2, true, [67, 68]⟩]] }

/-- two syllables in the buffer, the second alternative chosen (Tab at the end of the buffer) -/
def nthEditor : Editor (List Nat) Nat :=
  match (C01.stdEditor [3]).run twoEnv
      [.key C01.keyJ, .key C01.keyJ, .key C01.keyJ, .key C01.keyJ, .key { index := 53, code := KC.tab, unicode := 65533 }] with
  | .ok e => e
  | _ => C01.stdEditor [3]

/-- it shows the second alternative, not the first; CapsLock, Shift-Space and the setter (either / both modes)
    leave `nth = 1` and that text on display, while toggling the mode -/
example : nthEditor.shared.nth = 1 ∧ Shared.display twoEnv nthEditor.shared = .ok [67, 68] ∧
    Shared.display twoEnv { nthEditor.shared with nth := 0 } = .ok [65, 66] ∧
    (nthEditor.apply twoEnv (.key capsEv)).map
      (fun e => (e.shared.nth, Shared.display twoEnv e.shared, e.shared.options.languageMode)) = .ok (1, .ok [67, 68], .english) ∧
    (nthEditor.apply twoEnv (.key shiftSpace)).map
      (fun e => (e.shared.nth, Shared.display twoEnv e.shared, e.shared.options.characterForm)) = .ok (1, .ok [67, 68], .full) ∧
    (nthEditor.apply twoEnv ((ModeChange.setModes .english .full).op nthEditor)).map
      (fun e => (e.shared.nth, Shared.display twoEnv e.shared, e.shared.options.languageMode, e.shared.options.characterForm)) =
      .ok (1, .ok [67, 68], .english, .full) := by decide

example : (ModeChange.capsLock capsEv).Valid nthEditor ∧ (ModeChange.capsLock capsEv).Within nthEditor ∧
    (ModeChange.shiftSpace shiftSpace).Valid nthEditor ∧ (ModeChange.shiftSpace shiftSpace).Within nthEditor ∧
    nthEditor.shared.dirty = 0 :=
  ⟨⟨rfl, rfl, rfl, rfl⟩, by show nthEditor.shared.com.len ≤ nthEditor.shared.options.autoCommitThreshold; decide,
   ⟨⟨rfl, rfl⟩, by decide, by decide⟩,
   by show nthEditor.shared.com.len ≤ nthEditor.shared.options.autoCommitThreshold; decide, by decide⟩

/-- the theorem applied to that state -/
example : ∃ e', nthEditor.apply twoEnv (.key capsEv) = .ok e' ∧ e'.shared.nth = 1 ∧
    Shared.display twoEnv e'.shared = .ok [67, 68] := by
  obtain ⟨e', h1, _, _, hst⟩ := capslock_keeps_text twoEnv nthEditor (ev := capsEv) ⟨rfl, rfl, rfl, rfl⟩ (by decide)
  refine ⟨e', by show (nthEditor.processKey twoEnv capsEv).map (·.1) = _; rw [h1]; rfl, by rw [hst.nth]; decide, ?_⟩
  rw [(hst.display twoEnv (.inl (by decide))).1]
  decide

end ToggleText
end Chewing.C18
