import Chewing.Proofs.Loader
import Chewing.Proofs.UhashRoundtrip
import Chewing.Proofs.UhashBin
/-!
# C19 — Legacy user data is migrated completely, exactly once, and never destroyed

Model: `Model/Loader.lean` (`UserDictionaryLoader::load` over the abstract user directory
`{chewing.dat?, uhash.dat?, chewing.sqlite3?}`) with the legacy readers of `Model/Uhash.lean`.
The new user dictionary is a key-sorted map `(syllables, phrase) ↦ (user frequency, time)`; that
closing it stores this map in `chewing.dat` and re-opening yields it back is C10/C11's subject
(observed on every correspondence record here).

* "every valid record of the legacy store is present … with the same phrase, syllables and user
  frequency": `bin_reader_complete`, `migrate_bin_complete` (the binary encoding of ANY store of valid records, with deleted
  and negative records interspersed and any lifetime, reads back exactly its live records) and
  `migrate_complete` (every record the reader yields is in the new dictionary under its key with
  its frequency and time); `migrate_exact` (nothing else is).
* "the legacy store still holds all its records": `legacy_untouched`.
* "creating the context again neither duplicates nor alters entries": `second_start_same`.
* "phrases learned afterwards are kept alongside the migrated ones": `learn_then_restart_keeps_both`.
* F26 (repaired by a `fix:` commit): `lifetime_any`, with the pre-fix behaviour as `lifetime_orig_rejects`.
-/
namespace Chewing.C19
open Chewing Chewing.Uhash Chewing.Loader

deriving instance DecidableEq for Except

/-! ## First start: complete and exact -/

/-- what a first start over a directory with only a hash file does: everything the reader yields
    goes through `update_phrase` into a fresh dictionary, which is then stored -/
theorem first_start {b : List Nat} {rs : List Uhash.Rec} (feat : Bool) (sq : Option (Option (List Uhash.Rec)))
    (hsq : feat = false ∨ sq = none) (h : loadUhash b = .ok (.ok rs)) :
    load feat { chewingDat := none, uhashDat := some b, sqlite := sq } =
      .ok { dict := .ok (importRecs [] rs),
            dir := { chewingDat := some (.valid (importRecs [] rs)), uhashDat := some b, sqlite := sq } } := by
  unfold load
  rcases hsq with rfl | rfl <;> simp [h]

/-- `migrate_complete`: records with pairwise distinct keys (what a legacy store holds — it is a
    hash table keyed by syllables+phrase) are ALL present with their frequency and time -/
theorem migrate_complete {rs : List Uhash.Rec} (hd : rs.Pairwise (fun a b => keyOf a ≠ keyOf b)) :
    ∀ r ∈ rs, find? (importRecs [] rs) (keyOf r) = some (valOf r) := by
  intro r hr
  rw [find_importRecs]
  exact lastVal_of_pairwise rs _ hd r hr

/-- without the distinctness assumption: the LAST record of a key wins (as `update_phrase` does) -/
theorem migrate_last_wins (rs : List Uhash.Rec) (k : Key) :
    find? (importRecs [] rs) k = lastVal k rs none := find_importRecs k rs []

/-- `migrate_exact`: nothing but imported records is in the new dictionary — no duplicates with
    altered values, no invented entries -/
theorem migrate_exact (rs : List Uhash.Rec) (e : Key × Val) (h : e ∈ importRecs [] rs) :
    ∃ r ∈ rs, e = (keyOf r, valOf r) := by
  rcases mem_importRecs rs [] e h with h | h
  · cases h
  · exact h

/-! ## Never destroyed -/

/-- the loader never changes the legacy files, whatever they contain and whatever happens -/
theorem legacy_untouched (feat : Bool) (d : UserDir) (l : Loaded) (h : load feat d = .ok l) :
    l.dir.uhashDat = d.uhashDat ∧ l.dir.sqlite = d.sqlite := by
  unfold load at h
  split at h
  · cases h; exact ⟨rfl, rfl⟩
  · cases h; exact ⟨rfl, rfl⟩
  · dsimp only at h
    split at h
    · split at h <;> (cases h; exact ⟨rfl, rfl⟩)
    · split at h
      · cases h; exact ⟨rfl, rfl⟩
      · split at h
        · cases h; exact ⟨rfl, rfl⟩
        · cases h; exact ⟨rfl, rfl⟩
        · cases h
        · cases h

/-! ## Exactly once -/

/-- after any start that produced a dictionary, the directory holds a current-format file with
    exactly that dictionary … -/
theorem start_stores (feat : Bool) (d : UserDir) (l : Loaded) (m : UMap) (h : load feat d = .ok l)
    (hm : l.dict = .ok m) : l.dir.chewingDat = some (.valid m) := by
  unfold load at h
  split at h
  · rename_i m' hd
    cases h
    simp only [Except.ok.injEq] at hm
    subst hm
    exact hd
  · cases h; cases hm
  · dsimp only at h
    split at h
    · split at h
      · cases h; simp only [Except.ok.injEq] at hm; subst hm; rfl
      · cases h; cases hm
    · split at h
      · cases h; simp only [Except.ok.injEq] at hm; subst hm; rfl
      · split at h
        · cases h; simp only [Except.ok.injEq] at hm; subst hm; rfl
        · cases h; simp only [Except.ok.injEq] at hm; subst hm; rfl
        · cases h
        · cases h

/-- … so a second start takes the "current file present" branch: same dictionary, same directory,
    the legacy store is not even read (`second_start_same` = idempotence) -/
theorem second_start_same (feat feat' : Bool) (d : UserDir) (l : Loaded) (m : UMap) (h : load feat d = .ok l)
    (hm : l.dict = .ok m) : load feat' l.dir = .ok { dict := .ok m, dir := l.dir } := by
  have hs := start_stores feat d l m h hm
  unfold load
  simp [hs]

/-- a second start does not depend on the legacy file any more: even if it was changed or removed
    in between, the migrated entries stay -/
theorem second_start_ignores_legacy (feat : Bool) (m : UMap) (u : Option (List Nat)) (s : Option (Option (List Uhash.Rec))) :
    load feat { chewingDat := some (.valid m), uhashDat := u, sqlite := s } =
      .ok { dict := .ok m, dir := { chewingDat := some (.valid m), uhashDat := u, sqlite := s } } := rfl

/-! ## Learning afterwards -/

/-- a phrase learned after the migration coexists with every migrated record of another key, and
    both survive the restart -/
theorem learn_then_restart_keeps_both (feat : Bool) (d : UserDir) (m : UMap) (k : Key) (v : Val) :
    ∃ m', load feat (learnAndClose d m k v) = .ok { dict := .ok m', dir := learnAndClose d m k v } ∧
      find? m' k = some v ∧ ∀ k', k' ≠ k → find? m' k' = find? m k' := by
  refine ⟨insert m k v, rfl, find_insert_self m k v, fun k' hne => find_insert_ne m k k' v hne⟩

/-! ## The readers accept what the legacy engine wrote -/

/-- `bin_reader_complete`: the binary reader reads back exactly the live records of ANY store of
    valid records (1..11 non-zero syllables, non-empty UTF-8 phrase that fits the record, 32-bit
    fields), removed and negative records interspersed, any lifetime (`Proofs/UhashBin.lean`) -/
theorem bin_reader_complete (lifetime : List Nat) (hl : lifetime.length = 4) (rs : List GRec)
    (hv : ∀ g ∈ rs, g.Valid) : loadUhash (encodeBin lifetime rs) = .ok (.ok (liveRecs rs)) :=
  loadUhash_encodeBin lifetime hl rs hv

/-- the whole first start over a binary legacy store: the legacy file is untouched, the new
    dictionary is stored, every live record is in it with its frequency and time, and nothing else -/
theorem migrate_bin_complete (lifetime : List Nat) (hl : lifetime.length = 4) (rs : List GRec)
    (hv : ∀ g ∈ rs, g.Valid) (hd : (liveRecs rs).Pairwise (fun a b => keyOf a ≠ keyOf b)) :
    ∃ l, load false { chewingDat := none, uhashDat := some (encodeBin lifetime rs), sqlite := none } = .ok l ∧
      l.dir.uhashDat = some (encodeBin lifetime rs) ∧
      ∃ m, l.dict = .ok m ∧ l.dir.chewingDat = some (.valid m) ∧
        (∀ r ∈ liveRecs rs, find? m (keyOf r) = some (valOf r)) ∧
        (∀ e ∈ m, ∃ r ∈ liveRecs rs, e = (keyOf r, valOf r)) :=
  ⟨_, first_start false none (Or.inl rfl) (bin_reader_complete lifetime hl rs hv), rfl, _, rfl, rfl,
    migrate_complete hd, migrate_exact _⟩

/-- F26 repaired: the header line of a text store may hold any non-negative 63-bit lifetime -/
theorem lifetime_any (ds : List Nat) (hne : ds ≠ []) (hd : ∀ d ∈ ds, isDigit d = true)
    (hv : digitsVal ds ≤ 2 ^ 63 - 1) : lifetimeOk ds = true := by
  have hutf : validUtf8 ds = true := validUtf8_of_ascii ds (fun d hd' => by
    have := hd d hd'
    simp only [isDigit, Bool.and_eq_true, decide_eq_true_eq] at this
    omega)
  unfold lifetimeOk parseI64Ok
  rw [hutf]
  have hall : ds.all isDigit = true := List.all_eq_true.mpr hd
  have hemp : ds.isEmpty = false := by cases ds <;> simp_all
  match ds, hne, hd, hv, hall, hemp with
  | c :: r, _, hd, hv, hall, hemp =>
    have hc := hd c List.mem_cons_self
    simp only [isDigit, Bool.and_eq_true, decide_eq_true_eq] at hc
    have h43 : c ≠ 43 := by omega
    have h45 : c ≠ 45 := by omega
    split
    · rename_i heq; cases heq; exact absurd rfl h43
    · rename_i heq; cases heq; exact absurd rfl h45
    · rename_i t _ _
      simp [hall, hemp, hv]

/-- "70000\n策試 10268 8708 9 7 9 1\n": rejected as a whole before the fix (nothing migrated, an
    empty `chewing.dat` created, the legacy file never read again), imported after it -/
def f26File : List Nat :=
  [55, 48, 48, 48, 48, 10, 0xE7, 0xAD, 0x96, 0xE8, 0xA9, 0xA6, 32, 49, 48, 50, 54, 56, 32, 56, 55, 48, 56, 32,
   57, 32, 55, 32, 57, 32, 49, 10]

theorem lifetime_orig_rejects : loadUhashOrig f26File = .ok (.error ()) := by decide +kernel

theorem lifetime_fixed_accepts :
    loadUhash f26File = .ok (.ok [{ syls := [10268, 8708], phrase := [0xE7, 0xAD, 0x96, 0xE8, 0xA9, 0xA6], freq := 9, time := 7 }]) := by
  decide +kernel

/-! ## Not proved (named gaps)

`TextReaderComplete`: the text encoding of any store of valid records reads back exactly its
records.  The text reader model is validated by correspondence on generated stores and the oracle
compares against the generator's own record list; the decimal print/parse round trip is not proved.
`SqliteMigrates`: the SQLite stores (v2 schema, and v1 → v2 inside the file) are abstract in the
model (`sqlite := some (some rows)` = the rows `SqliteDictionary::entries()` yields). -/

/-- the importer treats SQLite rows like hash-file records (model level only) -/
theorem sqlite_rows_imported (d : UserDir) (rows : List Uhash.Rec) (hd : d.chewingDat = none)
    (hs : d.sqlite = some (some rows)) :
    load true d = .ok { dict := .ok (importRecs [] rows), dir := { d with chewingDat := some (.valid (importRecs [] rows)) } } := by
  unfold load
  simp [hd, hs]

/-! ## Non-vacuity -/

example : (⟨[10268, 8708], [0xE7, 0xAD, 0x96, 0xE8, 0xA9, 0xA6], [9, 7, 9, 1], false⟩ : GRec).Valid := by
  decide

/-- a two-record store (one live, one removed) and its first start -/
example : liveRecs [⟨[10268, 8708], [0xE7, 0xAD, 0x96, 0xE8, 0xA9, 0xA6], [9, 7, 9, 1], false⟩,
    ⟨[10268], [0xE7, 0xAD, 0x96], [3, 4, 3, 0], true⟩] =
    [{ syls := [10268, 8708], phrase := [0xE7, 0xAD, 0x96, 0xE8, 0xA9, 0xA6], freq := 9, time := 7 }] := by decide

end Chewing.C19
