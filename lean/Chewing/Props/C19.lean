import Chewing.Proofs.Loader
import Chewing.Proofs.UhashRoundtrip
import Chewing.Proofs.UhashBin
import Chewing.Proofs.UhashText
import Chewing.Proofs.SqliteV1
/-!
# C19 — Legacy user data is migrated completely, exactly once, and never destroyed

Model: `Model/Loader.lean` (`UserDictionaryLoader::load` over the abstract user directory
`{chewing.dat?, uhash.dat?, chewing.sqlite3?}`) with the legacy readers of `Model/Uhash.lean`.
The new user dictionary is a key-sorted map `(syllables, phrase) ↦ (user frequency, time)`; that
closing it stores this map in `chewing.dat` and re-opening yields it back is C10/C11's subject
(observed on every correspondence record here).

* "every valid record of the legacy store is present … with the same phrase, syllables and user
  frequency": `bin_reader_complete`, `migrate_bin_complete` (the binary encoding of ANY store of valid records, with deleted
  and negative records interspersed and any lifetime, reads back exactly its live records) and
  `migrate_complete` (every record the reader yields is in the new dictionary under its key with
  its frequency and time); `migrate_exact` (nothing else is).  The TEXT format likewise:
  `text_reader_complete`, `migrate_text_complete` (the text file written for ANY store of `GRec.TextValid`
  records — the grammar of `tests/data/golden-uhash-text.dat` — with any `i64` lifetime reads back exactly
  its live records, also with `\r\n` line ends and trailing blanks: `text_reader_complete_crlf_pad`), on top of
  the decimal print/parse round trip `decimal_roundtrip` / `decimal_signed_roundtrip`; what the text format
  cannot express is shown by `text_reader_complete_full_refuted`, `text_separator_refuted`,
  `text_charcount_refuted`, `text_negative_field_rejected`.
* "the legacy store still holds all its records": `legacy_untouched`.
* "creating the context again neither duplicates nor alters entries": `second_start_same`.
* "phrases learned afterwards are kept alongside the migrated ones": `learn_then_restart_keeps_both`.
* the older SQLite schema (`userphrase_v1`, written by the C library): `sqlite_v1_row_complete`,
  `sqlite_v1_rows_complete`, `sqlite_v1_first_start` over the relational model `Model/SqliteV1.lean`
  (its column lists, loop range and types come from the source through `Gen/SqliteV1.lean`).
* F26 (repaired by a `fix:` commit): `lifetime_any`, with the pre-fix behaviour as `lifetime_orig_rejects`.
-/
namespace Chewing.C19
open Chewing Chewing.Uhash Chewing.Loader

deriving instance DecidableEq for Except

/-! ## First start: complete and exact -/

/-- what a first start over a directory with only a hash file does: everything the reader yields
    goes through `update_phrase` into a fresh dictionary, which is then stored -/
theorem first_start {b : List Nat} {rs : List Uhash.Rec} (feat : Bool) (sq : Option (Option (List Uhash.Rec)))
    (hsq : feat = false ∨ sq = none) (h : loadUhash b = .ok (.ok rs)) :
    load feat { chewingDat := none, uhashDat := some b, sqlite := sq } =
      .ok { dict := .ok (importRecs [] rs),
            dir := { chewingDat := some (.valid (importRecs [] rs)), uhashDat := some b, sqlite := sq } } := by
  unfold load
  rcases hsq with rfl | rfl <;> simp [h]

/-- `migrate_complete`: records with pairwise distinct keys (what a legacy store holds — it is a
    hash table keyed by syllables+phrase) are ALL present with their frequency and time -/
theorem migrate_complete {rs : List Uhash.Rec} (hd : rs.Pairwise (fun a b => keyOf a ≠ keyOf b)) :
    ∀ r ∈ rs, find? (importRecs [] rs) (keyOf r) = some (valOf r) := by
  intro r hr
  rw [find_importRecs]
  exact lastVal_of_pairwise rs _ hd r hr

/-- without the distinctness assumption: the LAST record of a key wins (as `update_phrase` does) -/
theorem migrate_last_wins (rs : List Uhash.Rec) (k : Key) :
    find? (importRecs [] rs) k = lastVal k rs none := find_importRecs k rs []

/-- `migrate_exact`: nothing but imported records is in the new dictionary — no duplicates with
    altered values, no invented entries -/
theorem migrate_exact (rs : List Uhash.Rec) (e : Key × Val) (h : e ∈ importRecs [] rs) :
    ∃ r ∈ rs, e = (keyOf r, valOf r) := by
  rcases mem_importRecs rs [] e h with h | h
  · cases h
  · exact h

/-! ## Never destroyed -/

/-- the loader never changes the legacy files, whatever they contain and whatever happens -/
theorem legacy_untouched (feat : Bool) (d : UserDir) (l : Loaded) (h : load feat d = .ok l) :
    l.dir.uhashDat = d.uhashDat ∧ l.dir.sqlite = d.sqlite := by
  unfold load at h
  split at h
  · cases h; exact ⟨rfl, rfl⟩
  · cases h; exact ⟨rfl, rfl⟩
  · dsimp only at h
    split at h
    · split at h <;> (cases h; exact ⟨rfl, rfl⟩)
    · split at h
      · cases h; exact ⟨rfl, rfl⟩
      · split at h
        · cases h; exact ⟨rfl, rfl⟩
        · cases h; exact ⟨rfl, rfl⟩
        · cases h
        · cases h

/-! ## Exactly once -/

/-- after any start that produced a dictionary, the directory holds a current-format file with
    exactly that dictionary … -/
theorem start_stores (feat : Bool) (d : UserDir) (l : Loaded) (m : UMap) (h : load feat d = .ok l)
    (hm : l.dict = .ok m) : l.dir.chewingDat = some (.valid m) := by
  unfold load at h
  split at h
  · rename_i m' hd
    cases h
    simp only [Except.ok.injEq] at hm
    subst hm
    exact hd
  · cases h; cases hm
  · dsimp only at h
    split at h
    · split at h
      · cases h; simp only [Except.ok.injEq] at hm; subst hm; rfl
      · cases h; cases hm
    · split at h
      · cases h; simp only [Except.ok.injEq] at hm; subst hm; rfl
      · split at h
        · cases h; simp only [Except.ok.injEq] at hm; subst hm; rfl
        · cases h; simp only [Except.ok.injEq] at hm; subst hm; rfl
        · cases h
        · cases h

/-- … so a second start takes the "current file present" branch: same dictionary, same directory,
    the legacy store is not even read (`second_start_same` = idempotence) -/
theorem second_start_same (feat feat' : Bool) (d : UserDir) (l : Loaded) (m : UMap) (h : load feat d = .ok l)
    (hm : l.dict = .ok m) : load feat' l.dir = .ok { dict := .ok m, dir := l.dir } := by
  have hs := start_stores feat d l m h hm
  unfold load
  simp [hs]

/-- a second start does not depend on the legacy file any more: even if it was changed or removed
    in between, the migrated entries stay -/
theorem second_start_ignores_legacy (feat : Bool) (m : UMap) (u : Option (List Nat)) (s : Option (Option (List Uhash.Rec))) :
    load feat { chewingDat := some (.valid m), uhashDat := u, sqlite := s } =
      .ok { dict := .ok m, dir := { chewingDat := some (.valid m), uhashDat := u, sqlite := s } } := rfl

/-! ## Learning afterwards -/

/-- a phrase learned after the migration coexists with every migrated record of another key, and
    both survive the restart -/
theorem learn_then_restart_keeps_both (feat : Bool) (d : UserDir) (m : UMap) (k : Key) (v : Val) :
    ∃ m', load feat (learnAndClose d m k v) = .ok { dict := .ok m', dir := learnAndClose d m k v } ∧
      find? m' k = some v ∧ ∀ k', k' ≠ k → find? m' k' = find? m k' := by
  refine ⟨insert m k v, rfl, find_insert_self m k v, fun k' hne => find_insert_ne m k k' v hne⟩

/-! ## The readers accept what the legacy engine wrote -/

/-- `bin_reader_complete`: the binary reader reads back exactly the live records of ANY store of
    valid records (1..11 non-zero syllables, non-empty UTF-8 phrase that fits the record, 32-bit
    fields), removed and negative records interspersed, any lifetime (`Proofs/UhashBin.lean`) -/
theorem bin_reader_complete (lifetime : List Nat) (hl : lifetime.length = 4) (rs : List GRec)
    (hv : ∀ g ∈ rs, g.Valid) : loadUhash (encodeBin lifetime rs) = .ok (.ok (liveRecs rs)) :=
  loadUhash_encodeBin lifetime hl rs hv

/-- the whole first start over a binary legacy store: the legacy file is untouched, the new
    dictionary is stored, every live record is in it with its frequency and time, and nothing else -/
theorem migrate_bin_complete (lifetime : List Nat) (hl : lifetime.length = 4) (rs : List GRec)
    (hv : ∀ g ∈ rs, g.Valid) (hd : (liveRecs rs).Pairwise (fun a b => keyOf a ≠ keyOf b)) :
    ∃ l, load false { chewingDat := none, uhashDat := some (encodeBin lifetime rs), sqlite := none } = .ok l ∧
      l.dir.uhashDat = some (encodeBin lifetime rs) ∧
      ∃ m, l.dict = .ok m ∧ l.dir.chewingDat = some (.valid m) ∧
        (∀ r ∈ liveRecs rs, find? m (keyOf r) = some (valOf r)) ∧
        (∀ e ∈ m, ∃ r ∈ liveRecs rs, e = (keyOf r, valOf r)) :=
  ⟨_, first_start false none (Or.inl rfl) (bin_reader_complete lifetime hl rs hv), rfl, _, rfl, rfl,
    migrate_complete hd, migrate_exact _⟩

/-- F26 repaired: the header line of a text store may hold any non-negative 63-bit lifetime -/
theorem lifetime_any (ds : List Nat) (hne : ds ≠ []) (hd : ∀ d ∈ ds, isDigit d = true)
    (hv : digitsVal ds ≤ 2 ^ 63 - 1) : lifetimeOk ds = true := by
  have hutf : validUtf8 ds = true := validUtf8_of_ascii ds (fun d hd' => by
    have := hd d hd'
    simp only [isDigit, Bool.and_eq_true, decide_eq_true_eq] at this
    omega)
  unfold lifetimeOk parseI64Ok
  rw [hutf]
  have hall : ds.all isDigit = true := List.all_eq_true.mpr hd
  have hemp : ds.isEmpty = false := by cases ds <;> simp_all
  match ds, hne, hd, hv, hall, hemp with
  | c :: r, _, hd, hv, hall, hemp =>
    have hc := hd c List.mem_cons_self
    simp only [isDigit, Bool.and_eq_true, decide_eq_true_eq] at hc
    have h43 : c ≠ 43 := by omega
    have h45 : c ≠ 45 := by omega
    split
    · rename_i heq; cases heq; exact absurd rfl h43
    · rename_i heq; cases heq; exact absurd rfl h45
    · rename_i t _ _
      simp [hall, hemp, hv]

/-- "70000\n策試 10268 8708 9 7 9 1\n": rejected as a whole before the fix (nothing migrated, an
    empty `chewing.dat` created, the legacy file never read again), imported after it -/
def f26File : List Nat :=
  [55, 48, 48, 48, 48, 10, 0xE7, 0xAD, 0x96, 0xE8, 0xA9, 0xA6, 32, 49, 48, 50, 54, 56, 32, 56, 55, 48, 56, 32,
   57, 32, 55, 32, 57, 32, 49, 10]

theorem lifetime_orig_rejects : loadUhashOrig f26File = .ok (.error ()) := by decide +kernel

theorem lifetime_fixed_accepts :
    loadUhash f26File = .ok (.ok [{ syls := [10268, 8708], phrase := [0xE7, 0xAD, 0x96, 0xE8, 0xA9, 0xA6], freq := 9, time := 7 }]) := by
  decide +kernel

/-! ## The text format: the reader accepts what the legacy engine wrote

Writer model `Model/UhashTextEnc.lean` (`encodeText` = byte for byte what the harness generator `enc_text` writes =
the grammar of the fixture `tests/data/golden-uhash-text.dat`; compared with it on every generated text store by the
`loader enctext` records), proofs `Proofs/UhashDecimal.lean`, `Proofs/UhashText.lean`. -/

/-- the `i64` range as the hypothesis on the header number -/
def I64 (z : Int) : Prop := -9223372036854775808 ≤ z ∧ z < 9223372036854775808

/-- `decimal_roundtrip`: `str::parse::<uN>` ∘ `format!("{}")` — the decimal image of `n` (ASCII digits, non-empty, no
    leading zero) parses to `n` iff `n` fits the type (both directions) -/
theorem decimal_roundtrip (max n : Nat) :
    parseUnsigned max (natToDigits n) = (if n ≤ max then some n else none) ∧
    digitsVal (natToDigits n) = n ∧ (natToDigits n).all isDigit = true ∧ natToDigits n ≠ [] ∧
    (1 ≤ n → (natToDigits n).head? ≠ some 48) :=
  ⟨parseUnsigned_natToDigits max n, digitsVal_natToDigits n, natToDigits_all n, natToDigits_ne_nil n,
    natToDigits_no_leading_zero n⟩

/-- the signed header: the printed lifetime is accepted iff it is an `i64` (both directions) -/
theorem decimal_signed_roundtrip (z : Int) : lifetimeOk (intToDigits z) = true ↔ I64 z :=
  lifetimeOk_intToDigits_iff z

/-- what ELSE the number parser accepts (never written): leading zeros, a leading `+`; never a `-` in a field -/
theorem decimal_reader_tolerates (max n : Nat) (r : List Nat) :
    parseUnsigned max (48 :: natToDigits n) = (if n ≤ max then some n else none) ∧
    parseUnsigned max (43 :: natToDigits n) = (if n ≤ max then some n else none) ∧
    parseUnsigned max (45 :: r) = none :=
  ⟨parseUnsigned_leading_zero max n, parseUnsigned_plus max n, parseUnsigned_minus max r⟩

/-- the header is not trimmed: a blank before or after the number rejects the file (a `\r` before the `\n` is
    dropped by `lines`: `text_reader_complete_crlf_pad`) -/
theorem text_header_blank_rejected (n : Nat) :
    lifetimeOk (32 :: natToDigits n) = false ∧ lifetimeOk (natToDigits n ++ [32]) = false :=
  ⟨lifetimeOk_leading_blank n, lifetimeOk_trailing_blank n⟩

/-- `text_reader_complete`: the text file of ANY store of text-valid records (1..11 syllable codes, valid UTF-8
    phrase with one character per syllable and no ASCII white space, 32-bit fields), removed and negative records
    interspersed (not written), any `i64` lifetime, is read back as exactly its live records, in order -/
theorem text_reader_complete (lifetime : Int) (hl : I64 lifetime) (rs : List GRec) (hv : ∀ g ∈ rs, g.TextValid) :
    loadUhash (encodeText lifetime rs) = .ok (.ok (liveRecs rs)) :=
  loadUhash_encodeText lifetime hl rs hv

/-- the same for `\r\n` line ends (also after the header) and any number of trailing blanks after record lines -/
theorem text_reader_complete_crlf_pad (crlf : Bool) (pad : Nat) (lifetime : Int) (hl : I64 lifetime) (rs : List GRec)
    (hv : ∀ g ∈ rs, g.TextValid) : loadUhash (encodeTextWith crlf pad lifetime rs) = .ok (.ok (liveRecs rs)) :=
  loadUhash_encodeTextWith crlf pad lifetime hl rs hv

/-- a header outside `i64` rejects the whole file (nothing migrates) — the exact converse for the lifetime -/
theorem text_lifetime_out_of_range_rejected (lifetime : Int) (hl : ¬ I64 lifetime) (rs : List GRec)
    (hv : ∀ g ∈ rs, g.TextValid) : loadUhash (encodeText lifetime rs) = .ok (.error ()) :=
  loadUhash_encodeText_lifetime lifetime hl rs hv

/-- the whole first start over a text legacy store (mirror of `migrate_bin_complete`): the legacy file is untouched,
    the new dictionary is stored, every live record is in it with its frequency and time, and nothing else -/
theorem migrate_text_complete (lifetime : Int) (hl : I64 lifetime) (rs : List GRec)
    (hv : ∀ g ∈ rs, g.TextValid) (hd : (liveRecs rs).Pairwise (fun a b => keyOf a ≠ keyOf b)) :
    ∃ l, load false { chewingDat := none, uhashDat := some (encodeText lifetime rs), sqlite := none } = .ok l ∧
      l.dir.uhashDat = some (encodeText lifetime rs) ∧
      ∃ m, l.dict = .ok m ∧ l.dir.chewingDat = some (.valid m) ∧
        (∀ r ∈ liveRecs rs, find? m (keyOf r) = some (valOf r)) ∧
        (∀ e ∈ m, ∃ r ∈ liveRecs rs, e = (keyOf r, valOf r)) :=
  ⟨_, first_start false none (Or.inl rfl) (text_reader_complete lifetime hl rs hv), rfl, _, rfl, rfl,
    migrate_complete hd, migrate_exact _⟩

/-! ### what the text format cannot express (the class `TextValid` excludes) -/

/-- the FULL statement — over every record the BINARY format can hold — … -/
def TextReaderCompleteFull : Prop :=
  ∀ (lifetime : Int) (rs : List GRec), I64 lifetime → (∀ g ∈ rs, g.Valid) →
    loadUhash (encodeText lifetime rs) = .ok (.ok (liveRecs rs))

/-- a binary-valid record whose phrase contains a blank: "a b", three syllables -/
def sepRec : GRec := ⟨[10268, 8708, 10268], [97, 32, 98], [9, 7, 9, 1], false⟩
/-- a binary-valid record with fewer characters than syllables: "策", two syllables -/
def ccRec : GRec := ⟨[10268, 8708], [0xE7, 0xAD, 0x96], [9, 7, 9, 1], false⟩

/-- `text_separator_refuted`: the blank splits the phrase column ("a", then "b" where a syllable number is
    expected): the line is malformed and the WHOLE file is rejected -/
theorem text_separator_refuted :
    sepRec.Valid ∧ sepRec.live = true ∧ ¬ sepRec.TextValid ∧
    loadUhash (encodeText 0 [sepRec]) = .ok (.error ()) ∧
    loadUhash (encodeText 0 [sepRec]) ≠ .ok (.ok (liveRecs [sepRec])) := by decide

/-- `text_charcount_refuted`: the reader takes as many syllable columns as the phrase has characters — here one —
    so "策 10268 8708 9 7 9 1" is read as a DIFFERENT record: key [10268], frequency 8708, time 9 -/
theorem text_charcount_refuted :
    ccRec.Valid ∧ ccRec.live = true ∧ ¬ ccRec.TextValid ∧
    loadUhash (encodeText 0 [ccRec]) =
      .ok (.ok [{ syls := [10268], phrase := [0xE7, 0xAD, 0x96], freq := 8708, time := 9 }]) ∧
    loadUhash (encodeText 0 [ccRec]) ≠ .ok (.ok (liveRecs [ccRec])) := by decide

/-- … is false; `text_reader_complete` is its `_partial` with the exact class `TextValid` -/
theorem text_reader_complete_full_refuted : ¬ TextReaderCompleteFull := fun h =>
  text_separator_refuted.2.2.2.2 (h 0 [sepRec] (by unfold I64; omega) (fun g hg => by
    rw [List.mem_singleton.mp hg]; exact text_separator_refuted.1))

/-- "0\n策試 10268 8708 -1 7 9 1\n": a negative field as the legacy `%d` would print it -/
def negFile : List Nat :=
  [48, 10, 0xE7, 0xAD, 0x96, 0xE8, 0xA9, 0xA6, 32, 49, 48, 50, 54, 56, 32, 56, 55, 48, 56, 32, 45, 49, 32, 55, 32, 57, 32, 49, 10]

/-- `text_negative_field_rejected`: the text format has no negative fields — such a line rejects the whole file, the
    first start creates an empty dictionary and nothing migrates (also not the other, well-formed lines) -/
theorem text_negative_field_rejected :
    loadUhash negFile = .ok (.error ()) ∧
    load false { chewingDat := none, uhashDat := some negFile, sqlite := none } =
      .ok { dict := .ok [], dir := { chewingDat := some (.valid []), uhashDat := some negFile, sqlite := none } } := by
  have h : loadUhash negFile = .ok (.error ()) := by decide
  refine ⟨h, ?_⟩
  unfold load
  simp [h]

/-! ### non-vacuity of the text theorems -/

/-- the record of the repository fixture `tests/data/golden-uhash-text.dat` -/
def textGolden : GRec := ⟨[10268, 8708], [0xE7, 0xAD, 0x96, 0xE8, 0xA9, 0xA6], [9999, 6, 9999, 9231], false⟩

/-- `encodeText` reproduces the fixture byte for byte (its 37 bytes: "6\n策試 10268 8708 9999 6 9999 9231\n") -/
theorem text_golden_bytes : encodeText 6 [textGolden] =
    [54, 10, 231, 173, 150, 232, 169, 166, 32, 49, 48, 50, 54, 56, 32, 56, 55, 48, 56, 32, 57, 57, 57, 57, 32, 54, 32,
     57, 57, 57, 57, 32, 57, 50, 51, 49, 10] := by decide

example : textGolden.TextValid := by decide
example : I64 6 ∧ I64 (-9223372036854775808) ∧ I64 9223372036854775807 ∧ ¬ I64 9223372036854775808 := by
  unfold I64; omega
example : loadUhash (encodeText 6 [textGolden]) =
    .ok (.ok [{ syls := [10268, 8708], phrase := [0xE7, 0xAD, 0x96, 0xE8, 0xA9, 0xA6], freq := 9999, time := 6 }]) :=
  text_reader_complete 6 (by unfold I64; omega) [textGolden] (fun g hg => by rw [List.mem_singleton.mp hg]; decide)

/-- an 11-syllable record (ten 3-byte characters and a 2-byte one), maximal frequency -/
def textEleven : GRec :=
  ⟨[10268, 8708, 10268, 8708, 10268, 8708, 10268, 8708, 10268, 8708, 10268],
   [0xE7, 0xAD, 0x96, 0xE8, 0xA9, 0xA6, 0xE7, 0xAD, 0x96, 0xE8, 0xA9, 0xA6, 0xE7, 0xAD, 0x96, 0xE8, 0xA9, 0xA6,
    0xE7, 0xAD, 0x96, 0xE8, 0xA9, 0xA6, 0xE7, 0xAD, 0x96, 0xE8, 0xA9, 0xA6, 0xC3, 0xA9],
   [2147483647, 0, 5, 100000], false⟩

example : textEleven.TextValid ∧ textEleven.live = true := by decide
/-- a store with a removed and a negative record in between: they are not written, the others migrate -/
example : liveRecs [textEleven, ⟨[10268], [0xE7, 0xAD, 0x96], [3, 4, 3, 0], true⟩,
    ⟨[8708], [0xE8, 0xA9, 0xA6], [3, 4294967295, 3, 0], false⟩, textGolden] = [textEleven.toRec, textGolden.toRec] := by
  decide
example : (liveRecs [textEleven, textGolden]).Pairwise (fun a b => keyOf a ≠ keyOf b) := by decide
example : natToDigits 0 = [48] ∧ natToDigits 10268 = [49, 48, 50, 54, 56] ∧
    intToDigits (-9223372036854775808) =
      [45, 57, 50, 50, 51, 51, 55, 50, 48, 51, 54, 56, 53, 52, 55, 55, 53, 56, 48, 56] := by decide

/-! ## Not proved (named gaps)

(`TextReaderComplete` — formerly listed here — is now proved for the exact class the text format can express:
section "The text format" above; the statement over ALL binary-valid records, `TextReaderCompleteFull`, is false:
`text_reader_complete_full_refuted`.  Not proved there: the converse "a live record that is not `TextValid` never
round-trips" in general — only the two witnesses — and legacy text files written with OTHER layouts than
blank-separated columns / `\n` or `\r\n` line ends / trailing blanks, e.g. tabs as separators, which the reader model
accepts as well and which are covered by correspondence only.)
`SqliteMigrates`: the current-schema SQLite store is abstract in the model (`sqlite := some (some rows)`
= the rows `SqliteDictionary::entries()` yields); the v1 → v2 migration inside the file has the
relational model of `Model/SqliteV1.lean` (section below), SQLite itself (storage, the SQL engine,
the iteration order of the view) is trusted. -/

/-- the importer treats SQLite rows like hash-file records (model level only) -/
theorem sqlite_rows_imported (d : UserDir) (rows : List Uhash.Rec) (hd : d.chewingDat = none)
    (hs : d.sqlite = some (some rows)) :
    load true d = .ok { dict := .ok (importRecs [] rows), dir := { d with chewingDat := some (.valid (importRecs [] rows)) } } := by
  unfold load
  simp [hd, hs]

/-! ## The older SQLite schema: `userphrase_v1` → joined v2 view (inside the file)

`Model/SqliteV1.lean`: a legacy row = the 16 INTEGER columns + the phrase; the migration reads the
columns its SELECT names (from the source, `Gen/SqliteV1.lean`) at the Rust types it declares, keeps
the non-zero phones, writes `dictionary_v1 ⋈ userphrase_v2`; `entries()` answers
`max(freq, coalesce(user_freq, 0))` and `time` per key. -/
section SqliteV1
open Chewing.SqliteV1

/-- the view `entries()` reads is the one the model joins (`rfl` on the extracted text) -/
theorem sqlite_view_shape :
    Gen.v2ViewCols = "syllables, phrase, max(freq, coalesce(user_freq, 0)), time" ∧
    Gen.v2ViewFrom = "dictionary_v1 LEFT JOIN userphrase_v2 ON userphrase_id = id" := ⟨rfl, rfl⟩

/-- `sqlite_v1_row_complete`: every legacy row with k ≤ 11 non-zero phones (zero-padded, as the C
    library wrote it) is read as exactly its k syllables, its phrase, `orig_freq`, `user_freq`, `time` -/
theorem sqlite_v1_row_complete (g : V1Rec) (h : g.WF) : readRow g.row = .ok g.item := readRow_wf g h

/-- in particular the eleventh syllable of a record of maximal length is read -/
theorem sqlite_v1_row_syllables (g : V1Rec) (h : g.WF) :
    ∃ it, readRow g.row = .ok it ∧ it.syls = g.syls ∧ it.syls.length = g.syls.length :=
  ⟨g.item, readRow_wf g h, rfl, rfl⟩

/-- what the new dictionary must hold for a legacy record: the frequency the joined view answers -/
def v1Val (g : V1Rec) : Val := (max g.orig g.user, g.time)
def v1Key (g : V1Rec) : Key := (g.syls, g.phrase)

/-- the C library never lets the user frequency fall below the original one: the migrated frequency
    IS the user frequency -/
theorem sqlite_v1_user_freq (g : V1Rec) (h : g.orig ≤ g.user) : v1Val g = (g.user, g.time) := by
  simp [v1Val, Nat.max_eq_right h]

/-- `sqlite_v1_rows_complete`: a store of well-formed legacy records with pairwise distinct keys
    migrates (the open succeeds) to a view that holds EVERY record under its full key with its
    frequency and time, and nothing else -/
theorem sqlite_v1_rows_complete (gs : List V1Rec) (hw : ∀ g ∈ gs, g.WF)
    (hd : gs.Pairwise (fun a b => v1Key a ≠ v1Key b)) :
    ∃ m, migrate (gs.map V1Rec.row) = .ok m ∧
      (∀ g ∈ gs, find? m (v1Key g) = some (v1Val g)) ∧
      (∀ e ∈ m, ∃ g ∈ gs, e = (v1Key g, v1Val g)) := by
  refine ⟨importRecs [] ((gs.map V1Rec.item).map Item.toRec), ?_, ?_, ?_⟩
  · unfold migrate
    rw [readAll_wf gs hw]
  · intro g hg
    have hp : ((gs.map V1Rec.item).map Item.toRec).Pairwise (fun a b => keyOf a ≠ keyOf b) := by
      rw [List.map_map, List.pairwise_map]
      exact hd
    exact migrate_complete hp (g.item.toRec) (List.mem_map.mpr ⟨g.item, List.mem_map.mpr ⟨g, hg, rfl⟩, rfl⟩)
  · intro e he
    obtain ⟨r, hr, rfl⟩ := migrate_exact _ e he
    obtain ⟨it, hit, rfl⟩ := List.mem_map.mp hr
    obtain ⟨g, hg, rfl⟩ := List.mem_map.mp hit
    exact ⟨g, hg, rfl⟩

/-- without distinctness: the LAST row of a key wins (`INSERT OR REPLACE`) -/
theorem sqlite_v1_last_wins (gs : List V1Rec) (hw : ∀ g ∈ gs, g.WF) (k : Key) :
    ∃ m, migrate (gs.map V1Rec.row) = .ok m ∧
      find? m k = lastVal k ((gs.map V1Rec.item).map Item.toRec) none := by
  refine ⟨_, ?_, migrate_last_wins _ k⟩
  unfold migrate
  rw [readAll_wf gs hw]

/-- the whole first start over a directory that holds only a legacy v1 store: whatever order the view is
    iterated in (`es` = any list that represents the migrated map), the new dictionary is stored, the legacy
    file is not touched by the loader, and every legacy record is found with its frequency and time -/
theorem sqlite_v1_first_start (gs : List V1Rec) (hw : ∀ g ∈ gs, g.WF)
    (hd : gs.Pairwise (fun a b => v1Key a ≠ v1Key b)) (es : List Uhash.Rec) (u : Option (List Nat)) :
    ∃ m, migrate (gs.map V1Rec.row) = .ok m ∧
      ((∀ k, lastVal k es none = find? m k) →
        ∃ l, load true { chewingDat := none, uhashDat := u, sqlite := some (some es) } = .ok l ∧
          l.dir.sqlite = some (some es) ∧ l.dir.uhashDat = u ∧
          ∃ m', l.dict = .ok m' ∧ l.dir.chewingDat = some (.valid m') ∧
            ∀ g ∈ gs, find? m' (v1Key g) = some (v1Val g)) := by
  obtain ⟨m, hm, hc, _⟩ := sqlite_v1_rows_complete gs hw hd
  refine ⟨m, hm, fun hrep => ⟨_, sqlite_rows_imported _ es rfl rfl, rfl, rfl, _, rfl, rfl, ?_⟩⟩
  intro g hg
  rw [migrate_last_wins, hrep, hc g hg]

/-- a number the declared Rust type cannot hold (here a negative `user_freq`) fails the whole open:
    nothing is migrated from such a store (it is not a valid legacy store) -/
theorem sqlite_v1_unreadable_rejected :
    migrate [mkRow 7 1 1 1 1 [10268] [0xE5, 0x86, 0x8A],
             { ints := [3, -1, 9, 9, 2, 10268, 8708, 0, 0, 0, 0, 0, 0, 0, 0, 0], phrase := [0xE6, 0xB8, 0xAC, 0xE8, 0xA9, 0xA6] }]
      = .error () := by decide

/-- a zero phone before the end is skipped, not a terminator (the code filters, it does not stop) -/
theorem sqlite_v1_hole_skipped :
    (readRow { ints := [3, 9, 9, 9, 2, 10268, 0, 8708, 0, 0, 0, 0, 0, 0, 0, 0], phrase := [0xE6, 0xB8, 0xAC, 0xE8, 0xA9, 0xA6] }).map (·.syls)
      = .ok [10268, 8708] := by decide

/-- a phone that is not a syllable code (C13 F47: `0x6a07`, `0x8208`, …) or is the empty syllable `0x8000` is skipped
    like the zero padding — such a row is not a valid legacy record (`V1Rec.WF.syl_valid`) -/
theorem sqlite_v1_invalid_phone_skipped :
    (readRow { ints := [3, 9, 9, 9, 3, 10268, 27143, 8708, 33288, 32768, 0, 0, 0, 0, 0, 0], phrase := [0xE6, 0xB8, 0xAC, 0xE8, 0xA9, 0xA6] }).map (·.syls)
      = .ok [10268, 8708] := by decide

/-- non-vacuity: an 11-syllable record is well-formed, and its row has all eleven phone columns set -/
def v1Eleven : V1Rec :=
  { syls := [10268, 8708, 10268, 8708, 10268, 8708, 10268, 8708, 10268, 8708, 10268], phrase := [0xE5, 0x86, 0x8A],
    orig := 1, user := 5, maxf := 5, len := 11, time := 99 }

example : v1Eleven.WF := ⟨by decide, by decide, by decide, by decide, by decide, by decide, by decide⟩
example : (readRow v1Eleven.row).map (·.syls.length) = .ok 11 := by
  rw [sqlite_v1_row_complete v1Eleven ⟨by decide, by decide, by decide, by decide, by decide, by decide, by decide⟩]; rfl
example : [v1Eleven].Pairwise (fun a b => v1Key a ≠ v1Key b) := by simp

end SqliteV1

/-! ## Non-vacuity -/

example : (⟨[10268, 8708], [0xE7, 0xAD, 0x96, 0xE8, 0xA9, 0xA6], [9, 7, 9, 1], false⟩ : GRec).Valid := by
  decide

/-- a two-record store (one live, one removed) and its first start -/
example : liveRecs [⟨[10268, 8708], [0xE7, 0xAD, 0x96, 0xE8, 0xA9, 0xA6], [9, 7, 9, 1], false⟩,
    ⟨[10268], [0xE7, 0xAD, 0x96], [3, 4, 3, 0], true⟩] =
    [{ syls := [10268, 8708], phrase := [0xE7, 0xAD, 0x96, 0xE8, 0xA9, 0xA6], freq := 9, time := 7 }] := by decide

end Chewing.C19
