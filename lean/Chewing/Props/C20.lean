import Chewing.Proofs.CliFile
import Chewing.Proofs.CliSqlOrder
import Chewing.Proofs.CliAccept
import Chewing.Proofs.CliRaw
import Chewing.Proofs.CliLeaf
import Chewing.Proofs.CliTrieLink
import Chewing.Proofs.CliTrieOrder
import Chewing.Proofs.CliSylValid
/-!
# C20 — The dictionary compiler and dumper are inverse on well-formed sources

Model: `Chewing.Model.Cli` — `parse_line`, the `init-database` loop, `dump` (both formats) as coded in
`tools/src/{init_database,dump}.rs` (delimiters, quote / comment characters, skipped fields, line-number
base and dump format strings regenerated from the source into `Chewing.Gen.CliFormat`), and the two
builders at the level of entry lists (`TrieBuilder::insert` + `Trie::entries`,
`SqliteDictionaryBuilder::insert` + `entries()` + lookup order).  The syllable fields go through the C13
model (`Chewing.parse` / `Chewing.spell`).

How the statement is carried
* "compiling and dumping reproduces every record of the source":
  `parse_dump` / `parse_source_line` (a well-formed line parses to its record, one-character
  frequencies zeroed unless kept), `inserted_are_valid_records` (the builder gets exactly the records
  of the parsing lines), `dump_lists_last_records` (both back ends enumerate exactly the last record of
  every (syllables, phrase) pair), `dump` = one `dumpLine` per enumerated entry (definition);
* the whole statement for a file: `wellformed_source_roundtrip` (any file of well-formed free-style lines,
  LF / CRLF / no final newline, both back ends, all flags: compiles, the dump lists exactly its last
  records, the dump text compiles to the same entries and dumps to the same text again, lookups agree
  outside the exact class of F34);
* "compiling the dump again yields an equivalent dictionary": `dump_compile_roundtrip` (nothing is
  reported, the same entries come out in the same order — trie and SQLite), `recompiled_lookup_trie`
  (every key looks up the same phrases in the same order), `recompiled_lookup_iff` (exactly when);
* "a malformed line is reported with its line number and no output file is produced unless skipping
  was requested": `malformed_full` (every line outside the documented format is rejected — full strength
  since the fixes of F27), `malformed_reported` / `malformed_reported_full`, `reported_iff`,
  `skip_invalid_keeps_valid`; at the level of bytes (lines that are not valid UTF-8 included, fix of F45)
  `malformed_reported_bytes`, `invalid_utf8_reported`, `skip_invalid_full`, `raw_run_is_text_run`.

Fixed (the theorems that were refuted + partial are now proved at full strength):
* F27 `no-syllables`, `length-mismatch`, `empty-phrase`, `phrase-whitespace`, `word-freq-unchecked` — `parse_line`
  rejects these lines now: `malformed_full` (was `malformed_full_refuted` / `malformed_reported_partial`),
  `f27_witnesses_rejected`; consequently whatever the compiler accepts from a source without the first-tone
  mark is a well-formed record (`entries_wellFormed_of_source` has lost its hypothesis on the phrases);
* F45 `invalid-utf8` — a line that is not valid UTF-8 is reported with its number and skipped by
  `--skip-invalid`: `skip_invalid_full` (was `skip_invalid_full_refuted` / `skip_invalid_partial`).

Known findings (the unchanged code violates the full-strength statements; each has a refutation with
a concrete witness and a partial theorem that excludes exactly the class):
* F18 `F18-tone1`: accepted lines whose dump does not read back —
  `roundtrip_full_refuted`, `dump_compile_roundtrip` (hypothesis `WellFormedRecord`),
  `dump_compile_roundtrip_source` (hypothesis: no first-tone mark in the source — the only excluded class);
* F34 `F34-sqlite-order`: the SQLite file compiled from the dump lists the candidates of a one-syllable
  key in ascending order of their text instead of insertion order — `recompiled_lookup_sqlite_refuted`,
  `recompiled_lookup_sqlite_single` (what it answers), `recompiled_lookup_iff` (exact class `F34Changes`),
  `recompiled_lookup_partial`.
-/
namespace Chewing.C20
open Chewing Chewing.Cli Gen

/-! ## 1. one line: `parse_line` reads back what `dump` writes -/

/-- **parse_dump** — for every well-formed record (any non-empty phrase without comma / whitespace and
    without a quote at either end, any `u32` frequency, one syllable per character of the phrase, each of
    which spells and parses back) the
    dumped line parses to the record, with the one-character frequency rule applied; for the plain
    dump read with `' '` and for the CSV dump read with `','` -/
theorem parse_dump (keep : Bool) (r : Rec) (h : WellFormedRecord r) :
    parseLine cliSsvDelim keep (dumpLine r) = .ok (zeroFreq keep r) ∧
    parseLine cliCsvDelim keep (dumpCsvLine r) = .ok (zeroFreq keep r) :=
  ⟨parse_dump_ssv keep r h, parse_dump_csv keep r h⟩

/-- distinct well-formed records are dumped as distinct lines (both formats): the dump loses nothing -/
theorem dumpLine_injective {r r' : Rec} (h : WellFormedRecord r) (h' : WellFormedRecord r') :
    (dumpLine r = dumpLine r' → r = r') ∧ (dumpCsvLine r = dumpCsvLine r' → r = r') := by
  have z : ∀ x : Rec, zeroFreq true x = x := fun x => by simp [zeroFreq]
  constructor
  · intro e
    have a := (parse_dump true r h).1
    have b := (parse_dump true r' h').1
    rw [e, b, z, z] at a
    exact (Except.ok.inj a).symm
  · intro e
    have a := (parse_dump true r h).2
    have b := (parse_dump true r' h').2
    rw [e, b, z, z] at a
    exact (Except.ok.inj a).symm

/-- what `WellFormedRecord` says, spelled out -/
theorem wellFormedRecord_iff {r : Rec} : WellFormedRecord r ↔
    (r.phrase ≠ [] ∧ r.phrase.head? ≠ some cliQuote ∧ r.phrase.getLast? ≠ some cliQuote ∧
      (∀ c ∈ r.phrase, sylSep c = false)) ∧ r.freq < 4294967296 ∧
    (∀ c ∈ r.syls, Chewing.parse (spell c) = .ok c ∧ spell c ≠ []) ∧
    r.syls ≠ [] ∧ r.syls.length = r.phrase.length := wellFormed_iff

/-- every syllable composed from components (C13) other than the empty one qualifies -/
theorem composable_sylOK {c : Nat} (h : C13.Composable c) (hne : spell c ≠ []) : sylOK c = true := by
  simp [sylOK, C13.parse_spell h, hne]

/-- **parse_source_line** — the same for a source line in free style: optional quotes around the phrase and
    around the frequency, runs of the delimiter between the fields, any run of commas / whitespace between
    the syllables, an optional trailing `# comment` of arbitrary text; `' '` and `','` both qualify as `d` -/
theorem parse_source_line (d : Nat) (keep qp qf : Bool) (g1 g2 gs : Text) (cm : Option (Text × Text)) (r : Rec)
    (h : WellFormedRecord r) (hd : sylSep d = true)
    (hg1 : g1 ≠ [] ∧ ∀ c ∈ g1, c = d) (hg2 : g2 ≠ [] ∧ ∀ c ∈ g2, c = d)
    (hgs : gs ≠ [] ∧ AllSep sylSep gs) (hcm : ∀ gc c, cm = some (gc, c) → gc ≠ [] ∧ AllSep sylSep gc) :
    parseLine d keep (renderLine qp qf g1 g2 gs cm r) = .ok (zeroFreq keep r) :=
  parse_renderLine d keep qp qf g1 g2 gs cm r h hd hg1 hg2 hgs hcm

/-- … and with one pair of quotes around everything after the frequency (`qs`), the CSV style of the
    repository's fourth parser test `"鑰匙",668,"ㄧㄠˋ ㄔˊ # not official"` -/
theorem parse_source_line_quoted (d : Nat) (keep qp qf qs : Bool) (g1 g2 gs : Text) (cm : Option (Text × Text)) (r : Rec)
    (h : WellFormedRecord r) (hd : sylSep d = true)
    (hg1 : g1 ≠ [] ∧ ∀ c ∈ g1, c = d) (hg2 : g2 ≠ [] ∧ ∀ c ∈ g2, c = d)
    (hgs : gs ≠ [] ∧ AllSep sylSep gs) (hcm : ∀ gc c, cm = some (gc, c) → gc ≠ [] ∧ AllSep sylSep gc) :
    parseLine d keep (renderLineQ qp qf qs g1 g2 gs cm r) = .ok (zeroFreq keep r) :=
  parse_renderLineQ d keep qp qf qs g1 g2 gs cm r h hd hg1 hg2 hgs hcm

/-- quotes around any text after the frequency are invisible to the syllable loop of `parse_line` -/
theorem quoted_syllable_fields (s : Text) :
    parseSyls (tokens sylSep (cliQuote :: (s ++ [cliQuote]))) = parseSyls (tokens sylSep s) :=
  parseSyls_tokens_quoted quote_not_sep s

/-- token-level reading (covers every other style, e.g. one pair of quotes around all syllables and the
    comment): if the first two delimiter fields strip to the phrase (not empty, no comma / whitespace) and
    a `u32` and the remaining syllable fields parse to `syls`, one per character, the line parses to that
    record -/
theorem parse_tokens {d : Nat} {keep : Bool} {line fp ff p : Text} {rest1 : List Text} {f : Nat}
    {syls : List Nat} (h1 : tokens (· == d) line = fp :: ff :: rest1) (hp : trimQ fp = p)
    (hf : parseU32 (trimQ ff) = some f) (hs : parseSyls ((tokens sylSep line).drop 2) = .ok syls)
    (hpne : p ≠ []) (hpsep : ∀ c ∈ p, sylSep c = false) (hsne : syls ≠ []) (hlen : syls.length = p.length) :
    parseLine d keep line = .ok (zeroFreq keep ⟨p, f, syls⟩) :=
  parseLine_of_tokens h1 hp hf hs hpne hpsep hsne hlen

/-- the four parser unit tests of `tools/src/init_database.rs`, evaluated in the model:
    `鑰匙 668 ㄧㄠˋ ㄔˊ # not official`, the same with five spaces, `鑰匙,668,ㄧㄠˋ ㄔˊ # not official`,
    `"鑰匙",668,"ㄧㄠˋ ㄔˊ # not official"` -/
theorem repo_unit_tests :
    let cm : Text := [32, 35, 32, 110, 111, 116, 32, 111, 102, 102, 105, 99, 105, 97, 108]
    let want : Except LineErr Rec := .ok ⟨[38000, 21273], 668, [188, 8194]⟩
    parseLine 32 false ([38000, 21273, 32, 54, 54, 56, 32, 12583, 12576, 715, 32, 12564, 714] ++ cm) = want ∧
    parseLine 32 false ([38000, 21273, 32, 32, 32, 32, 32, 54, 54, 56, 32, 12583, 12576, 715, 32, 12564, 714] ++ cm) = want ∧
    parseLine 44 false ([38000, 21273, 44, 54, 54, 56, 44, 12583, 12576, 715, 32, 12564, 714] ++ cm) = want ∧
    parseLine 44 false ([34, 38000, 21273, 34, 44, 54, 54, 56, 44, 34, 12583, 12576, 715, 32, 12564, 714] ++ cm ++ [34]) = want := by
  decide

/-- the one-character rule: a record that went through the compiler keeps its frequency only if
    the phrase is not a single character or `--keep-word-freq` was given -/
theorem compiled_frequency {d : Nat} {keep : Bool} {l : Text} {r : Rec} (h : parseLine d keep l = .ok r) :
    r.phrase.length = 1 → keep = false → r.freq = 0 := by
  intro h1 hk
  have := parseLine_zeroFreq h
  unfold zeroFreq at this
  have hw : (r.phrase.length == 1 && !keep) = true := by simp [h1, hk]
  rw [if_pos hw] at this
  have := congrArg Rec.freq this
  simpa using this.symm

/-! ## 2. the dump lists the records of the source -/

/-- the builder receives exactly the records of the lines that parse, in file order (all of them
    when nothing fails or `--skip-invalid` is given; otherwise nothing is built) -/
theorem inserted_are_valid_records (f : Flags) (src : List Text) :
    (compileRun f src).inserted =
      if (compileRun f src).reported ≠ [] ∧ f.skip = false then none else some (validRecs f src) :=
  compileRun_inserted f src

/-- **both back ends enumerate exactly the last record of every (syllables, phrase) pair** that was
    inserted (a duplicate replaces the earlier record; nothing else is lost or invented) -/
theorem dump_lists_last_records (db : Db) (rs : List Rec) (x : Rec) : x ∈ entries db rs ↔ LastWins rs x := by
  cases db with
  | trie => exact mem_trie_entries_iff rs x
  | sqlite => exact mem_sql_entries_iff rs x

/-! ## 3. compiling the dump again -/

/-- full-strength round trip over *everything* the compiler accepts -/
def RoundTripFull : Prop :=
  ∀ (db : Db) (f : Flags) (src : List Text) (ins : List Rec), (compileRun f src).inserted = some ins →
    compileRun f (dump f.csv (entries db ins)) = { reported := [], inserted := some (entries db ins) }

/-- refuted on the unchanged tree (F18): `吧 3 ㄅㄚˉ` compiles to the syllable 0x20d, is dumped as
    `吧 0 ㄅㄚ` and compiles again to 0x208 -/
theorem roundtrip_full_refuted : ¬ RoundTripFull := by
  intro h
  have := h .trie ⟨false, false, false⟩ [[21543, 32, 51, 32, 12549, 12570, 713]] [⟨[21543], 0, [525]⟩] (by decide)
  revert this
  decide

/-- entries dump and read back unchanged: they satisfy `WellFormedRecord`; the frequency rule is
    already applied to whatever the compiler inserted -/
theorem entries_dumpable (db : Db) (f : Flags) (src : List Text) (ins : List Rec)
    (hc : (compileRun f src).inserted = some ins) (hwf : ∀ r ∈ entries db ins, WellFormedRecord r) :
    ∀ r ∈ entries db ins, Dumpable f.keep r := by
  intro r hr
  refine ⟨hwf r hr, ?_⟩
  obtain ⟨pre, post, e, _⟩ := (dump_lists_last_records db ins r).mp hr
  have hmem : r ∈ ins := by rw [e]; simp
  have hv : ins = validRecs f src := by
    have := inserted_are_valid_records f src
    rw [hc] at this
    split at this
    · cases this
    · exact Option.some.inj this
  exact validRecs_zeroFreq (hv ▸ hmem)

/-- **dump_compile_roundtrip** — for both back ends, both formats and all flags: if the source compiles
    and its entries are well-formed records, then compiling the dump (same `--csv`, same
    `--keep-word-freq`) reports nothing, inserts exactly the dumped entries in dump order, and building
    and enumerating again gives the same entries **in the same order**
    (`entries (compile (dump (compile src))) = entries (compile src)`) -/
theorem dump_compile_roundtrip (db : Db) (f : Flags) (src : List Text) (ins : List Rec)
    (hc : (compileRun f src).inserted = some ins) (hwf : ∀ r ∈ entries db ins, WellFormedRecord r) :
    compileRun f (dump f.csv (entries db ins)) = { reported := [], inserted := some (entries db ins) } ∧
    entries db (entries db ins) = entries db ins := by
  refine ⟨compileRun_dump f _ (entries_dumpable db f src ins hc hwf), ?_⟩
  cases db with
  | trie => exact trie_roundtrip (trieBuild_inv ins)
  | sqlite => exact sql_roundtrip (sqlBuild_inv ins)

/-- the same through `compile` (the `Except` view: `.ok` = exit status 0) -/
theorem dump_compile_roundtrip_except (db : Db) (f : Flags) (src : List Text) (ins : List Rec)
    (hc : compile f src = .ok ins) (hwf : ∀ r ∈ entries db ins, WellFormedRecord r) :
    ∃ ins', compile f (dump f.csv (entries db ins)) = .ok ins' ∧ entries db ins' = entries db ins := by
  have hc' : (compileRun f src).inserted = some ins := by
    unfold compile at hc
    split at hc
    · rename_i rs h; cases hc; exact h
    · cases hc
  obtain ⟨h1, h2⟩ := dump_compile_roundtrip db f src ins hc' hwf
  exact ⟨entries db ins, by simp [compile, h1], h2⟩

/-- the hypothesis of the round trip from ONE fact about the source text: no line contains the first-tone
    mark `ˉ` (F18).  (Before the fixes of F27 a second hypothesis was needed: every compiled phrase non-empty
    and without comma / whitespace.) -/
theorem entries_wellFormed_of_source (db : Db) (f : Flags) (src : List Text) (ins : List Rec)
    (hc : (compileRun f src).inserted = some ins) (hno : ∀ l ∈ src, ∀ c ∈ l, c ≠ 713) :
    ∀ r ∈ entries db ins, WellFormedRecord r := by
  intro r hr
  obtain ⟨pre, post, e, _⟩ := (dump_lists_last_records db ins r).mp hr
  have hmem : r ∈ ins := by rw [e]; simp
  have hv : ins = validRecs f src := by
    have := inserted_are_valid_records f src
    rw [hc] at this
    split at this
    · cases this
    · exact Option.some.inj this
  rw [hv] at hmem
  obtain ⟨l, hl, hok⟩ := List.mem_filterMap.mp hmem
  have hsrc : l ∈ src := by
    unfold body at hl
    split at hl
    · exact List.mem_of_mem_drop hl
    · exact hl
  unfold okRec at hok
  split at hok
  · rename_i r' hp
    cases hok
    exact parsed_wellFormed hp (hno l hsrc)
  · cases hok

/-- **the round trip from the source** — for EVERYTHING the compiler accepts from a source without the
    first-tone mark (the exact class of F18, the only one left): `dump_compile_roundtrip` with its hypothesis
    discharged by `entries_wellFormed_of_source`, and the dump taken through the file (`writeln!` /
    `BufRead::lines`) -/
theorem dump_compile_roundtrip_source (db : Db) (f : Flags) (src : List Text) (ins : List Rec)
    (hc : (compileRun f src).inserted = some ins) (hno : ∀ l ∈ src, ∀ c ∈ l, c ≠ 713) :
    compileRun f (readLines (writeLines (dump f.csv (entries db ins)))) =
      { reported := [], inserted := some (entries db ins) } ∧
    entries db (entries db ins) = entries db ins := by
  have hwf := entries_wellFormed_of_source db f src ins hc hno
  rw [dump_file_roundtrip f.csv _ hwf]
  exact dump_compile_roundtrip db f src ins hc hwf

/-- trie: the recompiled dictionary answers every lookup with the same phrases in the same order -/
theorem recompiled_lookup_trie (ins : List Rec) (k : Key) :
    dictLookup .trie (entries .trie ins) k = dictLookup .trie ins k :=
  trie_roundtrip_lookup (trieBuild_inv ins) k

/-- "equivalent dictionary" in the sense of lookup order, for every back end -/
def RecompiledLookupFull : Prop :=
  ∀ (db : Db) (ins : List Rec) (k : Key), dictLookup db (entries db ins) k = dictLookup db ins k

/-- refuted for SQLite (F34): `測 冊 策 側` under ㄘㄜˋ come back as `側 冊 測 策`, because the dump is
    in primary-key order and `sort_id` is assigned in insertion order -/
theorem recompiled_lookup_sqlite_refuted : ¬ RecompiledLookupFull := by
  intro h
  have := h .sqlite [⟨[28204], 0, [10268]⟩, ⟨[20874], 0, [10268]⟩, ⟨[31574], 0, [10268]⟩, ⟨[20596], 0, [10268]⟩] [10268]
  revert this
  decide

/-- the exact class of F34: the SQLite back end and a key of exactly one syllable -/
def KnownF34 (db : Db) (k : Key) : Prop := db = .sqlite ∧ k.length = 1

/-- **recompiled_lookup_partial** — outside that class the recompiled dictionary answers every lookup with
    the same phrases in the same order (trie: all keys; SQLite: every key that is not one syllable long) -/
theorem recompiled_lookup_partial (db : Db) (ins : List Rec) (k : Key) (h : ¬ KnownF34 db k) :
    dictLookup db (entries db ins) k = dictLookup db ins k := by
  cases db with
  | trie => exact recompiled_lookup_trie ins k
  | sqlite => exact sql_roundtrip_lookup ins k (fun e => h ⟨rfl, e⟩)

example : KnownF34 .sqlite [10268] := ⟨rfl, rfl⟩

/-- **F34, what the recompiled SQLite file answers**: a one-syllable key lists its phrases in ascending
    (bytewise) order of their text — the primary-key order of the dump has become the `sort_id` order -/
theorem recompiled_lookup_sqlite_single (ins : List Rec) (k : Key) (hk : k.length = 1) :
    dictLookup .sqlite (entries .sqlite ins) k = insSort pfLe (dictLookup .sqlite ins k) :=
  sql_recompiled_lookup_single ins k hk

/-- the exact class of F34: SQLite, a one-syllable key, and candidates that are not in ascending order of
    their text -/
def F34Changes (db : Db) (ins : List Rec) (k : Key) : Prop :=
  db = .sqlite ∧ k.length = 1 ∧ ¬ (dictLookup .sqlite ins k).Pairwise (fun a b => pfLe a b = true)

/-- **recompiled_lookup_iff** — the recompiled dictionary answers a key with the same phrases in the same
    order **iff** the key is outside that class (both back ends, every key, every list of records) -/
theorem recompiled_lookup_iff (db : Db) (ins : List Rec) (k : Key) :
    dictLookup db (entries db ins) k = dictLookup db ins k ↔ ¬ F34Changes db ins k := by
  cases db with
  | trie => exact ⟨fun _ h => (by cases h.1), fun _ => recompiled_lookup_trie ins k⟩
  | sqlite =>
    by_cases hk : k.length = 1
    · have := sql_single_lookup_preserved_iff ins k hk
      constructor
      · intro h hc
        exact hc.2.2 (this.mp h)
      · intro h
        apply this.mpr
        exact Classical.byContradiction fun hn => h ⟨rfl, hk, hn⟩
    · exact ⟨fun _ h => hk h.2.1, fun _ => sql_roundtrip_lookup ins k hk⟩

/-- the F34 witness is in the class, a sorted one (`側 冊` under ㄘㄜˋ) is not -/
example : F34Changes .sqlite [⟨[28204], 0, [10268]⟩, ⟨[20874], 0, [10268]⟩] [10268] := by
  refine ⟨rfl, rfl, ?_⟩
  decide
example : ¬ F34Changes .sqlite [⟨[20596], 0, [10268]⟩, ⟨[20874], 0, [10268]⟩] [10268] := by
  rintro ⟨_, _, h⟩
  exact h (by decide)

/-! ## 3b. the whole statement for a source file of well-formed lines -/

/-- **wellformed_source_roundtrip** — for every source file made of well-formed lines in free style
    (`SrcLine`: optional quotes around phrase, frequency and the syllable part, runs of the delimiter, any commas / whitespace
    between syllables, optional `# comment`; duplicates, homophones and prefix keys allowed; with `--csv`
    any header line), written with LF line ends, for both back ends and all flags:
    1. the file compiles — nothing is reported, every line's record is inserted (one-character frequencies
       zeroed unless `--keep-word-freq`);
    2. the built dictionary enumerates exactly the last record of every (syllables, phrase) pair;
    3. the dump text, compiled again with the same flags, reports nothing and inserts exactly the dumped
       entries; building and dumping again gives the same entries in the same order (same dump text);
    4. every key outside the exact class of F34 looks up the same phrases in the same order in the
       recompiled dictionary. -/
theorem wellformed_source_roundtrip (db : Db) (f : Flags) (hdr : Text) (ls : List SrcLine)
    (hok : ∀ l ∈ ls, l.OK f.delim) (hfile : ∀ t ∈ sourceLines f hdr ls, FileLine t) :
    compileRun f (readLines (writeLines (sourceLines f hdr ls))) =
        { reported := [], inserted := some (sourceRecs f ls) } ∧
    (∀ x, x ∈ entries db (sourceRecs f ls) ↔ LastWins (sourceRecs f ls) x) ∧
    compileRun f (readLines (writeLines (dump f.csv (entries db (sourceRecs f ls))))) =
        { reported := [], inserted := some (entries db (sourceRecs f ls)) } ∧
    dump f.csv (entries db (entries db (sourceRecs f ls))) = dump f.csv (entries db (sourceRecs f ls)) ∧
    ∀ k, ¬ F34Changes db (sourceRecs f ls) k →
      dictLookup db (entries db (sourceRecs f ls)) k = dictLookup db (sourceRecs f ls) k := by
  have hd := sourceRecs_dumpable f ls hok
  have hde : ∀ r ∈ entries db (sourceRecs f ls), Dumpable f.keep r := by
    intro r hr
    obtain ⟨pre, post, e, _⟩ := (dump_lists_last_records db _ r).mp hr
    exact hd r (by rw [e]; simp)
  have hrt : entries db (entries db (sourceRecs f ls)) = entries db (sourceRecs f ls) := by
    cases db with
    | trie => exact trie_roundtrip (trieBuild_inv _)
    | sqlite => exact sql_roundtrip (sqlBuild_inv _)
  refine ⟨?_, dump_lists_last_records db _, ?_, by rw [hrt], fun k hk => (recompiled_lookup_iff db _ k).mpr hk⟩
  · rw [readLines_writeLines _ hfile]
    exact compileRun_wellformed f hdr ls hok
  · rw [dump_file_roundtrip f.csv _ (fun r hr => (hde r hr).1)]
    exact compileRun_dump f _ hde

/-- the same source with CRLF line ends, or without a line end after the last line, compiles to the same
    result (`BufRead::lines` drops one carriage return before the line feed) -/
theorem wellformed_source_line_ends (f : Flags) (hdr : Text) (ls : List SrcLine)
    (hok : ∀ l ∈ ls, l.OK f.delim) (hfile : ∀ t ∈ sourceLines f hdr ls, FileLine t) :
    compileRun f (readLines (writeLinesCrlf (sourceLines f hdr ls))) =
        { reported := [], inserted := some (sourceRecs f ls) } ∧
    ∀ (init : List Text) (last : Text), sourceLines f hdr ls = init ++ [last] → last ≠ [] →
      compileRun f (readLines (writeLines init ++ last)) = { reported := [], inserted := some (sourceRecs f ls) } := by
  constructor
  · rw [readLines_writeLinesCrlf _ (fun l hl => (hfile l hl).1)]
    exact compileRun_wellformed f hdr ls hok
  · intro init last e hne
    rw [readLines_no_final_newline init last (fun x hx => hfile x (by rw [e]; simp [hx]))
      (hfile last (by rw [e]; simp)).1 hne, ← e]
    exact compileRun_wellformed f hdr ls hok

/-! ## 4. malformed lines -/

/-- **malformed_reported** — a line (not the skipped CSV header) that `parse_line` rejects is reported
    with its 1-based line number, and without `--skip-invalid` nothing is built (exit status 1, no
    output file) -/
theorem malformed_reported (f : Flags) (src : List Text) (i : Nat) (l : Text) (e : LineErr)
    (hl : src[i]? = some l) (hh : f.csv = true → i ≠ 0) (hbad : parseLine f.delim f.keep l = .error e) :
    (i + 1, e) ∈ (compileRun f src).reported ∧ (f.skip = false → (compileRun f src).inserted = none) := by
  obtain ⟨k, hk, hb⟩ := body_get f src i hh
  have hm : (i + 1, e) ∈ (compileRun f src).reported :=
    (mem_reported f src (i + 1) e).mpr ⟨k, l, by rw [hb, hl], by omega, hbad⟩
  refine ⟨hm, fun hs => ?_⟩
  rw [inserted_are_valid_records, if_pos ⟨List.ne_nil_of_mem hm, hs⟩]

/-- exactly the rejected lines are reported: no line that parses is ever reported, and no number
    other than a rejected line's -/
theorem reported_iff (f : Flags) (src : List Text) (n : Nat) (e : LineErr) :
    (n, e) ∈ (compileRun f src).reported ↔
      ∃ i l, src[i]? = some l ∧ (f.csv = true → i ≠ 0) ∧ n = i + 1 ∧ parseLine f.delim f.keep l = .error e := by
  rw [mem_reported]
  constructor
  · rintro ⟨k, l, h1, h2, h3⟩
    refine ⟨bodyStart f + k, l, ?_, ?_, h2, h3⟩
    · cases hc : f.csv with
      | false => simpa [body, bodyStart, hc] using h1
      | true =>
        simp only [body, hc, if_true, List.getElem?_drop] at h1
        simpa [bodyStart, hc] using h1
    · intro hc; simp [bodyStart, hc]
  · rintro ⟨i, l, h1, h2, h3, h4⟩
    obtain ⟨k, hk, hb⟩ := body_get f src i h2
    exact ⟨k, l, by rw [hb, h1], by omega, h4⟩

/-- **accepted_iff** — the malformed-source stream, exactly: `parse_line` accepts a line iff (1) it has two
    non-empty delimiter-separated fields, (2) the first strips to a non-empty phrase without comma / whitespace,
    (3) the second strips to a `u32` — with or without `--keep-word-freq`, (4) every syllable field
    (`sylFields`: fields after the first two, stripped, empty ones dropped, up to the first one starting
    with `#`) is an ordered Bopomofo syllable, (5) there is at least one, and as many as the phrase has
    characters.  By `reported_iff` every other line — and no accepted one — is reported with its number. -/
theorem accepted_iff (d : Nat) (keep : Bool) (l : Text) :
    (∃ r, parseLine d keep l = .ok r) ↔
      ∃ f0 f1 fs, tokens (· == d) l = f0 :: f1 :: fs ∧
        trimQ f0 ≠ [] ∧ (∀ c ∈ trimQ f0, sylSep c = false) ∧ (parseU32 (trimQ f1)).isSome = true ∧
        (∀ s ∈ sylFields l, ∃ c, Chewing.parse s = .ok c) ∧
        sylFields l ≠ [] ∧ (sylFields l).length = (trimQ f0).length :=
  Cli.accepted_iff d keep l

/-- … and each reported cause names the defect: no field at all; a phrase of nothing but quotes; a comma or
    whitespace in the phrase; no second field; a second field that is not a `u32`; a syllable field that is not
    a syllable; no syllable field; a number of syllable fields other than the number of characters.  (The
    tenth cause, `invalidUtf8`, belongs to the read loop, not to `parse_line`.) -/
theorem rejected_cause (d : Nat) (keep : Bool) (l : Text) (e : LineErr) (h : parseLine d keep l = .error e) :
    (e = .noPhrase → tokens (· == d) l = []) ∧
    (e = .emptyPhrase → ∃ f0 fs, tokens (· == d) l = f0 :: fs ∧ trimQ f0 = []) ∧
    (e = .phraseSep → ∃ f0 fs, tokens (· == d) l = f0 :: fs ∧ ∃ c ∈ trimQ f0, sylSep c = true) ∧
    (e = .noFreq → ∃ f0, tokens (· == d) l = [f0]) ∧
    (e = .badFreq → ∃ f0 f1 fs, tokens (· == d) l = f0 :: f1 :: fs ∧ parseU32 (trimQ f1) = none) ∧
    (e = .bopomofo ∨ e = .syllable → ∃ s ∈ sylFields l, ∃ e', Chewing.parse s = .error e') ∧
    (e = .noSyllables → sylFields l = []) ∧
    (e = .lengthMismatch → ∃ f0 fs, tokens (· == d) l = f0 :: fs ∧ (sylFields l).length ≠ (trimQ f0).length) ∧
    e ≠ .invalidUtf8 :=
  Cli.rejected_cause d keep l e h

/-- **skip_invalid_keeps_valid** — with `--skip-invalid` the tool always builds, from exactly the
    records of the lines that parse, in file order -/
theorem skip_invalid_keeps_valid (f : Flags) (src : List Text) (hs : f.skip = true) :
    (compileRun f src).inserted = some (validRecs f src) := by
  rw [inserted_are_valid_records]
  simp [hs]

/-- a source without rejected lines builds with or without the flag -/
theorem clean_source_builds (f : Flags) (src : List Text) (h : (compileRun f src).reported = []) :
    (compileRun f src).inserted = some (validRecs f src) := by
  rw [inserted_are_valid_records]
  simp [h]

/-- a line in the documented format: it parses even when the frequency is checked
    (`--keep-word-freq`), has a phrase without comma / white space, at least one syllable, and one syllable
    per character -/
def StrictLine (d : Nat) (l : Text) : Prop :=
  ∃ r, parseLine d true l = .ok r ∧ r.phrase ≠ [] ∧ (∀ c ∈ r.phrase, sylSep c = false) ∧ r.syls ≠ [] ∧
    r.syls.length = r.phrase.length

/-- full-strength: every line that is not in the documented format is rejected -/
def MalformedFull : Prop :=
  ∀ (d : Nat) (keep : Bool) (l : Text), ¬ StrictLine d l → ∃ e, parseLine d keep l = .error e

/-- the documented format is what `parse_line` accepts, with or without `--keep-word-freq` -/
theorem strict_iff_accepted (d : Nat) (keep : Bool) (l : Text) :
    StrictLine d l ↔ ∃ r, parseLine d keep l = .ok r := by
  constructor
  · rintro ⟨r, hr, _⟩
    exact (Cli.accepted_keep_irrelevant d true keep l).mp ⟨r, hr⟩
  · intro h
    obtain ⟨r, hr⟩ := (Cli.accepted_keep_irrelevant d keep true l).mp h
    obtain ⟨f0, fs, n, syls, _, hne, hsep, _, _, hsne, hlen, rfl⟩ := parseLine_ok_iff.mp hr
    exact ⟨_, hr, hne, hsep, hsne, hlen⟩

/-- **malformed_full** — FULL strength since the fixes of F27 (was refuted by `測 5`): every line that is not
    in the documented format is rejected, whatever the delimiter and `--keep-word-freq` -/
theorem malformed_full : MalformedFull := by
  intro d keep l hns
  cases hp : parseLine d keep l with
  | error e => exact ⟨e, rfl⟩
  | ok r => exact absurd ((strict_iff_accepted d keep l).mpr ⟨r, hp⟩) hns

/-- **malformed_reported_full** — every line (not the skipped CSV header) outside the documented format is
    reported with its 1-based line number, and without `--skip-invalid` nothing is built.  No class is
    excluded any more (was `malformed_reported_partial` with the hypothesis `¬ Undetected`). -/
theorem malformed_reported_full (f : Flags) (src : List Text) (i : Nat) (l : Text)
    (hl : src[i]? = some l) (hh : f.csv = true → i ≠ 0) (hmal : ¬ StrictLine f.delim l) :
    (∃ e, (i + 1, e) ∈ (compileRun f src).reported) ∧ (f.skip = false → (compileRun f src).inserted = none) := by
  obtain ⟨e, he⟩ := malformed_full f.delim f.keep l hmal
  have := malformed_reported f src i l e hl hh he
  exact ⟨⟨e, this.1⟩, this.2⟩

/-- the former witnesses of F27 are rejected now, each with the cause that names its defect: `測 5` (no syllable),
    `測試 5 # ㄘㄜˋ ㄕˋ` (syllables behind the comment mark), `甲乙 7 ㄘㄜˋ` (two characters, one syllable),
    `測 abc ㄘㄜˋ` and `測` (frequency of a one-character phrase, without `--keep-word-freq`), `"" 5 ㄘㄜˋ`
    (empty phrase), and with `--csv` `測試 ,5,ㄘㄜˋ ㄕˋ` / ` 策,3,ㄘㄜˋ` (white space in the phrase field) -/
theorem f27_witnesses_rejected :
    parseLine 32 false [28204, 32, 53] = .error .noSyllables ∧
    parseLine 32 false [28204, 35430, 32, 53, 32, 35, 32, 12568, 12572, 715, 32, 12565, 715] = .error .noSyllables ∧
    parseLine 32 false [30002, 20057, 32, 55, 32, 12568, 12572, 715] = .error .lengthMismatch ∧
    parseLine 32 false [28204, 32, 97, 98, 99, 32, 12568, 12572, 715] = .error .badFreq ∧
    parseLine 32 false [28204] = .error .noFreq ∧
    parseLine 32 false [34, 34, 32, 53, 32, 12568, 12572, 715] = .error .emptyPhrase ∧
    parseLine 44 false [28204, 35430, 32, 44, 53, 44, 12568, 12572, 715, 32, 12565, 715] = .error .phraseSep ∧
    parseLine 44 false [32, 31574, 44, 51, 44, 12568, 12572, 715] = .error .phraseSep := by decide

/-- the phrase and the syllables of an accepted line do not depend on `--keep-word-freq` -/
theorem parse_keep_irrelevant {d : Nat} {k k' : Bool} {l : Text} {r r' : Rec}
    (h : parseLine d k l = .ok r) (h' : parseLine d k' l = .ok r') : r.phrase = r'.phrase ∧ r.syls = r'.syls := by
  obtain ⟨f0, fs, n, syls, ht, _, _, _, hs, _, _, rfl⟩ := parseLine_ok_iff.mp h
  obtain ⟨g0, gs, n', syls', ht', _, _, _, hs', _, _, rfl⟩ := parseLine_ok_iff.mp h'
  rw [ht] at ht'
  obtain ⟨rfl, rfl⟩ := List.cons.inj ht'
  rw [hs] at hs'
  cases hs'
  exact ⟨rfl, rfl⟩

/-! ## 4b. source files as bytes: lines that are not valid UTF-8 (F45, fixed) -/

/-- full-strength, on files given as bytes: with `--skip-invalid` the tool always gets through the file
    and builds -/
def SkipInvalidFull : Prop :=
  ∀ (f : Flags) (src : RawLines), f.skip = true → (compileRaw f src).inserted.isSome = true

/-- **skip_invalid_full** — FULL strength since the fix of F45 (was refuted by `測 5 ㄘㄜˋ` followed by a line that is
    not valid UTF-8: `line?` ended the run).  What is built: exactly the records of the lines that are valid
    UTF-8 and parse, in file order. -/
theorem skip_invalid_full : SkipInvalidFull := by
  intro f src hs
  rw [compileRaw_inserted]
  simp [hs]

theorem skip_invalid_raw (f : Flags) (src : RawLines) (hs : f.skip = true) :
    (compileRaw f src).inserted = some (validRawRecs f src) := by
  rw [compileRaw_inserted]
  simp [hs]

/-- byte level `malformed_reported`: a line the loop reads — `none` = not valid UTF-8 — that is rejected is
    reported with its 1-based number, and without `--skip-invalid` nothing is built -/
theorem malformed_reported_raw (f : Flags) (src : RawLines) (i : Nat) (l : Option Text) (e : LineErr)
    (hl : src[i]? = some l) (hh : f.csv = true → i ≠ 0) (hbad : parseRawLine f l = .error e) :
    (i + 1, e) ∈ (compileRaw f src).reported ∧ (f.skip = false → (compileRaw f src).inserted = none) := by
  obtain ⟨k, hk, hb⟩ := rawBody_get f src i hh
  have hm : (i + 1, e) ∈ (compileRaw f src).reported :=
    (mem_raw_reported f src (i + 1) e).mpr ⟨k, l, by rw [hb, hl], by omega, hbad⟩
  refine ⟨hm, fun hs => ?_⟩
  rw [compileRaw_inserted, if_pos ⟨List.ne_nil_of_mem hm, hs⟩]

/-- **invalid_utf8_reported** — a line that is not valid UTF-8 (any line but the CSV header, which is skipped
    unread) is reported with its line number, cause `invalidUtf8`; without `--skip-invalid` nothing is built -/
theorem invalid_utf8_reported (f : Flags) (src : RawLines) (i : Nat) (h : InvalidAt f src i) :
    (i + 1, LineErr.invalidUtf8) ∈ (compileRaw f src).reported ∧
    (f.skip = false → (compileRaw f src).inserted = none) :=
  malformed_reported_raw f src i none _ h.1 h.2 rfl

/-- **malformed_reported_bytes** — the property's last clause for a file given as bytes, no class excluded: a
    line the loop reads that is not valid UTF-8, or whose text is not in the documented format, is reported
    with its line number, and without `--skip-invalid` nothing is built -/
theorem malformed_reported_bytes (f : Flags) (src : RawLines) (i : Nat) (l : Option Text)
    (hl : src[i]? = some l) (hh : f.csv = true → i ≠ 0) (hmal : ∀ t, l = some t → ¬ StrictLine f.delim t) :
    (∃ e, (i + 1, e) ∈ (compileRaw f src).reported) ∧ (f.skip = false → (compileRaw f src).inserted = none) := by
  cases l with
  | none =>
    have := malformed_reported_raw f src i none _ hl hh rfl
    exact ⟨⟨_, this.1⟩, this.2⟩
  | some t =>
    obtain ⟨e, he⟩ := malformed_full f.delim f.keep t (hmal t rfl)
    have := malformed_reported_raw f src i (some t) e hl hh he
    exact ⟨⟨e, this.1⟩, this.2⟩

/-- exactly the rejected lines are reported at byte level too -/
theorem raw_reported_iff (f : Flags) (src : RawLines) (n : Nat) (e : LineErr) :
    (n, e) ∈ (compileRaw f src).reported ↔
      ∃ i l, src[i]? = some l ∧ (f.csv = true → i ≠ 0) ∧ n = i + 1 ∧ parseRawLine f l = .error e := by
  rw [mem_raw_reported]
  constructor
  · rintro ⟨k, l, h1, h2, h3⟩
    refine ⟨bodyStart f + k, l, ?_, ?_, h2, h3⟩
    · cases hc : f.csv with
      | false => simpa [rawBody, bodyStart, hc] using h1
      | true =>
        simp only [rawBody, hc, if_true, List.getElem?_drop] at h1
        simpa [bodyStart, hc] using h1
    · intro hc; simp [bodyStart, hc]
  · rintro ⟨i, l, h1, h2, h3, h4⟩
    obtain ⟨k, hk, hb⟩ := rawBody_get f src i h2
    exact ⟨k, l, by rw [hb, h1], by omega, h4⟩

/-- some line the loop reads (any line but the skipped CSV header) is not valid UTF-8 -/
def HasInvalidUtf8 (f : Flags) (src : RawLines) : Prop := ∃ i, InvalidAt f src i

/-- **without such a line the byte-level run is the text-level run** all theorems of sections 1–4 are about (an
    invalid CSV header, which is skipped unread, counts as the empty line) -/
theorem raw_run_is_text_run (f : Flags) (src : RawLines) (h : ¬ HasInvalidUtf8 f src) :
    compileRaw f src = compileRun f (src.map rawText) :=
  compileRaw_valid f src (fun i hi => h ⟨i, hi⟩)

/-- the former witness of F45, `測 5 ㄘㄜˋ` / a line that is not valid UTF-8 / `策 1 ㄘㄜˋ`: line 2 is reported; nothing
    is built without `--skip-invalid`, both other records with it -/
example : compileRaw ⟨false, false, false⟩ [some [28204, 32, 53, 32, 12568, 12572, 715], none, some [31574, 32, 49, 32, 12568, 12572, 715]] =
    { reported := [(2, .invalidUtf8)], inserted := none } := by decide
example : compileRaw ⟨false, false, true⟩ [some [28204, 32, 53, 32, 12568, 12572, 715], none, some [31574, 32, 49, 32, 12568, 12572, 715]] =
    { reported := [(2, .invalidUtf8)], inserted := some [⟨[28204], 0, [10268]⟩, ⟨[31574], 0, [10268]⟩] } := by decide
/-- an invalid CSV header is not read: `\xff\xfe` / `測試,5,ㄘㄜˋ ㄕˋ` compiles with `--csv` -/
example : ¬ HasInvalidUtf8 ⟨true, false, false⟩ [none, some [28204, 35430, 44, 53, 44, 12568, 12572, 715, 32, 12565, 715]] := by
  rintro ⟨i, h1, h2⟩
  match i with
  | 0 => exact h2 rfl rfl
  | 1 => simp at h1
  | i + 2 => simp at h1
example : compileRaw ⟨true, false, false⟩ [none, some [28204, 35430, 44, 53, 44, 12568, 12572, 715, 32, 12565, 715]] =
    { reported := [], inserted := some [⟨[28204, 35430], 5, [10268, 8708]⟩] } := by decide
/-- bytes: `readRawLines` finds the invalid line of `測 5 ㄘㄜˋ\n\xff\xfe 5\n` -/
example : readRawLines [230, 184, 172, 32, 53, 32, 227, 132, 152, 227, 132, 156, 203, 139, 10, 255, 254, 32, 53, 10] =
    [some [28204, 32, 53, 32, 12568, 12572, 715], none] := by decide

/-! ## 5. what the trie model assumes of `slice::sort_by`, reduced -/

/-- a leaf of a well-formed source under a one-syllable key (one-character phrases): any *stable* sort leaves
    it in insertion order, as the model does — the comparator says `Equal` for every pair -/
theorem leaf_sort_single {ps : List PF} (h : ∀ p ∈ ps, p.1.length = 1) : phraseSort ps = ps ∧
    ∀ a ∈ ps, ∀ b ∈ ps, phraseLess a b = false :=
  ⟨phraseSort_single h, fun a ha b hb => by simp [phraseLess, phraseLessM, h a ha, h b hb]⟩

/-- a leaf of longer phrases: the comparator is a total order there (frequency descending, then text
    descending), so *every* sorting algorithm — stable or not — produces the model's leaf -/
theorem leaf_sort_multi_unique {ps qs : List PF} (hm : ∀ p ∈ ps, p.1.length ≠ 1) (hperm : qs.Perm ps)
    (hsorted : qs.Pairwise (fun a b => phraseLess b a = false)) : qs = phraseSort ps :=
  phraseSort_multi_unique hm hperm hsorted

/-! ## 6. linked: the trie back end is C11's byte-level file

Sections 1–5 use the entry-list model of the trie back end (`trieBuild`, `trieLookup`, `trieEntries`).
What that model assumes of the trie file — (a) insert = replace the same (key, phrase text) in place, else
append; (c) lookup = the leaf, stably sorted by the comparator of `write`; (d) no 16-bit overflow — is
derived here from C11's theorems about the **bytes** (`Proofs/CliTrieLink.lean`: `C11.builder_is_map` /
`insert_semantics`, `lookup_correct`, `order_documented` through `sortLeaf`, `entries_correct`,
`writes_within_limits`), for records valid for the Rust types (`ValidRec`) and files within the limits of
the format (`Fits`, or simply: `write` returned `Ok`).  Of (b), the enumeration, this section uses the *set* (each
(key, phrase) once, leaves in written order); the exact depth-first ORDER of the keys, `trieOrder`, is section 7
(`dump_order_linked`, from C11's `entries_order`) — it is no longer an assumption validated by correspondence. -/

open CliTrieLink in
/-- **the trie back end of the model is the concrete file**: for the records the compiler inserts, inside
    the limits `TrieBuilder::write` succeeds (no silent 16-bit truncation: outside them it fails), and
    for whatever bytes it wrote: `Trie::new` opens them with the metadata given, the real reader's
    `lookup_all_phrases(key)` is the model's `dictLookup .trie` (same phrases, same frequencies, same
    order) for every key of non-zero syllables, and `entries()` yields exactly the records of the model's
    `entries .trie` — by `dump_lists_last_records`, the last record of every (syllables, phrase) -/
theorem trie_backend_linked (info : TrieCodec.Info) (hinfo : TrieCodec.ValidInfo info) (rs : List Rec)
    (hv : ∀ r ∈ rs, ValidRec r) :
    ((TrieCodec.Builder.ofEntries info (rs.map toEntry)).Fits →
      ((TrieCodec.Builder.ofEntries info (rs.map toEntry)).write).isSome = true) ∧
    ∀ bytes, (TrieCodec.Builder.ofEntries info (rs.map toEntry)).write = some bytes →
      ∃ tr, TrieCodec.openTrie bytes = some tr ∧ TrieCodec.about tr = info ∧
        (∀ k, C11.ValidKey k → (TrieCodec.lookupAll tr k .standard).map ofPhrase = dictLookup .trie rs k) ∧
        ∃ ents, TrieCodec.entries tr = .ok ents ∧ ∀ x, x ∈ ents.map ofEntry ↔ LastWins rs x := by
  refine ⟨C11.writes_within_limits _, fun bytes hw => ?_⟩
  obtain ⟨tr, h1, h2, h3, ents, h4, h5⟩ := trie_backend_is_C11 info hinfo rs hv bytes hw
  exact ⟨tr, h1, h2, h3, ents, h4, fun x => (h5 x).trans (dump_lists_last_records .trie rs x)⟩

open CliTrieLink in
/-- the model's leaf order is C11's `sortLeaf` (the comparator regenerated from the source as
    `Gen.trieMixedCmp` is C11's `phraseLt` on Rust strings, UTF-8 being order preserving) -/
theorem leaf_sort_is_C11 (ps : List Phrase) (hv : ∀ p ∈ ps, ∀ c ∈ p.text, Der.IsScalar c) :
    phraseSort (ps.map ofPhrase) = (TrieCodec.sortLeaf ps).map ofPhrase := phraseSort_map ps hv

/-- the syllable clause of `ValidRec` is not an assumption about compiled records: every syllable of a record
    `parse_line` accepts comes from the spelling parser and is a value `Syllable::try_from` accepts (`validCode`,
    the invariant of the type since the repair of C13's F47; C13 `parse_valid`) -/
theorem parsed_record_syllables_valid {d : Nat} {keep : Bool} {l : Text} {r : Rec}
    (h : parseLine d keep l = .ok r) : ∀ s ∈ r.syls, 0 < s ∧ s < 65536 ∧ validCode s = true :=
  Cli.parseLine_syls_valid h

open CliTrieLink in
/-- **`slice::sort_by` is not assumed to be an insertion sort any more** — for *every* leaf of Rust
    strings, mixed ones included: the comparator is a total preorder (since the trie fix ddfe893, C11's
    `comparator_total_preorder`), so any arrangement that is sorted by it and stable is the model's leaf
    (`leaf_sort_single` / `leaf_sort_multi_unique` were the two special cases provable before) -/
theorem leaf_sort_stable_unique (ps r : List PF) (hps : ∀ p ∈ ps, ValidPF p) (hr : ∀ p ∈ r, ValidPF p)
    (hs : StableSort.Sorted phraseLess r) (hst : StableSort.StableOf phraseLess ValidPF ps r) : r = phraseSort ps :=
  leaf_sort_any_stable ps r hps hr hs hst

open CliTrieLink in
theorem entries_valid {ins : List Rec} (hv : ∀ r ∈ ins, ValidRec r) : ∀ r ∈ entries .trie ins, ValidRec r := by
  intro r hr
  obtain ⟨pre, post, e, _⟩ := (dump_lists_last_records .trie ins r).mp hr
  exact hv r (by rw [e]; simp)

open CliTrieLink in
/-- **recompiled_lookup_trie for the concrete files**: `bytes₁` written from the compiler's records,
    `bytes₂` written from the records read back from the dump (= the model's `entries .trie`): both open,
    and every key of non-zero syllables looks up the same phrases with the same frequencies in the same
    order in the two **byte-level** files -/
theorem recompiled_lookup_trie_linked (info : TrieCodec.Info) (hinfo : TrieCodec.ValidInfo info) (ins : List Rec)
    (hv : ∀ r ∈ ins, ValidRec r) (bytes₁ bytes₂ : Der.Bytes)
    (hw₁ : (TrieCodec.Builder.ofEntries info (ins.map toEntry)).write = some bytes₁)
    (hw₂ : (TrieCodec.Builder.ofEntries info ((entries .trie ins).map toEntry)).write = some bytes₂) :
    ∃ tr₁ tr₂, TrieCodec.openTrie bytes₁ = some tr₁ ∧ TrieCodec.openTrie bytes₂ = some tr₂ ∧
      (∀ k, C11.ValidKey k → (TrieCodec.lookupAll tr₂ k .standard).map ofPhrase =
        (TrieCodec.lookupAll tr₁ k .standard).map ofPhrase) ∧
      ∃ ents₁ ents₂, TrieCodec.entries tr₁ = .ok ents₁ ∧ TrieCodec.entries tr₂ = .ok ents₂ ∧
        ∀ x, x ∈ ents₂.map ofEntry ↔ x ∈ ents₁.map ofEntry := by
  obtain ⟨tr₁, o1, _, l1, e1, he1, m1⟩ := trie_backend_is_C11 info hinfo ins hv bytes₁ hw₁
  obtain ⟨tr₂, o2, _, l2, e2, he2, m2⟩ := trie_backend_is_C11 info hinfo _ (entries_valid hv) bytes₂ hw₂
  refine ⟨tr₁, tr₂, o1, o2, ?_, e1, e2, he1, he2, ?_⟩
  · intro k hk
    rw [l1 k hk, l2 k hk]
    exact recompiled_lookup_trie ins k
  · intro x
    rw [m1 x, m2 x]
    have : entries .trie (entries .trie ins) = entries .trie ins := trie_roundtrip (trieBuild_inv ins)
    rw [this]

open CliTrieLink in
/-- **wellformed_source_roundtrip for the concrete trie files.**  A source file of well-formed free-style
    lines (as in `wellformed_source_roundtrip`) whose records are valid for the Rust types; `bytes₁` is
    what `TrieBuilder::write` produced for the compiled records, `bytes₂` what it produced when the dump
    of the first dictionary was compiled again.  Then: the source compiles with nothing reported; the
    first **byte-level** file opens and its `entries()` yields exactly the last record of every
    (syllables, phrase) of the source; the dump text compiles again (nothing reported) to exactly those
    records; the second byte-level file opens, enumerates the same records, and answers every exact
    lookup of a key of non-zero syllables with the same phrases in the same order as the first. -/
theorem wellformed_source_roundtrip_linked (info : TrieCodec.Info) (hinfo : TrieCodec.ValidInfo info)
    (f : Flags) (hdr : Text) (ls : List SrcLine)
    (hok : ∀ l ∈ ls, l.OK f.delim) (hfile : ∀ t ∈ sourceLines f hdr ls, FileLine t)
    (hv : ∀ r ∈ sourceRecs f ls, ValidRec r) (bytes₁ bytes₂ : Der.Bytes)
    (hw₁ : (TrieCodec.Builder.ofEntries info ((sourceRecs f ls).map toEntry)).write = some bytes₁)
    (hw₂ : (TrieCodec.Builder.ofEntries info ((entries .trie (sourceRecs f ls)).map toEntry)).write = some bytes₂) :
    compileRun f (readLines (writeLines (sourceLines f hdr ls))) =
        { reported := [], inserted := some (sourceRecs f ls) } ∧
    compileRun f (readLines (writeLines (dump f.csv (entries .trie (sourceRecs f ls))))) =
        { reported := [], inserted := some (entries .trie (sourceRecs f ls)) } ∧
    ∃ tr₁ tr₂ ents₁ ents₂, TrieCodec.openTrie bytes₁ = some tr₁ ∧ TrieCodec.openTrie bytes₂ = some tr₂ ∧
      TrieCodec.entries tr₁ = .ok ents₁ ∧ TrieCodec.entries tr₂ = .ok ents₂ ∧
      (∀ x, x ∈ ents₁.map ofEntry ↔ LastWins (sourceRecs f ls) x) ∧
      (∀ x, x ∈ ents₂.map ofEntry ↔ LastWins (sourceRecs f ls) x) ∧
      ∀ k, C11.ValidKey k → (TrieCodec.lookupAll tr₂ k .standard).map ofPhrase =
        (TrieCodec.lookupAll tr₁ k .standard).map ofPhrase := by
  obtain ⟨h1, _, h3, _, _⟩ := wellformed_source_roundtrip .trie f hdr ls hok hfile
  obtain ⟨tr₁, tr₂, o1, o2, hl, e1, e2, he1, he2, hm⟩ :=
    recompiled_lookup_trie_linked info hinfo (sourceRecs f ls) hv bytes₁ bytes₂ hw₁ hw₂
  obtain ⟨tr', o1', _, _, e1', he1', m1⟩ := (trie_backend_linked info hinfo (sourceRecs f ls) hv).2 bytes₁ hw₁
  have et : tr' = tr₁ := Option.some.inj (o1'.symm.trans o1)
  rw [et] at he1'
  have ee : e1' = e1 := by
    have := he1'.symm.trans he1
    exact Outcome.ok.inj this
  rw [ee] at m1
  exact ⟨h1, h3, tr₁, tr₂, e1, e2, o1, o2, he1, he2, m1, fun x => (hm x).trans (m1 x), hl⟩

/-! ## 7. linked: the ORDER of the dump is the real reader's

The model's `trieEntries` visits the keys in the order `trieOrder` (sorted lexicographically by syllable code with
a prefix first, cut into the maximal runs "each key a prefix of the next", each run reversed) — so far the
transcription of `Trie::entries()` that the correspondence run validated.  C11's `entries_order` proves that the
explicit-stack depth-first walk of the real reader over the bytes `TrieBuilder::write` produced yields exactly
this order (descents along first children in ascending syllable order, `results.pop()` = deepest first), so the
`trieOrder` assumption is discharged: the enumeration of the concrete file, record for record and in order, IS
the model's `entries .trie`, and the text of `chewing-cli dump` is the model's text. -/

open CliTrieLink in
/-- **`dump_order_linked`** — for the records the compiler inserts (valid for the Rust types) and the bytes
    `TrieBuilder::write` produced for them: `Trie::new` opens the bytes, and the list the real `entries()` yields is,
    as records, EQUAL to the model's `entries .trie rs` (same records, same order — an equation of lists, not of
    sets); so both output formats of `dump` print the model's lines in the model's order -/
theorem dump_order_linked (info : TrieCodec.Info) (hinfo : TrieCodec.ValidInfo info) (rs : List Rec)
    (hv : ∀ r ∈ rs, ValidRec r) (bytes : Der.Bytes)
    (hw : (TrieCodec.Builder.ofEntries info (rs.map toEntry)).write = some bytes) :
    ∃ tr ents, TrieCodec.openTrie bytes = some tr ∧ TrieCodec.entries tr = .ok ents ∧
      ents.map ofEntry = entries .trie rs ∧
      ∀ csv, dump csv (ents.map ofEntry) = dump csv (entries .trie rs) := by
  obtain ⟨tr, ho, ents, he, heq⟩ := trie_entries_exact info hinfo rs hv bytes hw
  exact ⟨tr, ents, ho, he, heq, fun csv => by rw [heq]⟩

/-- the order spelled out: the model's enumeration lists the keys of the builder in `trieOrder`, every key with
    its leaf in written order (definitional; with `dump_order_linked` this is the real reader's order) -/
theorem dump_order_spelled (rs : List Rec) :
    entries .trie rs = (trieOrder (keysOf (trieBuild rs))).flatMap fun k =>
      (trieLookup (trieBuild rs) k).map (mkRec k) := rfl

open CliTrieLink in
/-- **recompiling the dump, concrete files, in order**: the file compiled from the dump of the first file
    enumerates the SAME list as the first (the model's `dump_compile_roundtrip` "same entries in the same order"
    now holds of the two byte-level files) -/
theorem recompiled_entries_trie_linked (info : TrieCodec.Info) (hinfo : TrieCodec.ValidInfo info) (ins : List Rec)
    (hv : ∀ r ∈ ins, ValidRec r) (bytes₁ bytes₂ : Der.Bytes)
    (hw₁ : (TrieCodec.Builder.ofEntries info (ins.map toEntry)).write = some bytes₁)
    (hw₂ : (TrieCodec.Builder.ofEntries info ((entries .trie ins).map toEntry)).write = some bytes₂) :
    ∃ tr₁ tr₂ ents₁ ents₂, TrieCodec.openTrie bytes₁ = some tr₁ ∧ TrieCodec.openTrie bytes₂ = some tr₂ ∧
      TrieCodec.entries tr₁ = .ok ents₁ ∧ TrieCodec.entries tr₂ = .ok ents₂ ∧
      ents₂.map ofEntry = ents₁.map ofEntry := by
  obtain ⟨tr₁, o1, e1, he1, q1⟩ := trie_entries_exact info hinfo ins hv bytes₁ hw₁
  obtain ⟨tr₂, o2, e2, he2, q2⟩ := trie_entries_exact info hinfo _ (entries_valid hv) bytes₂ hw₂
  refine ⟨tr₁, tr₂, e1, e2, o1, o2, he1, he2, ?_⟩
  rw [q1, q2]
  exact trie_roundtrip (trieBuild_inv ins)

/-! ## non-vacuity: concrete instances of the hypotheses -/

/-- §7: a sorted key list with two descents: `[1] ⊂ [1,2]` comes out deepest first, `[1,3]` and `[2]` follow -/
example : trieOrder [[2], [1, 3], [1], [1, 2]] = [[1, 2], [1], [1, 3], [2]] := by decide

/-- `測試 9318 ㄘㄜˋ ㄕˋ` -/
example : WellFormedRecord ⟨[28204, 35430], 9318, [10268, 8708]⟩ := by decide
/-- a phrase starting with `#`, containing a quote and a non-BMP character, maximal frequency -/
example : WellFormedRecord ⟨[35, 34, 131072], 4294967295, [10268, 8708, 8]⟩ := by decide
example : dumpLine ⟨[28204, 35430], 9318, [10268, 8708]⟩ =
    [28204, 35430, 32, 57, 51, 49, 56, 32, 12568, 12572, 715, 32, 12565, 715] := by decide
example : dumpCsvLine ⟨[28204], 7, [10268]⟩ = [28204, 44, 55, 44, 12568, 12572, 715] := by decide
/-- a source that compiles (with a duplicate, a comment and a quoted field) and whose entries are well formed -/
example :
    let src : List Text := [[28204, 32, 53, 32, 12568, 12572, 715],
      [34, 28204, 35430, 34, 32, 32, 57, 32, 12568, 12572, 715, 32, 12565, 715, 32, 35, 32, 120],
      [28204, 35430, 32, 49, 48, 32, 12568, 12572, 715, 32, 12565, 715]]
    (compileRun ⟨false, false, false⟩ src).inserted =
        some [⟨[28204], 0, [10268]⟩, ⟨[28204, 35430], 9, [10268, 8708]⟩, ⟨[28204, 35430], 10, [10268, 8708]⟩] ∧
    entries .trie [⟨[28204], 0, [10268]⟩, ⟨[28204, 35430], 9, [10268, 8708]⟩, ⟨[28204, 35430], 10, [10268, 8708]⟩] =
        [⟨[28204, 35430], 10, [10268, 8708]⟩, ⟨[28204], 0, [10268]⟩] ∧
    ∀ r ∈ entries .trie [⟨[28204], 0, [10268]⟩, ⟨[28204, 35430], 9, [10268, 8708]⟩, ⟨[28204, 35430], 10, [10268, 8708]⟩],
      WellFormedRecord r := by decide
/-- a well-formed free-style line: `"測試"  "9" "ㄘㄜˋ,ㄕˋ # x"` -/
example : (⟨true, true, true, [32, 32], [32], [44], some ([32], [32, 120]), ⟨[28204, 35430], 9, [10268, 8708]⟩⟩ : SrcLine).text =
    [34, 28204, 35430, 34, 32, 32, 34, 57, 34, 32, 34, 12568, 12572, 715, 44, 12565, 715, 32, 35, 32, 120, 34] := by decide
example : (⟨true, true, true, [32, 32], [32], [44], some ([32], [32, 120]), ⟨[28204, 35430], 9, [10268, 8708]⟩⟩ : SrcLine).OK 32 :=
  ⟨by decide, ⟨by decide, by decide⟩, ⟨by decide, by decide⟩,
   ⟨by decide, fun c hc => by simp at hc; subst hc; decide⟩,
   fun gc c h => by cases h; exact ⟨by decide, fun c hc => by simp at hc; subst hc; decide⟩⟩
/-- a rejected line, reported as line 2 -/
example : (compileRun ⟨false, false, false⟩ [[28204, 32, 53, 32, 12568, 12572, 715], [28204, 35430, 32, 120, 32, 12568]]).reported
    = [(2, .badFreq)] := by decide
/-- a line outside the documented format, and one inside it (hypothesis / conclusion of `malformed_full`) -/
example : ¬ StrictLine 32 [28204, 32, 53] := by
  have h1 : parseLine 32 true [28204, 32, 53] = .error .noSyllables := by decide
  rintro ⟨r, hr, _⟩; rw [h1] at hr; cases hr
example : StrictLine 32 [28204, 35430, 32, 57, 32, 12568, 12572, 715, 32, 12565, 715] :=
  ⟨⟨[28204, 35430], 9, [10268, 8708]⟩, by decide, by decide, by decide, by decide, by decide⟩

/-- §6: the records of the sample source are valid for the Rust types, the concrete file is written (so
    the hypotheses of `trie_backend_linked` / `recompiled_lookup_trie_linked` are met), and its byte-level
    exact lookup is the model's -/
example : ∀ r ∈ ([⟨[28204], 0, [10268]⟩, ⟨[28204, 35430], 9, [10268, 8708]⟩, ⟨[28204, 35430], 10, [10268, 8708]⟩] : List Rec),
    CliTrieLink.ValidRec r := by
  intro r hr
  simp only [List.mem_cons, List.not_mem_nil, or_false] at hr
  rcases hr with rfl | rfl | rfl <;> exact ⟨by decide, by decide, by decide⟩
example : ((TrieCodec.Builder.ofEntries {} (([⟨[28204], 0, [10268]⟩, ⟨[28204, 35430], 9, [10268, 8708]⟩,
    ⟨[28204, 35430], 10, [10268, 8708]⟩] : List Rec).map CliTrieLink.toEntry)).write).isSome = true := by decide
/-- §6: a mixed leaf — the one-character phrase first, then by descending frequency, in both models -/
example : phraseSort [([1, 2], 5), ([3], 1), ([4, 5], 7)] = [([3], 1), ([4, 5], 7), ([1, 2], 5)] := by decide

end Chewing.C20
