import Chewing.Proofs.Bisim
import Chewing.Props.C05Bound
/-!
# The exhaustive tie between the editor model and the real `Editor` on closed small worlds

WHAT THE HARNESS ESTABLISHES (by enumeration on the real code, `editor --bfs`, harness/src/bin/editor/bfs.rs): for a
configuration (one engine, one `auto_commit_threshold`, one option profile, one tiny dictionary, auto-learning off, a
finite operation alphabet Σ without option / layout / engine / learn / unlearn operations) the set `R` of states
reachable from the freshly built editor is explored breadth-first on the REAL editor; one `ed` transcript record is
written for every pair (state of `R`, operation of Σ); `Driver/Ed.lean` recomputes every record with the model from the
implementation's exported pre-state (0 DIFF = `hagree` below); the work list ran empty (`closed = 1` = `hclosed`
below: every successor of a state of `R` under an operation of Σ is in `R`).  State = the complete snapshot (hook H1) +
the dictionary snapshot; the driver checks that decoding a snapshot into a model value and printing it back is the
identity (`decode-mismatch`), so implementation states and model values are identified here.  The estimator clock is
the one field the exploration normalises (argument in bfs.rs: it is read by `learnPhrase` only, which no operation of Σ
reaches with auto-learning off); the records carry its real value.

WHAT LEAN PROVES (this file): the LIFT — `editor_tie_lift`, the instance of `bisim_lift` for `Editor.apply env`: under
exactly those two premises the implementation and the model produce the same run (same post-state after every step,
same panics) on EVERY list of operations of ANY length over Σ from every state of `R`; `editor_tie_states`: every
state such a run goes through is in `R` — so a property checked on the states of `R` holds along every history over Σ;
and the boundedness half of the finiteness argument, `closed_world_bounded` (from `C05.bounded_everywhere_full`): in a
closed world (no option operation) the pre-edit buffer never holds more than `auto_commit_threshold + 1` symbols.

NOT proved here: finiteness of `R` itself (it is observed: the exploration terminates).  It FAILS for alphabets with
Tab: Tab at the end of a non-empty buffer increments `nth` without bound (`enteringNext`, arm Tab; not a theorem here),
so no exploration with Tab can close; and Shift+Left / Shift+Right (and Ctrl+digit) grow the user dictionary.  Which
configurations closed on a given run is in the evidence (`exhaustive_closed_worlds`), never assumed.
-/
namespace Chewing.EditorTie
open Chewing

variable {D L : Type}

/-- the model's step as a machine in the sense of `Proofs/Bisim.lean`: `none` = the operation panics (or runs out of
    fuel); the observation of a step is the whole post-state, so the output component is `Unit` -/
def modelStep (env : Env D L) (e : Editor D L) (op : Op L) : Option (Unit × Editor D L) :=
  match e.apply env op with
  | .ok e' => some ((), e')
  | _ => none

/-- **the lift**: an implementation step function `I` that agrees with the model on every (state of `R`, operation of
    `Sig`), `R` closed under `I` over `Sig`, agrees with the model on every operation list over `Sig`, of any length,
    from every state of `R` (in particular the initial one) -/
theorem editor_tie_lift (env : Env D L) (I : Editor D L → Op L → Option (Unit × Editor D L))
    (R : Editor D L → Prop) (Sig : Op L → Prop)
    (hclosed : ∀ s op o s', R s → Sig op → I s op = some (o, s') → R s')
    (hagree : ∀ s op, R s → Sig op → I s op = modelStep env s op) :
    ∀ (ops : List (Op L)) (s : Editor D L), R s → (∀ op ∈ ops, Sig op) →
      runM I s ops = runM (modelStep env) s ops :=
  bisim_lift I (modelStep env) R Sig hclosed hagree

/-- every state a run over `Sig` goes through was visited by the exploration -/
theorem editor_tie_states (I : Editor D L → Op L → Option (Unit × Editor D L))
    (R : Editor D L → Prop) (Sig : Op L → Prop)
    (hclosed : ∀ s op o s', R s → Sig op → I s op = some (o, s') → R s') :
    ∀ (ops : List (Op L)) (s : Editor D L) (tr : List (Unit × Editor D L)), R s → (∀ op ∈ ops, Sig op) →
      runM I s ops = some tr → ∀ x ∈ tr, R x.2 :=
  runM_states I R Sig hclosed

/-- the model's machine and `Editor.run` are the same thing: a run that does not fail ends in `Editor.run`'s state -/
theorem run_of_runM (env : Env D L) : ∀ (ops : List (Op L)) (s : Editor D L) (tr : List (Unit × Editor D L)),
    runM (modelStep env) s ops = some tr → Editor.run env s ops = .ok ((tr.getLast?.map (·.2)).getD s) := by
  intro ops
  induction ops with
  | nil => intro s tr h; simp [runM] at h; subst h; rfl
  | cons op ops ih =>
    intro s tr h
    unfold runM at h
    unfold Editor.run
    cases ha : Editor.apply env s op with
    | ok e' =>
      simp only [modelStep, ha] at h
      cases hr : runM (modelStep env) e' ops with
      | none => simp [hr] at h
      | some tr' =>
        simp [hr] at h
        subst h
        have := ih e' tr' hr
        show Editor.run env e' ops = _
        rw [this]
        cases tr' with
        | nil => rfl
        | cons x xs =>
          rw [List.getLast?_cons_cons]
          rw [List.getLast?_eq_some_getLast (List.cons_ne_nil x xs)]
          rfl
    | panic p => simp [modelStep, ha] at h
    | outOfFuel => simp [modelStep, ha] at h

/-- **the closed world is bounded** (the finiteness argument's theorem): no option operation in the history (the
    BFS alphabets have none), fresh editor configured with threshold `t`: whatever the operations, the pre-edit buffer
    holds at most `t + 1` symbols.  Instance of `C05.bounded_everywhere_full`. -/
theorem closed_world_bounded (env : Env D L) (G : D → Prop) (hE : C01.EnvOK env G)
    (sh : Shared D L) (hg : G sh.dict) (hcom : sh.com = {}) (hpp : 0 < sh.options.candidatesPerPage)
    (hsym : C01.SymWF sh.symSel) (ops : List (Op L)) (hno : ∀ o, Op.setOptions o ∉ ops)
    (e' : Editor D L) (hr : ({ shared := sh, state := .entering } : Editor D L).run env ops = .ok e') :
    e'.shared.com.len ≤ sh.options.autoCommitThreshold + 1 := by
  refine C05.bounded_everywhere_full D L env G hE sh hg hcom hpp hsym _ (Nat.le_refl _) ops ?_ ?_ e' hr
  · intro op hop
    cases op <;> first | trivial | exact absurd hop (hno _)
  · intro o ho
    exact absurd ho (hno o)

end Chewing.EditorTie
