#!/bin/sh
# MANIFEST.setup_cmd: build the framework from files on disk only (offline).
set -e
cd "$(dirname "$0")"
export CARGO_NET_OFFLINE=true
export MIMALLOC_PURGE_DELAY=-1
python3 tools/gen_glue.py
python3 tools/extract.py || true
(cd lean && lake build Chewing chewing-model)
cp "${VERIF_REPO:-/repo}/Cargo.lock" harness/Cargo.lock
(cd harness && cargo build --offline --quiet)
echo setup done
