#!/usr/bin/env python3
"""Prints the markdown 'as built' table of DESIGN.md §13 from MANIFEST.json, evidence/*.json and KNOWN_FINDINGS.txt."""
import json, os, re
ROOT = os.path.normpath(os.path.join(os.path.dirname(os.path.abspath(__file__)), ".."))
m = json.load(open(os.path.join(ROOT, "MANIFEST.json")))
kf = open(os.path.join(ROOT, "KNOWN_FINDINGS.txt"), encoding="utf-8").read().splitlines()
titles = {json.loads(l)["id"]: json.loads(l)["title"] for l in open(os.path.join(ROOT, "properties.jsonl"))}
print("| id | property | theorems (all discharged) | correspondence this run (records, exhaustive?) | fixed by `fix:` commits | known findings (classes) | quick s |")
print("|---|---|---|---|---|---|---|")
for c in m["checks"]:
    p = c["property_id"]
    try:
        e = json.load(open(os.path.join(ROOT, "evidence", p + ".json")))
    except Exception:
        e = {"coverage": {}}
    cov = e.get("coverage", {})
    fixed = [re.search(r"property=%s (\w{7})" % p, l).group(1) for l in kf if l.startswith("fixed:") and re.search(r"property=%s (\w{7})" % p, l)]
    known = [re.search(r"class=(\S+)", l).group(1) for l in kf if l.startswith("known:") and ("property=%s " % p) in l]
    print(f"| {p} | {titles[p][:60]} | {cov.get('discharged','?')}/{cov.get('obligations','?')} | {cov.get('evaluations','?')} "
          f"({'exhaustive' if cov.get('exhaustive') else 'sampled'}; diffs {cov.get('model_vs_impl_diffs_in_scope','?')}) | "
          f"{' '.join(dict.fromkeys(fixed)) or '—'} | {', '.join(known) or '—'} | {e.get('wall_s','?')} |")
