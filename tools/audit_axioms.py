#!/usr/bin/env python3
"""Proof audit for one Props module.

* lists the theorems of /verif/lean/Chewing/Props/<Cxx>.lean and of its linked companions Props/<Cxx><Suffix>.lean
  (from the source text),
* asks Lean for `#print axioms` of each (through `lake env lean` on a generated file that
  imports the compiled module), accepts only {propext, Classical.choice, Quot.sound},
* scans Model/, Proofs/, Props/ for sorry / admit / axiom / native_decide / bv_decide /
  implemented_by / unsafe / maxHeartbeats 0 outside comments.

Prints a JSON object: {"theorems": [...], "axioms": {thm: [...]}, "bad": [...], "scan_hits": [...]}.
"""
import json, os, re, subprocess, sys, tempfile

LEAN = os.path.normpath(os.path.join(os.path.dirname(os.path.abspath(__file__)), "..", "lean"))
ACCEPT = {"propext", "Classical.choice", "Quot.sound"}
SCAN = re.compile(r"\bsorry\b|\badmit\b|^\s*axiom\s|native_decide|bv_decide|implemented_by|\bunsafe\s|maxHeartbeats\s+0")


def strip_lean_comments(text):
    out, i, n, depth = [], 0, len(text), 0
    while i < n:
        if text.startswith("/-", i):
            depth += 1; i += 2; continue
        if depth and text.startswith("-/", i):
            depth -= 1; i += 2; continue
        if depth:
            if text[i] == "\n":
                out.append("\n")
            i += 1; continue
        if text.startswith("--", i):
            j = text.find("\n", i)
            i = n if j < 0 else j
            continue
        if text[i] == '"':
            j = i + 1
            while j < n and text[j] != '"':
                j += 2 if text[j] == "\\" else 1
            out.append('""'); i = j + 1
            continue
        out.append(text[i]); i += 1
    return "".join(out)


def theorems_of(path):
    text = strip_lean_comments(open(path, encoding="utf-8").read())
    ns = []
    thms = []
    for line in text.splitlines():
        m = re.match(r"\s*namespace\s+(\S+)", line)
        if m:
            ns.append(m.group(1)); continue
        m = re.match(r"\s*end\s+(\S+)", line)
        if m and ns and ns[-1] == m.group(1):
            ns.pop(); continue
        m = re.match(r"\s*(?:private\s+|protected\s+)?theorem\s+([^\s:({\[]+)", line)
        if m:
            thms.append(".".join(ns + [m.group(1)]))
    return thms


def scan():
    hits = []
    for sub in ("Model", "Proofs", "Props", "Driver"):
        d = os.path.join(LEAN, "Chewing", sub)
        if not os.path.isdir(d):
            continue
        for fn in sorted(os.listdir(d)):
            if not fn.endswith(".lean"):
                continue
            text = strip_lean_comments(open(os.path.join(d, fn), encoding="utf-8").read())
            for no, line in enumerate(text.splitlines(), 1):
                if SCAN.search(line):
                    if sub == "Driver" and ("partial" in line):
                        continue
                    hits.append(f"Chewing/{sub}/{fn}:{no}: {line.strip()[:120]}")
    return hits


def main():
    prop = sys.argv[1]
    module = f"Chewing.Props.{prop}"
    path = os.path.join(LEAN, "Chewing", "Props", prop + ".lean")
    thms = theorems_of(path)
    # linked statements that cannot live in Props/<Cxx>.lean because of the import order (e.g. Props/C04Editor.lean:
    # C01's proofs import Props/C04.lean) are audited with the property: Props/<Cxx><Suffix>.lean
    extra = sorted(fn[:-5] for fn in os.listdir(os.path.dirname(path))
                   if fn.startswith(prop) and fn.endswith(".lean") and fn[len(prop):-5].isalpha())
    for name in extra:
        thms += theorems_of(os.path.join(LEAN, "Chewing", "Props", name + ".lean"))
    res = {"theorems": thms, "axioms": {}, "bad": [], "scan_hits": scan(), "error": None}
    if thms:
        with tempfile.NamedTemporaryFile("w", suffix=".lean", dir=LEAN, delete=False) as f:
            f.write(f"import {module}\n")
            for name in extra:
                f.write(f"import Chewing.Props.{name}\n")
            for t in thms:
                f.write(f"#print axioms {t}\n")
            tmp = f.name
        try:
            p = subprocess.run(["lake", "env", "lean", tmp], cwd=LEAN, capture_output=True, text=True, timeout=900)
            out = p.stdout + p.stderr
            if p.returncode != 0:
                res["error"] = out[-2000:]
            for m in re.finditer(r"'([^']+)' depends on axioms: \[([^\]]*)\]", out):
                res["axioms"][m.group(1)] = [a.strip() for a in m.group(2).replace("\n", " ").split(",") if a.strip()]
            for m in re.finditer(r"'([^']+)' does not depend on any axioms", out):
                res["axioms"][m.group(1)] = []
        finally:
            os.unlink(tmp)
        for t in thms:
            if t not in res["axioms"]:
                res["bad"].append(f"{t}: no axiom report")
            elif set(res["axioms"][t]) - ACCEPT:
                res["bad"].append(f"{t}: {sorted(set(res['axioms'][t]) - ACCEPT)}")
    else:
        res["error"] = "no theorems found"
    print(json.dumps(res))


if __name__ == "__main__":
    main()
