#!/usr/bin/env python3
"""Translator: $VERIF_REPO (default /repo) source + data  ->  /verif/lean/Chewing/Gen/*.lean

Not a Rust-to-Lean compiler.  Each extractor (tools/extractors/*.py, registered with
`@extractor("name")`) recognises a fixed list of syntactic shapes (enum declarations,
`const NAME: [T; N] = [...]`, `match` arms inside a named fn, binary-literal masks, ...) and emits
Lean `def`s over Nat / Char / List.  Run at the start of every check, so every table theorem in
Chewing/Props is re-elaborated against what the source says *now*.

    extract.py [name …]        (no names = all)

An extractor that no longer recognises its source shape is reported in Gen/status.json as broken
(the tie for the properties that use it is then broken; the previous Gen file is left in place
so the rest of the project still builds).  Exit status 2 if any extractor is broken.
"""
import glob, importlib.util, json, os, sys, traceback

HERE = os.path.dirname(os.path.abspath(__file__))
sys.path.insert(0, HERE)
import extractlib
from extractlib import EXTRACTORS, OUT, sha

for path in sorted(glob.glob(os.path.join(HERE, "extractors", "*.py"))):
    spec = importlib.util.spec_from_file_location("extractors_" + os.path.basename(path)[:-3], path)
    mod = importlib.util.module_from_spec(spec)
    spec.loader.exec_module(mod)


def main():
    only = sys.argv[1:] or sorted(EXTRACTORS)
    os.makedirs(OUT, exist_ok=True)
    status_path = os.path.join(HERE, "..", "run", "extract-status.json")
    os.makedirs(os.path.dirname(status_path), exist_ok=True)
    try:
        with open(status_path) as f:
            status = json.load(f)
    except Exception:
        status = {}
    rc = 0
    for name in only:
        try:
            files = EXTRACTORS[name]()
            changed = []
            for fn, text in files.items():
                p = os.path.join(OUT, fn)
                old = None
                if os.path.exists(p):
                    with open(p, encoding="utf-8") as f:
                        old = f.read()
                if old != text:
                    with open(p, "w", encoding="utf-8") as f:
                        f.write(text)
                    changed.append(fn)
            status[name] = {"ok": True, "files": sorted(files), "changed": changed,
                            "sha": {fn: sha(t) for fn, t in files.items()}}
        except Exception as e:  # ExtractError or anything a changed source shape provokes
            status[name] = {"ok": False, "error": f"{type(e).__name__}: {e}",
                            "trace": traceback.format_exc().splitlines()[-3:]}
            rc = 2
    with open(status_path, "w") as f:
        json.dump(status, f, indent=1, sort_keys=True)
    for name in only:
        s = status[name]
        print(f"extract {name}: " + ("ok" + (" (changed: " + ",".join(s["changed"]) + ")" if s["changed"] else "")
                                      if s["ok"] else "BROKEN " + s["error"]))
    return rc


if __name__ == "__main__":
    sys.exit(main())
