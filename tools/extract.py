#!/usr/bin/env python3
"""Translator: /repo source + data  ->  /verif/lean/Chewing/Gen/*.lean

Not a Rust-to-Lean compiler.  It recognises a fixed list of syntactic shapes
(enum declarations, `const NAME: [T; N] = [...]`, `match` arms inside a named
fn, binary-literal masks inside named fns, ...) and emits Lean `def`s over
Nat / Char / List.  It is run at the start of every check, so every table
theorem in Chewing/Props is re-elaborated against what the source says *now*.

Each extractor is independent; one that no longer recognises its source shape
is reported in Gen/status.json as broken (the tie for the properties that use
it is then broken; the previous Gen file is left in place so the rest of the
project still builds).
"""
import hashlib, json, os, re, sys, traceback

REPO = os.environ.get("VERIF_REPO", "/repo")
OUT = os.path.join(os.path.dirname(os.path.abspath(__file__)), "..", "lean", "Chewing", "Gen")
OUT = os.path.normpath(OUT)


class ExtractError(Exception):
    pass


def read(rel):
    with open(os.path.join(REPO, rel), encoding="utf-8") as f:
        return f.read()


def sha(text):
    return hashlib.sha256(text.encode("utf-8")).hexdigest()[:16]


def strip_comments(src):
    """Remove // line comments and /* */ block comments, respecting string/char literals."""
    out = []
    i, n = 0, len(src)
    while i < n:
        c = src[i]
        if c == '/' and i + 1 < n and src[i + 1] == '/':
            j = src.find('\n', i)
            if j < 0:
                j = n
            i = j
            continue
        if c == '/' and i + 1 < n and src[i + 1] == '*':
            depth, i = 1, i + 2
            while i < n and depth:
                if src.startswith('/*', i):
                    depth += 1; i += 2
                elif src.startswith('*/', i):
                    depth -= 1; i += 2
                else:
                    i += 1
            continue
        if c == '"':
            j = i + 1
            while j < n and src[j] != '"':
                j += 2 if src[j] == '\\' else 1
            out.append(src[i:j + 1]); i = j + 1
            continue
        if c == "'":
            # char literal or lifetime
            m = re.match(r"'(\\.[^']*|[^'\\])'", src[i:])
            if m:
                out.append(m.group(0)); i += len(m.group(0))
                continue
        out.append(c); i += 1
    return ''.join(out)


def balanced(src, start, open_ch='{', close_ch='}'):
    """src[start] must be open_ch; return index just after the matching close, skipping literals."""
    assert src[start] == open_ch, (src[start:start + 20],)
    depth, i, n = 0, start, len(src)
    while i < n:
        c = src[i]
        if c == '"':
            j = i + 1
            while j < n and src[j] != '"':
                j += 2 if src[j] == '\\' else 1
            i = j + 1
            continue
        if c == "'":
            m = re.match(r"'(\\.[^']*|[^'\\])'", src[i:])
            if m:
                i += len(m.group(0))
                continue
        if c == open_ch:
            depth += 1
        elif c == close_ch:
            depth -= 1
            if depth == 0:
                return i + 1
        i += 1
    raise ExtractError("unbalanced braces")


def block_after(src, pattern, flags=0, open_ch='{', close_ch='}'):
    """Text of the first balanced block that follows the first match of `pattern`."""
    m = re.search(pattern, src, flags)
    if not m:
        raise ExtractError(f"pattern not found: {pattern}")
    i = src.find(open_ch, m.end() - 1 if src[m.end() - 1] == open_ch else m.end())
    if i < 0:
        raise ExtractError(f"no block after: {pattern}")
    j = balanced(src, i, open_ch, close_ch)
    return src[i + 1:j - 1]


def fn_body(src, name, after=None):
    """Body of `fn name(` ; if `after` is given, search only after the first match of that regex."""
    base = 0
    if after is not None:
        m = re.search(after, src)
        if not m:
            raise ExtractError(f"anchor not found: {after}")
        base = m.end()
    m = re.search(r"\bfn\s+" + re.escape(name) + r"\s*(<[^>]*>)?\s*\(", src[base:])
    if not m:
        raise ExtractError(f"fn {name} not found")
    # skip the parameter list, then find the body's opening brace
    p = base + m.end() - 1
    q = balanced(src, p, '(', ')')
    i = src.find('{', q)
    j = balanced(src, i)
    return src[i + 1:j - 1]


def split_top(s, sep=','):
    """Split on sep at nesting depth 0 (parentheses, brackets, braces), skipping literals."""
    parts, depth, cur, i, n = [], 0, [], 0, len(s)
    while i < n:
        c = s[i]
        if c == '"':
            j = i + 1
            while j < n and s[j] != '"':
                j += 2 if s[j] == '\\' else 1
            cur.append(s[i:j + 1]); i = j + 1
            continue
        if c == "'":
            m = re.match(r"'(\\.[^']*|[^'\\])'", s[i:])
            if m:
                cur.append(m.group(0)); i += len(m.group(0))
                continue
        if c in '([{':
            depth += 1
        elif c in ')]}':
            depth -= 1
        if c == sep and depth == 0:
            parts.append(''.join(cur)); cur = []
        else:
            cur.append(c)
        i += 1
    if ''.join(cur).strip():
        parts.append(''.join(cur))
    return [p.strip() for p in parts]


def match_arms(body):
    """[(pattern_text, expr_text)] of the (single, outermost) `match … { … }` found in body,
    or of body itself if it already is a list of arms."""
    m = re.search(r"\bmatch\b[^{]*\{", body)
    if m:
        i = body.find('{', m.start())
        j = balanced(body, i)
        body = body[i + 1:j - 1]
    arms = []
    for part in split_top(body, ','):
        if '=>' not in part:
            continue
        # a block-bodied arm may be followed by the next arm without a comma: handle `} pat =>`
        pat, expr = part.split('=>', 1)
        arms.append((pat.strip(), expr.strip()))
    return arms


def rust_char(lit):
    lit = lit.strip()
    if not (lit.startswith("'") and lit.endswith("'")):
        raise ExtractError(f"not a char literal: {lit}")
    s = lit[1:-1]
    if s.startswith('\\'):
        esc = {'n': '\n', 't': '\t', 'r': '\r', '0': '\0', '\\': '\\', "'": "'", '"': '"'}
        if s[1] in esc and len(s) == 2:
            return esc[s[1]]
        m = re.match(r"\\u\{([0-9a-fA-F_]+)\}$", s)
        if m:
            return chr(int(m.group(1).replace('_', ''), 16))
        m = re.match(r"\\x([0-9a-fA-F]{2})$", s)
        if m:
            return chr(int(m.group(1), 16))
        raise ExtractError(f"unknown escape: {lit}")
    if len(s) != 1:
        raise ExtractError(f"bad char literal: {lit}")
    return s


def rust_int(lit):
    lit = lit.strip().replace('_', '')
    lit = re.sub(r"(u8|u16|u32|u64|usize|i8|i16|i32|i64|isize)$", "", lit)
    if lit.startswith('0b'):
        return int(lit[2:], 2)
    if lit.startswith('0x'):
        return int(lit[2:], 16)
    if lit.startswith('0o'):
        return int(lit[2:], 8)
    return int(lit)


def lean_char(c):
    return f"Char.ofNat {ord(c)}"


def lean_list(items, per_line=12):
    items = list(items)
    if not items:
        return "[]"
    lines = []
    for i in range(0, len(items), per_line):
        lines.append(", ".join(items[i:i + per_line]))
    return "[" + ",\n   ".join(lines) + "]"


def lean_str(s):
    out = []
    for ch in s:
        if ch == '"':
            out.append('\\"')
        elif ch == '\\':
            out.append('\\\\')
        elif ch == '\n':
            out.append('\\n')
        elif ch == '\t':
            out.append('\\t')
        elif ord(ch) < 32 or ord(ch) == 127:
            out.append('\\x%02x' % ord(ch))
        else:
            out.append(ch)
    return '"' + ''.join(out) + '"'


HEADER = "-- GENERATED by /verif/tools/extract.py from {src} (sha256/16 {h}). Do not edit.\n"

# --------------------------------------------------------------------------
# Bopomofo tables (src/zhuyin/bopomofo.rs)
# --------------------------------------------------------------------------

def enum_variants(src, name):
    body = block_after(src, r"\benum\s+" + re.escape(name) + r"\b")
    vs = []
    for part in split_top(body, ','):
        part = re.sub(r"#\[[^\]]*\]", "", part).strip()
        if not part:
            continue
        m = re.match(r"([A-Za-z_][A-Za-z0-9_]*)", part)
        if not m:
            raise ExtractError(f"bad variant in enum {name}: {part!r}")
        vs.append(m.group(1))
    return vs


def x_bopomofo():
    raw = read("src/zhuyin/bopomofo.rs")
    src = strip_comments(raw)
    variants = enum_variants(src, "Bopomofo")
    idx = {v: i for i, v in enumerate(variants)}
    if len(variants) != len(idx):
        raise ExtractError("duplicate Bopomofo variants")

    def const_map(name):
        m = re.search(r"const\s+" + name + r"\s*:\s*\[\s*Bopomofo\s*;\s*(\d+)\s*\]\s*=\s*\[", src)
        if not m:
            raise ExtractError(f"{name} not found")
        i = m.end() - 1
        j = balanced(src, i, '[', ']')
        items = split_top(src[i + 1:j - 1], ',')
        if len(items) != int(m.group(1)):
            raise ExtractError(f"{name}: declared length differs")
        return [idx[x] for x in items]

    maps = {n: const_map(n) for n in ("INITIAL_MAP", "MEDIAL_MAP", "RIME_MAP", "TONE_MAP")}

    kinds = {"Initial": 0, "Medial": 1, "Rime": 2, "Tone": 3}
    kind_tbl = [None] * len(variants)
    for pat, expr in match_arms(fn_body(src, "kind", after=r"impl\s+Bopomofo\s*\{")):
        k = kinds[expr.split("::")[-1].strip()]
        for v in pat.split('|'):
            kind_tbl[idx[v.strip()]] = k
    index_tbl = [None] * len(variants)
    for pat, expr in match_arms(fn_body(src, "index", after=r"impl\s+Bopomofo\s*\{")):
        for v in pat.split('|'):
            index_tbl[idx[v.strip()]] = rust_int(expr)
    if None in kind_tbl or None in index_tbl:
        raise ExtractError("kind()/index() not total")

    char_tbl = [None] * len(variants)
    for pat, expr in match_arms(fn_body(src, "from", after=r"impl\s+From<Bopomofo>\s+for\s+char")):
        for v in pat.split('|'):
            char_tbl[idx[v.strip()]] = rust_char(expr)
    if None in char_tbl:
        raise ExtractError("From<Bopomofo> for char not total")
    from_char = []
    for pat, expr in match_arms(fn_body(src, "try_from", after=r"impl\s+TryFrom<char>\s+for\s+Bopomofo")):
        if pat.strip() == '_':
            continue
        m = re.match(r"Ok\(\s*([A-Z0-9]+)\s*\)", expr)
        if not m:
            raise ExtractError(f"TryFrom<char>: unexpected arm {pat} => {expr}")
        for p in pat.split('|'):
            from_char.append((rust_char(p), idx[m.group(1)]))

    # the generic index->symbol accessors: `if index as usize >= X_MAP.len() { return None; } Some(X_MAP[index as usize])`
    for fn, mp in (("from_initial", "INITIAL_MAP"), ("from_medial", "MEDIAL_MAP"),
                   ("from_rime", "RIME_MAP"), ("from_tone", "TONE_MAP")):
        b = re.sub(r"\s+", "", fn_body(src, fn))
        want = f"ifindexasusize>={mp}.len(){{returnNone;}}Some({mp}[indexasusize])"
        if b != want:
            raise ExtractError(f"{fn}: unexpected body shape")

    L = [HEADER.format(src="src/zhuyin/bopomofo.rs", h=sha(raw)),
         "namespace Chewing.Gen\n",
         "/-- `enum Bopomofo`, declaration order (the discriminant is the list position). -/",
         f"def bopoNames : List String := {lean_list([lean_str(v) for v in variants])}\n",
         "/-- `Bopomofo::kind`: 0 initial, 1 medial, 2 rime, 3 tone. -/",
         f"def bopoKind : List Nat := {lean_list(map(str, kind_tbl), 21)}\n",
         "/-- `Bopomofo::index` (1-based position inside its kind). -/",
         f"def bopoIndex : List Nat := {lean_list(map(str, index_tbl), 21)}\n",
         "/-- `impl From<Bopomofo> for char`, as code points. -/",
         f"def bopoChar : List Nat := {lean_list([str(ord(c)) for c in char_tbl], 14)}\n",
         "/-- `impl TryFrom<char> for Bopomofo`: (code point, discriminant), arm order. -/",
         f"def bopoFromChar : List (Nat × Nat) := {lean_list([f'({ord(c)}, {i})' for c, i in from_char], 8)}\n"]
    for n, lean in (("INITIAL_MAP", "initialMap"), ("MEDIAL_MAP", "medialMap"),
                    ("RIME_MAP", "rimeMap"), ("TONE_MAP", "toneMap")):
        L.append(f"/-- `{n}` (discriminants). -/")
        L.append(f"def {lean} : List Nat := {lean_list(map(str, maps[n]), 21)}\n")
    L.append("end Chewing.Gen\n")
    return {"Bopomofo.lean": "\n".join(L)}


# --------------------------------------------------------------------------
# Syllable bit layout (src/zhuyin/syllable.rs)
# --------------------------------------------------------------------------

def x_syllable():
    raw = read("src/zhuyin/syllable.rs")
    src = strip_comments(raw)
    impl = block_after(src, r"impl\s+Syllable\s*\{")
    m = re.search(r"const\s+EMPTY_PATTERN\s*:\s*u16\s*=\s*([0-9a-zA-Z_]+)\s*;", impl)
    if not m:
        raise ExtractError("EMPTY_PATTERN not found")
    empty = rust_int(m.group(1))
    out = {"emptyPattern": empty}
    # accessors
    for fn, frm in (("initial", "from_initial"), ("medial", "from_medial"), ("rime", "from_rime"), ("tone", "from_tone")):
        b = re.sub(r"\s+", "", fn_body(impl, fn))
        m = re.match(r"letindex=\(?self\.value\.get\(\)&(0b[01_]+)\)?(?:>>(\d+))?;ifindex==0\{None\}else\{Bopomofo::"
                     + frm + r"\(index-1\)\}$", b)
        if not m:
            raise ExtractError(f"Syllable::{fn}: unexpected body shape")
        out[fn + "Mask"] = rust_int(m.group(1))
        out[fn + "Shift"] = int(m.group(2) or 0)
    # removers
    for part in ("initial", "medial", "rime", "tone"):
        b = re.sub(r"\s+", "", fn_body(impl, "remove_" + part))
        m = re.match(r"letret=self\." + part + r"\(\);letvalue=self\.value\.get\(\)&(0b[01_]+);"
                     r"self\.value=matchvalue\{0=>Syllable::EMPTY\.value,_=>NonZeroU16::new\(value\)\.unwrap\(\),\};ret$", b)
        if not m:
            raise ExtractError(f"Syllable::remove_{part}: unexpected body shape")
        out["remove" + part.capitalize() + "Mask"] = rust_int(m.group(1))
    # update
    b = fn_body(impl, "update")
    arms = match_arms(b)
    seen = set()
    for pat, expr in arms:
        k = pat.split("::")[-1].strip()
        e = re.sub(r"\s+", "", expr)
        m = re.match(r"\(orig&(0b[01_]+)\)\|bopomofo\.index\(\)(?:\.shl\((\d+)\))?$", e)
        if not m:
            raise ExtractError(f"Syllable::update arm {k}: unexpected shape")
        out["update" + k + "Mask"] = rust_int(m.group(1))
        out["update" + k + "Shift"] = int(m.group(2) or 0)
        seen.add(k)
    if seen != {"Initial", "Medial", "Rime", "Tone"}:
        raise ExtractError("Syllable::update: arms missing")
    if not re.search(r"self\.value\s*=\s*NonZeroU16::new\(value\)\.unwrap\(\)", b):
        raise ExtractError("Syllable::update: tail changed")
    # pop: order of removal
    b = re.sub(r"\s+", "", fn_body(impl, "pop"))
    order = re.findall(r"ifself\.has_(\w+)\(\)\{returnself\.remove_(\w+)\(\);\}", b)
    if [a for a, _ in order] != [c for _, c in order] or len(order) != 4 or not b.endswith("None"):
        raise ExtractError("Syllable::pop: unexpected shape")
    kinds = {"initial": 0, "medial": 1, "rime": 2, "tone": 3}
    out_pop = [kinds[a] for a, _ in order]
    # starts_with
    b = re.sub(r"\s+", "", fn_body(impl, "starts_with"))
    m = re.match(r"lettrailing_zeros=other\.to_u16\(\)\.trailing_zeros\(\);letmask=((?:iftrailing_zeros>=\d+\{\d+\}else)+)\{(\d+)\};"
                 r"letself_prefix=self\.to_u16\(\)>>mask;letother_prefix=other\.to_u16\(\)>>mask;self_prefix==other_prefix$", b)
    if not m:
        raise ExtractError("Syllable::starts_with: unexpected shape")
    thr = [(int(a), int(c)) for a, c in re.findall(r"iftrailing_zeros>=(\d+)\{(\d+)\}else", m.group(1))]
    sw_default = int(m.group(2))
    # builder
    bimpl = block_after(src, r"impl\s+SyllableBuilder\s*\{")
    nb = re.sub(r"\s+", "", fn_body(bimpl, "new"))
    if nb != "SyllableBuilder{value:Syllable::EMPTY_PATTERN,step:0,}":
        raise ExtractError("SyllableBuilder::new: unexpected shape")
    ib = fn_body(bimpl, "insert")
    barms = {}
    # arms have block bodies: parse manually
    mm = re.search(r"match\s+bopomofo\.kind\(\)\s*\{", ib)
    if not mm:
        raise ExtractError("SyllableBuilder::insert: match not found")
    i = ib.find('{', mm.start())
    mbody = ib[i + 1:balanced(ib, i) - 1]
    pos = 0
    while True:
        m = re.search(r"BopomofoKind::(\w+)\s*=>\s*\{", mbody[pos:])
        if not m:
            break
        k = m.group(1)
        s = pos + m.end() - 1
        e = balanced(mbody, s)
        arm = re.sub(r"\s+", "", mbody[s + 1:e - 1])
        pos = e
        m2 = re.match(r"ifself\.value&(0b[01_]+)!=0\{returnErr\(BuildSyllableError::multiple_\w+\(\)\);\}"
                      r"ifself\.step>(\d+)\{returnErr\(BuildSyllableError::incorrect_order\(\)\);\}"
                      r"self\.step=(\d+);self\.value&=(0b[01_]+);self\.value\|=(.*);$", arm)
        if not m2:
            raise ExtractError(f"SyllableBuilder::insert arm {k}: unexpected shape")
        val = m2.group(5)
        m3 = re.match(r"\(bopomofoasu16([+-])(\d+)\)<<(\d+)$", val) or re.match(r"bopomofoasu16([+-])(\d+)()$", val)
        if not m3:
            raise ExtractError(f"SyllableBuilder::insert arm {k}: unexpected value expr {val}")
        off = int(m3.group(2)) * (1 if m3.group(1) == '+' else -1)
        barms[k] = dict(check=rust_int(m2.group(1)), maxStep=int(m2.group(2)), newStep=int(m2.group(3)),
                        clear=rust_int(m2.group(4)), off=off, shift=int(m3.group(3) or 0))
    if set(barms) != {"Initial", "Medial", "Rime", "Tone"}:
        raise ExtractError("SyllableBuilder::insert: arms missing")

    L = [HEADER.format(src="src/zhuyin/syllable.rs", h=sha(raw)), "namespace Chewing.Gen\n"]
    for k, v in out.items():
        L.append(f"def {k} : Nat := {v}")
    L.append("\n/-- `Syllable::pop`: kinds in the order they are tried (0 initial … 3 tone). -/")
    L.append(f"def popOrder : List Nat := {lean_list(map(str, out_pop))}")
    L.append("\n/-- `Syllable::starts_with`: (threshold on trailing zeros, shift) in test order, then the default shift. -/")
    L.append(f"def startsWithSteps : List (Nat × Nat) := {lean_list([f'({a}, {c})' for a, c in thr])}")
    L.append(f"def startsWithDefault : Nat := {sw_default}")
    L.append("\n/-- `SyllableBuilder::insert`, per kind (index 0 initial … 3 tone):\n"
             "    (duplicate-check mask, max step allowed, new step, clear mask, offset added to the discriminant, shift). -/")
    rows = []
    for k in ("Initial", "Medial", "Rime", "Tone"):
        a = barms[k]
        rows.append(f"({a['check']}, {a['maxStep']}, {a['newStep']}, {a['clear']}, ({a['off']} : Int), {a['shift']})")
    L.append(f"def builderArms : List (Nat × Nat × Nat × Nat × Int × Nat) := {lean_list(rows, 1)}")
    L.append("\nend Chewing.Gen\n")
    return {"SyllableBits.lean": "\n".join(L)}


EXTRACTORS = {
    "bopomofo": x_bopomofo,
    "syllable": x_syllable,
}


def main():
    only = sys.argv[1:] or list(EXTRACTORS)
    os.makedirs(OUT, exist_ok=True)
    status_path = os.path.join(OUT, "status.json")
    try:
        with open(status_path) as f:
            status = json.load(f)
    except Exception:
        status = {}
    rc = 0
    for name in only:
        try:
            files = EXTRACTORS[name]()
            changed = []
            for fn, text in files.items():
                p = os.path.join(OUT, fn)
                old = None
                if os.path.exists(p):
                    with open(p, encoding="utf-8") as f:
                        old = f.read()
                if old != text:
                    with open(p, "w", encoding="utf-8") as f:
                        f.write(text)
                    changed.append(fn)
            status[name] = {"ok": True, "files": sorted(files), "changed": changed,
                            "sha": {fn: sha(t) for fn, t in files.items()}}
        except Exception as e:  # ExtractError or anything a changed source shape provokes
            status[name] = {"ok": False, "error": f"{type(e).__name__}: {e}",
                            "trace": traceback.format_exc().splitlines()[-3:]}
            rc = 2
    with open(status_path, "w") as f:
        json.dump(status, f, indent=1, sort_keys=True)
    for name in only:
        s = status[name]
        print(f"extract {name}: " + ("ok" + (" (changed: " + ",".join(s["changed"]) + ")" if s["changed"] else "")
                                      if s["ok"] else "BROKEN " + s["error"]))
    return rc


if __name__ == "__main__":
    sys.exit(main())
