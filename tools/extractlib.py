"""Library of the translator (see extract.py): /repo source + data  ->  /verif/lean/Chewing/Gen/*.lean

Not a Rust-to-Lean compiler.  It recognises a fixed list of syntactic shapes
(enum declarations, `const NAME: [T; N] = [...]`, `match` arms inside a named
fn, binary-literal masks inside named fns, ...) and emits Lean `def`s over
Nat / Char / List.  It is run at the start of every check, so every table
theorem in Chewing/Props is re-elaborated against what the source says *now*.

Each extractor is independent; one that no longer recognises its source shape
is reported in Gen/status.json as broken (the tie for the properties that use
it is then broken; the previous Gen file is left in place so the rest of the
project still builds).
"""
import hashlib, json, os, re, sys, traceback

REPO = os.environ.get("VERIF_REPO", "/repo")
OUT = os.path.join(os.path.dirname(os.path.abspath(__file__)), "..", "lean", "Chewing", "Gen")
OUT = os.path.normpath(OUT)

EXTRACTORS = {}


def extractor(name):
    """decorator: register `fn() -> {filename: lean text}` under `name`"""
    def deco(fn):
        EXTRACTORS[name] = fn
        return fn
    return deco


class ExtractError(Exception):
    pass


def read(rel):
    with open(os.path.join(REPO, rel), encoding="utf-8") as f:
        return f.read()


def sha(text):
    return hashlib.sha256(text.encode("utf-8")).hexdigest()[:16]


def strip_comments(src):
    """Remove // line comments and /* */ block comments, respecting string/char literals."""
    out = []
    i, n = 0, len(src)
    while i < n:
        c = src[i]
        if c == '/' and i + 1 < n and src[i + 1] == '/':
            j = src.find('\n', i)
            if j < 0:
                j = n
            i = j
            continue
        if c == '/' and i + 1 < n and src[i + 1] == '*':
            depth, i = 1, i + 2
            while i < n and depth:
                if src.startswith('/*', i):
                    depth += 1; i += 2
                elif src.startswith('*/', i):
                    depth -= 1; i += 2
                else:
                    i += 1
            continue
        if c == '"':
            j = i + 1
            while j < n and src[j] != '"':
                j += 2 if src[j] == '\\' else 1
            out.append(src[i:j + 1]); i = j + 1
            continue
        if c == "'":
            # char literal or lifetime
            m = re.match(r"'(\\.[^']*|[^'\\])'", src[i:])
            if m:
                out.append(m.group(0)); i += len(m.group(0))
                continue
        out.append(c); i += 1
    return ''.join(out)


def balanced(src, start, open_ch='{', close_ch='}'):
    """src[start] must be open_ch; return index just after the matching close, skipping literals."""
    assert src[start] == open_ch, (src[start:start + 20],)
    depth, i, n = 0, start, len(src)
    while i < n:
        c = src[i]
        if c == '"':
            j = i + 1
            while j < n and src[j] != '"':
                j += 2 if src[j] == '\\' else 1
            i = j + 1
            continue
        if c == "'":
            m = re.match(r"'(\\.[^']*|[^'\\])'", src[i:])
            if m:
                i += len(m.group(0))
                continue
        if c == open_ch:
            depth += 1
        elif c == close_ch:
            depth -= 1
            if depth == 0:
                return i + 1
        i += 1
    raise ExtractError("unbalanced braces")


def block_after(src, pattern, flags=0, open_ch='{', close_ch='}'):
    """Text of the first balanced block that follows the first match of `pattern`."""
    m = re.search(pattern, src, flags)
    if not m:
        raise ExtractError(f"pattern not found: {pattern}")
    i = src.find(open_ch, m.end() - 1 if src[m.end() - 1] == open_ch else m.end())
    if i < 0:
        raise ExtractError(f"no block after: {pattern}")
    j = balanced(src, i, open_ch, close_ch)
    return src[i + 1:j - 1]


def fn_body(src, name, after=None):
    """Body of `fn name(` ; if `after` is given, search only after the first match of that regex."""
    base = 0
    if after is not None:
        m = re.search(after, src)
        if not m:
            raise ExtractError(f"anchor not found: {after}")
        base = m.end()
    m = re.search(r"\bfn\s+" + re.escape(name) + r"\s*(<[^>]*>)?\s*\(", src[base:])
    if not m:
        raise ExtractError(f"fn {name} not found")
    # skip the parameter list, then find the body's opening brace
    p = base + m.end() - 1
    q = balanced(src, p, '(', ')')
    i = src.find('{', q)
    j = balanced(src, i)
    return src[i + 1:j - 1]


def split_top(s, sep=','):
    """Split on sep at nesting depth 0 (parentheses, brackets, braces), skipping literals."""
    parts, depth, cur, i, n = [], 0, [], 0, len(s)
    while i < n:
        c = s[i]
        if c == '"':
            j = i + 1
            while j < n and s[j] != '"':
                j += 2 if s[j] == '\\' else 1
            cur.append(s[i:j + 1]); i = j + 1
            continue
        if c == "'":
            m = re.match(r"'(\\.[^']*|[^'\\])'", s[i:])
            if m:
                cur.append(m.group(0)); i += len(m.group(0))
                continue
        if c in '([{':
            depth += 1
        elif c in ')]}':
            depth -= 1
        if c == sep and depth == 0:
            parts.append(''.join(cur)); cur = []
        else:
            cur.append(c)
        i += 1
    if ''.join(cur).strip():
        parts.append(''.join(cur))
    return [p.strip() for p in parts]


def match_arms(body):
    """[(pattern_text, expr_text)] of the (single, outermost) `match … { … }` found in body,
    or of body itself if it already is a list of arms."""
    m = re.search(r"\bmatch\b[^{]*\{", body)
    if m:
        i = body.find('{', m.start())
        j = balanced(body, i)
        body = body[i + 1:j - 1]
    arms = []
    for part in split_top(body, ','):
        if '=>' not in part:
            continue
        # a block-bodied arm may be followed by the next arm without a comma: handle `} pat =>`
        pat, expr = part.split('=>', 1)
        arms.append((pat.strip(), expr.strip()))
    return arms


def rust_char(lit):
    lit = lit.strip()
    if not (lit.startswith("'") and lit.endswith("'")):
        raise ExtractError(f"not a char literal: {lit}")
    s = lit[1:-1]
    if s.startswith('\\'):
        esc = {'n': '\n', 't': '\t', 'r': '\r', '0': '\0', '\\': '\\', "'": "'", '"': '"'}
        if s[1] in esc and len(s) == 2:
            return esc[s[1]]
        m = re.match(r"\\u\{([0-9a-fA-F_]+)\}$", s)
        if m:
            return chr(int(m.group(1).replace('_', ''), 16))
        m = re.match(r"\\x([0-9a-fA-F]{2})$", s)
        if m:
            return chr(int(m.group(1), 16))
        raise ExtractError(f"unknown escape: {lit}")
    if len(s) != 1:
        raise ExtractError(f"bad char literal: {lit}")
    return s


def rust_int(lit):
    lit = lit.strip().replace('_', '')
    lit = re.sub(r"(u8|u16|u32|u64|usize|i8|i16|i32|i64|isize)$", "", lit)
    if lit.startswith('0b'):
        return int(lit[2:], 2)
    if lit.startswith('0x'):
        return int(lit[2:], 16)
    if lit.startswith('0o'):
        return int(lit[2:], 8)
    return int(lit)


def lean_char(c):
    return f"Char.ofNat {ord(c)}"


def lean_list(items, per_line=12):
    items = list(items)
    if not items:
        return "[]"
    lines = []
    for i in range(0, len(items), per_line):
        lines.append(", ".join(items[i:i + per_line]))
    return "[" + ",\n   ".join(lines) + "]"


def lean_str(s):
    out = []
    for ch in s:
        if ch == '"':
            out.append('\\"')
        elif ch == '\\':
            out.append('\\\\')
        elif ch == '\n':
            out.append('\\n')
        elif ch == '\t':
            out.append('\\t')
        elif ord(ch) < 32 or ord(ch) == 127:
            out.append('\\x%02x' % ord(ch))
        else:
            out.append(ch)
    return '"' + ''.join(out) + '"'


HEADER = "-- GENERATED by /verif/tools/extract.py from {src} (sha256/16 {h}). Do not edit.\n"

