"""Extractor for the memory-safety property of the C API (C15): capi/src/io.rs, capi/src/public.rs,
src/editor/zhuyin_layout/mod.rs (names), src/editor/zhuyin_layout/pinyin.rs (MAX_PINYIN_LEN).

Emits Gen/CApi.lean:
  * ctxBuffers        — the fixed `[u8; N]` buffers of `struct ChewingContext` (public.rs), checked against the
                        initialiser in chewing_new2 (io.rs);
  * staticGetters     — every exported function that calls `copy_cstr(&mut ctx.<buf>, …)` with its buffer;
  * copyCstrShape     — the literal (whitespace-free) body of `copy_cstr`, recognised against the reviewed shapes
                        (1 = fixed code: leave room for the NUL, step back to a char boundary; 0 = the code before
                        the fix).  Any other body raises ExtractError: the byte-level model no longer describes it;
  * callerCopyShape   — the literal body of `copy_cstr_to_caller` (the truncating copy into a CALLER's buffer), recognised
                        against the reviewed shapes (1 = steps back to a char boundary, 0 = the byte cut before the fix);
  * callerBufParams   — EVERY `*mut c_char` parameter of an exported function with its length parameter and the way
                        it is written: 0 = `copy_cstr_to_caller(<buf>, <len>, …)` behind a NULL check, 1 = the reviewed
                        all-or-nothing shape of chewing_phone_to_bopomofo; anything else raises ExtractError, and so
                        does a `slice::from_raw_parts_mut` / `copy_cstr_to_caller` site outside these;
  * exportedFns       — every `pub [unsafe] extern "C" fn` of io.rs: (name, ctx parameter kind 0 none / 1 *const /
                        2 *mut, number of `unsafe {` blocks in its body, may-mutate-the-user-dictionary);
  * dictMutFns        — names of the functions classified as possibly mutating the user dictionary: the body calls
                        one of the reviewed dictionary-reaching `Editor` methods (DICT_REACHING) or another exported
                        function that is classified so (fixpoint).  A `ctx.editor.<method>` that is in neither
                        reviewed list raises ExtractError (a new way into the editor must be reviewed);
  * iterFields / iterSites — the stored iterators of the context and every function that touches each;
  * userphraseIterBorrows / kbIterFused — recognised shapes of the user-phrase iterator (owned Vec vs. borrow) and
                        of the keyboard-type counter (fused or not);
  * heapGetters       — functions that register a heap result in OWNED, with the kind; every `into_raw` inside an
                        exported function must be wrapped in `owned_into_raw` (else ExtractError);
  * ownedKinds        — variants of `enum Owned`; freeShape / freeRemoves — recognised shapes of chewing_free's
                        rebuild arms and of its registry lookup (remove vs get);
  * unsafeBlocksTotal, helperUnsafeFns — all `unsafe {` blocks of io.rs and the non-exported `unsafe fn`s;
  * kbNames           — `impl Display for KeyboardLayoutCompat` texts as UTF-8 bytes; maxPinyinLen.
"""
import re
from extractlib import *

# Editor methods (src/editor/mod.rs, `impl Editor` / `impl BasicEditor for Editor`) reviewed 2026-09:
#   reach SharedState::learn_phrase / unlearn_phrase / dict.add_phrase / dict.reopen / dict.flush
DICT_REACHING = {"process_keyevent", "learn_phrase", "unlearn_phrase", "select", "commit"}
#   take &mut self but touch only editor state (state machine, buffers, options, syllable editor)
EDITOR_MUT_ONLY = {"clear", "ack", "set_syllable_editor", "clear_syllable_editor", "set_editor_options",
                   "start_selecting", "cancel_selecting", "jump_to_next_selection_point",
                   "jump_to_prev_selection_point", "jump_to_first_selection_point", "jump_to_last_selection_point",
                   "set_conversion_engine"}
#   take &self
EDITOR_PURE = {"is_selecting", "editor_options", "notification", "syllable_buffer_display", "display_commit",
               "all_candidates", "last_key_behavior", "display", "total_page", "paginated_candidates", "len",
               "is_entering", "is_empty", "intervals", "has_prev_selection_point", "has_next_selection_point",
               "entering_syllable", "cursor", "current_page_no", "symbols", "syllable_buffer"}
#   hands out the user dictionary itself: only the enumeration may use it, and only to create the iterator
USER_DICT = {"user_dict"}
#   `&self` methods of `trait Dictionary` the C API may call on it
DICT_READONLY = {"entries", "lookup_all_phrases", "lookup_first_phrase"}

ITER_FIELDS = ["kbcompat_iter", "cand_iter", "interval_iter", "userphrase_iter"]

COPY_FIXED = ("letmutn=min(buf.len().saturating_sub(1),buffer.len());while!buffer.is_char_boundary(n){n-=1;}"
              "buf.fill(0);buf[..n].copy_from_slice(&buffer.as_bytes()[..n]);buf.as_ptr().cast()")
COPY_OLD = ("letn=min(buf.len(),buffer.len());buf.fill(0);buf[..n].copy_from_slice(&buffer.as_bytes()[..n]);"
            "buf.as_ptr().cast()")


CALLER_FIXED = ("ifcap==0{return;}letmutn=min(src.len(),capasusize-1);while!src.is_char_boundary(n){n-=1;}"
                "letsrc=src.as_bytes();letbuf=unsafe{slice::from_raw_parts_mut(buf.cast::<u8>(),n+1)};"
                "buf[..n].copy_from_slice(&src[..n]);buf[n]=0;")
CALLER_OLD = ("ifcap==0{return;}letn=min(src.len(),capasusize-1);"
              "letbuf=unsafe{slice::from_raw_parts_mut(buf.cast::<u8>(),n+1)};"
              "buf[..n].copy_from_slice(&src[..n]);buf[n]=0;")
# chewing_phone_to_bopomofo: writes the whole text + NUL when it fits, nothing otherwise
PHONE_HEAD = "letsyl_str=matchSyllable::try_from(phone){Ok(s)=>s.to_string(),Err(_)=>returnERROR,};"
PHONE_FIT = ("if!buf.is_null()&&lenasusize>=(syl_str.len()+1){"
             "letbuf=unsafe{slice::from_raw_parts_mut(buf.cast(),lenasusize)};"
             "buf[0..syl_str.len()].copy_from_slice(syl_str.as_bytes());buf[syl_str.len()]=0;}"
             "(syl_str.len()+1)asc_int")


def ws(s):
    return re.sub(r"\s+", "", s)


def lean_str(s):
    return '"' + s.replace('\\', '\\\\').replace('"', '\\"') + '"'


def lean_list(items, per=6, indent="   "):
    out, line = [], []
    for it in items:
        line.append(it)
        if len(line) == per:
            out.append(", ".join(line)); line = []
    if line:
        out.append(", ".join(line))
    return "[" + (",\n" + indent).join(out) + "]"


def exported_functions(src):
    """[(name, params text, body text)] of every `pub [unsafe] extern "C" fn`"""
    fns = []
    for m in re.finditer(r'\bpub\s+(unsafe\s+)?extern\s+"C"\s+fn\s+([A-Za-z_][A-Za-z0-9_]*)\s*\(', src):
        p = m.end() - 1
        q = balanced(src, p, '(', ')')
        i = src.find('{', q)
        j = balanced(src, i)
        fns.append((m.group(2), src[p + 1:q - 1], src[i + 1:j - 1]))
    return fns


@extractor("capi")
def capi():
    io_raw = read("capi/src/io.rs")
    pub_raw = read("capi/src/public.rs")
    io = strip_comments(io_raw)
    pub = strip_comments(pub_raw)

    # --- context buffers -------------------------------------------------------------------------------------
    struct = block_after(pub, r"\bpub\s+struct\s+ChewingContext\s*\{")
    bufs = re.findall(r"pub\(crate\)\s+([a-z_]+)\s*:\s*\[\s*u8\s*;\s*(\d+)\s*\]", struct)
    if not bufs:
        raise ExtractError("no [u8; N] buffers in struct ChewingContext")
    new2 = fn_body(io, "chewing_new2")
    for name, n in bufs:
        m = re.search(r"\b" + name + r"\s*:\s*\[\s*0\s*;\s*(\d+)\s*\]", new2)
        if not m or m.group(1) != n:
            raise ExtractError(f"buffer {name}: declared [u8; {n}] but initialised differently in chewing_new2")
    iters = re.findall(r"pub\(crate\)\s+([a-z_]+_iter)\s*:", struct)
    if iters != ITER_FIELDS:
        raise ExtractError(f"stored iterators of ChewingContext changed: {iters} (reviewed: {ITER_FIELDS})")
    # userphrase_iter: reviewed shapes — 0 = the iterator OWNS a collected Vec (`vec::IntoIter<(Vec<Syllable>, Phrase)>`
    # filled by `user_dict().entries().collect()` in chewing_userphrase_enumerate), 1 = the code before the F22 fix
    # (`Entries<'static>` made from the raw context pointer: a borrow of the user dictionary)
    enum_body = ws(fn_body(io, "chewing_userphrase_enumerate"))
    if re.search(r"userphrase_iter\s*:\s*Option<Peekable<Entries<'static>>>", struct):
        if "ctx.userphrase_iter=Some(ctx.editor.user_dict().entries().peekable());" not in enum_body:
            raise ExtractError("chewing_userphrase_enumerate: unrecognised body for the borrowing iterator: " + enum_body)
        uiter_borrows = 1
    elif re.search(r"userphrase_iter\s*:\s*Option<Peekable<std::vec::IntoIter<\(Vec<Syllable>,\s*Phrase\)>>>", struct):
        if ("letentries:Vec<_>=ctx.editor.user_dict().entries().collect();"
                "ctx.userphrase_iter=Some(entries.into_iter().peekable());") not in enum_body:
            raise ExtractError("chewing_userphrase_enumerate: unrecognised body for the owning iterator: " + enum_body)
        uiter_borrows = 0
    else:
        raise ExtractError("userphrase_iter: unrecognised type (reviewed: Peekable<Entries<'static>> = borrows, "
                           "Peekable<std::vec::IntoIter<(Vec<Syllable>, Phrase)>> = owns)")
    # kbcompat_iter: a u8 counter `(0..).map_while(try_from)`; 1 = fused (stays at the end), 0 = the earlier code
    # (MapWhile keeps pulling after its first None: ~256 reads overflow the counter)
    kb_body = ws(fn_body(io, "chewing_kbtype_Enumerate"))
    if "(0..).map_while(|id|KeyboardLayoutCompat::try_from(id).ok()).fuse()" in kb_body:
        kb_fused = 1
    elif "(0..).map_while(|id|KeyboardLayoutCompat::try_from(id).ok())" in kb_body:
        kb_fused = 0
    else:
        raise ExtractError("chewing_kbtype_Enumerate: unrecognised iterator: " + kb_body)
    # chewing_config_get_str("chewing.selection_keys"): one `char` per key collected into a String, then CString::new
    # (1 = that shape: the text is valid UTF-8 whatever integers the legacy setters stored; anything else is unreviewed)
    gs_body = ws(fn_body(io, "chewing_config_get_str"))
    if ('"chewing.selection_keys"=>ctx.sel_keys.0.iter().map(|&key|char::from(keyasu8)).collect(),' in gs_body
            and "letOk(cstring)=CString::new(string)else{returnERROR;};" in gs_body
            and "owned_into_raw(Owned::CString,cstring.into_raw())" in gs_body):
        selkeys_getter = 1
    else:
        raise ExtractError("chewing_config_get_str: the selection_keys arm / CString construction is not the reviewed "
                           "shape (chars collected into a String, CString::new, ERROR on NUL): " + gs_body[:600])
    # the other two collected iterators are made from owned, fused sources
    if "Box::new(candidates.into_iter())asBox<dynIterator<Item=String>>" not in ws(fn_body(io, "chewing_cand_Enumerate")):
        raise ExtractError("chewing_cand_Enumerate: the iterator is no longer Vec::into_iter of the collected candidates")
    if "Box::new(ctx.editor.intervals().filter(|it|it.is_phrase))" not in ws(fn_body(io, "chewing_interval_Enumerate")):
        raise ExtractError("chewing_interval_Enumerate: unrecognised iterator")
    for f in ("kbcompat_iter", "cand_iter", "interval_iter"):
        if not re.search(f + r"\s*:\s*Option<Peekable<Box<dyn\s+Iterator<Item\s*=\s*[A-Za-z]+>>>>", struct):
            raise ExtractError(f"{f}: no longer a Peekable<Box<dyn Iterator<Item = T>>> (owned, 'static by default)")

    # --- copy_cstr --------------------------------------------------------------------------------------------
    body = ws(fn_body(io, "copy_cstr"))
    if body == COPY_FIXED:
        copy_shape = 1
    elif body == COPY_OLD:
        copy_shape = 0
    else:
        raise ExtractError("copy_cstr has an unrecognised body: " + body)

    # --- caller buffers ----------------------------------------------------------------------------------------
    m = re.search(r"\bunsafe\s+fn\s+copy_cstr_to_caller\s*\(([^)]*)\)", io)
    if not m:
        raise ExtractError("copy_cstr_to_caller not found")
    sig = ws(m.group(1))
    cbody = ws(fn_body(io, "copy_cstr_to_caller"))
    if cbody == CALLER_FIXED and sig == "buf:*mutc_char,cap:c_uint,src:&str":
        caller_shape = 1
    elif cbody == CALLER_OLD and sig == "buf:*mutc_char,cap:c_uint,src:&[u8]":
        caller_shape = 0
    else:
        raise ExtractError("copy_cstr_to_caller has an unrecognised signature/body: (" + sig + ") " + cbody)

    # --- OWNED / chewing_free ---------------------------------------------------------------------------------
    owned = block_after(io, r"\benum\s+Owned\s*\{")
    kinds = [re.sub(r"\(.*\)", "", p.strip()) for p in split_top(owned, ',') if p.strip()]
    if kinds != ["CString", "CUShortSlice"]:
        raise ExtractError(f"enum Owned changed: {kinds}")
    free_body = ws(fn_body(io, "chewing_free"))
    if "Owned::CString=>drop(unsafe{CString::from_raw(ptr.cast())})," not in free_body:
        raise ExtractError("chewing_free: unrecognised CString arm: " + free_body)
    m = re.search(r"Owned::CUShortSlice\(len\)=>\{drop\(unsafe\{Vec::from_raw_parts\((ptr(?:\.cast::<c_ushort>\(\))?),\*?len,\*?len\)\}\)\}", free_body)
    if not m:
        raise ExtractError("chewing_free: unrecognised u16-slice arm: " + free_body)
    free_shape = 1 if m.group(1) != "ptr" else 0
    if "ifletSome(owned)=map.remove(&(ptrasusize))" in free_body:
        free_removes = 1
    elif "ifletSome(owned)=map.get(&(ptrasusize))" in free_body:
        free_removes = 0
    else:
        raise ExtractError("chewing_free: unrecognised registry lookup: " + free_body)
    if ws(fn_body(io, "owned_into_raw")).count("map.insert(ptrasusize,owned)") != 1:
        raise ExtractError("owned_into_raw no longer inserts (ptr as usize, owned)")
    if len(re.findall(r"\bOWNED\b", io)) != 3:
        raise ExtractError("OWNED is used at a new site (reviewed: declaration, owned_into_raw, chewing_free)")

    # --- exported functions -----------------------------------------------------------------------------------
    fns = exported_functions(io)
    names = [f[0] for f in fns]
    if len(set(names)) != len(names):
        raise ExtractError("duplicate exported function name")
    rows, calls, direct = [], {}, {}
    iter_sites = {f: [] for f in ITER_FIELDS}
    getters = []
    heap_getters = []
    caller_params = []
    for name, params, fbody in fns:
        first = params.split(',')[0]
        if re.search(r"\*\s*mut\s+ChewingContext", first):
            kind = 2
        elif re.search(r"\*\s*const\s+ChewingContext", first):
            kind = 1
        else:
            kind = 0
        unsafe_blocks = len(re.findall(r"\bunsafe\s*\{", fbody))
        methods = set(re.findall(r"\bctx\s*\.\s*editor\s*\.\s*([a-z_]+)\s*\(", fbody))
        unknown = methods - DICT_REACHING - EDITOR_MUT_ONLY - EDITOR_PURE - USER_DICT
        if unknown:
            raise ExtractError(f"{name} calls unreviewed Editor method(s) {sorted(unknown)}")
        if "user_dict" in methods:
            used = set(re.findall(r"user_dict\(\)\.([a-z_]+)\(", ws(fbody)))
            if not used or used - DICT_READONLY or len(used) != len(set(used)):
                raise ExtractError(f"{name} uses the user dictionary through unreviewed method(s) {sorted(used)}")
            if "entries" in used and name != "chewing_userphrase_enumerate":
                raise ExtractError(f"{name} creates a user-dictionary iterator (reviewed: only chewing_userphrase_enumerate)")
            if ws(fbody).count("user_dict()") != len(re.findall(r"user_dict\(\)\.[a-z_]+\(", ws(fbody))):
                raise ExtractError(f"{name} keeps the user dictionary reference")
        # any other path to the editor than `ctx.editor.<method>(` must be reviewed
        other_editor = re.findall(r"\bctx\s*\.\s*editor\b(?!\s*\.\s*[a-z_]+\s*\()", fbody)
        if other_editor:
            raise ExtractError(f"{name} uses the editor in an unrecognised way")
        direct[name] = bool(methods & DICT_REACHING)
        calls[name] = set(c for c in re.findall(r"\b(chewing_[A-Za-z0-9_]+)\s*\(", fbody) if c in names and c != name)
        for f in ITER_FIELDS:
            if re.search(r"\bctx\s*\.\s*" + f + r"\b", fbody):
                iter_sites[f].append(name)
        for b in re.findall(r"copy_cstr\s*\(\s*&mut\s+ctx\s*\.\s*([a-z_]+)\s*,", fbody):
            getters.append((name, b))
        # every text buffer the CALLER supplies: `<buf>: *mut c_char` followed by its length parameter
        plist = [ws(x) for x in split_top(params, ',') if x.strip()]
        for i, prm in enumerate(plist):
            pname, _, ptype = prm.partition(':')
            if ptype == "*mutc_char":
                if i + 1 >= len(plist) or not re.fullmatch(r"[a-z_]*len:c_(uint|ushort)", plist[i + 1]):
                    raise ExtractError(f"{name}: caller buffer {pname} is not followed by a length parameter")
                lname = plist[i + 1].partition(':')[0]
                wb0 = ws(fbody)
                trunc = f"if!{pname}.is_null(){{"
                if wb0.count(f"copy_cstr_to_caller({pname},{lname},") == 1 and wb0.count(pname) == 2 and trunc in wb0:
                    caller_params.append((name, pname, lname, 0))
                elif name == "chewing_phone_to_bopomofo" and wb0 == PHONE_HEAD + PHONE_FIT and (pname, lname) == ("buf", "len"):
                    caller_params.append((name, pname, lname, 1))
                else:
                    raise ExtractError(f"{name}: caller buffer ({pname}, {lname}) is written in an unreviewed way: " + wb0[-400:])
            elif ptype.startswith("*mut") and ptype not in ("*mutChewingContext", "*mutc_void", "*mutc_uint", "*mutc_int",
                                                    "*mutIntervalType", "*mut*mutc_char", "*mutChewingConfigData"):
                raise ExtractError(f"{name}: out-parameter {prm} of an unreviewed type")
        rows.append([name, kind, unsafe_blocks])
        wb = ws(fbody)
        if "owned_into_raw(Owned::CString" in wb:
            heap_getters.append((name, 0))
        if "owned_into_raw(Owned::CUShortSlice" in wb:
            heap_getters.append((name, 1))
        # every raw pointer made from an owned value inside an exported function is registered
        n_raw = len(re.findall(r"\.into_raw\(\)", wb)) + len(re.findall(r"Box::into_raw\(", wb))
        n_reg = wb.count("owned_into_raw(")
        if name not in ("chewing_new2",) and n_raw != n_reg:
            raise ExtractError(f"{name}: {n_raw} into_raw conversions but {n_reg} owned_into_raw registrations")
    if len(re.findall(r"\bcopy_cstr\s*\(", io)) != len(getters) + 1 + io.count("pub fn verif_copy_cstr"):
        raise ExtractError("copy_cstr is called in an unrecognised way (reviewed: copy_cstr(&mut ctx.<buf>, …))")
    n_trunc = sum(1 for c in caller_params if c[3] == 0)
    if len(re.findall(r"\bcopy_cstr_to_caller\s*\(", io)) != n_trunc + 1:
        raise ExtractError("copy_cstr_to_caller is called outside the reviewed caller-buffer parameters")
    if len(re.findall(r"\bfrom_raw_parts_mut\b", io)) != 1 + sum(1 for c in caller_params if c[3] == 1):
        raise ExtractError("a new `slice::from_raw_parts_mut` site (reviewed: copy_cstr_to_caller, chewing_phone_to_bopomofo)")
    if re.search(r"copy_nonoverlapping|ptr::write|\.write_bytes\(|\.write_unaligned\(", io):
        raise ExtractError("raw pointer writes of an unreviewed kind in capi/src/io.rs")
    mut = dict(direct)
    changed = True
    while changed:
        changed = False
        for n in names:
            if not mut[n] and any(mut[c] for c in calls[n]):
                mut[n] = True
                changed = True
    # a function that cannot even name the context mutably cannot be classified as mutating
    total_unsafe = len(re.findall(r"\bunsafe\s*\{", io))
    helper_unsafe = [m.group(1) for m in re.finditer(r"(?<!pub )\bunsafe\s+fn\s+([a-z_0-9]+)", io)
                     if m.group(1) not in names]

    # --- names ------------------------------------------------------------------------------------------------
    zl = strip_comments(read("src/editor/zhuyin_layout/mod.rs"))
    disp = block_after(zl, r"impl\s+Display\s+for\s+KeyboardLayoutCompat\s*\{")
    kb = re.findall(r'KeyboardLayoutCompat::([A-Za-z0-9]+)\s*=>\s*f\.write_str\("([^"\\]*)"\)', disp)
    if len(kb) < 10 or len(kb) != disp.count("=>"):
        raise ExtractError("Display for KeyboardLayoutCompat: unrecognised arms")
    py = strip_comments(read("src/editor/zhuyin_layout/pinyin.rs"))
    m = re.search(r"const\s+MAX_PINYIN_LEN\s*:\s*usize\s*=\s*(\d+)\s*;", py)
    if not m:
        raise ExtractError("MAX_PINYIN_LEN not found")
    max_pinyin = int(m.group(1))

    hdr = (f"-- GENERATED by /verif/tools/extract.py from capi/src/io.rs (sha256/16 {sha(io_raw)}), capi/src/public.rs "
           f"(sha256/16 {sha(pub_raw)}). Do not edit.\n\nnamespace Chewing.Gen.CApi\n\n")
    t = hdr
    t += "/-- fixed buffers of `struct ChewingContext` (field, capacity) -/\n"
    t += "def ctxBuffers : List (String × Nat) := " + lean_list([f"({lean_str(n)}, {c})" for n, c in bufs], 3) + "\n\n"
    t += "/-- exported functions that fill a context buffer with `copy_cstr` (function, buffer field) -/\n"
    t += "def staticGetters : List (String × String) := " + \
         lean_list([f"({lean_str(a)}, {lean_str(b)})" for a, b in getters], 2) + "\n\n"
    t += "/-- recognised body of `copy_cstr`: 1 = reserves the NUL and steps back to a character boundary, 0 = `min(cap, len)` -/\n"
    t += f"def copyCstrShape : Nat := {copy_shape}\n\n"
    t += ("/-- recognised body of `copy_cstr_to_caller` (truncating copy into a caller's buffer): 1 = `min(len, cap-1)` stepped "
          "back to a character boundary, 0 = the plain byte cut before the fix -/\n")
    t += f"def callerCopyShape : Nat := {caller_shape}\n\n"
    t += ("/-- EVERY `*mut c_char` parameter of an exported function: (function, buffer, length parameter, kind) with kind 0 = "
          "written by `copy_cstr_to_caller(buffer, length, …)`, 1 = all-or-nothing (chewing_phone_to_bopomofo) -/\n")
    t += "def callerBufParams : List (String × String × String × Nat) := " + \
         lean_list([f"({lean_str(a)}, {lean_str(b)}, {lean_str(c)}, {k})" for a, b, c, k in sorted(caller_params)], 1) + "\n\n"
    t += "/-- recognised rebuild arms of `chewing_free`: 1 = `Vec<c_ushort>`, 0 = `Vec<c_void>` (layout mismatch) -/\n"
    t += f"def freeShape : Nat := {free_shape}\n\n"
    t += "/-- 1 = `chewing_free` removes the registry entry it releases (`map.remove`), 0 = it only looks it up (`map.get`) -/\n"
    t += f"def freeRemoves : Nat := {free_removes}\n\n"
    t += "def ownedKinds : List String := " + lean_list([lean_str(k) for k in kinds]) + "\n\n"
    t += ("/-- 1 = `userphrase_iter` is `Peekable<Entries<'static>>` (borrows the user dictionary), 0 = it is a "
          "`Peekable<vec::IntoIter<…>>` over the entries collected by `chewing_userphrase_enumerate` -/\n")
    t += f"def userphraseIterBorrows : Nat := {uiter_borrows}\n\n"
    t += "/-- 1 = the keyboard-type counter of `chewing_kbtype_Enumerate` is fused (`.map_while(..).fuse()`), 0 = it is not -/\n"
    t += f"def kbIterFused : Nat := {kb_fused}\n\n"
    t += ("/-- 1 = `chewing_config_get_str(\"chewing.selection_keys\")` collects `char::from(key as u8)` into a String and "
          "hands out `CString::new(string)` (ERROR on an interior NUL) -/\n")
    t += f"def selKeysGetterShape : Nat := {selkeys_getter}\n\n"
    t += "/-- every `pub [unsafe] extern \"C\" fn` of io.rs: (name, ctx parameter 0 none / 1 *const / 2 *mut, `unsafe {` blocks) -/\n"
    t += "def exportedFns : List (String × Nat × Nat) := " + \
         lean_list([f"({lean_str(n)}, {k}, {u})" for n, k, u in rows], 2) + "\n\n"
    t += "/-- exported functions that may mutate the user dictionary (reach learn/unlearn/reopen/flush) -/\n"
    t += "def dictMutFns : List String := " + lean_list([lean_str(n) for n in names if mut[n]], 3) + "\n\n"
    t += "/-- functions that hand out a heap result registered in `OWNED` (0 = CString, 1 = u16 slice) -/\n"
    t += "def heapGetters : List (String × Nat) := " + lean_list([f"({lean_str(n)}, {k})" for n, k in heap_getters], 3) + "\n\n"
    t += "def iterFields : List String := " + lean_list([lean_str(f) for f in ITER_FIELDS]) + "\n\n"
    t += "/-- functions that touch each stored iterator -/\n"
    t += "def iterSites : List (String × List String) := " + \
         lean_list([f"({lean_str(f)}, {lean_list([lean_str(n) for n in iter_sites[f]], 3, '      ')})" for f in ITER_FIELDS], 1) + "\n\n"
    t += f"def unsafeBlocksTotal : Nat := {total_unsafe}\n\n"
    t += "def helperUnsafeFns : List String := " + lean_list([lean_str(n) for n in helper_unsafe]) + "\n\n"
    t += "/-- `impl Display for KeyboardLayoutCompat`: the texts of `chewing_kbtype_String[_static]`, as UTF-8 bytes -/\n"
    t += "def kbNames : List (List Nat) := " + \
         lean_list(["[" + ", ".join(str(b) for b in s.encode()) + "]" for _, s in kb], 1) + "\n\n"
    t += f"def maxPinyinLen : Nat := {max_pinyin}\n\n"
    t += "end Chewing.Gen.CApi\n"
    return {"CApi.lean": t}
