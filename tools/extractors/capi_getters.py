"""Extractor for the C GETTERS of capi/src/io.rs (work package capiget; C17 / C06 / C07 / C05 / C02).

Emits Gen/CApiGetters.lean (namespace Chewing.Gen.CApiGetters) — what `Model/CApiGetters.lean` interprets:

  * getterTable — one row per plain getter: (C function, Editor method it reads, conversion, argument of the conversion,
      NULL-context answer).
      Editor method : the `ctx.editor.<method>()` called (for `editor_options().<field>` the FIELD name);
      conversion    : "as_c_int"              `x as c_int`
                      "not_as_c_int"          `!x as c_int`
                      "not_is_empty"          `!x.is_empty() as c_int`
                      "chars_count"           `x.chars().count() as c_int`
                      "unwrap_or_default"     `x.unwrap_or_default() as c_int`
                      "len_or_0"              `match x { Ok(v) => v.len() as c_int, Err(_) => 0 }`
                      "false_if"              `if x { FALSE } else { TRUE }`
                      "selecting_as_c_int"    `if !is_selecting() { return 0 }  x as c_int`
                      "is" + <Variant>        `match x { EditorKeyBehavior::<Variant> => TRUE, _ => FALSE }`
                      "heap_or_null"          `CString::new(x)`: Ok -> owned pointer, Err (interior NUL) -> NULL pointer
                      "heap_unwrap"           `CString::new(x).unwrap()` -> owned pointer (interior NUL = panic)
                      "static" + <field>      `copy_cstr(&mut ctx.<field>, x)` -> pointer into that context buffer
      NULL answer   : "ERROR" / "FALSE" (the `as_ref_or_return!` value), "empty_heap" (`CString::default().into_raw()`
                      registered as owned), "global_empty" (`global_empty_cstr()`).
  * enumShapes — the stateful enumeration protocol (chewing_cand_Enumerate / hasNext / String / String_static /
      string_by_index / string_by_index_static, chewing_interval_Enumerate / hasNext / Get) and the deprecated / composite
      getters chewing_zuin_Check / zuin_String / get_phoneSeq / get_phoneSeqLen: (function, 1) when the body is
      EXACTLY the reviewed text whose meaning `Model/CApiGetters.lean` writes out (fail closed otherwise).

Every body must be one of the recognised shapes: anything else raises ExtractError (fail closed).
"""
import re
from extractlib import *
from extractors.capi_keys import exported_functions, ws, lstr

REF = r"letctx=as_ref_or_return!\(ctx,(ERROR|FALSE)\);"
EMPTY_HEAP = "owned_into_raw(Owned::CString,CString::default().into_raw())"
HEAP_FRAME = "letctx=as_ref_or_return!(ctx," + EMPTY_HEAP + ");"
STATIC_FRAME = "letctx=as_mut_or_return!(ctx.cast_mut(),global_empty_cstr());"

INT_GETTERS = ["chewing_buffer_Check", "chewing_buffer_Len", "chewing_cursor_Current", "chewing_bopomofo_Check",
               "chewing_commit_Check", "chewing_aux_Check", "chewing_aux_Length",
               "chewing_cand_TotalPage", "chewing_cand_TotalChoice", "chewing_cand_ChoicePerPage",
               "chewing_cand_CurrentPage", "chewing_cand_CheckDone", "chewing_cand_list_has_next",
               "chewing_cand_list_has_prev", "chewing_keystroke_CheckIgnore", "chewing_keystroke_CheckAbsorb"]
HEAP_GETTERS = ["chewing_buffer_String", "chewing_bopomofo_String", "chewing_commit_String", "chewing_aux_String"]
STATIC_GETTERS = ["chewing_buffer_String_static", "chewing_bopomofo_String_static", "chewing_commit_String_static",
                  "chewing_aux_String_static"]

INT_SHAPES = [
    (r"!ctx\.editor\.(\w+)\(\)\.is_empty\(\)asc_int", "not_is_empty"),
    (r"!ctx\.editor\.(\w+)\(\)asc_int", "not_as_c_int"),
    (r"ctx\.editor\.(\w+)\(\)asc_int", "as_c_int"),
    (r"ctx\.editor\.(\w+)\(\)\.chars\(\)\.count\(\)asc_int", "chars_count"),
    (r"ctx\.editor\.(\w+)\(\)\.unwrap_or_default\(\)asc_int", "unwrap_or_default"),
    (r"ctx\.editor\.editor_options\(\)\.(\w+)asc_int", "as_c_int"),
    (r"matchctx\.editor\.(\w+)\(\)\{Ok\((\w+)\)=>\2\.len\(\)asc_int,Err\(_\)=>0,\}", "len_or_0"),
    (r"ifctx\.editor\.(\w+)\(\)\{FALSE\}else\{TRUE\}", "false_if"),
    (r"if!ctx\.editor\.is_selecting\(\)\{return(?:0|FALSE);\}ctx\.editor\.(\w+)\(\)asc_int", "selecting_as_c_int"),
]

# the reviewed bodies of the enumeration protocol (whitespace removed, comments stripped)
ENUM_BODIES = {
    "chewing_cand_Enumerate":
        "letctx=as_mut_or_return!(ctx);ifletOk(candidates)=ctx.editor.paginated_candidates(){"
        "debug!(\"candidates:{candidates:?}\");letphrases=Box::new(candidates.into_iter())asBox<dynIterator<Item=String>>;"
        "ctx.cand_iter=Some(phrases.peekable());}",
    "chewing_cand_hasNext":
        "letctx=as_mut_or_return!(ctx,ERROR);if!ctx.editor.is_selecting(){returnFALSE;}"
        "ctx.cand_iter.as_mut().and_then(|it|it.peek()).map_or(0,|_|1)",
    "chewing_cand_String":
        "letctx=as_mut_or_return!(ctx," + EMPTY_HEAP + ");matchctx.cand_iter.as_mut().and_then(|it|it.next()){"
        "Some(phrase)=>{letcstr=matchCString::new(phrase.clone()){Ok(cstr)=>cstr,Err(_)=>return" + EMPTY_HEAP + ",};"
        "owned_into_raw(Owned::CString,cstr.into_raw())}None=>" + EMPTY_HEAP + ",}",
    "chewing_cand_String_static":
        "letctx=as_mut_or_return!(ctx,global_empty_cstr());matchctx.cand_iter.as_mut().and_then(|it|it.next()){"
        "Some(phrase)=>copy_cstr(&mutctx.cand_buf,&phrase),None=>global_empty_cstr(),}",
    "chewing_cand_string_by_index":
        "letctx=as_mut_or_return!(ctx," + EMPTY_HEAP + ");ifletOk(phrases)=ctx.editor.all_candidates(){"
        "ifletSome(phrase)=phrases.get(indexasusize){returnowned_into_raw(Owned::CString,"
        "CString::new(phrase.to_owned()).unwrap().into_raw(),);}}" + EMPTY_HEAP,
    "chewing_cand_string_by_index_static":
        "letctx=as_mut_or_return!(ctx,global_empty_cstr());ifletOk(phrases)=ctx.editor.all_candidates(){"
        "ifletSome(phrase)=phrases.get(indexasusize){returncopy_cstr(&mutctx.cand_buf,phrase);}}global_empty_cstr()",
    "chewing_interval_Enumerate":
        "letctx=as_mut_or_return!(ctx);ctx.interval_iter=Some((Box::new(ctx.editor.intervals().filter(|it|it.is_phrase))"
        "asBox<dynIterator<Item=Interval>>).peekable(),);",
    "chewing_interval_hasNext":
        "letctx=as_mut_or_return!(ctx,ERROR);ctx.interval_iter.as_mut().map_or(FALSE,|it|matchit.peek(){"
        "Some(_)=>TRUE,None=>FALSE,})",
    "chewing_zuin_Check": "unsafe{chewing_bopomofo_Check(ctx)^1}",
    "chewing_zuin_String":
        "letctx=as_ref_or_return!(ctx," + EMPTY_HEAP + ");letsyllable=ctx.editor.syllable_buffer_display();"
        "unsafe{*zuin_count=syllable.chars().count()asc_int;}letcstr=matchCString::new(syllable){Ok(cstr)=>cstr,"
        "Err(_)=>returnnull_mut(),};owned_into_raw(Owned::CString,cstr.into_raw())",
    "chewing_get_phoneSeq":
        "letctx=as_ref_or_return!(ctx,null_mut());letsyllables:Vec<_>=ctx.editor.symbols().iter().cloned()"
        ".filter(Symbol::is_syllable).map(|sym|sym.to_syllable().unwrap().to_u16()).collect();letlen=syllables.len();"
        "letptr=Box::into_raw(syllables.into_boxed_slice());owned_into_raw(Owned::CUShortSlice(len),ptr.cast())",
    "chewing_get_phoneSeqLen":
        "letctx=as_ref_or_return!(ctx,ERROR);ctx.editor.symbols().iter().cloned().filter(Symbol::is_syllable).count()asc_int",
    "chewing_interval_Get":
        "letctx=as_mut_or_return!(ctx);letit=unsafe{matchit.as_mut(){Some(it)=>it,None=>return,}};"
        "ifletSome(iter)=&mutctx.interval_iter{ifletSome(interval)=iter.next(){it.from=interval.startasi32;"
        "it.to=interval.endasi32;}}",
}


@extractor("capi_getters")
def capi_getters():
    io_raw = read("capi/src/io.rs")
    fns = exported_functions(strip_comments(io_raw))
    rows = []

    def body(name):
        if name not in fns:
            raise ExtractError(f"{name} not found")
        params, b = fns[name]
        if not re.fullmatch(r"ctx:\*(const|mut)ChewingContext", params):
            raise ExtractError(f"{name}: unexpected parameters {params}")
        return b

    for name in INT_GETTERS:
        b = body(name)
        m = re.match(REF, b)
        if not m:
            raise ExtractError(f"{name}: NULL check not recognised")
        null, core = m.group(1), b[m.end():]
        hit = None
        g = re.fullmatch(r"matchctx\.editor\.(\w+)\(\)\{EditorKeyBehavior::(\w+)=>TRUE,_=>FALSE,\}", core)
        if g:
            hit = (g.group(1), "is", g.group(2))
        for pat, conv in INT_SHAPES:
            if hit:
                break
            g = re.fullmatch(pat, core)
            if g:
                hit = (g.group(1), conv, "")
        if not hit:
            raise ExtractError(f"{name}: unrecognised body {core}")
        rows.append((name, hit[0], hit[1], hit[2], null))

    for name in HEAP_GETTERS:
        b = body(name)
        if b.startswith(HEAP_FRAME):
            g = re.fullmatch(r"let(?P<v>\w+)=ctx\.editor\.(\w+)\(\);letcstr=matchCString::new\((?P=v)\)\{Ok\(cstr\)=>cstr,"
                             r"Err\(_\)=>returnnull_mut\(\),\};owned_into_raw\(Owned::CString,cstr\.into_raw\(\)\)",
                             b[len(HEAP_FRAME):])
            if not g:
                raise ExtractError(f"{name}: unrecognised body")
            rows.append((name, g.group(2), "heap_or_null", "", "empty_heap"))
            continue
        g = re.fullmatch(r"letctx=matchunsafe\{ctx\.as_ref\(\)\}\{Some\(ctx\)=>ctx,None=>return" + re.escape(EMPTY_HEAP) +
                         r",\};letcstring=CString::new\(ctx\.editor\.(\w+)\(\)\)\.unwrap\(\);"
                         r"owned_into_raw\(Owned::CString,cstring\.into_raw\(\)\)", b)
        if not g:
            raise ExtractError(f"{name}: unrecognised body")
        rows.append((name, g.group(1), "heap_unwrap", "", "empty_heap"))

    for name in STATIC_GETTERS:
        b = body(name)
        if not b.startswith(STATIC_FRAME):
            raise ExtractError(f"{name}: NULL check not recognised")
        g = re.fullmatch(r"copy_cstr\(&mutctx\.(\w+),&?ctx\.editor\.(\w+)\(\)\)", b[len(STATIC_FRAME):])
        if not g:
            raise ExtractError(f"{name}: unrecognised body")
        rows.append((name, g.group(2), "static", g.group(1), "global_empty"))

    shapes = []
    for name, want in ENUM_BODIES.items():
        if name not in fns:
            raise ExtractError(f"{name} not found")
        if fns[name][1] != want:
            raise ExtractError(f"{name}: body is not the reviewed text: {fns[name][1]}")
        shapes.append((name, 1))

    t = (f"-- GENERATED by /verif/tools/extract.py from capi/src/io.rs (sha256/16 {sha(io_raw)}). Do not edit.\n\n"
         "namespace Chewing.Gen.CApiGetters\n\n")
    t += ("/-- the plain getters: (C function, `ctx.editor` method (or option field) read, conversion, its argument, NULL-context answer) -/\n")
    t += "def getterTable : List (String × String × String × String × String) := " + \
         lean_list([f"({lstr(a)}, {lstr(b)}, {lstr(c)}, {lstr(d)}, {lstr(e)})" for a, b, c, d, e in rows], 1) + "\n\n"
    t += "/-- the enumeration protocol: (function, 1 = its body is the reviewed text modelled in Model/CApiGetters.lean) -/\n"
    t += "def enumShapes : List (String × Nat) := " + lean_list([f"({lstr(a)}, {b})" for a, b in shapes], 1) + "\n\n"
    t += "end Chewing.Gen.CApiGetters\n"
    return {"CApiGetters.lean": t}
