"""Extractor for the C call glue of capi/src/io.rs (work package capiglue; C06 / C01 / C07 / C17).

Emits Gen/CApiKeys.lean (namespace Chewing.Gen.CApiKeys) — what `Model/CApiOps.lean` computes with:

  * handlerTable     — EVERY exported `chewing_handle_*` function except Default / CtrlNum / Numlock:
                       (name after `chewing_handle_`, map function 0 = no key is processed, 1 = `keyboard.map(code)`,
                       2 = `keyboard.map_with_mod(code, mods)`, KeyCode discriminant, modifier bits
                       shift | ctrl<<1 | capslock<<2 | numlock<<3).  The body of each must be one of the reviewed shapes
                       (NULL check returning ERROR, ONE `process_keyevent` of ONE mapped key, `OK`); anything else raises
                       ExtractError (fail closed);
  * handle_Default   — selKeyRemapGuarded (the remap is under `if ctx.editor.is_selecting()`), selKeyRemap (position ->
                       ASCII byte, the explicit arms), selKeyRemapElse (the `_` arm), defaultMapFn;
  * handle_CtrlNum   — ctrlNumTable (ASCII byte -> KeyCode discriminant), ctrlNumElse (the value returned by the `_` arm
                       BEFORE the editor is touched), ctrlNumMods;
  * handle_Numlock   — numlockMapFn;
  * keyNarrowing     — how the three functions with a `key: c_int` parameter narrow it to `u8`: per function
                       0 = `u8::try_from(key).unwrap_or(0)`, 1 = `key as u8` (truncation);
  * apiCalls         — the non-key calls: (C function, guard, Editor method, argument conversion, return rule) with
                       guard "" / "is_selecting" / "is_entering" (the call returns -1 without touching the editor when the
                       guard is false), return rule "ok" (result discarded, returns OK), "result" (Ok -> OK, Err -> ERROR),
                       "never_fails" (Ok -> OK, Err -> OK);
  * keyGetters       — chewing_keystroke_CheckIgnore / CheckAbsorb: the `EditorKeyBehavior` variant answered with TRUE;
                       commitCheckShape 1 = `!display_commit().is_empty() as c_int`;
  * nullReturns      — the value every one of these functions returns for a NULL context (`as_mut_or_return!(ctx, ERROR)`);
  * okValue / errorValue — `pub const OK` / `ERROR` of capi/src/public.rs (or io.rs).
"""
import re
from extractlib import *

MOD_BITS = {"shift": 1, "control": 2, "capslock": 4, "numlock": 8}
SPECIAL = {"chewing_handle_Default", "chewing_handle_CtrlNum", "chewing_handle_Numlock"}
API_FNS = ["chewing_Reset", "chewing_ack", "chewing_cand_open", "chewing_cand_close", "chewing_cand_choose_by_index",
           "chewing_cand_list_first", "chewing_cand_list_last", "chewing_cand_list_next", "chewing_cand_list_prev",
           "chewing_commit_preedit_buf", "chewing_clean_preedit_buf", "chewing_clean_bopomofo_buf"]
MUT = "letctx=as_mut_or_return!(ctx,ERROR);"
REF = "letctx=as_ref_or_return!(ctx,ERROR);"
RESET_TAIL = "ctx.kbcompat_iter=None;ctx.cand_iter=None;ctx.interval_iter=None;ctx.userphrase_iter=None;"


def ws(s):
    return re.sub(r"\s+", "", s)


def lstr(s):
    return '"' + s + '"'


def exported_functions(src):
    fns = {}
    for m in re.finditer(r'\bpub\s+(unsafe\s+)?extern\s+"C"\s+fn\s+([A-Za-z_][A-Za-z0-9_]*)\s*\(', src):
        p = m.end() - 1
        q = balanced(src, p, '(', ')')
        i = src.find('{', q)
        j = balanced(src, i)
        fns[m.group(2)] = (ws(src[p + 1:q - 1]).rstrip(','), ws(src[i + 1:j - 1]))
    return fns


def byte_lit(tok):
    m = re.fullmatch(r"b'(.)'", tok)
    if not m:
        raise ExtractError(f"not a byte literal: {tok}")
    return ord(m.group(1))


def narrowing(expr, fn):
    if expr == "u8::try_from(key).unwrap_or(0)":
        return 0
    if expr == "keyasu8":
        return 1
    raise ExtractError(f"{fn}: unrecognised narrowing of the key: {expr}")


@extractor("capi_keys")
def capi_keys():
    io_raw = read("capi/src/io.rs")
    src = strip_comments(io_raw)
    kb_src = strip_comments(read("src/editor/keyboard/mod.rs"))
    fns = exported_functions(src)

    # KeyCode discriminants (declaration order, `Unknown = 0` first)
    body = block_after(kb_src, r"pub\s+enum\s+KeyCode\s*\{")
    codes = [re.sub(r"\s*=.*", "", p.strip()) for p in split_top(re.sub(r"#\[[^\]]*\]", "", body)) if p.strip()]
    code_of = {n: i for i, n in enumerate(codes)}
    if code_of.get("Unknown") != 0:
        raise ExtractError("KeyCode::Unknown is not the first variant")

    def keycode(n, fn):
        if n not in code_of:
            raise ExtractError(f"{fn}: unknown KeyCode::{n}")
        return code_of[n]

    # constants OK / ERROR
    consts = {}
    for rel in ("capi/src/public.rs", "capi/src/io.rs"):
        t = strip_comments(read(rel))
        for name in ("OK", "ERROR", "TRUE", "FALSE"):
            m = re.search(r"\bconst\s+" + name + r"\s*:\s*c_int\s*=\s*(-?\d+)\s*;", t)
            if m and name not in consts:
                consts[name] = int(m.group(1))
    for name in ("OK", "ERROR", "TRUE", "FALSE"):
        if name not in consts:
            raise ExtractError(f"constant {name} not found")

    # ---- named handlers
    table = []
    for name, (params, b) in fns.items():
        if not name.startswith("chewing_handle_") or name in SPECIAL:
            continue
        short = name[len("chewing_handle_"):]
        if params != "ctx:*mutChewingContext":
            raise ExtractError(f"{name}: unexpected parameters {params}")
        if b == "let_ctx=as_mut_or_return!(ctx,ERROR);OK":
            table.append((short, 0, 0, 0))
            continue
        if not (b.startswith(MUT) and b.endswith(";OK")):
            raise ExtractError(f"{name}: unrecognised frame")
        core = b[len(MUT):-len(";OK")]
        m = re.fullmatch(r"letkey_event=(.*);ctx\.editor\.process_keyevent\(key_event\)", core)
        if m:
            arg = m.group(1)
        else:
            m = re.fullmatch(r"ctx\.editor\.process_keyevent\((.*?),?\)", core)
            if not m:
                raise ExtractError(f"{name}: not one process_keyevent call: {core}")
            arg = m.group(1)
        m1 = re.fullmatch(r"ctx\.keyboard\.map\(KeyCode::(\w+)\)", arg)
        m2 = re.fullmatch(r"ctx\.keyboard\.map_with_mod\(KeyCode::(\w+),Modifiers::(\w+)\(\)\)", arg)
        if m1:
            table.append((short, 1, keycode(m1.group(1), name), 0))
        elif m2:
            if m2.group(2) not in MOD_BITS:
                raise ExtractError(f"{name}: unknown modifier constructor {m2.group(2)}")
            table.append((short, 2, keycode(m2.group(1), name), MOD_BITS[m2.group(2)]))
        else:
            raise ExtractError(f"{name}: unrecognised key expression {arg}")
    if len(table) < 19:
        raise ExtractError(f"only {len(table)} named handlers recognised")

    # ---- handle_Default
    params, b = fns["chewing_handle_Default"]
    if params != "ctx:*mutChewingContext,key:c_int":
        raise ExtractError("handle_Default: parameters")
    remap = (r"matchctx\.sel_keys\.0\.iter\(\)\.position\(\|&it\|it==key\)\{Some\(idx\)=>\{letkey=matchidx\{(?P<arms>.*?)\};"
             r"keyasc_int\}None=>key,\}")
    g = re.fullmatch(re.escape(MUT) + r"letkey=ifctx\.editor\.is_selecting\(\)\{" + remap + r"\}else\{key\};"
                     r"ctx\.editor\.process_keyevent\(ctx\.keyboard\.(?P<fn>\w+)\((?P<nar>.*?)\)\);OK", b)
    guarded = 1
    if not g:
        g = re.fullmatch(re.escape(MUT) + r"letkey=\{?" + remap + r"\}?;"
                         r"ctx\.editor\.process_keyevent\(ctx\.keyboard\.(?P<fn>\w+)\((?P<nar>.*?)\)\);OK", b)
        guarded = 0
    if not g:
        raise ExtractError("handle_Default: unrecognised shape")
    arms, remap_else = [], None
    for arm in [a for a in g.group("arms").split(",") if a]:
        k, v = arm.split("=>")
        if k == "_":
            remap_else = byte_lit(v)
        else:
            arms.append((int(k), byte_lit(v)))
    if remap_else is None or [k for k, _ in arms] != list(range(len(arms))):
        raise ExtractError("handle_Default: remap arms")
    default_fn = g.group("fn")
    if default_fn != "map_ascii":
        raise ExtractError(f"handle_Default maps with {default_fn}")
    nar_default = narrowing(g.group("nar"), "handle_Default")

    # ---- handle_CtrlNum
    params, b = fns["chewing_handle_CtrlNum"]
    g = re.fullmatch(re.escape(MUT) + r"letkeycode=match(?P<nar>.*?)\{(?P<arms>.*?)\};"
                     r"ctx\.editor\.process_keyevent\(ctx\.keyboard\.map_with_mod\(keycode,Modifiers::(?P<mod>\w+)\(\)\)\);OK", b)
    if not g or params != "ctx:*mutChewingContext,key:c_int":
        raise ExtractError("handle_CtrlNum: unrecognised shape")
    nar_ctrl = narrowing(g.group("nar"), "handle_CtrlNum")
    ctrl, ctrl_else = [], None
    for arm in [a for a in g.group("arms").split(",") if a]:
        k, v = arm.split("=>")
        if k == "_":
            m = re.fullmatch(r"return(-?\d+|ERROR)", v)
            if not m:
                raise ExtractError(f"handle_CtrlNum: `_` arm {v}")
            ctrl_else = consts["ERROR"] if m.group(1) == "ERROR" else int(m.group(1))
        else:
            for kk in k.split("|"):
                m = re.fullmatch(r"KeyCode::(\w+)", v)
                if not m:
                    raise ExtractError(f"handle_CtrlNum: arm {arm}")
                if ".." in kk:
                    raise ExtractError(f"handle_CtrlNum: range pattern {kk} not recognised")
                ctrl.append((byte_lit(kk), keycode(m.group(1), "handle_CtrlNum")))
    if ctrl_else is None:
        raise ExtractError("handle_CtrlNum: no `_` arm")
    if g.group("mod") not in MOD_BITS:
        raise ExtractError("handle_CtrlNum: modifier")
    ctrl_mods = MOD_BITS[g.group("mod")]

    # ---- handle_Numlock
    params, b = fns["chewing_handle_Numlock"]
    g = re.fullmatch(re.escape(MUT) + r"ctx\.editor\.process_keyevent\(ctx\.keyboard\.(?P<fn>\w+)\((?P<nar>.*?)\),?\);OK", b)
    if not g or params != "ctx:*mutChewingContext,key:c_int" or g.group("fn") != "map_ascii_numlock":
        raise ExtractError("handle_Numlock: unrecognised shape")
    nar_num = narrowing(g.group("nar"), "handle_Numlock")

    # ---- API calls
    api = []
    for name in API_FNS:
        if name not in fns:
            raise ExtractError(f"{name} not found")
        params, b = fns[name]
        if not b.startswith(MUT):
            raise ExtractError(f"{name}: NULL check")
        core = b[len(MUT):]
        guard = ""
        m = re.match(r"if!ctx\.editor\.(is_selecting|is_entering)\(\)\{return-1;\}", core)
        if m:
            guard, core = m.group(1), core[m.end():]
        m = re.fullmatch(r"if!ctx\.editor\.(is_selecting|is_entering)\(\)\{ERROR\}else\{(.*)\}", core)
        if m:
            if guard or consts["ERROR"] != -1:
                raise ExtractError(f"{name}: two guards")
            guard, core = m.group(1), m.group(2)
        if core.endswith(RESET_TAIL + "OK") and name == "chewing_Reset":
            core = core[:-len(RESET_TAIL + "OK")] + "OK"
        conv = ""
        m = (re.fullmatch(r"(?:let_=)?ctx\.editor\.(\w+)\(\);OK", core))
        if m:
            api.append((name, guard, m.group(1), conv, "ok"))
            continue
        m = re.fullmatch(r"matchctx\.editor\.(\w+)\((.*?)\)\{Ok\(_\)=>OK,Err\(_\)=>(OK|ERROR),\}", core)
        if not m:
            raise ExtractError(f"{name}: unrecognised body {core}")
        if m.group(2):
            if m.group(2) != "indexasusize" or params != "ctx:*mutChewingContext,index:c_int":
                raise ExtractError(f"{name}: argument {m.group(2)}")
            conv = "as_usize"
        api.append((name, guard, m.group(1), conv, "result" if m.group(3) == "ERROR" else "never_fails"))

    # ---- getters
    getters = []
    for name in ("chewing_keystroke_CheckIgnore", "chewing_keystroke_CheckAbsorb"):
        params, b = fns[name]
        m = re.fullmatch(re.escape(REF) + r"matchctx\.editor\.last_key_behavior\(\)\{EditorKeyBehavior::(\w+)=>TRUE,_=>FALSE,\}", b)
        if not m:
            raise ExtractError(f"{name}: unrecognised shape")
        getters.append((name, m.group(1)))
    params, b = fns["chewing_commit_Check"]
    if b != REF + "!ctx.editor.display_commit().is_empty()asc_int":
        raise ExtractError("chewing_commit_Check: unrecognised shape")

    t = (f"-- GENERATED by /verif/tools/extract.py from capi/src/io.rs (sha256/16 {sha(io_raw)}). Do not edit.\n\n"
         "namespace Chewing.Gen.CApiKeys\n\n")
    t += "/-- `OK`, `ERROR`, `TRUE`, `FALSE` -/\n"
    t += f"def okValue : Int := {consts['OK']}\ndef errorValue : Int := {consts['ERROR']}\n"
    t += f"def trueValue : Int := {consts['TRUE']}\ndef falseValue : Int := {consts['FALSE']}\n\n"
    t += "/-- what every modelled call returns for a NULL context (`as_mut_or_return!(ctx, ERROR)`) -/\n"
    t += f"def nullReturns : Int := {consts['ERROR']}\n\n"
    t += ("/-- the named handlers `chewing_handle_<name>`: (name, map function 0 none / 1 `map` / 2 `map_with_mod`, KeyCode, "
          "modifier bits shift|ctrl<<1|capslock<<2|numlock<<3) -/\n")
    t += "def handlerTable : List (String × Nat × Nat × Nat) := " + \
         lean_list([f"({lstr(n)}, {f}, {c}, {m})" for n, f, c, m in table], 4) + "\n\n"
    t += "/-- `chewing_handle_Default`: the selection-key remap is inside `if ctx.editor.is_selecting()` -/\n"
    t += f"def selKeyRemapGuarded : Bool := {'true' if guarded else 'false'}\n"
    t += "/-- position in `sel_keys` -> ASCII byte of the digit key it stands for (explicit arms) -/\n"
    t += "def selKeyRemap : List (Nat × Nat) := " + lean_list([f"({k}, {v})" for k, v in arms], 10) + "\n"
    t += f"/-- the `_` arm -/\ndef selKeyRemapElse : Nat := {remap_else}\n"
    t += f"def defaultMapFn : String := {lstr(default_fn)}\n\n"
    t += "/-- `chewing_handle_CtrlNum`: ASCII byte -> KeyCode -/\n"
    t += "def ctrlNumTable : List (Nat × Nat) := " + lean_list([f"({k}, {v})" for k, v in ctrl], 10) + "\n"
    t += f"/-- returned by the `_` arm before the editor is touched -/\ndef ctrlNumElse : Int := {ctrl_else}\n"
    t += f"def ctrlNumMods : Nat := {ctrl_mods}\n\n"
    t += f"def numlockMapFn : String := {lstr('map_ascii_numlock')}\n\n"
    t += "/-- narrowing of `key: c_int` to `u8`: 0 = `u8::try_from(key).unwrap_or(0)`, 1 = `key as u8` -/\n"
    t += f"def narrowDefault : Nat := {nar_default}\ndef narrowCtrlNum : Nat := {nar_ctrl}\ndef narrowNumlock : Nat := {nar_num}\n\n"
    t += ("/-- the non-key calls: (C function, guard, Editor method, argument conversion, return rule) -/\n")
    t += "def apiCalls : List (String × String × String × String × String) := " + \
         lean_list([f"({lstr(a)}, {lstr(b_)}, {lstr(c)}, {lstr(d)}, {lstr(e)})" for a, b_, c, d, e in api], 1) + "\n\n"
    t += "/-- `chewing_keystroke_Check*`: the `EditorKeyBehavior` variant answered with TRUE (everything else FALSE) -/\n"
    t += "def keyGetters : List (String × String) := " + lean_list([f"({lstr(a)}, {lstr(b_)})" for a, b_ in getters], 1) + "\n"
    t += "/-- `chewing_commit_Check` = `!display_commit().is_empty() as c_int` -/\ndef commitCheckShape : Nat := 1\n\n"
    t += "end Chewing.Gen.CApiKeys\n"
    return {"CApiKeys.lean": t}
