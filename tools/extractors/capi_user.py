"""Extractor for the USER-PHRASE calls of capi/src/io.rs (work package capiuser; C08 / C09 / C01).

Emits Gen/CApiUser.lean (namespace Chewing.Gen.CApiUser) — what `Model/CApiUser.lean` computes with.  Every function body
must match ONE reviewed shape in full (white space and comments removed); anything else raises ExtractError (fail closed):

  * userCalls — one row of (key, value) pairs per call, the reviewed reading of the body: NULL-context answer, how the
    bopomofo string becomes syllables (`split_ascii_whitespace` + `map_while` / all-or-nothing), the answers for a NULL /
    non-UTF-8 bopomofo or phrase, the syllable limit, the `Editor` / dictionary method, the dictionary consulted, the
    lookup strategy, the return rule;
  * the typed constants the model interprets (add* / remove* / lookup* / enum* / parseStopsAtBadToken / setSelKeyLen).
"""
import re
from extractlib import *


def ws(s):
    return re.sub(r"\s+", "", s)


def lstr(s):
    return '"' + s + '"'


def exported_functions(src):
    fns = {}
    for m in re.finditer(r'\bpub\s+(unsafe\s+)?extern\s+"C"\s+fn\s+([A-Za-z_][A-Za-z0-9_]*)\s*\(', src):
        p = m.end() - 1
        q = balanced(src, p, '(', ')')
        i = src.find('{', q)
        j = balanced(src, i)
        fns[m.group(2)] = (ws(src[p + 1:q - 1]).rstrip(','), ws(src[i + 1:j - 1]))
    return fns


P3 = "ctx:*mutChewingContext,phrase_buf:*constc_char,bopomofo_buf:*constc_char"
NUM = r"(-?\d+|OK|ERROR|TRUE|FALSE)"
SPLIT_MAPWHILE = r"bopomofo\.split_ascii_whitespace\(\)\.map_while\(\|it\|it\.parse::<Syllable>\(\)\.ok\(\)\)\.collect::<Vec<_>>\(\)"
SYLS = (r"letsyllables=matchunsafe\{str_from_ptr_with_nul\(bopomofo_buf\)\}\{Some\(bopomofo\)=>" + SPLIT_MAPWHILE +
        r",None=>return" + NUM + r",\};")


@extractor("capi_user")
def capi_user():
    src = strip_comments(read("capi/src/io.rs"))
    fns = exported_functions(src)
    consts = {}
    for rel in ("capi/src/public.rs", "capi/src/io.rs"):
        t = strip_comments(read(rel))
        for name in ("OK", "ERROR", "TRUE", "FALSE"):
            m = re.search(r"\bconst\s+" + name + r"\s*:\s*c_int\s*=\s*(-?\d+)\s*;", t)
            if m and name not in consts:
                consts[name] = int(m.group(1))

    def val(tok):
        if tok in consts:
            return consts[tok]
        if re.fullmatch(r"-?\d+", tok):
            return int(tok)
        raise ExtractError(f"not a return value: {tok}")

    def get(name, params):
        if name not in fns:
            raise ExtractError(f"{name} not found")
        p, b = fns[name]
        if p != params:
            raise ExtractError(f"{name}: unexpected parameters {p}")
        return b

    # the helper that turns a C string into Option<&str>: NULL and invalid UTF-8 are both None
    m = re.search(r"unsafe\s+fn\s+str_from_ptr_with_nul", src)
    if not m:
        raise ExtractError("str_from_ptr_with_nul not found")
    hb = re.sub(r"\s+", "", fn_body(src, "str_from_ptr_with_nul"))
    if hb != "unsafe{slice_from_ptr_with_nul(ptr)}.and_then(|data|str::from_utf8(unsafe{mem::transmute::<&[c_char],&[u8]>(data)}).ok())":
        raise ExtractError("str_from_ptr_with_nul: unrecognised body")

    # ---- add
    b = get("chewing_userphrase_add", P3)
    m = re.fullmatch(
        r"letctx=as_mut_or_return!\(ctx," + NUM + r"\);" + SYLS +
        r"ifsyllables\.len\(\)>(\d+)\{return" + NUM + r";\}" +
        r"(?:ifsyllables\.is_empty\(\)\{return" + NUM + r";\})?" +
        r"matchunsafe\{str_from_ptr_with_nul\(phrase_buf\)\}\{Some\(phrase\)=>matchctx\.editor\.(\w+)\(&syllables,phrase\)\{"
        r"Ok\(_\)=>" + NUM + r",Err\(_\)=>" + NUM + r",\},None=>" + NUM + r",\}", b)
    if not m:
        raise ExtractError("chewing_userphrase_add: unrecognised body")
    a_null, a_bnone, a_max, a_many, a_empty, a_method, a_ok, a_err, a_pnone = m.groups()
    if a_method != "learn_phrase":
        raise ExtractError(f"chewing_userphrase_add calls {a_method}")
    add = dict(null=val(a_null), bnone=val(a_bnone), max=int(a_max), many=val(a_many), empty=(val(a_empty) if a_empty else None),
               ok=val(a_ok), err=val(a_err), pnone=val(a_pnone))

    # ---- remove
    b = get("chewing_userphrase_remove", P3)
    m = re.fullmatch(
        r"letctx=matchunsafe\{ctx\.as_mut\(\)\}\{Some\(ctx\)=>ctx,None=>return" + NUM + r",\};"
        r"ifunsafe\{chewing_userphrase_lookup\(ctx,phrase_buf,bopomofo_buf\)\}!=TRUE\{return" + NUM + r";\}" + SYLS +
        r"matchunsafe\{str_from_ptr_with_nul\(phrase_buf\)\}\{Some\(phrase\)=>matchctx\.editor\.(\w+)\(&syllables,phrase\)\{"
        r"Err\(_\)=>" + NUM + r",Ok\(_\)=>" + NUM + r",\},None=>" + NUM + r",\}", b)
    if not m:
        raise ExtractError("chewing_userphrase_remove: unrecognised body")
    r_null, r_absent, r_bnone, r_method, r_err, r_ok, r_pnone = m.groups()
    if r_method != "unlearn_phrase":
        raise ExtractError(f"chewing_userphrase_remove calls {r_method}")
    rem = dict(null=val(r_null), absent=val(r_absent), bnone=val(r_bnone), ok=val(r_ok), err=val(r_err), pnone=val(r_pnone))

    # ---- lookup
    b = get("chewing_userphrase_lookup", P3)
    m = re.fullmatch(
        r"letctx=as_mut_or_return!\(ctx," + NUM + r"\);" + SYLS +
        r"matchunsafe\{str_from_ptr_with_nul\(phrase_buf\)\}\{"
        r"Some\(phrase\)=>ctx\.editor\.(user_dict\(\)|dict\(\))\.lookup_all_phrases\(&syllables,LookupStrategy::(\w+)\)\.iter\(\)\.any\(\|ph\|ph\.as_str\(\)==phrase\)asc_int,"
        r"None=>ctx\.editor\.(user_dict\(\)|dict\(\))\.lookup_first_phrase\(&syllables,LookupStrategy::(\w+)\)\.is_some\(\)asc_int,\}", b)
    if not m:
        raise ExtractError("chewing_userphrase_lookup: unrecognised body")
    l_null, l_bnone, l_d1, l_s1, l_d2, l_s2 = m.groups()
    if l_d1 != l_d2 or l_s1 != l_s2 or l_s1 != "Standard":
        raise ExtractError("chewing_userphrase_lookup: the two arms consult different dictionaries / strategies")
    look = dict(null=val(l_null), bnone=val(l_bnone), user=(l_d1 == "user_dict()"))

    # ---- enumerate / has_next / get
    b = get("chewing_userphrase_enumerate", "ctx:*mutChewingContext")
    m = re.fullmatch(r"letctx=as_mut_or_return!\(ctx," + NUM + r"\);letentries:Vec<_>=ctx\.editor\.user_dict\(\)\.entries\(\)\.collect\(\);"
                     r"ctx\.userphrase_iter=Some\(entries\.into_iter\(\)\.peekable\(\)\);" + NUM, b)
    if not m:
        raise ExtractError("chewing_userphrase_enumerate: unrecognised body")
    e_null, e_rc = val(m.group(1)), val(m.group(2))
    raw = read("capi/src/io.rs")
    # the separator is a string literal: count on the raw text (strip of white space would lose it)
    body_raw = fn_body(strip_comments(raw), "chewing_userphrase_get")
    if len(re.findall(r'\.join\(" "\)', body_raw)) != 1 or "entry.1.as_str()" not in body_raw.replace(" ", "").replace("\n", ""):
        raise ExtractError("chewing_userphrase_get: unrecognised hand-out of phrase / bopomofo")
    if not re.search(r"entry\s*\.0\s*\.iter\(\)\s*\.map\(\|it\|\s*it\.to_string\(\)\)", body_raw):
        raise ExtractError("chewing_userphrase_get: bopomofo is not the syllables' Display joined")

    # ---- set_selKey
    b = get("chewing_set_selKey", "ctx:*mutChewingContext,sel_keys:*constc_int,len:c_int")
    m = re.fullmatch(r"letctx=as_mut_or_return!\(ctx\);ifsel_keys\.is_null\(\)\|\|len!=(\d+)\{return;\}"
                     r"letsel_keys=unsafe\{slice::from_raw_parts\(sel_keys,lenasusize\)\};ctx\.sel_keys\.0\.copy_from_slice\(sel_keys\);", b)
    if not m:
        raise ExtractError("chewing_set_selKey: unrecognised body")
    sel_len = int(m.group(1))

    rows = [
        ("chewing_userphrase_add",
         [("null_ctx", str(add["null"])), ("bopomofo", "split_ascii_whitespace map_while parse::<Syllable>"),
          ("bopomofo_none", str(add["bnone"])), ("max_syllables", str(add["max"])), ("too_many", str(add["many"])),
          ("no_syllables", "-" if add["empty"] is None else str(add["empty"])), ("phrase_none", str(add["pnone"])),
          ("method", "editor.learn_phrase"), ("ok", str(add["ok"])), ("err", str(add["err"]))]),
        ("chewing_userphrase_remove",
         [("null_ctx", str(rem["null"])), ("first", "chewing_userphrase_lookup != TRUE"), ("absent", str(rem["absent"])),
          ("bopomofo", "split_ascii_whitespace map_while parse::<Syllable>"), ("bopomofo_none", str(rem["bnone"])),
          ("phrase_none", str(rem["pnone"])), ("method", "editor.unlearn_phrase"), ("ok", str(rem["ok"])), ("err", str(rem["err"]))]),
        ("chewing_userphrase_lookup",
         [("null_ctx", str(look["null"])), ("bopomofo", "split_ascii_whitespace map_while parse::<Syllable>"),
          ("bopomofo_none", str(look["bnone"])), ("dictionary", "editor.user_dict" if look["user"] else "editor.dict"),
          ("strategy", "Standard"), ("phrase", "lookup_all_phrases any =="), ("phrase_none", "lookup_first_phrase is_some")]),
        ("chewing_userphrase_enumerate",
         [("null_ctx", str(e_null)), ("dictionary", "editor.user_dict"), ("method", "entries collect"), ("rc", str(e_rc)),
          ("get", "phrase = entry.1, bopomofo = entry.0 to_string joined by one space")]),
        ("chewing_set_selKey", [("ignored", "NULL array or len != " + str(sel_len))]),
    ]
    b2l = lambda x: "true" if x else "false"
    t = f"-- GENERATED by /verif/tools/extract.py from capi/src/io.rs (sha256/16 {sha(raw)}). Do not edit.\n\n"
    t += "namespace Chewing.Gen.CApiUser\n\n"
    t += "/-- the user-phrase calls as read from the source: (C function, [(what, reading)]) -/\n"
    t += "def userCalls : List (String × List (String × String)) := [\n" + ",\n".join(
        "  (" + lstr(fn) + ", [" + ", ".join(f"({lstr(k)}, {lstr(v)})" for k, v in kv) + "])" for fn, kv in rows) + "]\n\n"
    t += "/-! `chewing_userphrase_add` -/\n"
    t += f"def addNullCtx : Int := {add['null']}\ndef addBopoNone : Int := {add['bnone']}\ndef addMaxSyl : Nat := {add['max']}\n"
    t += f"def addTooMany : Int := {add['many']}\n"
    t += "/-- is there an `if syllables.is_empty() { return .. }` before the editor is called? -/\n"
    t += f"def addEmptyRefused : Bool := {b2l(add['empty'] is not None)}\ndef addEmptyRc : Int := {add['empty'] if add['empty'] is not None else 0}\n"
    t += f"def addPhraseNone : Int := {add['pnone']}\ndef addOk : Int := {add['ok']}\ndef addErr : Int := {add['err']}\n\n"
    t += "/-! `chewing_userphrase_remove` -/\n"
    t += f"def removeNullCtx : Int := {rem['null']}\ndef removePreLookup : Bool := true\ndef removeAbsent : Int := {rem['absent']}\n"
    t += f"def removeBopoNone : Int := {rem['bnone']}\ndef removePhraseNone : Int := {rem['pnone']}\n"
    t += f"def removeOk : Int := {rem['ok']}\ndef removeErr : Int := {rem['err']}\n\n"
    t += "/-! `chewing_userphrase_lookup` -/\n"
    t += f"def lookupNullCtx : Int := {look['null']}\ndef lookupBopoNone : Int := {look['bnone']}\n"
    t += "/-- `ctx.editor.user_dict()` (true) or the layered dictionary (false) -/\n"
    t += f"def lookupUserOnly : Bool := {b2l(look['user'])}\n\n"
    t += "/-- `.map_while(|it| it.parse::<Syllable>().ok())`: reading stops at the first token that does not parse -/\n"
    t += "def parseStopsAtBadToken : Bool := true\n\n"
    t += f"def enumNullCtx : Int := {e_null}\ndef enumRc : Int := {e_rc}\n\n"
    t += f"/-- `chewing_set_selKey`: `len != {sel_len}` is ignored -/\ndef setSelKeyLen : Int := {sel_len}\n\n"
    t += "end Chewing.Gen.CApiUser\n"
    return {"CApiUser.lean": t}
