"""Extractor for tools/src/{init_database,dump}.rs (C20): the context-free literals — the delimiters, the
quote / comment / syllable-separator characters and the dump format strings.  Numbers whose meaning depends on
the surrounding code (`.nth(1)`, `.skip(2)`, `line_num == 0`, `line_num + 1`, the one-character rule) are part of
the hand-written model and tied by the correspondence runs instead.  From src/dictionary/trie.rs only the one arm
of the leaf comparator of `TrieBuilder::write` that decides a pair "one character long / longer" (the arm a pending
upstream fix rewrites) is recognised, in either of its two known forms."""
import re
from extractlib import *


def squash(src):
    """remove whitespace outside string / char literals (comments must already be stripped)"""
    out, i, n = [], 0, len(src)
    while i < n:
        c = src[i]
        if c == '"':
            j = i + 1
            while j < n and src[j] != '"':
                j += 2 if src[j] == '\\' else 1
            out.append(src[i:j + 1]); i = j + 1
            continue
        if c == "'":
            m = re.match(r"'(\\.[^']*|[^'\\])'", src[i:])
            if m:
                out.append(m.group(0)); i += len(m.group(0))
                continue
        if not c.isspace():
            out.append(c)
        i += 1
    return ''.join(out)


def rust_str(lit):
    if not (lit.startswith('"') and lit.endswith('"')):
        raise ExtractError(f"not a string literal: {lit}")
    s, out, i = lit[1:-1], [], 0
    while i < len(s):
        if s[i] == '\\':
            esc = {'n': '\n', 't': '\t', 'r': '\r', '0': '\0', '\\': '\\', "'": "'", '"': '"'}
            if i + 1 < len(s) and s[i + 1] in esc:
                out.append(esc[s[i + 1]]); i += 2
                continue
            m = re.match(r"\\u\{([0-9a-fA-F_]+)\}", s[i:])
            if m:
                out.append(chr(int(m.group(1).replace('_', ''), 16))); i += len(m.group(0))
                continue
            raise ExtractError(f"unknown escape in {lit}")
        out.append(s[i]); i += 1
    return ''.join(out)


def need(pattern, text, what):
    m = re.search(pattern, text)
    if not m:
        raise ExtractError(f"{what}: shape not recognised")
    return m


def cps(s):
    return "[" + ", ".join(str(ord(c)) for c in s) + "]"


def dump_fn(src, name):
    """(prefix-free) separators and join string of one `writeln!(sink, "{}<a>{}<b>{}", phrase, phrase.freq(), …join(<j>))`"""
    b = squash(fn_body(src, name))
    m = need(r'writeln!\(sink,("(?:[^"\\]|\\.)*"),phrase,phrase\.freq\(\),syllables\.iter\(\)\.map\(\|syl\|syl\.to_string\(\)\)'
             r'\.collect::<Vec<_>>\(\)\.join\(("(?:[^"\\]|\\.)*")\)\)\?;', b, name + " record line")
    fmt, join = rust_str(m.group(1)), rust_str(m.group(2))
    parts = fmt.split("{}")
    if len(parts) != 4 or parts[0] != "" or parts[3] != "" or "{" in fmt.replace("{}", ""):
        raise ExtractError(f"{name}: format string {fmt!r} is not `{{}}<sep>{{}}<sep>{{}}`")
    if "for(syllables,phrase)indict.entries(){" not in b:
        raise ExtractError(f"{name}: entry loop not recognised")
    return parts[1], parts[2], join, b


@extractor("cli")
def x_cli():
    raw_i = read("tools/src/init_database.rs")
    raw_d = read("tools/src/dump.rs")
    si = strip_comments(raw_i)
    sd = strip_comments(raw_d)

    # Only the constants are cut out (narrow patterns); the control structure around them is covered by
    # the correspondence runs, so a refactoring that keeps these expressions does not break the tie.
    run = squash(fn_body(si, "run"))
    m = need(r"letdelimiter=ifargs\.csv\{('(?:[^'\\]|\\.)')\}else\{('(?:[^'\\]|\\.)')\};", run, "delimiter choice")
    csv_delim, ssv_delim = rust_char(m.group(1)), rust_char(m.group(2))

    pl = squash(fn_body(si, "parse_line"))
    quotes = re.findall(r"\.trim_matches\(('(?:[^'\\]|\\.)')\)", pl)
    if not quotes or len(set(quotes)) != 1:
        raise ExtractError("parse_line: expected trim_matches calls with one and the same character")
    quote = rust_char(quotes[0])
    m = need(r"\.split\(\|c:char\|c==('(?:[^'\\]|\\.)')\|\|c\.is_whitespace\(\)\)", pl, "syllable field separator")
    syl_sep = rust_char(m.group(1))
    m = need(r"ifphrase\.(?:contains|chars\(\)\.any)\(\|c(?::char)?\|c==('(?:[^'\\]|\\.)')\|\|c\.is_whitespace\(\)\)\{", pl, "phrase separator test")
    phrase_sep = rust_char(m.group(1))
    m = need(r"ifsyllable_str\.starts_with\(('(?:[^'\\]|\\.)')\)\{break;\}", pl, "comment test")
    comment = rust_char(m.group(1))

    s1, s2, sj, _ = dump_fn(sd, "dump_dict_tsi_src")
    c1, c2, cj, cb = dump_fn(sd, "dump_dict_csv")
    m = need(r'^writeln!\(sink,("(?:[^"\\]|\\.)*")\)\?;for\(syllables,phrase\)', cb, "CSV header line")
    header = rust_str(m.group(1))
    if "{" in header:
        raise ExtractError("CSV header contains a placeholder")
    L = [HEADER.format(src="tools/src/init_database.rs + tools/src/dump.rs", h=sha(raw_i + raw_d)),
         "namespace Chewing.Gen\n",
         "/-- field delimiter without / with `--csv` (`let delimiter = if args.csv { … } else { … }`) -/",
         f"def cliSsvDelim : Nat := {ord(ssv_delim)}",
         f"def cliCsvDelim : Nat := {ord(csv_delim)}",
         "/-- the character `trim_matches` strips from both ends of every field -/",
         f"def cliQuote : Nat := {ord(quote)}",
         "/-- a syllable field starting with this character ends the record (comment) -/",
         f"def cliComment : Nat := {ord(comment)}",
         "/-- syllable fields are split on this character or any whitespace -/",
         f"def cliSylSep : Nat := {ord(syl_sep)}",
         "/-- a phrase containing this character or any whitespace is rejected -/",
         f"def cliPhraseSep : Nat := {ord(phrase_sep)}",
         "/-- `dump`: `{}<sep1>{}<sep2>{}` and the string joining the syllables -/",
         f"def dumpSsvSep1 : List Nat := {cps(s1)}",
         f"def dumpSsvSep2 : List Nat := {cps(s2)}",
         f"def dumpSsvJoin : List Nat := {cps(sj)}",
         f"def dumpCsvSep1 : List Nat := {cps(c1)}",
         f"def dumpCsvSep2 : List Nat := {cps(c2)}",
         f"def dumpCsvJoin : List Nat := {cps(cj)}",
         "/-- first line of `dump --csv` -/",
         f"def dumpCsvHeader : List Nat := {cps(header)}",
         "\nend Chewing.Gen\n"]
    return {"CliFormat.lean": "\n".join(L), "CliTrieCmp.lean": trie_cmp()}


def trie_cmp():
    """which verdict the comparator of `TrieBuilder::write` gives on (one character, longer phrase)"""
    raw = read("src/dictionary/trie.rs")
    w = squash(fn_body(strip_comments(raw), "write", after=r"impl\s+TrieBuilder\s*\{"))
    m = need(r"phrases\.sort_by\(\|a,b\|\{match\(a\.as_str\(\)\.chars\(\)\.count\(\),b\.as_str\(\)\.chars\(\)\.count\(\)\)\{"
             r"\(1,1\)=>Ordering::Equal,(.*?)_=>\{", w, "leaf comparator of TrieBuilder::write")
    arm = m.group(1)
    if arm == "(1,_)|(_,1)=>a.as_str().len().cmp(&b.as_str().len()),":
        mode, what = 0, "by UTF-8 length: `(1, _) | (_, 1) => a.as_str().len().cmp(&b.as_str().len())`"
    elif arm == "(1,_)=>Ordering::Less,(_,1)=>Ordering::Greater,":
        mode, what = 1, "the one-character phrase first: `(1, _) => Less, (_, 1) => Greater`"
    else:
        raise ExtractError(f"leaf comparator: arm for (one character, longer) not recognised: {arm!r}")
    return "\n".join([HEADER.format(src="src/dictionary/trie.rs (TrieBuilder::write)", h=sha(w)),
                      "namespace Chewing.Gen\n",
                      "/-- leaf comparator of `TrieBuilder::write` on a pair of which exactly one is one character long:",
                      f"    0 = by UTF-8 length, 1 = the one-character phrase first.  Now: {what} -/",
                      f"def trieMixedCmp : Nat := {mode}",
                      "\nend Chewing.Gen\n"])
