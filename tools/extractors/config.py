"""Extractor for the configuration API (C16): capi/src/io.rs, capi/src/public.rs,
src/editor/mod.rs (EditorOptions), src/editor/zhuyin_layout/mod.rs (KeyboardLayoutCompat),
src/editor/keyboard/mod.rs (AnyKeyboardLayout constructors), src/dictionary/mod.rs (LookupStrategy).

Emits Gen/Config.lean:
  * the public constants, the EditorOptions fields / defaults, the option enums,
  * the option-name lists of chewing_config_{has_option,get_int,set_int,get_str,set_str},
  * per option the validation + store rule of its set_int arm and the read rule of its get_int arm,
  * the legacy chewing_set_* / chewing_get_* forwarders and the chewing_Configure call list,
  * KeyboardLayoutCompat (variants, FromStr, Display, TryFrom<u8>), and BOTH keyboard dispatch tables
    (chewing_config_set_str("chewing.keyboard_type") and chewing_set_KBType),
  * the shape flags of the selection-key / string / layout-number handling.
Every recognised shape is checked literally (whitespace-insensitive); anything else raises
ExtractError, which breaks the tie for C16 (reported by ./check).
"""
import re
from extractlib import *


def ws(s):
    return re.sub(r"\s+", "", s)


def enum_decl(src, name):
    body = block_after(src, r"\benum\s+" + re.escape(name) + r"\s*\{")
    vs, explicit = [], {}
    for part in split_top(body, ','):
        part = re.sub(r"#\[[^\]]*\]", "", part).strip()
        if not part:
            continue
        m = re.match(r"([A-Za-z_][A-Za-z0-9_]*)\s*(?:\(([^)]*)\))?\s*(?:=\s*([0-9xob_a-fA-F]+))?$", part)
        if not m:
            raise ExtractError(f"bad variant in enum {name}: {part!r}")
        vs.append(m.group(1))
        if m.group(3) is not None:
            explicit[m.group(1)] = rust_int(m.group(3))
    return vs, explicit


def str_arms(body):
    """[(string literal, arm text)] of a `match … { "a" => …, "b" => { … } … _ => … }` body (arms may be
    block-bodied without a trailing comma).  The default arm is returned under the key None."""
    arms, i, n, depth = [], 0, len(body), 0
    starts = []
    while i < n:
        c = body[i]
        if c == '"':
            j = i + 1
            while j < n and body[j] != '"':
                j += 2 if body[j] == '\\' else 1
            if depth == 0:
                m = re.match(r"\s*=>", body[j + 1:])
                if m:
                    starts.append((i, j + 1 + m.end(), body[i + 1:j]))
            i = j + 1
            continue
        if c in '([{':
            depth += 1
        elif c in ')]}':
            depth -= 1
        elif c == '_' and depth == 0:
            m = re.match(r"_\s*=>", body[i:])
            if m and (i == 0 or not (body[i - 1].isalnum() or body[i - 1] == '_')):
                starts.append((i, i + m.end(), None))
                i += m.end()
                continue
        i += 1
    for k, (s, e, key) in enumerate(starts):
        end = starts[k + 1][0] if k + 1 < len(starts) else n
        arms.append((key, body[e:end].strip().rstrip(',').strip()))
    return arms


def value_arms(body):
    """[(pattern, expr)] of a whitespace-stripped arm list; an arm whose expression is a `{…}` block may be
    followed by the next arm without a comma."""
    arms, i, n = [], 0, len(body)
    while i < n:
        j = body.find("=>", i)
        if j < 0:
            if body[i:].strip(", "):
                raise ExtractError(f"trailing text in match: {body[i:][:40]!r}")
            break
        pat = body[i:j].strip().lstrip(',').strip()
        k = j + 2
        while k < n and body[k].isspace():
            k += 1
        if k < n and body[k] == '{':
            e = balanced(body, k)
            expr = body[k:e]
            i = e
            if i < n and body[i] == ',':
                i += 1
        else:
            depth, e = 0, k
            while e < n:
                c = body[e]
                if c in '([{':
                    depth += 1
                elif c in ')]}':
                    depth -= 1
                elif c == ',' and depth == 0:
                    break
                e += 1
            expr = body[k:e].strip()
            i = e + 1
        arms.append((pat, expr))
    return arms


def match_body(text, head_regex):
    m = re.search(head_regex, text)
    if not m:
        raise ExtractError(f"match head not found: {head_regex}")
    i = text.find('{', m.end() - 1)
    j = balanced(text, i)
    return text[i + 1:j - 1], text[:m.start()], text[j:]


def parse_rej(cond, consts):
    """reject condition of a numeric arm -> list of Lean `Rej` terms"""
    out = []
    for atom in cond.split('||'):
        atom = atom.strip()
        m = re.match(r"^!\((-?\w+)\.\.=(-?\w+)\)\.contains\(&value\)$", atom)
        if m:
            out.append(f".notIn {ival(m.group(1), consts)} {ival(m.group(2), consts)}")
            continue
        m = re.match(r"^value(==|>=|<=|>|<)(-?\w+)$", atom)
        if not m:
            raise ExtractError(f"set_int: unrecognised reject condition {atom!r}")
        k = ival(m.group(2), consts)
        op = m.group(1)
        if op == '==':
            out.append(f".eq {k}")
        elif op == '>':
            out.append(f".gt {k}")
        elif op == '<':
            out.append(f".lt {k}")
        elif op == '>=':
            out.append(f".gt ({k} - 1)")
        else:
            out.append(f".lt ({k} + 1)")
    return out


def ival(tok, consts):
    tok = tok.strip()
    tok = re.sub(r"as(c_int|i32)$", "", tok)       # `MAX_SELKEY as c_int` (whitespace already stripped)
    if re.match(r"^-?[0-9]", tok):
        return str(rust_int(tok))
    if tok in consts:
        return str(consts[tok])
    raise ExtractError(f"unknown integer constant {tok}")


def lint(v):
    """Lean Int literal"""
    v = int(v)
    return str(v) if v >= 0 else f"({v})"


@extractor("config")
def x_config():
    raw_io = read("capi/src/io.rs")
    raw_pub = read("capi/src/public.rs")
    raw_ed = read("src/editor/mod.rs")
    raw_zl = read("src/editor/zhuyin_layout/mod.rs")
    raw_kb = read("src/editor/keyboard/mod.rs")
    raw_dict = read("src/dictionary/mod.rs")
    io = strip_comments(raw_io)
    pub = strip_comments(raw_pub)
    ed = strip_comments(raw_ed)
    zl = strip_comments(raw_zl)
    kbsrc = strip_comments(raw_kb)
    dic = strip_comments(raw_dict)

    # ------------------------------------------------------------------ public constants
    consts = {}
    pending = []
    for m in re.finditer(r"pub\s+const\s+([A-Z0-9_]+)\s*:\s*(c_int|usize)\s*=\s*([^;]+);", pub):
        pending.append((m.group(1), m.group(3).strip()))
    for _ in range(4):
        for name, expr in pending:
            if name in consts:
                continue
            toks = re.split(r"\s*([+-])\s*", expr)
            try:
                vals = [rust_int(t) if re.match(r"^[0-9]", t) else (t if t in '+-' else consts[t]) for t in toks]
            except KeyError:
                continue
            acc, sign = 0, 1
            for v in vals:
                if v == '+':
                    sign = 1
                elif v == '-':
                    sign = -1
                else:
                    acc += sign * v
            consts[name] = acc
    for need in ("CHINESE_MODE", "SYMBOL_MODE", "FULLSHAPE_MODE", "HALFSHAPE_MODE", "SIMPLE_CONVERSION_ENGINE",
                 "CHEWING_CONVERSION_ENGINE", "FUZZY_CHEWING_CONVERSION_ENGINE", "MIN_SELKEY", "MAX_SELKEY",
                 "MIN_CHI_SYMBOL_LEN", "MAX_CHI_SYMBOL_LEN", "AUTOLEARN_DISABLED", "AUTOLEARN_ENABLED"):
        if need not in consts:
            raise ExtractError(f"public constant {need} not found")
    for m in re.finditer(r"\bconst\s+(TRUE|FALSE|OK|ERROR)\s*:\s*c_int\s*=\s*(-?\d+)\s*;", io):
        consts[m.group(1)] = int(m.group(2))
    if consts.get("OK") != 0 or consts.get("ERROR") != -1:
        raise ExtractError("OK/ERROR constants changed")

    # ------------------------------------------------------------------ EditorOptions, its enums, defaults
    sbody = block_after(ed, r"\bpub\s+struct\s+EditorOptions\s*\{")
    fields = []
    for part in split_top(sbody, ','):
        m = re.match(r"(?:pub\s+)?([a-z_0-9]+)\s*:\s*([A-Za-z0-9_]+)$", part.strip())
        if not m:
            raise ExtractError(f"EditorOptions: bad field {part!r}")
        fields.append((m.group(1), m.group(2)))
    fidx = {f: i for i, (f, _) in enumerate(fields)}
    ftype = dict(fields)
    enums = {}
    for _, t in fields:
        if t in ("bool", "usize") or t in enums:
            continue
        vs, ex = enum_decl(dic if t == "LookupStrategy" else ed, t)
        if ex:
            raise ExtractError(f"enum {t}: explicit discriminants")
        enums[t] = vs

    def variant(field, text):
        """`Type::Variant` -> variant index, checked against the field's type"""
        t = ftype[field]
        m = re.match(r"^(\w+)::(\w+)$", text.strip())
        if not m or m.group(1) != t or m.group(2) not in enums[t]:
            raise ExtractError(f"{field}: expected a variant of {t}, got {text!r}")
        return enums[t].index(m.group(2))

    dbody = fn_body(ed, "default", after=r"impl\s+Default\s+for\s+EditorOptions")
    dinner = block_after(dbody, r"\bSelf\s*\{")
    defaults = {}
    for part in split_top(dinner, ','):
        m = re.match(r"([a-z_0-9]+)\s*:\s*(.+)$", part.strip(), re.S)
        if not m:
            raise ExtractError(f"EditorOptions::default: bad initialiser {part!r}")
        f, v = m.group(1), m.group(2).strip()
        if ftype[f] == "bool":
            defaults[f] = {"true": 1, "false": 0}[v]
        elif ftype[f] == "usize":
            defaults[f] = rust_int(v)
        else:
            defaults[f] = variant(f, v)
    if set(defaults) != set(fidx):
        raise ExtractError("EditorOptions::default does not initialise every field")

    # ------------------------------------------------------------------ has_option
    hb = fn_body(io, "chewing_config_has_option")
    m = re.search(r"matches!\s*\(\s*name\.as_ref\(\)\s*,", hb)
    if not m:
        raise ExtractError("has_option: matches! not found")
    i = hb.find('(', m.start())
    inner = hb[i + 1:balanced(hb, i, '(', ')') - 1]
    pats = split_top(inner, ',')[1]
    has_names = []
    for p in pats.split('|'):
        p = p.strip()
        if not re.match(r'^"[^"\\]*"$', p):
            raise ExtractError(f"has_option: bad pattern {p!r}")
        has_names.append(p[1:-1])
    if ws(hb[balanced(hb, i, '(', ')'):]) != ";retasc_int":
        raise ExtractError("has_option: tail changed")

    # ------------------------------------------------------------------ get_int
    gb = fn_body(io, "chewing_config_get_int")
    if "letoption=&ctx.editor.editor_options();" not in ws(gb):
        raise ExtractError("get_int: options binding changed")
    gmb, _, gtail = match_body(gb, r"match\s+name\.as_ref\(\)\s*\{")
    if ws(gtail) != "":
        raise ExtractError("get_int: tail changed")
    get_arms = []
    for key, arm in str_arms(gmb):
        a = ws(arm)
        if key is None:
            if a != "ERROR":
                raise ExtractError("get_int: default arm is not ERROR")
            continue
        m = re.match(r"^option\.([a-z_0-9]+)asc_int$", a)
        if m:
            f = m.group(1)
            if ftype.get(f) not in ("bool", "usize"):
                raise ExtractError(f"get_int {key}: cast of non-numeric field {f}")
            get_arms.append((key, f, None))
            continue
        m = re.match(r"^matchoption\.([a-z_0-9]+)\{(.*)\}$", a)
        if not m:
            raise ExtractError(f"get_int {key}: unrecognised arm {arm[:60]!r}")
        f = m.group(1)
        rows = []
        for l, r in value_arms(m.group(2)):
            rows.append((variant(f, l), int(ival(r, consts))))
        if sorted(v for v, _ in rows) != list(range(len(enums[ftype[f]]))):
            raise ExtractError(f"get_int {key}: match not exhaustive/unique")
        get_arms.append((key, f, rows))

    # ------------------------------------------------------------------ set_int
    sb = fn_body(io, "chewing_config_set_int")
    smb, spre, stail = match_body(sb, r"match\s+name\.as_ref\(\)\s*\{")
    pre = ws(spre)
    rejects_negative = "ifvalue<0{returnERROR;}" in pre
    if "letmutoptions=ctx.editor.editor_options();" not in pre:
        raise ExtractError("set_int: options binding changed")
    mm = re.search(r"macro_rules!ensure_bool\{\(\$expr:expr\)=>\{match\$expr\{(.*?)\};\};\}", pre)
    if not mm or mm.group(1) not in ("0|1=>{}_=>returnERROR,", "0|1=>{},_=>returnERROR,"):
        raise ExtractError("set_int: ensure_bool! changed")
    if ws(stail) != ";ctx.editor.set_editor_options(options);OK":
        raise ExtractError("set_int: tail changed (options must be written back exactly once, then OK)")
    set_arms = []
    engine_ctors = []
    for key, arm in str_arms(smb):
        a = ws(arm)
        if key is None:
            if a != "returnERROR":
                raise ExtractError("set_int: default arm is not `return ERROR`")
            continue
        # b. bool
        m = re.match(r"^\{ensure_bool!\(value\);options\.([a-z_0-9]+)=value>0;\}$", a)
        if m:
            if ftype.get(m.group(1)) != "bool":
                raise ExtractError(f"set_int {key}: bool rule on non-bool field")
            set_arms.append((key, m.group(1), ".bool"))
            continue
        # c. numeric with reject condition
        m = re.match(r"^\{if(.+?)\{returnERROR;\}options\.([a-z_0-9]+)=valueasusize;?\}$", a)
        if m:
            if ftype.get(m.group(2)) != "usize":
                raise ExtractError(f"set_int {key}: numeric rule on non-usize field")
            set_arms.append((key, m.group(2), ".num [" + ", ".join(parse_rej(m.group(1), consts)) + "]"))
            continue
        # a. match value { k => options.f = T::V, …, _ => return ERROR }
        m = re.match(r"^matchvalue\{(.*)\}$", a)
        if m:
            rows, f = [], None
            for l, r in value_arms(m.group(1)):
                if l == "_":
                    if r != "returnERROR":
                        raise ExtractError(f"set_int {key}: default is not return ERROR")
                    continue
                m2 = re.match(r"^options\.([a-z_0-9]+)=(\w+::\w+)$", r)
                if not m2 or (f is not None and f != m2.group(1)):
                    raise ExtractError(f"set_int {key}: unrecognised enum arm {l}=>{r!r}")
                f = m2.group(1)
                rows.append((int(ival(l, consts)), variant(f, m2.group(2))))
            set_arms.append((key, f, ".enum [" + ", ".join(f"({lint(k)}, {v})" for k, v in rows) + "]"))
            continue
        # d./e. options.f = match value { … }
        m = re.match(r"^\{options\.([a-z_0-9]+)=matchvalue\{(.*)\};?\}$", a)
        if not m:
            raise ExtractError(f"set_int {key}: unrecognised arm {arm[:70]!r}")
        f = m.group(1)
        rows, erows = [], []
        for l, r in value_arms(m.group(2)):
            if l == "_":
                if r != "returnERROR":
                    raise ExtractError(f"set_int {key}: default is not return ERROR")
                continue
            m2 = re.match(r"^\{ctx\.editor\.set_conversion_engine\(Box::new\((\w+)::new\(\)\)\);"
                          r"options\.lookup_strategy=(\w+::\w+);(\w+::\w+)\}$", r)
            if m2:
                if m2.group(1) not in engine_ctors:
                    engine_ctors.append(m2.group(1))
                erows.append((int(ival(l, consts)), engine_ctors.index(m2.group(1)),
                              variant("lookup_strategy", m2.group(2)), variant(f, m2.group(3))))
            else:
                rows.append((int(ival(l, consts)), variant(f, r)))
        if erows and rows:
            raise ExtractError(f"set_int {key}: mixed arm kinds")
        if erows:
            set_arms.append((key, f, ".engine [" + ", ".join(f"({lint(k)}, {e}, {s}, {v})" for k, e, s, v in erows) + "]"))
        else:
            set_arms.append((key, f, ".enum [" + ", ".join(f"({lint(k)}, {v})" for k, v in rows) + "]"))

    # ------------------------------------------------------------------ get_str / set_str
    gsb = fn_body(io, "chewing_config_get_str")
    gsm, _, gstail = match_body(gsb, r"match\s+name\.as_ref\(\)\s*\{")
    get_str_names = []
    for key, arm in str_arms(gsm):
        a = ws(arm)
        if key is None:
            if a != "returnERROR":
                raise ExtractError("get_str: default arm changed")
        elif key == "chewing.keyboard_type":
            if a != "ctx.kb_compat.to_string()":
                raise ExtractError("get_str keyboard_type: changed")
            get_str_names.append(key)
        elif key == "chewing.selection_keys":
            if a != "ctx.sel_keys.0.iter().map(|&key|char::from(keyasu8)).collect()":
                raise ExtractError("get_str selection_keys: changed")
            get_str_names.append(key)
        else:
            raise ExtractError(f"get_str: unknown string option {key}")
    t = ws(gstail)
    new_tail = (";letOk(cstring)=CString::new(string)else{returnERROR;};matchunsafe{value.as_mut()}"
                "{Some(place)=>*place=owned_into_raw(Owned::CString,cstring.into_raw()),None=>returnERROR,}OK")
    old_tail = (";matchunsafe{value.as_mut()}{Some(place)=>{*place=owned_into_raw(Owned::CString,CString::new(string)"
                ".expect(\"shouldhavevalidstring\").into_raw(),)}None=>returnERROR,}OK")
    if t == new_tail:
        get_str_aborts = False
    elif t == old_tail:
        get_str_aborts = True
    else:
        raise ExtractError("get_str: tail changed")

    ssb = fn_body(io, "chewing_config_set_str")
    ssm, _, sstail = match_body(ssb, r"match\s+name\.as_ref\(\)\s*\{")
    if ws(sstail) != ";OK":
        raise ExtractError("set_str: tail changed")
    set_str_names = []
    by_name_rows = None
    selkey_len, selkey_ascii = None, None
    for key, arm in str_arms(ssm):
        a = ws(arm)
        if key is None:
            if a != "returnERROR":
                raise ExtractError("set_str: default arm changed")
        elif key == "chewing.keyboard_type":
            set_str_names.append(key)
            head = ("{useKeyboardLayoutCompatasKB;ctx.kb_compat=matchstring.parse(){Ok(kbtype)=>kbtype,Err(_)=>returnERROR,};"
                    "let(keyboard,syl):(AnyKeyboardLayout,Box<dynSyllableEditor>)=matchctx.kb_compat{")
            if not a.startswith(head) or not a.endswith("};ctx.keyboard=keyboard;ctx.editor.set_syllable_editor(syl);}"):
                raise ExtractError("set_str keyboard_type: shape changed")
            tb, _, _ = match_body(arm, r"match\s+ctx\.kb_compat\s*\{")
            by_name_rows = tb
        elif key == "chewing.selection_keys":
            set_str_names.append(key)
            m = re.match(r"^\{ifstring\.len\(\)!=(\w+)(\|\|!string\.is_ascii\(\))?\{returnERROR;\}"
                         r"letmutsel_keys=\[0_i32;MAX_SELKEY\];string\.chars\(\)\.enumerate\(\)"
                         r"\.for_each\(\|\(i,key\)\|sel_keys\[i\]=keyasi32\);ctx\.sel_keys=SelKeys\(sel_keys\)\}$", a)
            if not m:
                raise ExtractError("set_str selection_keys: shape changed")
            selkey_len = int(ival(m.group(1), consts))
            selkey_ascii = m.group(2) is not None
        else:
            raise ExtractError(f"set_str: unknown string option {key}")

    # ------------------------------------------------------------------ KeyboardLayoutCompat
    kvs, kex = enum_decl(zl, "KeyboardLayoutCompat")
    if kex != {kvs[0]: 0}:
        raise ExtractError("KeyboardLayoutCompat: discriminants are not 0.. in declaration order")
    kix = {v: i for i, v in enumerate(kvs)}
    from_str = []
    fb = fn_body(zl, "from_str", after=r"impl\s+FromStr\s+for\s+KeyboardLayoutCompat")
    fmb, _, ftail = match_body(fb, r"match\s+kb_str\s*\{")
    if ws(ftail) != ";Ok(layout)":
        raise ExtractError("KeyboardLayoutCompat::from_str: tail changed")
    for key, arm in str_arms(fmb):
        if key is None:
            if ws(arm) != "returnErr(ParseKeyboardLayoutError)":
                raise ExtractError("from_str: default changed")
            continue
        m = re.match(r"^Self::(\w+)$", ws(arm))
        if not m:
            raise ExtractError(f"from_str: bad arm {arm!r}")
        from_str.append((key, kix[m.group(1)]))
    display = [None] * len(kvs)
    db = fn_body(zl, "fmt", after=r"impl\s+Display\s+for\s+KeyboardLayoutCompat")
    for pat, expr in match_arms(db):
        m = re.match(r"^KeyboardLayoutCompat::(\w+)$", pat.strip())
        m2 = re.match(r'^f\.write_str\("([^"\\]*)"\)$', ws(expr))
        if not m or not m2:
            raise ExtractError(f"Display: bad arm {pat} => {expr}")
        display[kix[m.group(1)]] = m2.group(1)
    if None in display:
        raise ExtractError("Display for KeyboardLayoutCompat not total")
    try_from = []
    tb = fn_body(zl, "try_from", after=r"impl\s+TryFrom<u8>\s+for\s+KeyboardLayoutCompat")
    for pat, expr in match_arms(tb):
        if pat.strip() == "_":
            if ws(expr) != "returnErr(())":
                raise ExtractError("TryFrom<u8>: default changed")
            continue
        m = re.match(r"^Self::(\w+)$", ws(expr))
        if not m:
            raise ExtractError(f"TryFrom<u8>: bad arm {pat} => {expr}")
        try_from.append((rust_int(pat), kix[m.group(1)]))

    # ------------------------------------------------------------------ AnyKeyboardLayout constructors
    avs, _ = enum_decl(kbsrc, "AnyKeyboardLayout")
    aimpl = block_after(kbsrc, r"impl\s+AnyKeyboardLayout\s*\{")
    kb_ctor = {}
    for m in re.finditer(r"pub\s+fn\s+(\w+)\s*\(\s*\)\s*->\s*AnyKeyboardLayout\s*\{\s*AnyKeyboardLayout::(\w+)\((\w+)\)\s*\}", aimpl):
        if m.group(2) != m.group(3) or m.group(2) not in avs:
            raise ExtractError(f"AnyKeyboardLayout::{m.group(1)}: unexpected body")
        kb_ctor[m.group(1)] = avs.index(m.group(2))

    syl_ctors = []

    def syl_ix(text):
        if text not in syl_ctors:
            syl_ctors.append(text)
        return syl_ctors.index(text)

    # Editor::new installs the initial syllable editor; chewing_new2 the initial keyboard / compat / keys
    eb = fn_body(ed, "new", after=r"impl\s+Editor\s*\{")
    m = re.search(r"syl:Box::new\((\w+::\w+\(\))\),", ws(eb))
    if not m or "options:EditorOptions::default()," not in ws(eb):
        raise ExtractError("Editor::new: initial syllable editor / options changed")
    init_syl = syl_ix(m.group(1))
    nb = ws(fn_body(io, "chewing_new2"))
    m = re.search(r"letkb_compat=KeyboardLayoutCompat::(\w+);letkeyboard=AnyKeyboardLayout::(\w+)\((\w+)\);", nb)
    if not m or m.group(2) != m.group(3):
        raise ExtractError("chewing_new2: initial layout changed")
    init_compat, init_kb = kix[m.group(1)], avs.index(m.group(2))
    m = re.search(r"letconversion_engine=Box::new\((\w+)::new\(\)\);", nb)
    if not m:
        raise ExtractError("chewing_new2: initial conversion engine changed")
    if m.group(1) not in engine_ctors:
        engine_ctors.append(m.group(1))
    init_engine = engine_ctors.index(m.group(1))
    m = re.search(r"sel_keys:SelKeys\(\[((?:b'.'asi32,)+)\]\),", nb)
    if not m:
        raise ExtractError("chewing_new2: initial selection keys changed")
    init_selkeys = [ord(x) for x in re.findall(r"b'(.)'asi32,", m.group(1))]

    def dispatch(tbody, what):
        rows = [None] * len(kvs)
        for pat, expr in match_arms(tbody):
            m = re.match(r"^KB::(\w+)$", pat.strip())
            m2 = re.match(r"^\(AnyKeyboardLayout::(\w+)\(\),Box::new\((\w+::\w+\(\))\),?\)$", ws(expr))
            if not m or not m2 or m2.group(1) not in kb_ctor:
                raise ExtractError(f"{what}: bad dispatch row {pat} => {expr}")
            if rows[kix[m.group(1)]] is not None:
                raise ExtractError(f"{what}: duplicate row {pat}")
            rows[kix[m.group(1)]] = (kb_ctor[m2.group(1)], syl_ix(m2.group(2)), m2.group(1), m2.group(2))
        if None in rows:
            raise ExtractError(f"{what}: dispatch table not total")
        return rows

    by_name = dispatch(by_name_rows, "set_str keyboard_type")

    kb_body = fn_body(io, "chewing_set_KBType")
    kt, kpre, ktail = match_body(kb_body, r"match\s+kb_compat\s*\{")
    p = ws(kpre)
    if "letkb_compat=matchu8::try_from(kbtype).map_err(|_|()).and_then(KB::try_from){Ok(kb)=>kb,Err(())=>KB::Default,};" in p:
        kb_truncates = False
    elif "letkb_compat=matchKB::try_from(kbtypeasu8){Ok(kb)=>kb,Err(())=>KB::Default,};" in p:
        kb_truncates = True
    else:
        raise ExtractError("chewing_set_KBType: number conversion changed")
    if ws(ktail) != (";ctx.kb_compat=kb_compat;ctx.keyboard=keyboard;ctx.editor.set_syllable_editor(syl);"
                     "ifkb_compat==KB::Default&&kb_compatasc_int!=kbtype{-1}else{0}"):
        raise ExtractError("chewing_set_KBType: tail changed")
    by_num = dispatch(kt, "chewing_set_KBType")
    if ws(fn_body(io, "chewing_get_KBType")) != "letctx=as_ref_or_return!(ctx,ERROR);ctx.kb_compatasc_int":
        raise ExtractError("chewing_get_KBType changed")
    if "letkb_string=ctx.kb_compat.to_string();" not in ws(fn_body(io, "chewing_get_KBString")):
        raise ExtractError("chewing_get_KBString changed")
    k2n = ws(fn_body(io, "chewing_KBStr2Num"))
    m = re.search(r"letlayout:KeyboardLayoutCompat=utf8str\.parse\(\)\.unwrap_or\(KeyboardLayoutCompat::(\w+)\);layoutasc_int$", k2n)
    if not m:
        raise ExtractError("chewing_KBStr2Num changed")
    str2num_default = kix[m.group(1)]

    # ------------------------------------------------------------------ legacy forwarders
    legacy_set, legacy_get = [], []
    for m in re.finditer(r"pub\s+unsafe\s+extern\s+\"C\"\s+fn\s+(chewing_(set|get)_\w+)\s*\(", io):
        fn, kind = m.group(1), m.group(2)
        body = ws(fn_body(io, fn))
        if kind == "set":
            m2 = re.match(r'^unsafe\{chewing_config_set_int\(ctx,c"([^"]*)"\.as_ptr\(\)\.cast\(\),(\w+),?\)\};$', body)
            if m2:
                # the forwarded value must be the function's own second parameter
                sig = io[m.end():balanced(io, m.end() - 1, '(', ')') - 1]
                params = [q.split(':')[0].strip() for q in split_top(sig, ',')]
                if len(params) != 2 or params[1] != m2.group(2):
                    raise ExtractError(f"{fn}: does not forward its argument")
                legacy_set.append((fn, m2.group(1)))
            elif "chewing_config_set_int" in body:
                raise ExtractError(f"{fn}: unrecognised forwarding shape")
        else:
            m2 = re.match(r'^unsafe\{chewing_config_get_int\(ctx,c"([^"]*)"\.as_ptr\(\)\.cast\(\)\)\}$', body)
            if m2:
                legacy_get.append((fn, m2.group(1)))
            elif "chewing_config_get_int" in body:
                raise ExtractError(f"{fn}: unrecognised forwarding shape")
    skb = ws(fn_body(io, "chewing_set_selKey"))
    m = re.match(r"^letctx=as_mut_or_return!\(ctx\);ifsel_keys\.is_null\(\)\|\|len!=(\w+)\{return;\}"
                 r"letsel_keys=unsafe\{slice::from_raw_parts\(sel_keys,lenasusize\)\};ctx\.sel_keys\.0\.copy_from_slice\(sel_keys\);$", skb)
    if not m:
        raise ExtractError("chewing_set_selKey changed")
    set_selkey_len = int(ival(m.group(1), consts))
    if ws(fn_body(io, "chewing_get_selKey")) != "letctx=as_ref_or_return!(ctx,null_mut());ctx.sel_keys.0.as_ptr().cast_mut()":
        raise ExtractError("chewing_get_selKey changed")
    cb = ws(fn_body(io, "chewing_Configure"))
    m = re.search(r"unsafe\{((?:chewing_set_\w+\(ctx,[^;]*\);)+)\}OK$", cb)
    if not m:
        raise ExtractError("chewing_Configure changed")
    configure = []
    for call in m.group(1).split(';'):
        if not call:
            continue
        m2 = re.match(r"^(chewing_set_\w+)\(ctx,pcd\.(\w+)(\.as_ptr\(\),MAX_SELKEYasi32)?\)$", call)
        if not m2:
            raise ExtractError(f"chewing_Configure: unrecognised call {call}")
        configure.append((m2.group(1), m2.group(2)))

    # ------------------------------------------------------------------ emit
    srcs = "capi/src/{io,public}.rs, src/editor/{mod,zhuyin_layout/mod,keyboard/mod}.rs, src/dictionary/mod.rs"
    h = sha(raw_io + raw_pub + raw_ed + raw_zl + raw_kb + raw_dict)
    L = [HEADER.format(src=srcs, h=h), "namespace Chewing.Gen.Cfg\n"]
    L.append("/-- one reject test on `value` in a numeric `chewing_config_set_int` arm -/")
    L.append("inductive Rej where\n  | eq (k : Int) | gt (k : Int) | lt (k : Int) | notIn (lo hi : Int)\nderiving DecidableEq, Repr\n")
    L.append("/-- what a `chewing_config_set_int` arm does: validation, then the value stored in the option field.\n"
             "    `bool`: `ensure_bool!(value); f = value > 0`.  `num rej`: `if <any rej> { return ERROR } f = value as usize`.\n"
             "    `enum arms`: `value ↦ variant index`, anything else `return ERROR`.\n"
             "    `engine arms`: `value ↦ (engine constructor, lookup_strategy variant, kind variant)`; also installs the engine. -/")
    L.append("inductive SetRule where\n  | bool\n  | num (rej : List Rej)\n  | enum (arms : List (Int × Nat))\n"
             "  | engine (arms : List (Int × Nat × Nat × Nat))\nderiving DecidableEq, Repr\n")
    L.append("/-- what a `chewing_config_get_int` arm returns: `cast` = `option.f as c_int`; `enum` = variant index ↦ value -/")
    L.append("inductive GetRule where\n  | cast\n  | enum (arms : List (Nat × Int))\nderiving DecidableEq, Repr\n")
    L.append("/-- public constants (capi/src/public.rs) -/")
    for k in ("CHINESE_MODE", "SYMBOL_MODE", "FULLSHAPE_MODE", "HALFSHAPE_MODE", "SIMPLE_CONVERSION_ENGINE",
              "CHEWING_CONVERSION_ENGINE", "FUZZY_CHEWING_CONVERSION_ENGINE", "MIN_SELKEY", "MAX_SELKEY",
              "MIN_CHI_SYMBOL_LEN", "MAX_CHI_SYMBOL_LEN", "AUTOLEARN_DISABLED", "AUTOLEARN_ENABLED"):
        L.append(f"def {k} : Int := {lint(consts[k])}")
    L.append("\n/-- `struct EditorOptions`: field names in declaration order (the field index is the list position) -/")
    L.append(f"def optFields : List String := {lean_list([lean_str(f) for f, _ in fields], 5)}")
    L.append("/-- field types -/")
    L.append(f"def optFieldTypes : List String := {lean_list([lean_str(t) for _, t in fields], 7)}")
    L.append("/-- `impl Default for EditorOptions`, encoded (bool 0/1, usize, enum variant index) -/")
    L.append(f"def optDefaults : List Nat := {lean_list([str(defaults[f]) for f, _ in fields], 14)}")
    L.append("/-- the option enums: (type, variants in declaration order) -/")
    L.append("def optEnums : List (String × List String) := "
             + lean_list(["(" + lean_str(t) + ", " + lean_list([lean_str(v) for v in vs]) + ")" for t, vs in enums.items()], 1))
    L.append(f"def lookupStrategyField : Nat := {fidx['lookup_strategy']}")
    L.append("\n/-- `chewing_config_has_option`: the accepted names, pattern order -/")
    L.append(f"def hasOptionNames : List String := {lean_list([lean_str(x) for x in has_names], 3)}")
    L.append("\n/-- `chewing_config_get_int`: (name, field index, rule), arm order; any other name returns ERROR -/")
    rows = []
    for key, f, r in get_arms:
        rule = ".cast" if r is None else ".enum [" + ", ".join(f"({v}, {lint(k)})" for v, k in r) + "]"
        rows.append(f"({lean_str(key)}, {fidx[f]}, {rule})")
    L.append(f"def getIntArms : List (String × Nat × GetRule) := {lean_list(rows, 1)}")
    L.append("\n/-- `chewing_config_set_int` starts with `if value < 0 { return ERROR; }` -/")
    L.append(f"def setIntRejectsNegative : Bool := {'true' if rejects_negative else 'false'}")
    L.append("/-- `chewing_config_set_int`: (name, field index, rule), arm order; any other name returns ERROR;\n"
             "    after the match the options are written back once and OK is returned -/")
    rows = [f"({lean_str(key)}, {fidx[f]}, {r})" for key, f, r in set_arms]
    L.append(f"def setIntArms : List (String × Nat × SetRule) := {lean_list(rows, 1)}")
    L.append(f"/-- conversion engine constructors named by the `engine` rule / chewing_new2 -/")
    L.append(f"def engineCtors : List String := {lean_list([lean_str(x) for x in engine_ctors])}")
    L.append(f"def initEngine : Nat := {init_engine}")
    L.append("\n/-- string options -/")
    L.append(f"def getStrNames : List String := {lean_list([lean_str(x) for x in get_str_names])}")
    L.append(f"def setStrNames : List String := {lean_list([lean_str(x) for x in set_str_names])}")
    L.append("/-- `chewing_config_get_str` panics (process abort) instead of returning ERROR when the value contains NUL -/")
    L.append(f"def getStrAbortsOnNul : Bool := {'true' if get_str_aborts else 'false'}")
    L.append("/-- `chewing.selection_keys`: required byte length, and whether non-ASCII strings are rejected -/")
    L.append(f"def selKeysStrLen : Nat := {selkey_len}")
    L.append(f"def selKeysRequireAscii : Bool := {'true' if selkey_ascii else 'false'}")
    L.append(f"/-- `chewing_set_selKey` ignores the call unless `len` is this -/")
    L.append(f"def setSelKeyLen : Int := {lint(set_selkey_len)}")
    L.append(f"def initSelKeys : List Int := {lean_list([str(x) for x in init_selkeys])}")
    L.append("\n/-- legacy forwarders: (function, option name passed to chewing_config_set_int / get_int) -/")
    L.append(f"def legacySetters : List (String × String) := {lean_list([f'({lean_str(a)}, {lean_str(b)})' for a, b in legacy_set], 1)}")
    L.append(f"def legacyGetters : List (String × String) := {lean_list([f'({lean_str(a)}, {lean_str(b)})' for a, b in legacy_get], 1)}")
    L.append("/-- `chewing_Configure`: (setter, ChewingConfigData field) in call order -/")
    L.append(f"def configureCalls : List (String × String) := {lean_list([f'({lean_str(a)}, {lean_str(b)})' for a, b in configure], 1)}")
    L.append("\n/-- `enum KeyboardLayoutCompat` (discriminant = list position) -/")
    L.append(f"def kbVariants : List String := {lean_list([lean_str(v) for v in kvs], 6)}")
    L.append("/-- `impl FromStr`: (name, variant) -/")
    L.append(f"def kbFromStr : List (String × Nat) := {lean_list([f'({lean_str(a)}, {b})' for a, b in from_str], 4)}")
    L.append("/-- `impl Display`, by variant -/")
    L.append(f"def kbDisplay : List String := {lean_list([lean_str(v) for v in display], 6)}")
    L.append("/-- the same two tables with the names as lists of code points (what the model computes with) -/")
    cps = lambda s_: "[" + ", ".join(str(ord(ch)) for ch in s_) + "]"
    L.append(f"def kbFromStrText : List (List Nat × Nat) := {lean_list([f'({cps(a_)}, {b_})' for a_, b_ in from_str], 1)}")
    L.append(f"def kbDisplayText : List (List Nat) := {lean_list([cps(v) for v in display], 1)}")
    L.append(f"/-- `KeyboardLayoutCompat::Default` -/")
    L.append(f"def kbDefault : Nat := {kix['Default']}")
    L.append("/-- `impl TryFrom<u8>`: (number, variant) -/")
    L.append(f"def kbTryFrom : List (Nat × Nat) := {lean_list([f'({a}, {b})' for a, b in try_from], 9)}")
    L.append("/-- chewing_set_KBType converts the number with `as u8` (truncation) before TryFrom -/")
    L.append(f"def kbTypeTruncates : Bool := {'true' if kb_truncates else 'false'}")
    L.append(f"def kbStr2NumDefault : Nat := {str2num_default}")
    L.append("\n/-- `enum AnyKeyboardLayout` variants (a keyboard is its position here) -/")
    L.append(f"def keyboards : List String := {lean_list([lean_str(v) for v in avs], 8)}")
    L.append("/-- syllable-editor constructors that occur (a syllable editor is its position here) -/")
    L.append(f"def sylCtors : List String := {lean_list([lean_str(v) for v in syl_ctors], 5)}")
    L.append(f"def initCompat : Nat := {init_compat}")
    L.append(f"def initKeyboard : Nat := {init_kb}")
    L.append(f"def initSyl : Nat := {init_syl}")
    for nm, rows, where in (("kbByName", by_name, 'chewing_config_set_str("chewing.keyboard_type")'),
                            ("kbByNum", by_num, "chewing_set_KBType")):
        L.append(f"\n/-- dispatch table inside {where}: by KeyboardLayoutCompat variant, (keyboard, syllable editor) -/")
        body = []
        for i, (a_, b_, c_, d_) in enumerate(rows):
            sep = "," if i + 1 < len(rows) else "]"
            body.append(f"   ({a_}, {b_}){sep}  -- {kvs[i]}: {c_}(), {d_}")
        L.append(f"def {nm} : List (Nat × Nat) := [\n" + "\n".join(body))
    L.append("\nend Chewing.Gen.Cfg\n")
    return {"Config.lean": "\n".join(L)}
