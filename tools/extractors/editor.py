"""Extractors for the editor state machine (C01, C02, C05, C06, C07, C17, C18):
KeyCode enum, symbol tables of src/conversion/symbol.rs, the special-symbol selector table,
the break-word list and the default options of src/editor/mod.rs."""
import re
from extractlib import *


def char_pairs(src, name):
    m = re.search(r"static\s+" + name + r"\s*:\s*\[\s*\(\s*char\s*,\s*char\s*\)\s*;\s*(\d+)\s*\]\s*=\s*symbol_map!\s*\{", src)
    if not m:
        raise ExtractError(f"{name} not found")
    i = m.end() - 1
    body = src[i + 1:balanced(src, i) - 1]
    pairs = []
    for part in split_top(body, ','):
        if not part:
            continue
        k, v = part.split('=>')
        pairs.append((rust_char(k), rust_char(v)))
    if len(pairs) != int(m.group(1)):
        raise ExtractError(f"{name}: declared length differs")
    return pairs


def rust_str(lit):
    lit = lit.strip()
    if not (lit.startswith('"') and lit.endswith('"')):
        raise ExtractError(f"not a string literal: {lit}")
    s, out, i = lit[1:-1], [], 0
    while i < len(s):
        if s[i] == '\\':
            esc = {'n': '\n', 't': '\t', 'r': '\r', '0': '\0', '\\': '\\', "'": "'", '"': '"'}
            if s[i + 1] in esc:
                out.append(esc[s[i + 1]]); i += 2; continue
            m = re.match(r"\\u\{([0-9a-fA-F_]+)\}", s[i:])
            if m:
                out.append(chr(int(m.group(1).replace('_', ''), 16))); i += len(m.group(0)); continue
            raise ExtractError(f"unknown escape in {lit}")
        out.append(s[i]); i += 1
    return ''.join(out)


def cps(s):
    return lean_list([str(ord(c)) for c in s], 16)


@extractor("editor")
def x_editor():
    files = {}
    # ---- KeyCode
    kraw = read("src/editor/keyboard/mod.rs")
    ksrc = strip_comments(kraw)
    body = block_after(ksrc, r"\benum\s+KeyCode\b")
    names = []
    for part in split_top(body, ','):
        part = re.sub(r"#\[[^\]]*\]", "", part).strip()
        if not part:
            continue
        m = re.match(r"([A-Za-z_][A-Za-z0-9_]*)\s*(=\s*(\d+))?$", part)
        if not m:
            raise ExtractError(f"KeyCode variant: {part!r}")
        if m.group(3) is not None and int(m.group(3)) != len(names):
            raise ExtractError("KeyCode: explicit discriminant is not the position")
        names.append(m.group(1))
    tb = re.sub(r"\s+", "", fn_body(ksrc, "to_digit"))
    m = re.match(r"matchself\{code@\(([A-Z0-9|]+)\)=>Some\(codeasu8\),_=>None,\}$", tb)
    if not m:
        raise ExtractError("KeyCode::to_digit: unexpected shape")
    digits = m.group(1).split('|')
    pb = re.sub(r"\s+", "", fn_body(ksrc, "is_printable"))
    m = re.match(r"self\.unicode!='(.)'$", pb)
    if not m:
        raise ExtractError("KeyEvent::is_printable: unexpected shape")
    unprintable = m.group(1)
    L = [HEADER.format(src="src/editor/keyboard/mod.rs", h=sha(kraw)), "namespace Chewing.Gen\n",
         "/-- `enum KeyCode`, declaration order = discriminant -/",
         f"def keyCodeNames : List String := {lean_list([lean_str(n) for n in names], 10)}\n",
         "/-- `KeyCode::to_digit`: the codes (discriminants) that are digits; the digit is the discriminant -/",
         f"def digitKeyCodes : List Nat := {lean_list([str(names.index(d)) for d in digits])}\n",
         "/-- `KeyEvent::is_printable`: the one code point that is NOT printable -/",
         f"def unprintableCp : Nat := {ord(unprintable)}\n",
         "end Chewing.Gen\n"]
    files["KeyCode.lean"] = "\n".join(L)
    # ---- symbol tables
    sraw = read("src/conversion/symbol.rs")
    ssrc = strip_comments(sraw)
    special = char_pairs(ssrc, "SPECIAL_SYMBOLS")
    full = char_pairs(ssrc, "FULL_WIDTH_SYMBOLS")
    b1 = re.sub(r"\s+", "", fn_body(ssrc, "special_symbol_input"))
    if b1 != "SPECIAL_SYMBOLS.iter().find(|item|item.0==key).map(|item|item.1)":
        raise ExtractError("special_symbol_input: unexpected shape")
    b2 = re.sub(r"\s+", "", fn_body(ssrc, "full_width_symbol_input"))
    if b2 != "FULL_WIDTH_SYMBOLS.iter().find(|item|item.0==key).map(|item|item.1).or_else(||special_symbol_input(key))":
        raise ExtractError("full_width_symbol_input: unexpected shape")
    L = [HEADER.format(src="src/conversion/symbol.rs", h=sha(sraw)), "namespace Chewing.Gen\n",
         "/-- `SPECIAL_SYMBOLS` as (key code point, symbol code point), table order -/",
         f"def specialSymbols : List (Nat × Nat) := {lean_list([f'({ord(a)}, {ord(b)})' for a, b in special], 8)}\n",
         "/-- `FULL_WIDTH_SYMBOLS` -/",
         f"def fullWidthSymbols : List (Nat × Nat) := {lean_list([f'({ord(a)}, {ord(b)})' for a, b in full], 8)}\n",
         "end Chewing.Gen\n"]
    files["SymbolTables.lean"] = "\n".join(L)
    # ---- special symbol selector table
    yraw = read("src/editor/selection/symbol.rs")
    ysrc = strip_comments(yraw)
    m = re.search(r"const\s+TABLE\s*:\s*&'static\s*\[\s*&'static\s+str\s*;\s*(\d+)\s*\]\s*=\s*&\[", ysrc)
    if not m:
        raise ExtractError("SpecialSymbolSelector::TABLE not found")
    i = m.end() - 1
    items = [rust_str(x) for x in split_top(ysrc[i + 1:balanced(ysrc, i, '[', ']') - 1], ',') if x]
    if len(items) != int(m.group(1)):
        raise ExtractError("TABLE: declared length differs")
    L = [HEADER.format(src="src/editor/selection/symbol.rs", h=sha(yraw)), "namespace Chewing.Gen\n",
         "/-- `SpecialSymbolSelector::TABLE`: each row as code points (first = the key character) -/",
         "def specialSelTable : List (List Nat) := [\n  " + ",\n  ".join(cps(s) for s in items) + "]\n",
         "end Chewing.Gen\n"]
    files["SpecialSelTable.lean"] = "\n".join(L)
    # ---- break words, default options
    eraw = read("src/editor/mod.rs")
    esrc = strip_comments(eraw)
    bb = fn_body(esrc, "is_break_word")
    m = re.search(r"\[(.*)\]\s*\.contains\(&word\)", bb, re.S)
    if not m:
        raise ExtractError("is_break_word: unexpected shape")
    words = [rust_str(x) for x in split_top(m.group(1), ',') if x]
    db = fn_body(esrc, "default", after=r"impl\s+Default\s+for\s+EditorOptions")
    m = re.search(r"Self\s*\{", db)
    i = db.find('{', m.start())
    fields = {}
    for part in split_top(db[i + 1:balanced(db, i) - 1], ','):
        if ':' in part:
            k, v = part.split(':', 1)
            fields[k.strip()] = v.strip()
    want = ["easy_symbol_input", "esc_clear_all_buffer", "space_is_select_key", "auto_shift_cursor",
            "phrase_choice_rearward", "disable_auto_learn_phrase", "auto_commit_threshold", "candidates_per_page",
            "language_mode", "character_form", "user_phrase_add_dir", "lookup_strategy", "conversion_engine",
            "enable_fullwidth_toggle_key"]
    sb = block_after(esrc, r"pub\s+struct\s+EditorOptions\b")
    declared = re.findall(r"pub\s+(\w+)\s*:", sb)
    if declared != want:
        raise ExtractError(f"EditorOptions fields changed: {declared}")
    enc = {"true": "1", "false": "0", "LanguageMode::Chinese": "0", "LanguageMode::English": "1",
           "CharacterForm::Halfwidth": "0", "CharacterForm::Fullwidth": "1",
           "UserPhraseAddDirection::Forward": "0", "UserPhraseAddDirection::Backward": "1",
           "LookupStrategy::Standard": "0", "LookupStrategy::FuzzyPartialPrefix": "1",
           "ConversionEngineKind::SimpleEngine": "0", "ConversionEngineKind::ChewingEngine": "1",
           "ConversionEngineKind::FuzzyChewingEngine": "2"}
    vals = []
    for k in want:
        v = fields.get(k)
        if v is None:
            raise ExtractError(f"default for {k} missing")
        vals.append(enc.get(v, None) or str(rust_int(v)))
    L = [HEADER.format(src="src/editor/mod.rs", h=sha(eraw)), "namespace Chewing.Gen\n",
         "/-- `is_break_word`: the words, as code point lists -/",
         "def breakWords : List (List Nat) := [" + ", ".join(cps(w) for w in words) + "]\n",
         "/-- `EditorOptions::default()`, field order of the struct; bools/enums as discriminants -/",
         f"def defaultOptions : List Nat := {lean_list(vals, 14)}\n",
         "end Chewing.Gen\n"]
    files["EditorConsts.lean"] = "\n".join(L)
    return files
