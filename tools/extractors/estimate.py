"""Extractors for C08: src/editor/estimate.rs (learning arithmetic), the break-word list of
src/editor/mod.rs (`is_break_word`; NOT data/swkb.dat, which is the easy-symbol table) and the
path-score constants of src/conversion/chewing.rs.

The arithmetic theorems of Props/C08 (`becomes_top`, `learn_monotone`, `estimate_no_panic`) are stated
over the generated constants, so they are re-elaborated against the current source on every run.  The
*shape* of `estimate` (which operator, which `min`/`max`, which constant where) is checked against a
token signature: identifiers that are not parameters / constants / methods are wildcards, so renaming a
local or reformatting does not matter, but swapping `min` and `max`, changing an operator or moving a
constant breaks the translator (and with it the tie) instead of silently keeping the old model.

Shape after the repair of F40 / F07's time subtraction (a `fix:` commit in the repository): the time difference
is `self.lifetime.saturating_sub(..)` and the two rising bands end in `phrase.freq().saturating_add(delta)
.min(MAX_USER_FREQ)`.  `saturating_add` / `saturating_sub` are signature tokens, so going back to a plain `+` / `-`
(or to `wrapping_*` / `checked_*`) breaks the translator.  `Model/Estimate.lean` uses `satAdd32` / `satSub` at exactly
these three places and keeps the `u32` guards on the remaining plain subtractions.
"""
import re
from extractlib import *

KEEP = {"if", "else", "let", "self", "lifetime", "phrase", "freq", "last_used", "unwrap_or", "min", "max",
        "orig_freq", "max_freq", "saturating_add", "saturating_sub", "SHORT_INCREASE_FREQ", "MEDIUM_INCREASE_FREQ", "LONG_DECREASE_FREQ", "MAX_USER_FREQ"}

TOK = re.compile(r"\s*(?:([A-Za-z_][A-Za-z0-9_]*)|([0-9][0-9A-Za-z_]*)|(>=|<=|==|!=|&&|\|\||[-+*/<>=.;,(){}&!]))")


def signature(body):
    """(token signature, integer literals in order)"""
    sig, ints, i = [], [], 0
    body = body.strip()
    while i < len(body):
        m = TOK.match(body, i)
        if not m:
            raise ExtractError(f"estimate: cannot tokenise at {body[i:i + 20]!r}")
        i = m.end()
        if m.group(1):
            sig.append(m.group(1) if m.group(1) in KEEP else "_")
        elif m.group(2):
            ints.append(rust_int(m.group(2)))
            sig.append("#")
        else:
            sig.append(m.group(3))
    return " ".join(sig), ints


BAND = ("let _ = if phrase . freq ( ) >= max_freq { ( ( max_freq - orig_freq ) / # + # ) . min ( %s ) } "
        "else { ( ( max_freq - orig_freq ) / # + # ) . max ( %s ) } ; "
        "phrase . freq ( ) . saturating_add ( _ ) . min ( MAX_USER_FREQ )")
WANT = ("let _ = self . lifetime . saturating_sub ( phrase . last_used ( ) . unwrap_or ( self . lifetime ) ) ; "
        "if _ < # { " + BAND % ("SHORT_INCREASE_FREQ", "SHORT_INCREASE_FREQ") + " } "
        "else if _ < # { " + BAND % ("MEDIUM_INCREASE_FREQ", "MEDIUM_INCREASE_FREQ") + " } "
        "else { let _ = ( ( phrase . freq ( ) - orig_freq ) / # ) . max ( LONG_DECREASE_FREQ ) ; "
        "( phrase . freq ( ) - _ ) . max ( orig_freq ) }")


def u_const(src, name, ty="u32"):
    m = re.search(r"\bconst\s+" + name + r"\s*:\s*" + ty + r"\s*=\s*([0-9][0-9A-Za-z_]*)\s*;", src)
    if not m:
        raise ExtractError(f"const {name}: {ty} not found")
    return rust_int(m.group(1))


@extractor("estimate")
def x_estimate():
    raw = read("src/editor/estimate.rs")
    src = strip_comments(raw)
    consts = {n: u_const(src, n) for n in
              ("SHORT_INCREASE_FREQ", "MEDIUM_INCREASE_FREQ", "LONG_DECREASE_FREQ", "MAX_USER_FREQ")}
    anchor = r"impl\s+UserFreqEstimate\s+for\s+LaxUserFreqEstimate\s*\{"
    sig, ints = signature(fn_body(src, "estimate", after=anchor))
    if sig != WANT:
        # point at the first differing token to make the report useful
        a, b = sig.split(" "), WANT.split(" ")
        k = next((i for i, (x, y) in enumerate(zip(a, b)) if x != y), min(len(a), len(b)))
        raise ExtractError("estimate(): body shape changed at token %d: found `%s`, expected `%s`"
                           % (k, " ".join(a[k:k + 6]), " ".join(b[k:k + 6])))
    if len(ints) != 11:
        raise ExtractError("estimate(): unexpected number of literals")
    short_band, sd1, sp1, sd2, sp2, medium_band, md1, mp1, md2, mp2, long_div = ints
    if (sd1, sp1) != (sd2, sp2) or (md1, mp1) != (md2, mp2):
        raise ExtractError("estimate(): the two branches of a band use different divisor/offset (shape not modelled)")
    # signature and parameter order of estimate (the model's argument order relies on it)
    if not re.search(r"fn\s+estimate\s*\(\s*&self\s*,\s*phrase\s*:\s*&Phrase\s*,\s*orig_freq\s*:\s*u32\s*,\s*max_freq\s*:\s*u32\s*\)\s*->\s*u32",
                     src[re.search(anchor, src).end():]):
        raise ExtractError("estimate(): parameter list changed")
    if not re.search(r"\blifetime\s*:\s*u64\b", src):
        raise ExtractError("lifetime is no longer u64")
    tick = re.sub(r"\s+", "", fn_body(src, "tick", after=anchor))
    m = re.match(r"self\.lifetime\+=(\d+);$", tick)
    if not m:
        raise ExtractError("tick(): body shape changed")
    tick_inc = int(m.group(1))
    if re.sub(r"\s+", "", fn_body(src, "now", after=anchor)) != "self.lifetime":
        raise ExtractError("now(): body shape changed")
    mf = re.sub(r"\s+", "", fn_body(src, "max_from"))
    if mf != ("letlifetime=user_dict.entries().map(|it|it.1.last_used().unwrap_or_default()).max().unwrap_or_default();"
              "LaxUserFreqEstimate{lifetime}"):
        raise ExtractError("max_from(): body shape changed")

    L = [HEADER.format(src="src/editor/estimate.rs", h=sha(raw)),
         "namespace Chewing.Gen.Est\n",
         "/-- `delta_time < shortBand`: the \"recently used\" band -/",
         f"def shortBand : Nat := {short_band}",
         "/-- `delta_time < mediumBand`: the middle band; at or above it the long-gap (decay) band -/",
         f"def mediumBand : Nat := {medium_band}",
         "/-- short band: `(max_freq - orig_freq) / shortDiv + shortPlus` -/",
         f"def shortDiv : Nat := {sd1}",
         f"def shortPlus : Nat := {sp1}",
         "/-- medium band: `(max_freq - orig_freq) / mediumDiv + mediumPlus` -/",
         f"def mediumDiv : Nat := {md1}",
         f"def mediumPlus : Nat := {mp1}",
         "/-- long band: `(freq - orig_freq) / longDiv` -/",
         f"def longDiv : Nat := {long_div}",
         "/-- `SHORT_INCREASE_FREQ` -/",
         f"def shortInc : Nat := {consts['SHORT_INCREASE_FREQ']}",
         "/-- `MEDIUM_INCREASE_FREQ` -/",
         f"def mediumInc : Nat := {consts['MEDIUM_INCREASE_FREQ']}",
         "/-- `LONG_DECREASE_FREQ` -/",
         f"def longDec : Nat := {consts['LONG_DECREASE_FREQ']}",
         "/-- `MAX_USER_FREQ` -/",
         f"def maxUserFreq : Nat := {consts['MAX_USER_FREQ']}",
         "/-- `tick`: `self.lifetime += tickInc` -/",
         f"def tickInc : Nat := {tick_inc}",
         "\nend Chewing.Gen.Est\n"]
    return {"Estimate.lean": "\n".join(L)}


def rust_str(lit):
    lit = lit.strip()
    if not (len(lit) >= 2 and lit[0] == '"' and lit[-1] == '"'):
        raise ExtractError(f"not a string literal: {lit}")
    s = lit[1:-1]
    if "\\" in s:
        raise ExtractError(f"escape in break word literal not supported: {lit}")
    return s


@extractor("breakwords")
def x_breakwords():
    raw = read("src/editor/mod.rs")
    src = strip_comments(raw)
    body = fn_body(src, "is_break_word").strip()
    m = re.match(r"\[(.*)\]\s*\.\s*contains\s*\(\s*&\s*word\s*\)$", body, re.S)
    if not m:
        raise ExtractError("is_break_word(): body shape changed")
    if not re.search(r"fn\s+is_break_word\s*\(\s*word\s*:\s*&str\s*\)\s*->\s*bool", src):
        raise ExtractError("is_break_word(): signature changed")
    words = [rust_str(w) for w in split_top(m.group(1), ',')]
    if not words:
        raise ExtractError("is_break_word(): empty list")
    # how auto_learn uses it (the joinable-single-character test) and the option guard in commit()
    al = re.sub(r"\s+", "", fn_body(src, "auto_learn"))
    if "ifinterval.is_phrase&&interval.len()==1&&!is_break_word(&interval.str){" not in al:
        raise ExtractError("auto_learn(): the joinable-character test changed shape")
    span = fn_body(src, "is_break_word")
    # learn_phrase: frequency of a first-time entry, frequency assumed for a phrase not yet listed
    lp = re.sub(r"\s+", "", fn_body(src, "learn_phrase", after=r"impl\s+SharedState\s*\{"))
    m = re.search(r"ifphrases\.is_empty\(\)\{self\.dict\.add_phrase\(syllables,\(phrase,(\d+)\)\.into\(\)\)\?;returnOk\(\(\)\);\}", lp)
    if not m:
        raise ExtractError("learn_phrase(): first-time branch changed shape")
    first_freq = int(m.group(1))
    m = re.search(r"\.find\(\|p\|p\.as_str\(\)==phrase\)\.map\(\|p\|p\.freq\(\)\)\.unwrap_or\((\d+)\);", lp)
    if not m:
        raise ExtractError("learn_phrase(): phrase_freq lookup changed shape")
    absent_freq = int(m.group(1))
    if "letuser_freq=self.estimate.estimate(&phrase,phrase.freq(),max_freq);lettime=self.estimate.now();" not in lp:
        raise ExtractError("learn_phrase(): the estimate call changed shape")
    L = [HEADER.format(src="src/editor/mod.rs (fn is_break_word)", h=sha(span)),
         "namespace Chewing.Gen.Learn\n",
         "/-- the literal list of `is_break_word`, each word as its code points -/",
         "def breakWords : List (List Nat) := "
         + lean_list(["[" + ", ".join(str(ord(c)) for c in w) + "]" for w in words], 8),
         "\n/-- `learn_phrase`: frequency given to the first phrase ever recorded for a key -/",
         f"def firstFreq : Nat := {first_freq}",
         "/-- `learn_phrase`: frequency assumed for a phrase that is not yet listed under the key -/",
         f"def absentFreq : Nat := {absent_freq}",
         "\nend Chewing.Gen.Learn\n"]
    return {"BreakWords.lean": "\n".join(L)}


@extractor("topscore")
def x_topscore():
    raw = read("src/conversion/chewing.rs")
    src = strip_comments(raw)
    impl = block_after(src, r"impl\s+PossiblePath\s*\{")
    score = re.sub(r"\s+", "", fn_body(impl, "score"))
    m = re.match(r"letmutscore=0;score\+=(\d+)\*self\.rule_largest_sum\(\);score\+=(\d+)\*self\.rule_largest_avgwordlen\(\);"
                 r"score\+=(\d+)\*self\.rule_smallest_lenvariance\(\);score\+=self\.rule_largest_freqsum\(\);score$", score)
    if not m:
        raise ExtractError("PossiblePath::score(): body shape changed")
    w_sum, w_avg, w_var = map(int, m.groups())
    avg = re.sub(r"\s+", "", fn_body(impl, "rule_largest_avgwordlen"))
    m = re.search(r"(\d+)\*self\.rule_largest_sum\(\)/i32::try_from\(self\.intervals\.len\(\)\)", avg)
    if not m:
        raise ExtractError("rule_largest_avgwordlen(): body shape changed")
    avg_factor = int(m.group(1))
    fs = re.sub(r"\s+", "", fn_body(impl, "rule_largest_freqsum"))
    m = re.search(r"letreduction_factor=ifinterval\.len\(\)==1\{(\d+)\}else\{(\d+)\};score\+=interval\.phrase\.freq\(\)/reduction_factor;", fs)
    if not m:
        raise ExtractError("rule_largest_freqsum(): body shape changed")
    red1, redn = int(m.group(1)), int(m.group(2))
    # find_best_phrase: strictly-greater replacement (first phrase of the highest frequency wins)
    fb = re.sub(r"\s+", "", fn_body(src, "find_best_phrase"))
    if "if!(phrase.freq()>max_freq||best_phrase.is_none()){continue;}max_freq=phrase.freq();best_phrase=Some(phrase.into());" not in fb:
        raise ExtractError("find_best_phrase(): the selection rule changed shape")
    L = [HEADER.format(src="src/conversion/chewing.rs (impl PossiblePath)", h=sha(impl)),
         "namespace Chewing.Gen.TopScore\n",
         "/-- `score = wSum * rule_largest_sum + wAvg * rule_largest_avgwordlen + wVar * rule_smallest_lenvariance + rule_largest_freqsum` -/",
         f"def wSum : Nat := {w_sum}",
         f"def wAvg : Nat := {w_avg}",
         f"def wVar : Nat := {w_var}",
         "/-- `rule_largest_avgwordlen = avgFactor * sum / number of intervals` -/",
         f"def avgFactor : Nat := {avg_factor}",
         "/-- `rule_largest_freqsum`: a one-syllable interval counts `freq / singleReduction`, a longer one `freq / multiReduction` -/",
         f"def singleReduction : Nat := {red1}",
         f"def multiReduction : Nat := {redn}",
         "\nend Chewing.Gen.TopScore\n"]
    return {"TopScore.lean": "\n".join(L)}
