"""Extractors for src/editor/keyboard/*.rs, src/editor/zhuyin_layout/*.rs and data/word.src (C14)."""
import re
from extractlib import *

_ws = lambda s: re.sub(r"\s+", "", s)


def _enum_variants(src, name):
    body = block_after(src, r"\benum\s+" + re.escape(name) + r"\b")
    vs = []
    for part in split_top(body, ','):
        part = re.sub(r"#\[[^\]]*\]", "", part).strip()
        if not part:
            continue
        m = re.match(r"([A-Za-z_][A-Za-z0-9_]*)(\s*=\s*(\d+))?$", part)
        if not m:
            raise ExtractError(f"bad variant in enum {name}: {part!r}")
        if m.group(3) is not None and int(m.group(3)) != len(vs):
            raise ExtractError(f"enum {name}: explicit discriminant out of sequence: {part!r}")
        vs.append(m.group(1))
    return vs


def _bopo_index():
    src = strip_comments(read("src/zhuyin/bopomofo.rs"))
    vs = _enum_variants(src, "Bopomofo")
    return {v: i for i, v in enumerate(vs)}


def _array(src, name, elem=r"[A-Za-z]+", static=r"(?:pub\(crate\)\s+)?static"):
    m = re.search(static + r"\s+" + name + r"\s*:\s*\[\s*" + elem + r"\s*;\s*([A-Z_0-9]+)\s*\]\s*=\s*\[", src)
    if not m:
        raise ExtractError(f"{name} not found")
    i = m.end() - 1
    j = balanced(src, i, '[', ']')
    return split_top(src[i + 1:j - 1], ','), m.group(1)


def parse_arms(body):
    """arms of a match body: [(pattern, expr)], handling block-bodied arms without a trailing comma"""
    arms, i, n = [], 0, len(body)
    while i < n:
        while i < n and (body[i].isspace() or body[i] == ','):
            i += 1
        if i >= n:
            break
        j = body.find("=>", i)
        if j < 0:
            if body[i:].strip():
                raise ExtractError(f"trailing text in match body: {body[i:i+40]!r}")
            break
        pat = body[i:j].strip()
        k = j + 2
        while k < n and body[k].isspace():
            k += 1
        if k < n and body[k] == '{':
            e = balanced(body, k)
            arms.append((pat, body[k:e]))
            i = e
        else:
            # up to the next top-level comma
            depth, e = 0, k
            while e < n:
                c = body[e]
                if c == "'":
                    m = re.match(r"'(\\.[^']*|[^'\\])'", body[e:])
                    if m:
                        e += len(m.group(0))
                        continue
                if c in '([{':
                    depth += 1
                elif c in ')]}':
                    depth -= 1
                elif c == ',' and depth == 0:
                    break
                e += 1
            arms.append((pat, body[k:e].strip()))
            i = e + 1
    return arms


def _match_block(body, head_regex):
    m = re.search(head_regex, body)
    if not m:
        raise ExtractError(f"match head not found: {head_regex}")
    i = body.find('{', m.end() - 1)
    j = balanced(body, i)
    return body[i + 1:j - 1], m.start(), j


# --------------------------------------------------------------------------
# keyboards
# --------------------------------------------------------------------------

GENERIC_KBS = ["qwerty", "dvorak", "qgmlwy", "colemak", "colemak_dh_ansi", "colemak_dh_orth", "workman"]


@extractor("keyboard")
def x_keyboard():
    raw = read("src/editor/keyboard/mod.rs")
    src = strip_comments(raw)
    codes = _enum_variants(src, "KeyCode")
    idxs = _enum_variants(src, "KeyIndex")
    cix = {v: i for i, v in enumerate(codes)}
    iix = {v: i for i, v in enumerate(idxs)}
    m = re.search(r"const\s+MATRIX_SIZE\s*:\s*usize\s*=\s*(\d+)\s*;", src)
    if not m:
        raise ExtractError("MATRIX_SIZE not found")
    msize = int(m.group(1))
    if len(codes) != msize or len(idxs) != msize:
        raise ExtractError("KeyCode / KeyIndex / MATRIX_SIZE disagree")
    items, _ = _array(src, "INDEX_MAP", "KeyIndex", static=r"static")
    index_map = [iix[x] for x in items]
    if len(index_map) != msize:
        raise ExtractError("INDEX_MAP length")

    def mods(expr):
        e = _ws(expr)
        named = {"Modifiers::new()": 0, "Modifiers::default()": 0, "Modifiers::shift()": 1, "Modifiers::control()": 2,
                 "Modifiers::capslock()": 4, "Modifiers::numlock()": 8}
        if e in named:
            return named[e]
        m = re.match(r"Modifiers\{shift:(true|false),ctrl:(true|false),capslock:(true|false),numlock:(true|false)\}$", e)
        if not m:
            raise ExtractError(f"unknown Modifiers expression {expr!r}")
        return sum((1 << k) for k, g in enumerate(m.groups()) if g == "true")

    # the named constructors really are what their names say
    for fn, want in (("new", 0), ("shift", 1), ("control", 2), ("capslock", 4), ("numlock", 8)):
        b = _ws(fn_body(src, fn, after=r"impl\s+Modifiers\s*\{"))
        m = re.match(r"Modifiers\{shift:(true|false),ctrl:(true|false),capslock:(true|false),numlock:(true|false),\}$", b)
        if not m or sum((1 << k) for k, g in enumerate(m.groups()) if g == "true") != want:
            raise ExtractError(f"Modifiers::{fn}: unexpected body")

    def kmap(name):
        m = re.search(r"static\s+" + name + r"\s*:\s*\[\s*\(u8\s*,\s*\(KeyCode\s*,\s*Modifiers\)\)\s*;\s*(\d+)\s*\]\s*=\s*keycode_map!\s*\{", src)
        if not m:
            raise ExtractError(f"{name} not found")
        i = m.end() - 1
        j = balanced(src, i)
        rows = []
        for part in split_top(src[i + 1:j - 1], ','):
            k, v = part.split("=>", 1)
            k = k.strip()
            mm = re.match(r"b('(?:\\.|[^'\\])')$", k)
            if not mm:
                raise ExtractError(f"{name}: bad key {k!r}")
            v = v.strip()
            if not (v.startswith('(') and v.endswith(')')):
                raise ExtractError(f"{name}: bad value {v!r}")
            code, md = split_top(v[1:-1], ',')
            rows.append((ord(rust_char(mm.group(1))), cix[code.strip()], mods(md)))
        if len(rows) != int(m.group(1)):
            raise ExtractError(f"{name}: declared length differs")
        return rows

    keycode_map = kmap("KEYCODE_MAP")
    numlock_map = kmap("NUMLOCK_MAP")
    if _ws(block_after(src, r"macro_rules!\s*keycode_map\s*")) != "($($k:expr=>$v:expr),*$(,)?)=>{{[$(($k,$v),)*]}};":
        raise ExtractError("keycode_map! macro changed")

    # (the bodies of generic_map_keycode / map_ascii / map_ascii_numlock are hand-transcribed in Model/Keyboard.lean and
    #  tied by the exhaustive `kb` correspondence: 8 keyboards x 63 codes x 16 modifier sets, x 256 bytes)
    b = _ws(fn_body(src, "is_atoz"))
    m = re.match(r"matches!\(self,([A-Z|]+)\)$", b)
    if not m:
        raise ExtractError("is_atoz: unexpected body shape")
    atoz = [cix[x] for x in m.group(1).split('|')]
    b = _ws(fn_body(src, "is_printable"))
    m = re.match(r"self\.unicode!=('(?:\\.|[^'\\])')$", b)
    if not m:
        raise ExtractError("is_printable: unexpected body shape")
    unprintable = ord(rust_char(m.group(1)))

    shas = [sha(raw)]
    kbs = []
    for kb in GENERIC_KBS:
        r = read(f"src/editor/keyboard/{kb}.rs")
        shas.append(sha(r))
        s = strip_comments(r)
        ci, _ = _array(s, "KEYCODE_INDEX", "KeyCode")
        um, _ = _array(s, "UNICODE_MAP", "char")
        sm, _ = _array(s, "SHIFT_MAP", "char")
        if not (len(ci) == len(um) == len(sm) == msize):
            raise ExtractError(f"{kb}: matrix size")
        if "generic_map_keycode" not in fn_body(s, "map_with_mod"):
            raise ExtractError(f"{kb}: map_with_mod no longer uses the generic mapping")
        kbs.append((kb, [cix[x] for x in ci], [ord(rust_char(x)) for x in um], [ord(rust_char(x)) for x in sm]))
    shas.append(sha(read("src/editor/keyboard/dvorak_on_qwerty.rs")))

    L = [HEADER.format(src="src/editor/keyboard/*.rs", h=sha("".join(shas))), "namespace Chewing.Gen\n",
         "/-- `enum KeyCode`, declaration order (discriminant = position). -/",
         f"def keyCodeNames : List String := {lean_list([lean_str(v) for v in codes])}\n",
         "/-- `enum KeyIndex`. -/",
         f"def keyIndexNames : List String := {lean_list([lean_str(v) for v in idxs])}\n",
         f"def matrixSize : Nat := {msize}\n",
         "/-- `INDEX_MAP` (KeyIndex discriminants by matrix position). -/",
         f"def indexMap : List Nat := {lean_list(map(str, index_map), 21)}\n",
         "/-- `KEYCODE_MAP`: (ascii byte, KeyCode, modifier bits shift|ctrl<<1|capslock<<2|numlock<<3). -/",
         f"def keycodeMap : List (Nat × Nat × Nat) := {lean_list([f'({a}, {c}, {m})' for a, c, m in keycode_map], 8)}\n",
         "/-- `NUMLOCK_MAP`. -/",
         f"def numlockMap : List (Nat × Nat × Nat) := {lean_list([f'({a}, {c}, {m})' for a, c, m in numlock_map], 8)}\n",
         "/-- `KeyCode::is_atoz`. -/",
         f"def atozCodes : List Nat := {lean_list(map(str, atoz), 26)}\n",
         "/-- the character `KeyEvent::is_printable` excludes. -/",
         f"def unprintableChar : Nat := {unprintable}\n",
         "/-- keyboards implemented by `generic_map_keycode`: (name, KEYCODE_INDEX, UNICODE_MAP, SHIFT_MAP). -/",
         "def genericKeyboards : List (String × List Nat × List Nat × List Nat) := ["]
    rows = []
    for kb, ci, um, sm in kbs:
        rows.append(f"  ({lean_str(kb)},\n   {lean_list(map(str, ci), 21)},\n   {lean_list(map(str, um), 21)},\n   {lean_list(map(str, sm), 21)})")
    L.append(",\n".join(rows) + "]\n")
    L.append("end Chewing.Gen\n")
    return {"Keyboard.lean": "\n".join(L)}


# --------------------------------------------------------------------------
# phonetic layouts with one syllable of state
# --------------------------------------------------------------------------

def _impl(src, ty):
    return block_after(src, r"impl\s+SyllableEditor\s+for\s+" + ty + r"\s*\{")


def _check_common(src, ty, has_alt):
    """the modelling assumption behind the BFS over `read()` values: the whole state is one syllable.
    (Method bodies, the code after the tables and the trait defaults are hand-transcribed and tied by the
    exhaustive correspondence, so their shape is not checked here.)"""
    m = re.search(r"struct\s+" + ty + r"\s*\{([^}]*)\}", src)
    if not m or not re.match(r"\w+:Syllable,?$", _ws(m.group(1))):
        raise ExtractError(f"{ty}: the state is no longer a single syllable")
    impl = _impl(src, ty)
    fns = set(re.findall(r"\bfn\s+(\w+)", impl))
    if has_alt != ("alt_syllables" in fns):
        raise ExtractError(f"{ty}: alt_syllables override appeared / disappeared")
    return impl


def _trait_defaults():
    return sha(strip_comments(read("src/editor/zhuyin_layout/mod.rs")))


def _all_match_blocks(body):
    """[(head text, block text)] of every `match … { … }` in body (nested ones included)"""
    out = []
    for m in re.finditer(r"\bmatch\b([^{;]*)\{", body):
        i = m.end() - 1
        try:
            j = balanced(body, i)
        except Exception:
            continue
        out.append((m.group(1).strip(), body[i + 1:j - 1]))
    return out


def _table_block(body, pat_regex, min_rows):
    """the match block of `body` with the most arms whose pattern matches pat_regex (at least min_rows)"""
    best = None
    for head, blk in _all_match_blocks(body):
        try:
            arms = parse_arms(blk)
        except ExtractError:
            continue
        n = sum(1 for p, _ in arms if re.match(pat_regex, p))
        if n >= min_rows and (best is None or n > best[0]):
            best = (n, arms)
    if best is None:
        raise ExtractError(f"no match block with >= {min_rows} arms of shape {pat_regex}")
    return best[1]


def _sym(bx, text):
    m = re.match(r"Bopomofo::([A-Z0-9]+)$", text.strip())
    if not m or m.group(1) not in bx:
        raise ExtractError(f"not a Bopomofo symbol: {text!r}")
    return bx[m.group(1)]


def _syl_list(bx, text):
    """`syl![Bopomofo::A, Bopomofo::B]` -> [a, b]"""
    m = re.match(r"syl!\[([^\]]*)\]$", _ws(text))
    if not m:
        raise ExtractError(f"not a syl! literal: {text!r}")
    out = []
    for p in m.group(1).split(','):
        if not p:
            continue
        p = p if p.startswith("Bopomofo::") else "Bopomofo::" + p
        out.append(_sym(bx, p))
    return out


def _alt_table(src, bx):
    m = re.search(r"const\s+ALT_TABLE\s*:[^=]*=\s*&\s*\[", src)
    if not m:
        raise ExtractError("ALT_TABLE not found")
    i = m.end() - 1
    j = balanced(src, i, '[', ']')
    rows = []
    for part in split_top(src[i + 1:j - 1], ','):
        part = part.strip()
        if not (part.startswith('(') and part.endswith(')')):
            raise ExtractError(f"ALT_TABLE row: {part!r}")
        k, v = split_top(part[1:-1], ',')
        v = _ws(v)
        if not (v.startswith("&[") and v.endswith("]")):
            raise ExtractError(f"ALT_TABLE value: {v!r}")
        rows.append((_syl_list(bx, k), [_syl_list(bx, x) for x in split_top(v[2:-1], ',')]))
    return rows


def _cond_arm(bx, expr):
    """(cond, a, b): cond 0 -> a always; 1 -> has_initial_or_medial ? a : b; 2 -> has_medial ? a : b;
       3 -> default_or_alt(initial, a, b); 4 -> default_or_alt(rime, a, b); 9 -> hand-modelled"""
    e = _ws(expr)
    m = re.match(r"Bopomofo::([A-Z0-9]+)$", e)
    if m:
        return (0, bx[m.group(1)], bx[m.group(1)])
    m = re.match(r"\{ifself\.has_initial_or_medial\(\)\{Bopomofo::([A-Z0-9]+)\}else\{Bopomofo::([A-Z0-9]+)\}\}$", e)
    if m:
        return (1, bx[m.group(1)], bx[m.group(2)])
    m = re.match(r"\{ifself\.syllable\.has_medial\(\)\{Bopomofo::([A-Z0-9]+)\}else\{Bopomofo::([A-Z0-9]+)\}\}$", e)
    if m:
        return (2, bx[m.group(1)], bx[m.group(2)])
    m = re.match(r"default_or_alt\(self\.syllable\.(initial|rime)\(\),Bopomofo::([A-Z0-9]+),Bopomofo::([A-Z0-9]+)\)$", e)
    if m:
        return (3 if m.group(1) == "initial" else 4, bx[m.group(2)], bx[m.group(3)])
    return None


def _end_keys(impl_src, fn, enum, ix):
    b = _ws(fn_body(impl_src, fn))
    m = re.search(r"match(?:key|key\.code)\{((?:" + enum + r"::\w+\|?)+)=>\{?!self\.syllable\.is_empty\(\)\}?,?_=>false,?\}$", b)
    if not m:
        raise ExtractError(f"{fn}: unexpected body shape")
    return [ix[x.split("::")[1]] for x in m.group(1).split('|')]


def _tone_keys(text, enum, ix, bx):
    """the `match key.code { K => self.syllable.update(Bopomofo::TONEn), …, _ => { self.syllable.remove_tone(); } }` block"""
    rows = [(ix[k], bx[t]) for k, t in re.findall(enum + r"::(\w+)=>self\.syllable\.update\(Bopomofo::(TONE\d)\)", _ws(text))]
    if not rows or "_=>{self.syllable.remove_tone();}" not in _ws(text):
        raise ExtractError("tone-key match: unexpected shape")
    return rows


def _end_rewrites(text, bx):
    """arms `Bopomofo::J => { [remove_initial();] update(Bopomofo::ZH); }` of the end-key branch"""
    rows = []
    for a, rm, b in re.findall(r"(?:Some\()?Bopomofo::([A-Z0-9]+)\)?=>\{(self\.syllable\.remove_initial\(\);)?"
                               r"self\.syllable\.update\(Bopomofo::([A-Z0-9]+)\);\}", _ws(text)):
        rows.append((bx[a], 1 if rm else 0, bx[b]))
    return rows


@extractor("layouts")
def x_layouts():
    bx = _bopo_index()
    ksrc = strip_comments(read("src/editor/keyboard/mod.rs"))
    cix = {v: i for i, v in enumerate(_enum_variants(ksrc, "KeyCode"))}
    iix = {v: i for i, v in enumerate(_enum_variants(ksrc, "KeyIndex"))}
    shas = [_trait_defaults()]
    L = []

    # ---- the four table-driven layouts
    for fname, ty, lean in (("standard", "Standard", "standardTable"), ("et", "Et", "etTable"),
                            ("ibm", "Ibm", "ibmTable"), ("ginyieh", "GinYieh", "ginyiehTable")):
        raw = read(f"src/editor/zhuyin_layout/{fname}.rs")
        shas.append(sha(raw))
        src = strip_comments(raw)
        impl = _check_common(src, ty, has_alt=False)
        kp = fn_body(impl, "key_press")
        rows = []
        for pat, expr in _table_block(kp, r"KeyIndex::K\d+$", 30):
            if pat == '_':
                continue
            m = re.match(r"KeyIndex::(K\d+)$", pat)
            if not m:
                raise ExtractError(f"{ty}: bad table pattern {pat!r}")
            rows.append((iix[m.group(1)], _sym(bx, expr)))
        if len({k for k, _ in rows}) != len(rows):
            raise ExtractError(f"{ty}: a key occurs twice in the table")
        L.append(f"/-- `{ty}::key_press`: (KeyIndex, Bopomofo) rows of the table, in source order. -/")
        L.append(f"def {lean} : List (Nat × Nat) := {lean_list([f'({k}, {b})' for k, b in rows], 10)}\n")

    # ---- the three 26-key layouts: end keys, tone keys, end-key rewrites, key table, ALT_TABLE
    def layout26(fname, ty, enum, ix, conds, has_alt, has_rewrites):
        raw = read(f"src/editor/zhuyin_layout/{fname}.rs")
        shas.append(sha(raw))
        src = strip_comments(raw)
        impl = _check_common(src, ty, has_alt=has_alt)
        inh = block_after(src, r"impl\s+" + ty + r"\s*\{")
        m = re.search(r"((?:" + enum + r"::\w+\|?)+)=>\{?!self\.\w+\.is_empty\(\)\}?", _ws(inh))
        if not m:
            raise ExtractError(f"{ty}: end-key list not found")
        end = [ix[x.split("::")[1]] for x in m.group(1).strip('|').split('|')]
        kp = fn_body(impl, "key_press")
        m = re.search(r"\bif\s+self\.\w*end_key\w*\([^)]*\)\s*\{", kp)
        if not m:
            raise ExtractError(f"{ty}::key_press: end-key branch not found")
        i = kp.find('{', m.end() - 1)
        end_branch = kp[i + 1:balanced(kp, i) - 1]
        tone = [(ix[k], bx[t]) for k, t in re.findall(enum + r"::(\w+)=>self\.\w+\.update\(Bopomofo::(TONE\d)\)", _ws(end_branch))]
        if len(tone) < 4:
            raise ExtractError(f"{ty}: tone-key arms not found")
        rw = _end_rewrites(end_branch, bx) if has_rewrites else []
        if has_rewrites and not rw:
            raise ExtractError(f"{ty}: end-key rewrites not found")
        keys = []
        for pat, expr in _table_block(kp[kp.find(end_branch) + len(end_branch):], enum + r"::\w+$", 20):
            if pat == '_':
                continue
            c = _cond_arm(bx, expr)
            if c is None:
                c = (9, 0, 0)
            if c[0] not in conds:
                raise ExtractError(f"{ty}: unexpected key arm {pat} => {expr[:60]!r}")
            keys.append((ix[pat.split("::")[1]],) + c)
        return end, tone, rw, keys, (_alt_table(inh, bx) if has_alt else [])

    hsu_end, hsu_tone, hsu_rw, hsu_keys, hsu_alt = layout26("hsu", "Hsu", "KeyCode", cix, (0, 1, 2), True, True)
    et26_end, et26_tone, et26_rw, et26_keys, et26_alt = layout26("et26", "Et26", "KeyCode", cix, (0, 1), True, True)
    dc_end, dc_tone, _, dc_keys, _ = layout26("dc26", "DaiChien26", "KeyIndex", iix, (0, 1, 3, 4, 9), False, False)
    special = [k for k, c, _, _ in dc_keys if c == 9]
    if special != [iix["K21"], iix["K44"]]:
        raise ExtractError(f"DaiChien26: hand-modelled keys are no longer K21, K44: {special}")

    def keyrows(rows):
        return lean_list([f"({k}, {c}, {a}, {b})" for k, c, a, b in rows], 6)

    def altrows(rows):
        return lean_list([f"({lean_list(map(str, k))}, {lean_list([lean_list(map(str, v)) for v in vs])})" for k, vs in rows], 2)

    for name, end, tone, keys in (("hsu", hsu_end, hsu_tone, hsu_keys), ("et26", et26_end, et26_tone, et26_keys),
                                  ("dc26", dc_end, dc_tone, dc_keys)):
        unit = "KeyIndex" if name == "dc26" else "KeyCode"
        L.append(f"/-- {name}: end keys ({unit}), effective only on a non-empty syllable. -/")
        L.append(f"def {name}EndKeys : List Nat := {lean_list(map(str, end))}")
        L.append(f"/-- {name}: end key -> tone symbol written by `update` (other end keys call `remove_tone`). -/")
        L.append(f"def {name}ToneKeys : List (Nat × Nat) := {lean_list([f'({k}, {t})' for k, t in tone])}")
        L.append(f"/-- {name}: ({unit}, condition, a, b): condition 0 = always a; 1 = has initial or medial ? a : b; "
                 "2 = has medial ? a : b;\n    3 / 4 = `default_or_alt(initial / rime, a, b)`; 9 = hand-modelled arm. -/")
        L.append(f"def {name}Keys : List (Nat × Nat × Nat × Nat) := {keyrows(keys)}\n")
    for name, rw in (("hsu", hsu_rw), ("et26", et26_rw)):
        L.append(f"/-- {name}: rewrites of a lone initial at an end key: (initial, 1 = `remove_initial` first, symbol written). -/")
        L.append(f"def {name}EndRewrites : List (Nat × Nat × Nat) := {lean_list([f'({a}, {r}, {b})' for a, r, b in rw], 8)}\n")
    for name, alt in (("hsu", hsu_alt), ("et26", et26_alt)):
        L.append(f"/-- {name}: `ALT_TABLE` as symbol lists (`syl![…]` contents). -/")
        L.append(f"def {name}AltTable : List (List Nat × List (List Nat)) := {altrows(alt)}\n")

    head = [HEADER.format(src="src/editor/zhuyin_layout/{mod,standard,et,ibm,ginyieh,hsu,et26,dc26}.rs", h=sha("".join(shas))),
            "namespace Chewing.Gen\n"]
    return {"LayoutTables.lean": "\n".join(head + L + ["end Chewing.Gen\n"])}


# --------------------------------------------------------------------------
# Pinyin tables
# --------------------------------------------------------------------------

@extractor("pinyin")
def x_pinyin():
    bx = _bopo_index()
    ksrc = strip_comments(read("src/editor/keyboard/mod.rs"))
    cix = {v: i for i, v in enumerate(_enum_variants(ksrc, "KeyCode"))}
    raw = read("src/editor/zhuyin_layout/pinyin.rs")
    src = strip_comments(raw)
    m = re.search(r"const\s+MAX_PINYIN_LEN\s*:\s*usize\s*=\s*(\d+)\s*;", src)
    if not m:
        raise ExtractError("MAX_PINYIN_LEN not found")
    maxlen = int(m.group(1))
    m = re.search(r"struct\s+Pinyin\s*\{([^}]*)\}", src)
    if not m or _ws(m.group(1)) != "key_seq:String,syllable:Syllable,syllable_alt:Syllable,variant:PinyinVariant,":
        raise ExtractError("struct Pinyin changed")
    variants = _enum_variants(src, "PinyinVariant")
    if variants != ["HanyuPinyin", "ThlPinyin", "Mps2Pinyin"]:
        raise ExtractError("PinyinVariant changed")
    impl = _impl(src, "Pinyin")
    for fn, want in (("fuzzy_key_press", "self.key_press(key)"), ("is_empty", "self.key_seq.is_empty()"),
                     ("remove_last", "self.key_seq.pop();"),
                     ("clear", "self.key_seq.clear();self.syllable.clear();self.syllable_alt.clear();"),
                     ("read", "self.syllable"), ("key_seq", "Some(self.key_seq.clone())")):
        if _ws(fn_body(impl, fn)) != want:
            raise ExtractError(f"Pinyin::{fn}: unexpected body")
    if "alt_syllables" in re.findall(r"\bfn\s+(\w+)", impl):
        raise ExtractError("Pinyin now overrides alt_syllables")
    kp = _ws(fn_body(impl, "key_press"))
    m = re.search(r"if!\[((?:KeyCode::\w+,)+)\]\.contains\(&key\.code\)", kp)
    if not m:
        raise ExtractError("Pinyin::key_press: end-key list not found")
    end_keys = [cix[x.split("::")[1]] for x in m.group(1).strip(',').split(',')]
    m = re.search(r"lettone=matchkey\.code\{((?:KeyCode::\w+=>Some\(Bopomofo::TONE\d\),)+)_=>None,\};", kp)
    if not m:
        raise ExtractError("Pinyin::key_press: tone match not found")
    tone_keys = [(cix[k], bx[t]) for k, t in re.findall(r"KeyCode::(\w+)=>Some\(Bopomofo::(TONE\d)\)", m.group(1))]

    tbl = block_after(src, r"\bmod\s+table\s*\{")

    def const_rows(name):
        m = re.search(r"const\s+" + name + r"\s*:\s*\[\s*\w+\s*;\s*(\d+)\s*\]\s*=\s*\[", tbl)
        if not m:
            raise ExtractError(f"{name} not found")
        i = m.end() - 1
        j = balanced(tbl, i, '[', ']')
        rows = split_top(tbl[i + 1:j - 1], ',')
        if len(rows) != int(m.group(1)):
            raise ExtractError(f"{name}: declared length differs")
        return rows

    def pstr(lit):
        lit = lit.strip()
        if not re.match(r'"[A-Za-z]*"$', lit):
            raise ExtractError(f"bad pinyin literal {lit!r}")
        return [ord(c) for c in lit[1:-1]]

    def amb(name):
        out = []
        for row in const_rows(name):
            m = re.match(r"amb!\((.*)\)$", row.strip(), re.S)
            if not m:
                raise ExtractError(f"{name}: bad row {row!r}")
            p, a, b = split_top(m.group(1), ',')
            out.append((pstr(p), _syl_list(bx, a), _syl_list(bx, b)))
        return out

    def optsym(t):
        t = _ws(t)
        if t == "None":
            return "none"
        m = re.match(r"Some\(([A-Z0-9]+)\)$", t)
        if not m:
            raise ExtractError(f"bad option symbol {t!r}")
        return f"some {bx[m.group(1)]}"

    common, hanyu, thl, mps2 = amb("COMMON_MAPPING"), amb("HANYU_PINYIN_MAPPING"), amb("THL_PINYIN_MAPPING"), amb("MPS2_PINYIN_MAPPING")
    ini = []
    for row in const_rows("INITIAL_MAPPING"):
        m = re.match(r"ini!\((.*)\)$", row.strip(), re.S)
        p, s = split_top(m.group(1), ',')
        ini.append((pstr(p), bx[s.strip()]))
    fin = []
    for row in const_rows("FINAL_MAPPING"):
        m = re.match(r"fin!\((.*)\)$", row.strip(), re.S)
        p, a, b = split_top(m.group(1), ',')
        fin.append((pstr(p), optsym(a), optsym(b)))

    def ambrows(rows):
        return lean_list([f"({lean_list(map(str, p))}, {lean_list(map(str, a))}, {lean_list(map(str, b))})" for p, a, b in rows], 2)

    L = [HEADER.format(src="src/editor/zhuyin_layout/pinyin.rs", h=sha(raw)), "namespace Chewing.Gen\n",
         f"def maxPinyinLen : Nat := {maxlen}\n",
         "/-- key codes that end a pinyin syllable -/",
         f"def pinyinEndKeys : List Nat := {lean_list(map(str, end_keys))}",
         "/-- end key -> tone symbol (others: no tone) -/",
         f"def pinyinToneKeys : List (Nat × Nat) := {lean_list([f'({k}, {t})' for k, t in tone_keys])}\n",
         "/-- ambiguous-mapping tables: (pinyin as code points, primary `syl!` symbols, alt `syl!` symbols) -/",
         f"def pinyinCommon : List (List Nat × List Nat × List Nat) := {ambrows(common)}\n",
         f"def pinyinHanyu : List (List Nat × List Nat × List Nat) := {ambrows(hanyu)}\n",
         f"def pinyinThl : List (List Nat × List Nat × List Nat) := {ambrows(thl)}\n",
         f"def pinyinMps2 : List (List Nat × List Nat × List Nat) := {ambrows(mps2)}\n",
         "/-- `INITIAL_MAPPING`: (pinyin, initial symbol), in search order -/",
         f"def pinyinInitials : List (List Nat × Nat) := {lean_list([f'({lean_list(map(str, p))}, {s})' for p, s in ini], 4)}\n",
         "/-- `FINAL_MAPPING`: (pinyin, medial, rime), in search order -/",
         f"def pinyinFinals : List (List Nat × Option Nat × Option Nat) := {lean_list([f'({lean_list(map(str, p))}, {a}, {b})' for p, a, b in fin], 3)}\n",
         "end Chewing.Gen\n"]
    return {"Pinyin.lean": "\n".join(L)}


# --------------------------------------------------------------------------
# readings of data/word.src
# --------------------------------------------------------------------------

@extractor("readings")
def x_readings():
    """distinct readings of data/word.src (field rules of tools/src/init_database.rs `parse_line`: fields are
    separated by whitespace, the third and later fields up to one starting with `#` are syllables)."""
    bsrc = strip_comments(read("src/zhuyin/bopomofo.rs"))
    variants = _enum_variants(bsrc, "Bopomofo")
    bx = {v: i for i, v in enumerate(variants)}
    from_char = {}
    for pat, expr in match_arms(fn_body(bsrc, "try_from", after=r"impl\s+TryFrom<char>\s+for\s+Bopomofo")):
        if pat.strip() == '_':
            continue
        m = re.match(r"Ok\(\s*([A-Z0-9]+)\s*\)", expr)
        for p in pat.split('|'):
            from_char[rust_char(p)] = bx[m.group(1)]
    kinds = {"Initial": 0, "Medial": 1, "Rime": 2, "Tone": 3}
    kind_tbl, index_tbl = {}, {}
    for pat, expr in match_arms(fn_body(bsrc, "kind", after=r"impl\s+Bopomofo\s*\{")):
        for v in pat.split('|'):
            kind_tbl[bx[v.strip()]] = kinds[expr.split("::")[-1].strip()]
    for pat, expr in match_arms(fn_body(bsrc, "index", after=r"impl\s+Bopomofo\s*\{")):
        for v in pat.split('|'):
            index_tbl[bx[v.strip()]] = rust_int(expr)
    shifts = {0: 9, 1: 7, 2: 3, 3: 0}   # cross-checked in Lean: `readings_parse` re-parses every spelling with the model
    def parse_file(path):
        raw = read(path)
        seen = {}
        n_lines = 0
        for ln, line in enumerate(raw.splitlines(), 1):
            f = line.split()
            if not f:
                continue
            n_lines += 1
            if len(f) < 3:
                raise ExtractError(f"{path}:{ln}: fewer than three fields")
            if len(f[0]) != 1:
                raise ExtractError(f"{path}:{ln}: the phrase is not a single character")
            syls = []
            for s in f[2:]:
                if s.startswith('#'):
                    break
                syls.append(s)
            if len(syls) != 1:
                raise ExtractError(f"{path}:{ln}: a character with {len(syls)} syllables")
            code, last = 0, -1
            for ch in syls[0]:
                if ch not in from_char:
                    raise ExtractError(f"{path}:{ln}: not a Bopomofo symbol: {ch!r}")
                b = from_char[ch]
                k = kind_tbl[b]
                if k <= last:
                    raise ExtractError(f"{path}:{ln}: symbols out of order in {syls[0]!r}")
                last = k
                code |= index_tbl[b] << shifts[k]
            if code == 0:
                raise ExtractError(f"{path}:{ln}: empty reading")
            seen.setdefault(code, [ord(c) for c in syls[0]])
        return raw, seen, n_lines
    raw, seen, n_lines = parse_file("data/word.src")
    codes = sorted(seen)
    L = [HEADER.format(src="data/word.src", h=sha(raw)), "namespace Chewing.Gen\n",
         f"def wordSrcLines : Nat := {n_lines}\n",
         "/-- distinct readings (syllable codes) of data/word.src, ascending -/",
         f"def readingCodes : List Nat := {lean_list(map(str, codes), 16)}\n",
         "/-- their spellings as written in the file (code points), same order -/",
         f"def readingSpellings : List (List Nat) := {lean_list([lean_list(map(str, seen[c])) for c in codes], 6)}\n",
         "end Chewing.Gen\n"]
    # the built-in fallback dictionary (capi/data/mini.dat is built from data/mini.src)
    mraw, mseen, mlines = parse_file("data/mini.src")
    M = [HEADER.format(src="data/mini.src", h=sha(mraw)), "namespace Chewing.Gen\n",
         f"def miniSrcLines : Nat := {mlines}\n",
         "/-- distinct readings (syllable codes) of data/mini.src, ascending -/",
         f"def miniReadingCodes : List Nat := {lean_list(map(str, sorted(mseen)), 16)}\n",
         "end Chewing.Gen\n"]
    return {"Readings.lean": "\n".join(L), "ReadingsMini.lean": "\n".join(M)}
