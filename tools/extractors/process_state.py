"""Inventory of process-wide items (C17 "contexts are independent"): every `static` item (module level or
inside a function body), `static mut`, `thread_local!`, `lazy_static!`/`Lazy`/`LazyLock`/`OnceLock`/`OnceCell`
declaration of capi/src/**/*.rs and src/**/*.rs.

A context's behaviour may depend only on ITS creation arguments and ITS call history
(`Chewing.C17.creation_args_local`); anything that outlives a context and can change is shared process
state.  The translator therefore classifies every item:

* `data`      — immutable table: the type is built from arrays / tuples / references of plain data and names no
                interior-mutability or lazy-initialisation type (`*Lock`, `Mutex`, `*Cell`, `Atomic*`, `Once*`,
                `Lazy*`), and the item is not `static mut`;
* `stateful`  — everything else.  A stateful item must be in the REVIEWED list below, together with the reason why
                it cannot carry one context's data into another context's results.  A NEW stateful item (e.g. a
                process-wide cache of something parsed from a data directory) raises ExtractError: the tie of
                C17 is broken until the item has been reviewed (fails closed, like the unsafe-block inventory of C15).

Emits Gen/ProcessState.lean: the full inventory and the stateful part.
"""
import glob, os, re
from extractlib import *

# reviewed 2026-09 (file relative to the repository, item name) -> why it is not a channel between contexts' results
REVIEWED = {
    ("capi/src/io.rs", "LOGGER"): "logger slot: the one observable shared item, modelled (LogSlot), finding F33",
    ("capi/src/io.rs", "OWNED"): "address -> kind registry of heap results, consulted by chewing_free only (C15); feeds no result",
    ("src/verif.rs", "CALLBACK"): "verification hook H (cfg chewing_libchewing_verif only): progress callback, never changes library state",
}

MUTABLE_MARKERS = re.compile(r"\b(\w*Lock|Mutex|\w*Cell|Atomic\w*|Once\w*|Lazy\w*|Condvar|Barrier)\b")
# type names allowed inside an immutable table (reviewed: plain `Copy` data without interior mutability)
PLAIN_TYPES = {"u8", "u16", "u32", "u64", "usize", "i8", "i16", "i32", "i64", "isize", "char", "bool", "str", "f32", "f64",
               "KeyCode", "KeyIndex", "Modifiers", "MATRIX_SIZE", "static"}


def _lean_str(s):
    return '"' + s.replace("\\", "\\\\").replace('"', '\\"') + '"'


def _strip_tests(src):
    """cut `#[cfg(test)] mod … { … }` blocks (test-only statics are not part of the library)"""
    out, i = [], 0
    for m in re.finditer(r"#\[cfg\(test\)\]\s*(?:pub\s+)?mod\s+\w+\s*\{", src):
        if m.start() < i:
            continue
        out.append(src[i:m.start()])
        depth, j = 1, m.end()
        while j < len(src) and depth:
            if src[j] == "{":
                depth += 1
            elif src[j] == "}":
                depth -= 1
            j += 1
        i = j
    out.append(src[i:])
    return "".join(out)


def _mask_strings(src):
    """blank out string literal contents so that the word `static` inside a text does not count"""
    return re.sub(r'"(?:\\.|[^"\\])*"', lambda m: '"' + " " * (len(m.group(0)) - 2) + '"', src)


def _items(rel):
    src = _mask_strings(_strip_tests(strip_comments(read(rel))))
    items = []
    for m in re.finditer(r"\bstatic\s+(mut\s+)?(?:ref\s+)?([A-Za-z_]\w*)\s*:\s*", src):
        # the lifetime `&'static` is preceded by a quote, never by a word boundary + whitespace pattern above; but
        # `'static T:` bounds could still match: require the previous non-space char not to be `'`
        k = m.start() - 1
        if k >= 0 and src[k] == "'":
            continue
        # type: up to the `=` (or `;`) at bracket depth 0
        j, depth = m.end(), 0
        while j < len(src):
            c = src[j]
            if c in "([{<":
                depth += 1
            elif c in ")]}>":
                depth -= 1
            elif depth == 0 and c in "=;":
                break
            j += 1
        ty = " ".join(src[m.end():j].split())
        items.append((m.group(2), ty, bool(m.group(1))))
    macros = re.findall(r"\b(thread_local|lazy_static)\s*!", src)
    return items, macros


def _classify(name, ty, is_mut):
    if is_mut or MUTABLE_MARKERS.search(ty):
        return "stateful"
    words = set(re.findall(r"[A-Za-z_]\w*", ty))
    if words <= PLAIN_TYPES and (ty.startswith("[") or ty.startswith("&")):
        return "data"
    # a user-defined type: may hide interior mutability (e.g. `ChewingLogger` holds two mutexes)
    return "stateful"


@extractor("process_state")
def x_process_state():
    files = sorted(glob.glob(os.path.join(REPO, "capi", "src", "**", "*.rs"), recursive=True)
                   + glob.glob(os.path.join(REPO, "src", "**", "*.rs"), recursive=True))
    if not files:
        raise ExtractError("no source files found")
    inv, stateful, problems = [], [], []
    for path in files:
        rel = os.path.relpath(path, REPO)
        items, macros = _items(rel)
        for mac in macros:
            problems.append(f"{rel}: `{mac}!` (per-thread / lazily initialised process state) is not in the reviewed inventory")
        for name, ty, is_mut in items:
            cls = _classify(name, ty, is_mut)
            inv.append((rel, name, ty, cls))
            if cls == "stateful":
                if (rel, name) in REVIEWED:
                    stateful.append((rel, name, ty))
                else:
                    problems.append(f"{rel}: new process-wide item `static {'mut ' if is_mut else ''}{name}: {ty}` "
                                    "outlives every context and is not in the reviewed inventory")
    missing = [k for k in REVIEWED if k not in {(r, n) for r, n, _ in stateful}]
    # a reviewed item that disappears is fine for independence (less shared state) but the model names LOGGER and OWNED
    for k in missing:
        if k[1] in ("LOGGER", "OWNED"):
            problems.append(f"{k[0]}: the reviewed item `{k[1]}` the model names is gone")
    if problems:
        raise ExtractError("; ".join(problems))

    # chewing_new2 itself: which of the stateful items its body names
    io = strip_comments(read("capi/src/io.rs"))
    m = re.search(r"pub\s+unsafe\s+extern\s+\"C\"\s+fn\s+chewing_new2\s*\(", io)
    if not m:
        raise ExtractError("chewing_new2 not found")
    i = io.find("{", io.find("->", m.end()))
    depth, j = 0, i
    while j < len(io):
        if io[j] == "{":
            depth += 1
        elif io[j] == "}":
            depth -= 1
            if depth == 0:
                break
        j += 1
    body = io[i:j]
    names = sorted({n for _, n, _ in stateful})
    new2_reads = sorted({n for n in names if re.search(r"\b" + n + r"\b", body)})

    def row(r, n, t, c):
        return f"({_lean_str(r)}, {_lean_str(n)}, {_lean_str(t)}, {_lean_str(c)})"
    text = f"""-- GENERATED by tools/extractors/process_state.py from capi/src/**/*.rs and src/**/*.rs.  Do not edit.
namespace Chewing.Gen

/-- every `static` item of the library and its C layer: (file, name, type, class `data` | `stateful`) -/
def processStatics : List (String × String × String × String) := [
  {(","+chr(10)+"  ").join(row(*x) for x in inv)}]

/-- the items that outlive a context AND can change (all reviewed; a new one breaks the translator) -/
def processStateful : List (String × String) := [{", ".join("(" + _lean_str(r) + ", " + _lean_str(n) + ")" for r, n, _ in stateful)}]

/-- the stateful process-wide items named in the body of `chewing_new2` (immutable tables do not count) -/
def new2Statics : List String := [{", ".join(_lean_str(n) for n in new2_reads)}]

/-- number of source files scanned -/
def processStateFiles : Nat := {len(files)}

end Chewing.Gen
"""
    return {"ProcessState.lean": text}
