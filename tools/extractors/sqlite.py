"""Extractor for the in-file `userphrase_v1` -> v2 migration of src/dictionary/sqlite.rs (C19).

Recognised shapes inside `fn migrate_from_userphrase_v1`:

* the one `SELECT <columns> FROM userphrase_v1` statement (column list in order),
* the one `for i in A..B { let syllable_u16: u16 = row.get(i)?; … }` loop (range of the phone columns,
  the integer type read, the `!syllable.is_empty()` push guard),
* the tuple pushed per row `userphrases.push((syllables, row.get(a)?, row.get(b)?, row.get(c)?, row.get(d)?))`
  and the declared tuple type of `userphrases`,
* the two INSERT statements with their column lists and `params![…]`,
* the joined view of `fn entries`: `SELECT syllables, phrase, max(freq, coalesce(user_freq, 0)), time FROM
  dictionary_v1 LEFT JOIN userphrase_v2 ON userphrase_id = id`.

Anything else = broken translator (the check fails closed).
"""
import re
from extractlib import *


def _lean_str(s):
    return '"' + s.replace("\\", "\\\\").replace('"', '\\"') + '"'


def _strs(xs):
    return "[" + ", ".join(_lean_str(x) for x in xs) + "]"


def _fn_body(src, name):
    m = re.search(r"\bfn\s+" + name + r"\s*\(", src)
    if not m:
        raise ExtractError(f"fn {name} not found in sqlite.rs")
    i = src.find("{", m.end())
    depth, j = 0, i
    in_str = False
    while j < len(src):
        c = src[j]
        if in_str:
            if c == "\\":
                j += 1
            elif c == '"':
                in_str = False
        elif c == '"':
            in_str = True
        elif c == "{":
            depth += 1
        elif c == "}":
            depth -= 1
            if depth == 0:
                return src[i:j + 1]
        j += 1
    raise ExtractError(f"fn {name}: unbalanced braces")


def _cols(text):
    return [" ".join(c.split()) for c in text.split(",") if c.strip()]


@extractor("sqlite_v1")
def x_sqlite_v1():
    raw = read("src/dictionary/sqlite.rs")
    src = strip_comments(raw)
    body = _fn_body(src, "migrate_from_userphrase_v1")

    sel = re.findall(r'"\s*SELECT\s+([^"]*?)\s+FROM\s+userphrase_v1\s*"', body, re.S)
    if len(sel) != 1:
        raise ExtractError(f"expected exactly one `SELECT … FROM userphrase_v1`, found {len(sel)}")
    select_cols = _cols(sel[0])
    if not all(re.fullmatch(r"[a-z_0-9]+", c) for c in select_cols):
        raise ExtractError(f"SELECT list is not a plain column list: {select_cols}")

    loops = re.findall(r"for\s+(\w+)\s+in\s+(\d+)\s*\.\.(=?)\s*(\d+)\s*\{", body)
    if len(loops) != 1:
        raise ExtractError(f"expected exactly one numeric `for i in A..B` loop, found {len(loops)}")
    var, lo, incl, hi = loops[0]
    lo, hi = int(lo), int(hi) + (1 if incl else 0)
    m = re.search(r"for\s+" + var + r"\s+in[^{]*\{\s*let\s+(\w+)\s*:\s*(\w+)\s*=\s*row\.get\(\s*" + var + r"\s*\)\?\s*;\s*"
                  r"if\s+let\s+Ok\((\w+)\)\s*=\s*Syllable::try_from\(\s*\1\s*\)\s*\{\s*"
                  r"if\s+!\s*\3\.is_empty\(\)\s*\{\s*(\w+)\.push\(\s*\3\s*\)\s*;\s*\}\s*\}\s*\}", body)
    if not m:
        raise ExtractError("phone loop body is not `let x: T = row.get(i)?; if let Ok(s) = Syllable::try_from(x) { if !s.is_empty() { v.push(s); } }`")
    phone_type, sylvec = m.group(2), m.group(4)

    m = re.search(r"userphrases\.push\(\(\s*" + sylvec + r"\s*,((?:\s*row\.get\(\s*\d+\s*\)\?\s*,?)+)\s*\)\)", body)
    if not m:
        raise ExtractError("userphrases.push((syllables, row.get(a)?, …)) not found")
    tuple_cols = [int(x) for x in re.findall(r"row\.get\(\s*(\d+)\s*\)", m.group(1))]
    m = re.search(r"let\s+mut\s+userphrases\s*:\s*Vec<\(\s*([^;]*?)\s*\)>\s*=", body)
    if not m:
        raise ExtractError("declared type of `userphrases` not found")
    # split the tuple type at top-level commas
    tys, depth, cur = [], 0, ""
    for ch in m.group(1):
        if ch == "<":
            depth += 1
        elif ch == ">":
            depth -= 1
        if ch == "," and depth == 0:
            tys.append(cur.strip()); cur = ""
        else:
            cur += ch
    if cur.strip():
        tys.append(cur.strip())
    if len(tys) != len(tuple_cols) + 1:
        raise ExtractError(f"tuple type {tys} does not match the pushed tuple {tuple_cols}")

    stmts = {}
    for repl, table, cols, vals in re.findall(
            r'"\s*INSERT\s+(OR\s+(?:REPLACE|IGNORE)\s+)?INTO\s+(\w+)\s*\(([^)]*)\)\s*VALUES\s*\(([^)]*)\)\s*"', body, re.S):
        stmts[table] = ("REPLACE" in repl, _cols(cols), len(_cols(vals)))
    params = [_cols(p) for p in re.findall(r"stmt\.execute\(\s*params!\[([^\]]*)\]\s*\)", body)]
    # the flag rows `INSERT [OR IGNORE] INTO migration_v1 (name) VALUES ('migrate_from_userphrase_v1')` carry no data
    mig = stmts.pop("migration_v1", None)
    if mig is None or mig[1] != ["name"]:
        raise ExtractError("the migration flag INSERT INTO migration_v1 (name) is gone")
    if set(stmts) != {"userphrase_v2", "dictionary_v1"} or len(params) != 2:
        raise ExtractError(f"expected INSERTs into userphrase_v2 and dictionary_v1 with one params![] each, found {sorted(stmts)} / {params}")
    up_repl, up_cols, up_n = stmts["userphrase_v2"]
    di_repl, di_cols, di_n = stmts["dictionary_v1"]
    up_params, di_params = params
    if len(up_params) != up_n or len(up_cols) != up_n or len(di_params) != di_n or len(di_cols) != di_n:
        raise ExtractError("INSERT column lists, placeholders and params![] differ in length")
    if not re.search(r"\.for_each\(\s*\|syl\|\s*syllables_bytes\.extend_from_slice\(\s*&syl\.to_u16\(\)\.to_le_bytes\(\)\s*\)\s*\)", body):
        raise ExtractError("syllables_bytes is not the little-endian u16 encoding of item.0")
    if not re.search(r"let\s+row_id\s*=\s*tx\.last_insert_rowid\(\)", body):
        raise ExtractError("row_id = tx.last_insert_rowid() not found")

    ent = _fn_body(src, "entries")
    m = re.search(r'"\s*SELECT\s+(.*?)\s+FROM\s+(.*?)"', ent, re.S)
    if not m:
        raise ExtractError("entries(): SELECT not found")
    view_cols = " ".join(m.group(1).split())
    view_from = " ".join(m.group(2).split())

    # ---- numeric codes (the Lean model computes on these; the strings above are kept for the reader)
    # the legacy table of the C library (0.5-0.8), in table order: the model's row is a list of these 16 integers + the text
    schema = ["time", "user_freq", "max_freq", "orig_freq", "length"] + [f"phone_{i}" for i in range(11)] + ["phrase"]
    for c in select_cols:
        if c not in schema:
            raise ExtractError(f"SELECT names the column {c!r} which userphrase_v1 does not have")
    select_idx = [schema.index(c) for c in select_cols]
    bits = {"u8": 8, "u16": 16, "u32": 32, "u64": 64, "String": 0}
    for t in [phone_type] + tys[1:]:
        if t not in bits:
            raise ExtractError(f"unexpected Rust type {t!r} read from a row")
    if tys[0] != "Vec<Syllable>":
        raise ExtractError(f"item.0 is {tys[0]!r}, expected Vec<Syllable>")

    def item_code(p):
        if p == "syllables_bytes":
            return 0
        if p == "row_id":
            return 100
        m = re.fullmatch(r"item\.(\d+)", p)
        if not m:
            raise ExtractError(f"unexpected INSERT parameter {p!r}")
        return int(m.group(1))
    up_ids = {"user_freq": 0, "time": 1}
    di_ids = {"syllables": 0, "phrase": 1, "freq": 2, "userphrase_id": 3}
    for c in up_cols:
        if c not in up_ids:
            raise ExtractError(f"userphrase_v2 has no column {c!r}")
    for c in di_cols:
        if c not in di_ids:
            raise ExtractError(f"dictionary_v1 has no column {c!r} in the model")

    text = f"""-- GENERATED by tools/extractors/sqlite.py from src/dictionary/sqlite.rs (sha {sha(raw)}).  Do not edit.
namespace Chewing.Gen

/-- `SELECT … FROM userphrase_v1` of `migrate_from_userphrase_v1`, in order -/
def v1SelectCols : List String := {_strs(select_cols)}
/-- `for i in A..B {{ let syllable_u16: T = row.get(i)?; … }}` -/
def v1PhoneFirst : Nat := {lo}
def v1PhoneEnd : Nat := {hi}
def v1PhoneType : String := {_lean_str(phone_type)}
/-- `userphrases.push((syllables, row.get(a)?, row.get(b)?, …))` and the declared types of item.1 … -/
def v1TupleCols : List Nat := {tuple_cols}
def v1TupleTypes : List String := {_strs(tys[1:])}
/-- `INSERT INTO userphrase_v2 (cols) VALUES (…)` with `params![…]` -/
def v1UserphraseCols : List String := {_strs(up_cols)}
def v1UserphraseParams : List String := {_strs(up_params)}
/-- `INSERT OR REPLACE INTO dictionary_v1 (cols) VALUES (…)` with `params![…]` -/
def v1DictReplace : Bool := {str(di_repl).lower()}
def v1DictCols : List String := {_strs(di_cols)}
def v1DictParams : List String := {_strs(di_params)}
/-- numeric form: position of each selected column in the legacy table (time 0, user_freq 1, max_freq 2,
    orig_freq 3, length 4, phone_i 5+i, phrase 16) -/
def v1SelectIdx : List Nat := {select_idx}
/-- bit width of the integer type read by the phone loop / of item.1 … (0 = `String`) -/
def v1PhoneBits : Nat := {bits[phone_type]}
def v1TupleBits : List Nat := {[bits[t] for t in tys[1:]]}
/-- target columns (userphrase_v2: user_freq 0, time 1; dictionary_v1: syllables 0, phrase 1, freq 2,
    userphrase_id 3) and the item that feeds each (item.k = k, `syllables_bytes` = 0, `row_id` = 100) -/
def v1UserphraseColIds : List Nat := {[up_ids[c] for c in up_cols]}
def v1UserphraseItems : List Nat := {[item_code(p) for p in up_params]}
def v1DictColIds : List Nat := {[di_ids[c] for c in di_cols]}
def v1DictItems : List Nat := {[item_code(p) for p in di_params]}
/-- the joined view `SqliteDictionary::entries()` reads -/
def v2ViewCols : String := {_lean_str(view_cols)}
def v2ViewFrom : String := {_lean_str(view_from)}

end Chewing.Gen
"""
    return {"SqliteV1.lean": text}
