"""Constants of context creation and of the system-side loaders (C12 creation clause, C17 locality of creation):

* src/dictionary/loader.rs — the file-name constants (`word.dat`, `tsi.dat`, `uhash.dat`, `chewing.sqlite3`, `:memory:`,
  `swkb.dat`, `symbols.dat`);
* src/path.rs — `DEFAULT_UNIX_SYS_PATH`, the unix `SEARCH_PATH_SEP`, `DICT_FOLDER`, the drop-in extension literal, the
  names of the environment variables read, the literals joined by `data_dir` / `userphrase_path` on the unix branch;
* src/editor/abbrev.rs / src/editor/selection/symbol.rs — the separator characters of the two line formats;
* capi/src/io.rs `chewing_new2` — the initial selection keys, the sizes of the six text buffers, the ORDER in which the
  loaders are called, and the inventory of `unwrap()` / `expect(..)` sites of its body (fails closed: a site that is not in
  the reviewed list breaks the translator — the model's `newContext` has exactly the reviewed ones as `.panic` values).

Emits Gen/SysLoader.lean.  Paths are emitted as `List Char` (the model works on character lists) and as `String`s.
"""
import re
from extractlib import *

# reviewed 2026-09: the only unwrap/expect sites of chewing_new2 (both on compile-time constants of the code)
REVIEWED_PANIC_SITES = [
    "builtin.unwrap()",                                   # Trie::new over the embedded mini.dat
    'SymbolSelector::new(b"".as_slice()).unwrap()',       # parsing the empty byte string
]


def _const_str(src, name, rel):
    m = re.search(r"\bconst\s+" + name + r"\s*:\s*&str\s*=\s*\"((?:\\.|[^\"\\])*)\"\s*;", src)
    if not m:
        raise ExtractError(f"{rel}: const {name}: &str not found")
    return m.group(1)


def _chars(s):
    return "[" + ", ".join("'" + ("\\'" if c == "'" else "\\\\" if c == "\\" else c) + "'" for c in s) + "]"


def _body_of(src, sig_re, rel, what):
    m = re.search(sig_re, src)
    if not m:
        raise ExtractError(f"{rel}: {what} not found")
    i = src.find("{", m.end())
    # skip the `-> T {` part: the first `{` after the closing parenthesis of the parameter list
    depth, j = 0, i
    while j < len(src):
        if src[j] == "{":
            depth += 1
        elif src[j] == "}":
            depth -= 1
            if depth == 0:
                break
        j += 1
    return src[i:j + 1]


@extractor("sysloader")
def x_sysloader():
    loader = strip_comments(read("src/dictionary/loader.rs"))
    names = {}
    for lean, rust in [("wordFile", "SD_WORD_FILE_NAME"), ("tsiFile", "SD_TSI_FILE_NAME"), ("uhashFile", "UD_UHASH_FILE_NAME"),
                       ("sqliteFile", "UD_SQLITE_FILE_NAME"), ("memFile", "UD_MEM_FILE_NAME"), ("abbrevFile", "ABBREV_FILE_NAME"),
                       ("symbolsFile", "SYMBOLS_FILE_NAME")]:
        names[lean] = _const_str(loader, rust, "src/dictionary/loader.rs")
    # the two-file probe of `load` and the one-file probes of the table loaders
    for pat, what in [(r"find_path_by_files\(&search_path,\s*&\[SD_WORD_FILE_NAME,\s*SD_TSI_FILE_NAME\]\)", "load probes word+tsi"),
                      (r"find_path_by_files\(&search_path,\s*&\[ABBREV_FILE_NAME\]\)", "load_abbrev probes swkb"),
                      (r"find_path_by_files\(&search_path,\s*&\[SYMBOLS_FILE_NAME\]\)", "load_symbol_selector probes symbols")]:
        if not re.search(pat, loader):
            raise ExtractError(f"src/dictionary/loader.rs: shape `{what}` not recognised")
    # user-dictionary extension dispatch
    exts = re.findall(r"ext\.eq_ignore_ascii_case\(\"(\w+)\"\)", loader)
    if exts != ["sqlite3", "dat"]:
        raise ExtractError(f"src/dictionary/loader.rs: init_user_dictionary extension dispatch changed: {exts}")

    path = strip_comments(read("src/path.rs"))
    names["defaultUnixSysPath"] = _const_str(path, "DEFAULT_UNIX_SYS_PATH", "src/path.rs")
    names["dictFolder"] = _const_str(path, "DICT_FOLDER", "src/path.rs")
    m = re.search(r"#\[cfg\(target_family\s*=\s*\"unix\"\)\]\s*const\s+SEARCH_PATH_SEP\s*:\s*char\s*=\s*('(?:\\.|[^'\\])')\s*;", path)
    if not m:
        raise ExtractError("src/path.rs: unix SEARCH_PATH_SEP not found")
    sep = rust_char(m.group(1))
    if len(re.findall(r"\.split\(SEARCH_PATH_SEP\)", path)) != 2:
        raise ExtractError("src/path.rs: expected exactly two `.split(SEARCH_PATH_SEP)` loops")
    m = re.search(r"path\.extension\(\)\.and_then\(OsStr::to_str\)\s*==\s*Some\(\"(\w+)\"\)", path)
    if not m:
        raise ExtractError("src/path.rs: drop-in extension test not recognised")
    names["dropInExt"] = m.group(1)
    envs = re.findall(r"env::var\(\"(\w+)\"\)", path)
    unix_envs = [e for e in envs if e != "AppData"]
    if unix_envs != ["CHEWING_PATH", "CHEWING_USER_PATH", "XDG_DATA_HOME"]:
        raise ExtractError(f"src/path.rs: environment variables read changed: {envs}")
    m = re.search(r"data_dir\(\)\.map\(\|path\|\s*path\.join\(\"([^\"]+)\"\)\)", path)
    if not m:
        raise ExtractError("src/path.rs: userphrase_path shape not recognised")
    names["userFile"] = m.group(1)
    m = re.search(r"env::home_dir\(\)\.map\(\|path\|\s*path\.join\(\"([^\"]+)\"\)\)\s*\}", path)
    if not m:
        raise ExtractError("src/path.rs: legacy_data_dir unix shape not recognised")
    names["legacyDirName"] = m.group(1)
    m = re.search(r"env::var\(\"XDG_DATA_HOME\"\)\s*\{\s*return\s+Some\(PathBuf::from\(path\)\.join\(\"([^\"]+)\"\)\);\s*\}\s*"
                  r"return\s+env::home_dir\(\)\.map\(\|path\|\s*path\.join\(\"([^\"]+)\"\)\.join\(\"([^\"]+)\"\)\.join\(\"([^\"]+)\"\)\);", path)
    if not m:
        raise ExtractError("src/path.rs: project_data_dir unix shape not recognised")
    names["xdgSub"] = m.group(1)
    home_parts = [m.group(2), m.group(3), m.group(4)]
    if not re.search(r"format!\(\"\{datadir\}:\{sys_datadir\}\"\)", path):
        raise ExtractError("src/path.rs: default search path `{datadir}:{sys_datadir}` not recognised")

    abbrev = strip_comments(read("src/editor/abbrev.rs"))
    m = re.search(r"line\.split_once\(('(?:\\.|[^'\\])')\)", abbrev)
    if not m:
        raise ExtractError("src/editor/abbrev.rs: split_once separator not found")
    abbrev_sep = rust_char(m.group(1))
    symbol = strip_comments(read("src/editor/selection/symbol.rs"))
    new_body = _body_of(symbol, r"pub\s+fn\s+new\s*<R:\s*BufRead>\s*\(reader:\s*R\)\s*->\s*Result<SymbolSelector>", "src/editor/selection/symbol.rs", "SymbolSelector::new")
    seps = re.findall(r"line\.(?:contains|split_once)\(('(?:\\.|[^'\\])')\)", new_body)
    if len(seps) != 2 or seps[0] != seps[1]:
        raise ExtractError(f"src/editor/selection/symbol.rs: separator shape changed: {seps}")
    symbol_sep = rust_char(seps[0])

    io = strip_comments(read("capi/src/io.rs"))
    body = _body_of(io, r"pub\s+unsafe\s+extern\s+\"C\"\s+fn\s+chewing_new2\s*\([^)]*\)[^{]*\)\s*->\s*\*mut\s+ChewingContext", "capi/src/io.rs", "chewing_new2")
    m = re.search(r"sel_keys:\s*SelKeys\(\[(.*?)\]\)", body, re.S)
    if not m:
        raise ExtractError("capi/src/io.rs: initial sel_keys not found")
    keys = []
    for item in split_top(m.group(1)):
        item = item.strip()
        if not item:
            continue
        mm = re.fullmatch(r"b('(?:\\.|[^'\\])')\s+as\s+i32", item)
        if not mm:
            raise ExtractError(f"capi/src/io.rs: selection key literal `{item}` not recognised")
        keys.append(ord(rust_char(mm.group(1))))
    bufs = re.findall(r"(\w+_buf):\s*\[0;\s*(\d+)\]", body)
    if [b for b, _ in bufs] != ["commit_buf", "preedit_buf", "bopomofo_buf", "cand_buf", "aux_buf", "kbtype_buf"]:
        raise ExtractError(f"capi/src/io.rs: context buffers changed: {bufs}")
    # order of the loader calls
    order = [(mm.start(), mm.group(1)) for mm in re.finditer(r"sys_loader\.(load\w*)\(\)", body)]
    order += [(mm.start(), "user") for mm in re.finditer(r"UserDictionaryLoader::new\(\)", body)]
    order = [n for _, n in sorted(order)]
    # panic sites: every `.unwrap()` / `.expect(` of the body with the receiver expression on the same statement
    sites = []
    for mm in re.finditer(r"\.(unwrap\(\)|expect\()", body):
        k = mm.start()
        while k > 0 and body[k - 1] not in ";{}=,":
            k -= 1
        e = mm.end()
        if mm.group(1).startswith("expect"):
            e = body.find(")", e) + 1
        # strip a leading constructor wrapper such as `vec![Box::new(`
        text = " ".join(body[k:e].split())
        text = re.sub(r"^(vec!\[)?(Box::new\()?", "", text)
        sites.append(text)
    unknown = [s for s in sites if s not in REVIEWED_PANIC_SITES]
    if unknown:
        raise ExtractError("capi/src/io.rs: chewing_new2 has unwrap/expect sites outside the reviewed list: " + "; ".join(unknown))
    # NULL returns of the body
    nulls = len(re.findall(r"return\s+null_mut\(\)", body))
    # the parsers: unwrap/expect inventory (must be empty since the repairs)
    open_body = _body_of(abbrev, r"pub\s+fn\s+open\s*<P:\s*AsRef<Path>>\s*\(path:\s*P\)\s*->\s*io::Result<AbbrevTable>", "src/editor/abbrev.rs", "AbbrevTable::open")
    parser_sites = [" ".join(x.split()) for x in re.findall(r"[^;{}]*\.(?:unwrap\(\)|expect\([^)]*\))", open_body + new_body)]
    # reviewed: guarded by `if line.contains('=')` on the same line, hence unreachable (the model has no panic value for it)
    reviewed_parser = ["let (cat, tab) = line.split_once('=').expect(\"at last one separator\")"]
    if not re.search(r"if\s+line\.contains\('='\)\s*\{\s*let\s+\(cat,\s*tab\)\s*=\s*line\.split_once\('='\)", new_body):
        raise ExtractError("src/editor/selection/symbol.rs: the split_once is no longer guarded by contains")
    parser_sites = [x for x in parser_sites if x not in reviewed_parser]
    if parser_sites:
        raise ExtractError("unwrap/expect in AbbrevTable::open / SymbolSelector::new: " + "; ".join(parser_sites))
    # find_path_by_files / load_drop_in / UserDictionaryLoader::load: unwrap/expect inventory of the path-level code
    load_user = _body_of(loader, r"pub\s+fn\s+load\(self\)\s*->\s*io::Result<Box<dyn\s+Dictionary>>", "src/dictionary/loader.rs", "UserDictionaryLoader::load")
    head = load_user[:load_user.find("init_user_dictionary")]
    head_sites = re.findall(r"\.(?:unwrap\(\)|expect\([^)]*\))", head)
    if head_sites:
        raise ExtractError("unwrap/expect in the path-level part of UserDictionaryLoader::load: " + "; ".join(head_sites))

    def s(k):
        return lean_str(names[k])
    lines = ["-- GENERATED by tools/extractors/sysloader.py from src/path.rs, src/dictionary/loader.rs, src/editor/abbrev.rs,",
             "-- src/editor/selection/symbol.rs and capi/src/io.rs (chewing_new2).  Do not edit.",
             "namespace Chewing.Gen.SysLoader", ""]
    for k in ["wordFile", "tsiFile", "uhashFile", "sqliteFile", "memFile", "abbrevFile", "symbolsFile", "defaultUnixSysPath",
              "dictFolder", "dropInExt", "userFile", "legacyDirName", "xdgSub"]:
        lines.append(f"def {k}S : String := {s(k)}")
        lines.append(f"def {k} : List Char := {_chars(names[k])}")
    lines.append(f"/-- `project_data_dir`, unix: `$HOME` joined with these -/")
    lines.append("def homeDataParts : List (List Char) := [" + ", ".join(_chars(p) for p in home_parts) + "]")
    lines.append(f"def searchPathSep : Char := {_chars(sep)[1:-1]}")
    lines.append(f"def abbrevSep : Nat := {ord(abbrev_sep)}")
    lines.append(f"def symbolSep : Nat := {ord(symbol_sep)}")
    lines.append("/-- environment variables read by src/path.rs on unix, in source order -/")
    lines.append("def envVars : List String := [" + ", ".join(lean_str(e) for e in unix_envs) + "]")
    lines.append("/-- `sel_keys` of a new context -/")
    lines.append("def initialSelKeys : List Nat := [" + ", ".join(str(k) for k in keys) + "]")
    lines.append("/-- the six text buffers of `ChewingContext` and their sizes -/")
    lines.append("def contextBuffers : List (String × Nat) := [" + ", ".join(f"({lean_str(b)}, {n})" for b, n in bufs) + "]")
    lines.append("/-- order of the loader calls in `chewing_new2` -/")
    lines.append("def new2LoadOrder : List String := [" + ", ".join(lean_str(o) for o in order) + "]")
    lines.append("/-- `unwrap()` / `expect(..)` sites of the body of `chewing_new2` (all reviewed) -/")
    lines.append("def new2PanicSites : List String := [" + ", ".join(lean_str(x) for x in sites) + "]")
    lines.append("/-- number of `return null_mut()` statements in `chewing_new2` -/")
    lines.append(f"def new2NullReturns : Nat := {nulls}")
    lines += ["", "end Chewing.Gen.SysLoader", ""]
    return {"SysLoader.lean": "\n".join(lines)}
