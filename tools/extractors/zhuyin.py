"""Extractors for src/zhuyin/{bopomofo,syllable}.rs (C13, C14)."""
import re
from extractlib import *

# --------------------------------------------------------------------------
# Bopomofo tables (src/zhuyin/bopomofo.rs)
# --------------------------------------------------------------------------

def enum_variants(src, name):
    body = block_after(src, r"\benum\s+" + re.escape(name) + r"\b")
    vs = []
    for part in split_top(body, ','):
        part = re.sub(r"#\[[^\]]*\]", "", part).strip()
        if not part:
            continue
        m = re.match(r"([A-Za-z_][A-Za-z0-9_]*)", part)
        if not m:
            raise ExtractError(f"bad variant in enum {name}: {part!r}")
        vs.append(m.group(1))
    return vs


@extractor("bopomofo")
def x_bopomofo():
    raw = read("src/zhuyin/bopomofo.rs")
    src = strip_comments(raw)
    variants = enum_variants(src, "Bopomofo")
    idx = {v: i for i, v in enumerate(variants)}
    if len(variants) != len(idx):
        raise ExtractError("duplicate Bopomofo variants")

    def const_map(name):
        m = re.search(r"const\s+" + name + r"\s*:\s*\[\s*Bopomofo\s*;\s*(\d+)\s*\]\s*=\s*\[", src)
        if not m:
            raise ExtractError(f"{name} not found")
        i = m.end() - 1
        j = balanced(src, i, '[', ']')
        items = split_top(src[i + 1:j - 1], ',')
        if len(items) != int(m.group(1)):
            raise ExtractError(f"{name}: declared length differs")
        return [idx[x] for x in items]

    maps = {n: const_map(n) for n in ("INITIAL_MAP", "MEDIAL_MAP", "RIME_MAP", "TONE_MAP")}

    kinds = {"Initial": 0, "Medial": 1, "Rime": 2, "Tone": 3}
    kind_tbl = [None] * len(variants)
    for pat, expr in match_arms(fn_body(src, "kind", after=r"impl\s+Bopomofo\s*\{")):
        k = kinds[expr.split("::")[-1].strip()]
        for v in pat.split('|'):
            kind_tbl[idx[v.strip()]] = k
    index_tbl = [None] * len(variants)
    for pat, expr in match_arms(fn_body(src, "index", after=r"impl\s+Bopomofo\s*\{")):
        for v in pat.split('|'):
            index_tbl[idx[v.strip()]] = rust_int(expr)
    if None in kind_tbl or None in index_tbl:
        raise ExtractError("kind()/index() not total")

    char_tbl = [None] * len(variants)
    for pat, expr in match_arms(fn_body(src, "from", after=r"impl\s+From<Bopomofo>\s+for\s+char")):
        for v in pat.split('|'):
            char_tbl[idx[v.strip()]] = rust_char(expr)
    if None in char_tbl:
        raise ExtractError("From<Bopomofo> for char not total")
    from_char = []
    for pat, expr in match_arms(fn_body(src, "try_from", after=r"impl\s+TryFrom<char>\s+for\s+Bopomofo")):
        if pat.strip() == '_':
            continue
        m = re.match(r"Ok\(\s*([A-Z0-9]+)\s*\)", expr)
        if not m:
            raise ExtractError(f"TryFrom<char>: unexpected arm {pat} => {expr}")
        for p in pat.split('|'):
            from_char.append((rust_char(p), idx[m.group(1)]))

    # the generic index->symbol accessors: `if index as usize >= X_MAP.len() { return None; } Some(X_MAP[index as usize])`
    for fn, mp in (("from_initial", "INITIAL_MAP"), ("from_medial", "MEDIAL_MAP"),
                   ("from_rime", "RIME_MAP"), ("from_tone", "TONE_MAP")):
        b = re.sub(r"\s+", "", fn_body(src, fn))
        want = f"ifindexasusize>={mp}.len(){{returnNone;}}Some({mp}[indexasusize])"
        if b != want:
            raise ExtractError(f"{fn}: unexpected body shape")

    L = [HEADER.format(src="src/zhuyin/bopomofo.rs", h=sha(raw)),
         "namespace Chewing.Gen\n",
         "/-- `enum Bopomofo`, declaration order (the discriminant is the list position). -/",
         f"def bopoNames : List String := {lean_list([lean_str(v) for v in variants])}\n",
         "/-- `Bopomofo::kind`: 0 initial, 1 medial, 2 rime, 3 tone. -/",
         f"def bopoKind : List Nat := {lean_list(map(str, kind_tbl), 21)}\n",
         "/-- `Bopomofo::index` (1-based position inside its kind). -/",
         f"def bopoIndex : List Nat := {lean_list(map(str, index_tbl), 21)}\n",
         "/-- `impl From<Bopomofo> for char`, as code points. -/",
         f"def bopoChar : List Nat := {lean_list([str(ord(c)) for c in char_tbl], 14)}\n",
         "/-- `impl TryFrom<char> for Bopomofo`: (code point, discriminant), arm order. -/",
         f"def bopoFromChar : List (Nat × Nat) := {lean_list([f'({ord(c)}, {i})' for c, i in from_char], 8)}\n"]
    for n, lean in (("INITIAL_MAP", "initialMap"), ("MEDIAL_MAP", "medialMap"),
                    ("RIME_MAP", "rimeMap"), ("TONE_MAP", "toneMap")):
        L.append(f"/-- `{n}` (discriminants). -/")
        L.append(f"def {lean} : List Nat := {lean_list(map(str, maps[n]), 21)}\n")
    L.append("end Chewing.Gen\n")
    return {"Bopomofo.lean": "\n".join(L)}


# --------------------------------------------------------------------------
# Syllable bit layout (src/zhuyin/syllable.rs)
# --------------------------------------------------------------------------

@extractor("syllable")
def x_syllable():
    raw = read("src/zhuyin/syllable.rs")
    src = strip_comments(raw)
    impl = block_after(src, r"impl\s+Syllable\s*\{")
    m = re.search(r"const\s+EMPTY_PATTERN\s*:\s*u16\s*=\s*([0-9a-zA-Z_]+)\s*;", impl)
    if not m:
        raise ExtractError("EMPTY_PATTERN not found")
    empty = rust_int(m.group(1))
    out = {"emptyPattern": empty}
    # accessors
    for fn, frm in (("initial", "from_initial"), ("medial", "from_medial"), ("rime", "from_rime"), ("tone", "from_tone")):
        b = re.sub(r"\s+", "", fn_body(impl, fn))
        m = re.match(r"letindex=\(?self\.value\.get\(\)&(0b[01_]+)\)?(?:>>(\d+))?;ifindex==0\{None\}else\{Bopomofo::"
                     + frm + r"\(index-1\)\}$", b)
        if not m:
            raise ExtractError(f"Syllable::{fn}: unexpected body shape")
        out[fn + "Mask"] = rust_int(m.group(1))
        out[fn + "Shift"] = int(m.group(2) or 0)
    # removers
    for part in ("initial", "medial", "rime", "tone"):
        b = re.sub(r"\s+", "", fn_body(impl, "remove_" + part))
        m = re.match(r"letret=self\." + part + r"\(\);letvalue=self\.value\.get\(\)&(0b[01_]+);"
                     r"self\.value=matchvalue\{0=>Syllable::EMPTY\.value,_=>NonZeroU16::new\(value\)\.unwrap\(\),\};ret$", b)
        if not m:
            raise ExtractError(f"Syllable::remove_{part}: unexpected body shape")
        out["remove" + part.capitalize() + "Mask"] = rust_int(m.group(1))
    # update
    b = fn_body(impl, "update")
    arms = match_arms(b)
    seen = set()
    for pat, expr in arms:
        k = pat.split("::")[-1].strip()
        e = re.sub(r"\s+", "", expr)
        m = re.match(r"\(orig&(0b[01_]+)\)\|bopomofo\.index\(\)(?:\.shl\((\d+)\))?$", e)
        if not m:
            raise ExtractError(f"Syllable::update arm {k}: unexpected shape")
        out["update" + k + "Mask"] = rust_int(m.group(1))
        out["update" + k + "Shift"] = int(m.group(2) or 0)
        seen.add(k)
    if seen != {"Initial", "Medial", "Rime", "Tone"}:
        raise ExtractError("Syllable::update: arms missing")
    if not re.search(r"self\.value\s*=\s*NonZeroU16::new\(value\)\.unwrap\(\)", b):
        raise ExtractError("Syllable::update: tail changed")
    # pop: order of removal
    b = re.sub(r"\s+", "", fn_body(impl, "pop"))
    order = re.findall(r"ifself\.has_(\w+)\(\)\{returnself\.remove_(\w+)\(\);\}", b)
    if [a for a, _ in order] != [c for _, c in order] or len(order) != 4 or not b.endswith("None"):
        raise ExtractError("Syllable::pop: unexpected shape")
    kinds = {"initial": 0, "medial": 1, "rime": 2, "tone": 3}
    out_pop = [kinds[a] for a, _ in order]
    # starts_with
    b = re.sub(r"\s+", "", fn_body(impl, "starts_with"))
    m = re.match(r"lettrailing_zeros=other\.to_u16\(\)\.trailing_zeros\(\);letmask=((?:iftrailing_zeros>=\d+\{\d+\}else)+)\{(\d+)\};"
                 r"letself_prefix=self\.to_u16\(\)>>mask;letother_prefix=other\.to_u16\(\)>>mask;self_prefix==other_prefix$", b)
    if not m:
        raise ExtractError("Syllable::starts_with: unexpected shape")
    thr = [(int(a), int(c)) for a, c in re.findall(r"iftrailing_zeros>=(\d+)\{(\d+)\}else", m.group(1))]
    sw_default = int(m.group(2))
    # builder
    bimpl = block_after(src, r"impl\s+SyllableBuilder\s*\{")
    nb = re.sub(r"\s+", "", fn_body(bimpl, "new"))
    if nb != "SyllableBuilder{value:Syllable::EMPTY_PATTERN,step:0,}":
        raise ExtractError("SyllableBuilder::new: unexpected shape")
    ib = fn_body(bimpl, "insert")
    barms = {}
    # arms have block bodies: parse manually
    mm = re.search(r"match\s+bopomofo\.kind\(\)\s*\{", ib)
    if not mm:
        raise ExtractError("SyllableBuilder::insert: match not found")
    i = ib.find('{', mm.start())
    mbody = ib[i + 1:balanced(ib, i) - 1]
    pos = 0
    while True:
        m = re.search(r"BopomofoKind::(\w+)\s*=>\s*\{", mbody[pos:])
        if not m:
            break
        k = m.group(1)
        s = pos + m.end() - 1
        e = balanced(mbody, s)
        arm = re.sub(r"\s+", "", mbody[s + 1:e - 1])
        pos = e
        m2 = re.match(r"ifself\.value&(0b[01_]+)!=0\{returnErr\(BuildSyllableError::multiple_\w+\(\)\);\}"
                      r"ifself\.step>(\d+)\{returnErr\(BuildSyllableError::incorrect_order\(\)\);\}"
                      r"self\.step=(\d+);self\.value&=(0b[01_]+);self\.value\|=(.*);$", arm)
        if not m2:
            raise ExtractError(f"SyllableBuilder::insert arm {k}: unexpected shape")
        val = m2.group(5)
        m3 = re.match(r"\(bopomofoasu16([+-])(\d+)\)<<(\d+)$", val) or re.match(r"bopomofoasu16([+-])(\d+)()$", val)
        if not m3:
            raise ExtractError(f"SyllableBuilder::insert arm {k}: unexpected value expr {val}")
        off = int(m3.group(2)) * (1 if m3.group(1) == '+' else -1)
        barms[k] = dict(check=rust_int(m2.group(1)), maxStep=int(m2.group(2)), newStep=int(m2.group(3)),
                        clear=rust_int(m2.group(4)), off=off, shift=int(m3.group(3) or 0))
    if set(barms) != {"Initial", "Medial", "Rime", "Tone"}:
        raise ExtractError("SyllableBuilder::insert: arms missing")

    # try_from(u16): zero rejected, the empty pattern accepted, otherwise the marker bit must be clear and every
    # component index at most `Bopomofo::<X>.index()`; the pre-fix shape (only zero rejected) is still understood, so
    # that a revert is reported by the oracle with a concrete code and not as a translator failure
    tb = re.sub(r"\s+", "", fn_body(src, "try_from", after=r"impl\s+TryFrom<u16>\s+for\s+Syllable"))
    nz = r"NonZeroU16::try_from\(value\)\.map_err\(\|_\|DecodeSyllableError\)\?"
    bounds = []
    if re.match(r"Ok\(Syllable\{value:" + nz + r",\}\)$", tb):
        try_marker = 0
    else:
        m = re.match(r"letsyl=Syllable\{value:" + nz + r",\};ifsyl\.is_empty\(\)\{returnOk\(syl\);\}"
                     r"((?:let\w+=\(?value&0b[01_]+\)?(?:>>\d+)?;)+)"
                     r"ifvalue&Syllable::EMPTY_PATTERN!=0((?:\|\|\w+>Bopomofo::\w+\.index\(\))+)"
                     r"\{returnErr\(DecodeSyllableError\);\}Ok\(syl\)$", tb)
        if not m:
            raise ExtractError("TryFrom<u16> for Syllable: unexpected body shape")
        try_marker = empty
        fields = {n: (rust_int(mk), int(sh or 0)) for n, mk, sh in
                  re.findall(r"let(\w+)=\(?value&(0b[01_]+)\)?(?:>>(\d+))?;", m.group(1))}
        variants = enum_variants(strip_comments(read("src/zhuyin/bopomofo.rs")), "Bopomofo")
        for n, sym in re.findall(r"\|\|(\w+)>Bopomofo::(\w+)\.index\(\)", m.group(2)):
            if n not in fields or sym not in variants:
                raise ExtractError(f"TryFrom<u16> for Syllable: unknown field {n} / symbol {sym}")
            bounds.append((fields[n][0], fields[n][1], variants.index(sym)))
        if len(bounds) != len(fields):
            raise ExtractError("TryFrom<u16> for Syllable: a decoded field is not bounded")

    L = [HEADER.format(src="src/zhuyin/syllable.rs", h=sha(raw)), "namespace Chewing.Gen\n"]
    for k, v in out.items():
        L.append(f"def {k} : Nat := {v}")
    L.append("\n/-- `Syllable::pop`: kinds in the order they are tried (0 initial … 3 tone). -/")
    L.append(f"def popOrder : List Nat := {lean_list(map(str, out_pop))}")
    L.append("\n/-- `Syllable::starts_with`: (threshold on trailing zeros, shift) in test order, then the default shift. -/")
    L.append(f"def startsWithSteps : List (Nat × Nat) := {lean_list([f'({a}, {c})' for a, c in thr])}")
    L.append(f"def startsWithDefault : Nat := {sw_default}")
    L.append("\n/-- `SyllableBuilder::insert`, per kind (index 0 initial … 3 tone):\n"
             "    (duplicate-check mask, max step allowed, new step, clear mask, offset added to the discriminant, shift). -/")
    rows = []
    for k in ("Initial", "Medial", "Rime", "Tone"):
        a = barms[k]
        rows.append(f"({a['check']}, {a['maxStep']}, {a['newStep']}, {a['clear']}, ({a['off']} : Int), {a['shift']})")
    L.append(f"def builderArms : List (Nat × Nat × Nat × Nat × Int × Nat) := {lean_list(rows, 1)}")
    L.append("\n/-- `TryFrom<u16> for Syllable`: the bit that only the empty pattern may carry (0 = no range check at all,\n"
             "    the shape before the repair), and per bounded field (mask, shift, symbol whose `index()` is the largest value). -/")
    L.append(f"def tryFromMarker : Nat := {try_marker}")
    L.append(f"def tryFromBounds : List (Nat × Nat × Nat) := {lean_list([f'({a}, {b}, {c})' for a, b, c in bounds])}")
    L.append("\nend Chewing.Gen\n")
    return {"SyllableBits.lean": "\n".join(L)}


