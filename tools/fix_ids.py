#!/usr/bin/env python3
"""Developer tool: after cherry-picking work-package commits into /repo, rewrite commit ids in
KNOWN_FINDINGS.txt (`fixed:` lines and prose) that are not on /repo's main to the id of the commit on
main with the same subject."""
import re, subprocess, sys
def git(*a):
    return subprocess.run(["git", "-C", "/repo"] + list(a), capture_output=True, text=True).stdout
main = {}
for l in git("log", "--format=%h %s", "3855089..main").splitlines():
    h, s = l.split(" ", 1)
    main.setdefault(s, h)
on_main = set(main.values())
txt = open("/verif/KNOWN_FINDINGS.txt").read()
ids = set(re.findall(r"\b[0-9a-f]{7}\b", txt))
for i in sorted(ids):
    if i in on_main:
        continue
    subj = git("log", "-1", "--format=%s", i).strip()
    if subj and subj in main:
        txt = txt.replace(i, main[subj])
        print(f"{i} -> {main[subj]}  {subj[:70]}")
    elif subj:
        print(f"{i}: '{subj[:60]}' is NOT on main")
open("/verif/KNOWN_FINDINGS.txt", "w").write(txt)
