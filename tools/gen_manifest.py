#!/usr/bin/env python3
"""Writes /verif/MANIFEST.json from tools/props.py (so the manifest cannot drift from the checks)."""
import json, os, subprocess, sys
ROOT = os.path.normpath(os.path.join(os.path.dirname(os.path.abspath(__file__)), ".."))
sys.path.insert(0, os.path.dirname(os.path.abspath(__file__)))
from props import PROPS, MANIFEST_TEXT, NOT_YET

ALL = [json.loads(l)["id"] for l in open(os.path.join(ROOT, "properties.jsonl"))]

def hook_commits():
    try:
        out = subprocess.run(["git", "-C", "/repo", "log", "--format=%h %s", "3855089..HEAD"], capture_output=True, text=True).stdout
        return [l.split()[0] for l in out.splitlines() if "hook" in l.lower() and not l.split(" ", 1)[1].startswith("round 0")]
    except Exception:
        return []

m = {
    "version": 1,
    "setup_cmd": "cd /verif && ./setup.sh",
    "hooks": {
        "guard": "--cfg chewing_libchewing_verif",
        "enable": "RUSTFLAGS='--cfg chewing_libchewing_verif' (set in /verif/harness/.cargo/config.toml; the harness builds /repo and /repo/capi as path dependencies)",
        "baseline_off_cmd": "cd /repo && cargo test --workspace --no-fail-fast --offline",
        "source_commits": hook_commits(),
        "add_only": True,
    },
    "engines": [{
        "name": "lean4-model+correspondence",
        "path": "/verif/check",
        "serves_properties": sorted(PROPS),
        "kind_free_text": "Lean 4 theorems over an executable model (lean/Chewing), tables regenerated from the Rust source by tools/extract.py, "
                          "behavioural correspondence of the model with the real code through harness/ and the compiled model driver",
    }],
    "checks": [],
    "not_applicable": [],
    "notes": "All checks: ./check <id> [--tier quick|thorough]; VERIF_SEED / VERIF_TIER honoured. Known findings: KNOWN_FINDINGS.txt. See DESIGN.md.",
}
for pid in ALL:
    if pid in PROPS:
        t = MANIFEST_TEXT[pid]
        m["checks"].append({
            "property_id": pid,
            "quick_cmd": f"cd /verif && ./check {pid} --tier quick",
            "thorough_cmd": f"cd /verif && ./check {pid} --tier thorough",
            "evidence_file": f"/verif/evidence/{pid}.json",
            "replay_cmd_template": f"cd /verif && ./check {pid} --replay {{path}}",
            "engine": "lean4-model+correspondence",
            "level_claimed": {"category": t.get("category", "proof"), "text": t["text"], "design_ref": t.get("design_ref", "DESIGN.md §8 " + pid)},
            "level_note": t["note"],
            "technique": t["technique"],
        })
    else:
        m["not_applicable"].append({"property_id": pid, "reason": NOT_YET.get(pid, "no check built yet in this round (planned: DESIGN.md §8/§12); nothing is claimed for it")})
json.dump(m, open(os.path.join(ROOT, "MANIFEST.json"), "w"), indent=1, ensure_ascii=False)
print("MANIFEST.json:", len(m["checks"]), "checks,", len(m["not_applicable"]), "not claimed")
