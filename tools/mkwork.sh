#!/bin/sh
# mkwork.sh <id>: private worktrees for one work package:
#   /work/<id>/verif  (branch wp-<id> of /verif, with a copy of the Lean build cache)
#   /work/<id>/repo   (branch wp-<id> of /repo)
# Use:  cd /work/<id>/verif && VERIF_REPO=/work/<id>/repo ./check Cxx --verbose
set -e
id="$1"
mkdir -p /work/$id
git -C /verif worktree add -q /work/$id/verif -b wp-$id
git -C /repo worktree add -q /work/$id/repo -b wp-$id
cp -r /verif/lean/.lake /work/$id/verif/lean/.lake
echo "/work/$id ready"
