#!/usr/bin/env python3
"""Orchestrator behind /verif/check (DESIGN.md §2, §4)."""
import argparse, fcntl, hashlib, json, os, re, shutil, subprocess, sys, time

ROOT = os.path.normpath(os.path.join(os.path.dirname(os.path.abspath(__file__)), ".."))
LEAN = os.path.join(ROOT, "lean")
HARNESS = os.path.join(ROOT, "harness")
RUN = os.path.join(ROOT, "run")
REPO = os.environ.get("VERIF_REPO", "/repo")
DRIVER = os.path.join(LEAN, ".lake", "build", "bin", "chewing-model")
ACCEPTED_AXIOMS = ["propext", "Classical.choice", "Quot.sound"]

sys.path.insert(0, os.path.dirname(os.path.abspath(__file__)))
from props import PROPS  # noqa: E402


def sh(cmd, cwd=None, timeout=3600, env=None, stdin=None, stdout=None):
    e = dict(os.environ)
    e["CARGO_NET_OFFLINE"] = "true"
    e.setdefault("MIMALLOC_PURGE_DELAY", "-1")   # kernel `decide` churns memory; page faults are slow in this VM
    if env:
        e.update(env)
    t0 = time.time()
    p = subprocess.run(cmd, cwd=cwd, env=e, stdin=stdin, stdout=stdout if stdout else subprocess.PIPE,
                       stderr=subprocess.PIPE if stdout else subprocess.STDOUT, text=True, timeout=timeout)
    return p.returncode, (p.stdout if not stdout else p.stderr) or "", time.time() - t0


class Lock:
    def __init__(self, path):
        os.makedirs(os.path.dirname(path), exist_ok=True)
        self.f = open(path, "w")

    def __enter__(self):
        fcntl.flock(self.f, fcntl.LOCK_EX)
        return self

    def __exit__(self, *a):
        fcntl.flock(self.f, fcntl.LOCK_UN)
        self.f.close()


def known_findings():
    """KNOWN_FINDINGS.txt: `known: property=C13 id=F18 class=F18-tone1 text…` / `fixed: …` (never written at run time)"""
    out = {"known": [], "fixed": []}
    p = os.path.join(ROOT, "KNOWN_FINDINGS.txt")
    if not os.path.exists(p):
        return out
    for line in open(p, encoding="utf-8"):
        line = line.strip()
        if not line or line.startswith("#"):
            continue
        kind, _, rest = line.partition(":")
        kind = kind.strip()
        if kind not in out:
            continue
        fields = dict(re.findall(r"(\w+)=(\S+)", rest))
        fields["text"] = re.sub(r"^\s*((\w+)=(\S+)\s+)*", "", rest).strip()
        out[kind].append(fields)
    return out


def build_lean(cfg, log):
    """returns dict(proof_ok, driver_ok, output)"""
    res = {}
    targets = list(cfg.get("lean_targets", []))
    sh([sys.executable, os.path.join(ROOT, "tools", "gen_glue.py")], timeout=60)
    rc, out, dt = sh(["lake", "build", "chewing-model"], cwd=LEAN, timeout=3600)
    res["driver_ok"] = rc == 0
    res["driver_out"] = out[-3000:] if rc else ""
    log(f"lake build chewing-model: rc={rc} {dt:.1f}s")
    rc, out, dt = sh(["lake", "build"] + targets, cwd=LEAN, timeout=5400)
    res["proof_ok"] = rc == 0
    res["proof_out"] = "\n".join(l for l in out.splitlines() if not l.startswith("✔"))[-6000:] if rc else ""
    log(f"lake build {' '.join(targets)}: rc={rc} {dt:.1f}s")
    return res


def build_harness(cfg, log):
    bins = sorted({r["bin"] for r in cfg.get("runs", [])})
    if not bins:
        return True, ""
    shutil.copyfile(os.path.join(REPO, "Cargo.lock"), os.path.join(HARNESS, "Cargo.lock"))
    sh([sys.executable, os.path.join(ROOT, "tools", "gen_glue.py")], timeout=60)
    cmd = ["cargo", "build", "--offline", "--quiet"]
    feats = sorted({f for r in cfg.get("runs", []) for f in r.get("features", [])})
    if feats:
        cmd += ["--features", ",".join(feats)]
    for b in bins:
        cmd += ["--bin", b]
    rc, out, dt = sh(cmd, cwd=HARNESS, timeout=3600)
    log(f"cargo build {bins}: rc={rc} {dt:.1f}s")
    return rc == 0, out[-4000:]


def run_one(prop, cfg, r, tier, seed, log):
    """Run one harness driver and the model driver over its transcript."""
    d = os.path.join(RUN, prop)
    os.makedirs(d, exist_ok=True)
    tag = r.get("tag", r["bin"])
    tpath = os.path.join(d, f"{tag}.transcript.txt")
    mpath = os.path.join(d, f"{tag}.model.txt")
    args = r.get("args_" + tier, r.get("args", []))
    env = {"VERIF_SEED": str(seed), "VERIF_TIER": tier, "RUST_BACKTRACE": "0"}
    env.update(r.get("env", {}))
    res = {"tag": tag, "transcript": tpath, "crash": None}
    with open(tpath, "w") as f:
        try:
            rc, err, dt = sh([os.path.join(HARNESS, "target", "debug", r["bin"])] + args, cwd=d, env=env,
                             stdout=f, timeout=r.get("timeout_" + tier, r.get("timeout", 3000)))
        except subprocess.TimeoutExpired:
            rc, err, dt = 124, "harness driver timed out", 0.0
    log(f"harness {tag}: rc={rc} {dt:.1f}s")
    if rc != 0:
        res["crash"] = f"rc={rc}: {err[-1500:]}"
    with open(tpath) as fin, open(mpath, "w") as fout:
        try:
            rc2, err2, dt2 = sh([DRIVER], stdin=fin, stdout=fout, timeout=3000)
        except subprocess.TimeoutExpired:
            rc2, err2, dt2 = 124, "model driver timed out", 0.0
    log(f"model  {tag}: rc={rc2} {dt2:.1f}s")
    res["model_rc"] = rc2
    res["model_err"] = err2[-1500:]
    return res


def search(prop, cfg, seed, known_classes, box, log):
    """DESIGN §4 "Search": a proof obligation or the correspondence has broken and the run itself
    exhibited no failing input.  Time-boxed campaign: the harness drivers are re-run at thorough size
    with fresh seeds and only the property's oracle verdicts (the property evaluated directly on the
    implementation) are read.  Returns (failures, rounds, records)."""
    found, rounds, records = [], 0, 0
    t0 = time.time()
    s = seed
    while time.time() - t0 < box and not found and cfg.get("runs"):
        s += 1000003
        rounds += 1
        for r in cfg.get("runs", []):
            left = box - (time.time() - t0)
            if left <= 1:
                break
            args = r.get("args_thorough", r.get("args", []))
            e = dict(os.environ)
            e.update({"VERIF_SEED": str(s), "VERIF_TIER": "thorough", "RUST_BACKTRACE": "0", "CARGO_NET_OFFLINE": "true"})
            e.update(r.get("env", {}))
            d = os.path.join(RUN, prop)
            os.makedirs(d, exist_ok=True)
            try:
                p = subprocess.Popen([os.path.join(HARNESS, "target", "debug", r["bin"])] + args, cwd=d, env=e,
                                     stdout=subprocess.PIPE, stderr=subprocess.DEVNULL, text=True, errors="replace")
            except OSError:
                continue
            try:
                for line in p.stdout:
                    if line.startswith("!oracle "):
                        parts = line.rstrip("\n").split(" ", 3)
                        if len(parts) >= 3 and parts[1] == prop and parts[2] not in known_classes:
                            found.append((parts[2], (parts[3] if len(parts) > 3 else "") + f"  [search seed {s}]"))
                            if len(found) >= 20:
                                break
                    elif not line.startswith("#"):
                        records += 1
                    if time.time() - t0 > box:
                        break
            finally:
                p.kill()
                p.wait()
            if found:
                break
    log(f"search: {rounds} rounds, {records} records, {len(found)} failing inputs, {time.time() - t0:.0f}s")
    return found, rounds, records


def digest(line):
    return hashlib.blake2b(line.encode(), digest_size=8).digest()


def nontrivial(line):
    """Is this transcript record a non-trivial case?  Editor-step records (`ed <op> | pre | dict | answers => ok | post | ret |
    dict'`) are trivial when the operation left the editor snapshot exactly as it was (an ignored key, a no-op call); every
    other record kind is one computed case of a pure function or one step with its own input and counts as non-trivial."""
    if line.startswith("ed "):
        try:
            left, right = line.split(" => ", 1)
            pre = left.split(" | ")[1]
            rs = right.split(" | ")
            return not (rs[0].startswith("ok") and len(rs) > 1 and rs[1] == pre)
        except Exception:
            return True
    return True


def analyse(prop, cfg, results):
    """Collect counts, stats, oracle verdicts, DIFF/SKIP lines (restricted to the property's scope)."""
    scope = cfg.get("scope", lambda comp, fn: True)
    a = dict(records=0, in_scope=0, distinct=set(), stats={}, samples=[], oracle=[], diffs=[], diffs_out=[],
             skips=0, skip_samples=[], by_fn={}, summary=[])
    for res in results:
        with open(res["transcript"], encoding="utf-8", errors="replace") as f:
            for line in f:
                line = line.rstrip("\n")
                if not line:
                    continue
                if line.startswith("#stat "):
                    _, k, v = (line.split(" ", 2) + [""])[:3]
                    try:
                        a["stats"][res["tag"] + "." + k] = int(v)
                    except ValueError:
                        a["stats"][res["tag"] + "." + k] = v
                elif line.startswith("#sample "):
                    a["samples"].append(line[8:])
                elif line.startswith("!oracle "):
                    parts = line.split(" ", 3)
                    if len(parts) >= 3 and parts[1] == prop:
                        a["oracle"].append((parts[2], parts[3] if len(parts) > 3 else ""))
                elif line.startswith("#") or line.startswith("!"):
                    continue
                else:
                    toks = line.split(" ", 2)
                    a["records"] += 1
                    if len(toks) >= 2 and scope(toks[0], toks[1]):
                        a["in_scope"] += 1
                        if nontrivial(line):
                            a["distinct"].add(digest(line))
                        key = toks[0] + " " + toks[1]
                        a["by_fn"][key] = a["by_fn"].get(key, 0) + 1
                        if len(a["samples"]) < 6 and a["by_fn"][key] == 1:
                            a["samples"].append(line[:300])
        if os.path.exists(res["transcript"].replace(".transcript.txt", ".model.txt")):
            with open(res["transcript"].replace(".transcript.txt", ".model.txt"), encoding="utf-8", errors="replace") as f:
                for line in f:
                    line = line.rstrip("\n")
                    if line.startswith("DIFF "):
                        toks = line[5:].split(" ", 2)
                        if len(toks) >= 2 and scope(toks[0], toks[1]):
                            a["diffs"].append(line)
                        else:
                            a["diffs_out"].append(line)
                    elif line.startswith("SKIP "):
                        toks = line[5:].split(" ", 2)
                        if len(toks) >= 2 and scope(toks[0], toks[1]):
                            a["skips"] += 1
                            if len(a["skip_samples"]) < 5:
                                a["skip_samples"].append(line[:300])
                    elif line.startswith("#summary"):
                        a["summary"].append(res["tag"] + ": " + line[9:])
    return a


def main(argv):
    ap = argparse.ArgumentParser()
    ap.add_argument("prop")
    ap.add_argument("--tier", default=os.environ.get("VERIF_TIER", "quick"), choices=["quick", "thorough"])
    ap.add_argument("--replay", default=None)
    ap.add_argument("--verbose", action="store_true")
    args = ap.parse_args(argv)
    prop = args.prop
    if prop not in PROPS:
        print(f"unknown property {prop}")
        return 2
    cfg = PROPS[prop]
    tier = args.tier
    try:
        seed = int(os.environ.get("VERIF_SEED", "1"))
    except ValueError:
        seed = 1
    replay_in = None
    if args.replay:
        replay_in = json.load(open(args.replay))
        seed = replay_in.get("seed", seed)
        tier = replay_in.get("tier", tier)
    t0 = time.time()
    logs = []

    def log(msg):
        logs.append(msg)
        if args.verbose:
            print("  [" + msg + "]", flush=True)

    os.makedirs(RUN, exist_ok=True)
    with Lock(os.path.join(RUN, ".lock")):
        # 1. translator
        ex = cfg.get("extract", [])
        rc, out, dt = sh([sys.executable, os.path.join(ROOT, "tools", "extract.py")] + ex, timeout=600)
        log(f"extract {ex}: rc={rc} {dt:.1f}s")
        try:
            status = json.load(open(os.path.join(RUN, "extract-status.json")))
        except Exception:
            status = {}
        translator_broken = [n for n in ex if not status.get(n, {}).get("ok")]
        # 2. theorems + driver
        lb = build_lean(cfg, log)
        # 3. audit
        audit = {"theorems": [], "axioms": {}, "bad": [], "scan_hits": [], "error": None}
        if lb["proof_ok"]:
            rc, out, dt = sh([sys.executable, os.path.join(ROOT, "tools", "audit_axioms.py"), prop], timeout=1200)
            log(f"audit: rc={rc} {dt:.1f}s")
            try:
                audit = json.loads(out.strip().splitlines()[-1])
            except Exception:
                audit["error"] = out[-2000:]
        # 4. harness
        hb_ok, hb_out = build_harness(cfg, log)
        # 5. runs
        results = []
        if hb_ok and lb["driver_ok"]:
            for r in cfg.get("runs", []):
                results.append(run_one(prop, cfg, r, tier, seed, log))
    a = analyse(prop, cfg, results)

    # ---------------------------------------------------------------- decision
    kf = known_findings()
    known_classes = {k["class"]: k for k in kf["known"] if k.get("property") == prop}
    new_oracle = [(c, d) for c, d in a["oracle"] if c not in known_classes]
    known_hits = {}
    for c, d in a["oracle"]:
        if c in known_classes:
            known_hits.setdefault(c, []).append(d)
    broken = []      # reasons the property is no longer *shown* to hold
    if translator_broken:
        broken.append("translator no longer recognises: " + ", ".join(translator_broken)
                      + " (" + "; ".join(status.get(n, {}).get("error", "?") for n in translator_broken) + ")")
    if not lb["proof_ok"]:
        broken.append("proof obligation broken: `lake build " + " ".join(cfg.get("lean_targets", [])) + "` fails")
    elif audit.get("bad") or audit.get("scan_hits") or audit.get("error"):
        broken.append("proof audit: " + "; ".join((audit.get("bad") or []) + (audit.get("scan_hits") or [])
                                                   + ([audit["error"][-300:]] if audit.get("error") else [])))
    if not lb["driver_ok"]:
        broken.append("model driver does not build")
    if not hb_ok:
        broken.append("harness does not build against the current tree: " + hb_out[-400:])
    for res in results:
        if res["crash"]:
            broken.append(f"harness driver {res['tag']} crashed: {res['crash'][-400:]}")
        if res.get("model_rc"):
            broken.append(f"model driver failed on {res['tag']}: {res.get('model_err', '')[-300:]}")
    if a["diffs"]:
        broken.append(f"correspondence broken: {len(a['diffs'])} transcript records in scope differ from the model")
    if a["skips"]:
        broken.append(f"{a['skips']} records in scope are not covered by the model")

    searched = None
    if broken and not new_oracle and hb_ok and not os.environ.get("VERIF_NO_SEARCH"):
        box = float(os.environ.get("VERIF_SEARCH_S", "90" if tier == "quick" else "600"))
        found, rounds, recs = search(prop, cfg, seed, known_classes, box, log)
        searched = (f"the run's own oracle verdicts on {a['records']} implementation records show no violation; a further "
                    f"time-boxed search ({box:.0f}s: {rounds} harness rounds at thorough size with fresh seeds, {recs} records, "
                    f"property oracle evaluated on the implementation) found {len(found)} failing inputs")
        new_oracle = found

    wall = time.time() - t0
    violations = 0
    lines_out = []
    rc_final = 0
    os.makedirs(os.path.join(ROOT, "replays"), exist_ok=True)
    for c, hits in sorted(known_hits.items()):
        k = known_classes[c]
        lines_out.append(f"KNOWN-FINDING: property={prop} {k.get('id', c)} {k['text']} ({len(hits)} inputs this run, e.g. {hits[0][:160]})")
    if new_oracle:
        violations = len(new_oracle)
        h = hashlib.sha256(("\n".join(d for _, d in new_oracle[:50])).encode()).hexdigest()[:10]
        rp = os.path.join(ROOT, "replays", f"{prop}-{h}.json")
        json.dump({"property": prop, "kind": "failing-input", "seed": seed, "tier": tier,
                   "failures": [{"class": c, "detail": d} for c, d in new_oracle[:50]],
                   "n_failures": len(new_oracle),
                   "also_broken": broken,
                   "found_by": searched or "the run's own oracle verdicts",
                   "model_vs_impl_diffs": a["diffs"][:20],
                   "replay_cmd": f"cd /verif && ./check {prop} --replay {rp}"}, open(rp, "w"), indent=1, ensure_ascii=False)
        lines_out.append(f"VIOLATION property={prop} replay={rp}")
        rc_final = 1
    elif broken:
        violations = 1
        h = hashlib.sha256("\n".join(broken).encode()).hexdigest()[:10]
        rp = os.path.join(ROOT, "replays", f"{prop}-{h}.json")
        json.dump({"property": prop, "kind": "no-failing-input-found", "seed": seed, "tier": tier,
                   "no_longer_checks": broken,
                   "theorems": audit.get("theorems") or cfg.get("lean_targets", []),
                   "proof_output": lb.get("proof_out", ""),
                   "model_vs_impl_diffs": a["diffs"][:40],
                   "uncovered_records": a["skip_samples"],
                   "searched": searched or f"oracle evaluated on {a['records']} implementation records, none violates the property",
                   "replay_cmd": f"cd /verif && ./check {prop} --replay {rp}"}, open(rp, "w"), indent=1, ensure_ascii=False)
        lines_out.append(f"VIOLATION property={prop} replay={rp} no-failing-input-found")
        rc_final = 1

    # ---------------------------------------------------------------- evidence
    nthm = len(audit.get("theorems") or [])
    ok_thm = sum(1 for t in (audit.get("theorems") or [])
                 if t in audit.get("axioms", {}) and not (set(audit["axioms"][t]) - set(ACCEPTED_AXIOMS)))
    if audit.get("scan_hits"):
        ok_thm = 0
    axioms_used = sorted({x for v in audit.get("axioms", {}).values() for x in v})
    ev = {
        "property_id": prop,
        "tier": tier,
        "seed": seed,
        # EVIDENCE.schema.json admits a fixed list of levels; a `partial` claim is a proof-level claim whose
        # limits are spelled out in the MANIFEST text / assumptions, so it is recorded as "proof" here
        "level": cfg.get("level", "proof") if cfg.get("level", "proof") in (
            "exploration", "fault_enumeration", "model_checking", "proof", "translation_validation", "other") else "proof",
        "coverage": {
            "obligations": nthm,
            "discharged": ok_thm,
            "checker_cmd": f"cd /verif/lean && lake build {' '.join(cfg.get('lean_targets', []))} && python3 ../tools/audit_axioms.py {prop}"
                           + (" && lake env leanchecker " + " ".join(cfg.get("lean_targets", [])) if tier == "thorough" else ""),
            "trusted_base": cfg.get("trusted_base", []) + [
                "Lean 4.33.0 kernel; axioms used by the property theorems: " + (", ".join(axioms_used) or "none"),
                "translator tools/extract.py (tables regenerated this run: " + ", ".join(ex) + ")",
                "correspondence harness /verif/harness + compiled model driver (Lean compiler/runtime trusted only for running the model)",
            ],
            "theorems": audit.get("theorems") or [],
            "evaluations": a["in_scope"],
            "distinct_nontrivial": len(a["distinct"]),
            "rule": cfg.get("rule", "one evaluation = one transcript record of the implementation recomputed by the model; distinct = distinct record text")
                    + " [distinct_nontrivial counts DISTINCT record texts; an editor-step record is counted only if the operation changed"
                      " the editor snapshot (ignored keys / no-op calls are evaluations but trivial)]",
            "exhaustive": bool(cfg.get("exhaustive", False)),
            "traces_validated_against_impl": a["in_scope"] - len(a["diffs"]) - a["skips"],
            "model_vs_impl_diffs_in_scope": len(a["diffs"]),
            "out_of_scope_diffs": len(a["diffs_out"]),
            "uncovered_records": a["skips"],
            "records_by_component": a["by_fn"],
            "generator_stats": a["stats"],
            "model_driver_summary": a["summary"],
            "oracle_failures_new": len(new_oracle),
            "known_findings_hit": {c: len(v) for c, v in known_hits.items()},
            "samples": a["samples"][:8] or ["(no transcript records)"],
            "steps": logs,
        },
        "assumptions": cfg.get("assumptions", []),
        "wall_s": round(wall, 2),
        "violations": violations,
    }
    # closed-world BFS runs (editor --bfs): the check as a whole stays `exhaustive: false` (it also has sampled runs); the
    # configurations whose exploration CLOSED on this run are exhaustive ties (Props/EditorTie.lean) and are listed here
    bfs_closed = sorted(k.split(".bfs.", 1)[1][:-len(".closed")] for k, v in a["stats"].items()
                        if ".bfs." in k and k.endswith(".closed") and v == 1)
    bfs_open = sorted(k.split(".bfs.", 1)[1][:-len(".closed")] for k, v in a["stats"].items()
                      if ".bfs." in k and k.endswith(".closed") and v == 0)
    if bfs_closed or bfs_open:
        ev["coverage"]["exhaustive_closed_worlds"] = {
            "exhaustive": bfs_closed, "not_closed_within_budget": bfs_open,
            "states": {c: a["stats"].get(f"editor-bfs.bfs.{c}.states") for c in bfs_closed + bfs_open},
            "transitions": {c: a["stats"].get(f"editor-bfs.bfs.{c}.transitions") for c in bfs_closed + bfs_open},
            "meaning": "for each configuration under `exhaustive` every (reachable state, operation of its alphabet) transition of the "
                       "REAL editor was recorded and recomputed by the model and the work list ran empty; with 0 diffs in scope "
                       "EditorTie.editor_tie_lift gives agreement on every operation list of any length over that alphabet"}
    if tier == "thorough" and lb["proof_ok"] and cfg.get("leanchecker", True):
        rc, out, dt = sh(["lake", "env", "leanchecker"] + cfg.get("lean_targets", []), cwd=LEAN, timeout=3600)
        ev["coverage"]["leanchecker"] = f"rc={rc} {dt:.0f}s"
        if rc != 0 and rc_final == 0:
            lines_out.append(f"VIOLATION property={prop} replay={os.path.join(ROOT, 'replays', prop + '-leanchecker.json')} no-failing-input-found")
            json.dump({"property": prop, "kind": "no-failing-input-found", "no_longer_checks": ["leanchecker rejects the compiled theorems"],
                       "output": out[-3000:]}, open(os.path.join(ROOT, "replays", prop + "-leanchecker.json"), "w"), indent=1)
            rc_final = 1
            ev["violations"] = 1
    ev["wall_s"] = round(time.time() - t0, 2)
    os.makedirs(os.path.join(ROOT, "evidence"), exist_ok=True)
    json.dump(ev, open(os.path.join(ROOT, "evidence", prop + ".json"), "w"), indent=1, ensure_ascii=False)

    if args.verbose or rc_final:
        for b in broken:
            print("  broken: " + b[:500])
    for l in lines_out:
        print(l)
    print(f"{prop} {tier}: theorems {ok_thm}/{nthm}, records {a['in_scope']} (diff {len(a['diffs'])}, skip {a['skips']}), "
          f"oracle new {len(new_oracle)} known {sum(len(v) for v in known_hits.values())}, {ev['wall_s']}s -> {'FAIL' if rc_final else 'ok'}")
    if replay_in is not None:
        print("replay: " + ("failure reproduced" if rc_final else "failure NOT reproduced on the current tree"))
    return rc_final
