"""C01 — no call sequence, key or configuration can crash or hang the engine."""
from propslib import comp_scope

PROP = dict(
    extract=["editor", "capi_keys", "capi_user"],
    lean_targets=["Chewing.Props.C01", "Chewing.Props.C06CApi", "Chewing.Props.C01EditorTie", "Chewing.Props.C08CApi"],
    runs=[
        # pure Rust API: every operation is a transcript record the model recomputes (panic outcomes included);
        # oracle_c01.rs reports every panic / hang of an operation or of a read-only accessor
        dict(bin="editor"),
        # scripted family: candidate choices over break / glue marks (script_c01.rs), same step machinery and oracle
        dict(bin="editor", args=["--script", "c01"], tag="editor-c01-breaks"),
        # closed-world BFS of the real editor (bfs.rs): every (reachable state, operation) of small closed configurations, every
        # accessor on every state; closed configurations are listed in the evidence (coverage.exhaustive_closed_worlds)
        dict(bin="editor", args=["--bfs", "all"], tag="editor-bfs", timeout=1500, timeout_thorough=20000),
        # C API in forked workers with a per-call watchdog: oracle only (`!oracle C01 <class> <history>`), no records
        dict(bin="capi_crash", timeout=1500, timeout_thorough=3000),
        # C call glue: every call of a generated C-API history is a record `capiops call` (Lean model of capi/src/io.rs =
        # harness twin; twin = real C context by the getter comparison) - the tie of Props/C06CApi.lean C_step / C_run
        dict(bin="capi_props", tag="capi_props", args=["--histories", "150", "--calls", "40"], args_thorough=["--histories", "3000", "--calls", "40"]),
    ],
    # a crash anywhere is C01's: every editor step record is in scope (keys, select, options, layout, engine,
    # learn / unlearn, commit, clear, jump, ...)
    scope=comp_scope("ed", "capiops", "capiuser"),
    level="proof",
    exhaustive=False,
    rule="one evaluation = one operation of the real Editor (generated sessions: weighted grammar + a uniform stream over the 63 "
         "key codes x 16 modifier sets; option / layout / engine changes, learn / unlearn, select, commit, clear, jump in "
         "between), recomputed by the model from the implementation's own complete pre-state, outcome `panic` included; "
         "distinct = distinct record text. NOT counted as evaluations (oracle only, generator_stats capi_crash.*): C-API call "
         "histories of 60 calls replayed in worker processes (quick 24 000, thorough 240 000 histories; keys over all 256 codes of "
         "chewing_handle_Default and the 19 named handlers, Numlock / CtrlNum keys, 13 integer options with valid and invalid "
         "values, 17 keyboard types by number and by name, 3 engines switched mid-composition, page size 1..10, threshold "
         "0..39, candidate calls with indices -1 / huge, user-phrase add / remove / lookup / enumerate / get with short caller "
         "buffers, enumerations left pending across dictionary updates, keyboard-type enumerations read up to 600 times past "
         "their end, reset / clean calls; every getter after every call; tests/data and the built-in dictionary), each call under a "
         "1 s CPU-time + 10 s wall watchdog. Classification: every failure (panic, abort, hang, accessor failure) is `new` - no "
         "known class remains. States with a buffered syllable WITHOUT A WORD (the former class of F02 / F03, repaired) are "
         "exercised on purpose and counted: editor harness c01_steps_from_noword_state (+ .engine0/1/2, .choice_forward / "
         ".choice_rearward, .list_open, .op_*), c01_sessions_reaching_noword_state, c01_sessions_with_noword_scenarios, "
         "c01_noword_state_entered_by.*; C-API campaign: a directed corpus replayed on every run (stat directed_histories; the former F02 / "
         "F03 / simple-engine-hang witnesses as they were and continued with Down / cand_open / cand_list_first/last/next/prev / "
         "choose / Tab / Enter, the list opened under each engine, j / k onto the syllable from a neighbour, auto-commit with "
         "threshold 0..2: former_noword_class_witnesses = former_noword_class_witnesses_clean; `choice-over-tab-marks`: 測試 and the user "
         "phrases 測試測 / 測試測試 with Tab marks at every non-empty set of inner gaps, chewing / fuzzy engine, forward / rearward "
         "choice, candidate 0 chosen by chewing_cand_choose_by_index and by digit key, then more keys / Tab / list / Enter) and calls_from_noword_state, "
         "histories_reaching_noword_state, noword_incl_directed.* measured by replaying a sample of the generated histories with "
         "the state predicate evaluated before every call (calls_from_noword_state_estimated_campaign). Scripted family (run "
         "editor-c01-breaks, `editor --script c01`, same step machinery, accessors, oracle and records as the generated sessions; every "
         "probe from a freshly built editor replaying its scenario): every dictionary phrase of 2..4 syllables typed alone / with a "
         "neighbour syllable before and / or after, Tab marks (break or glue, one or two Tabs, one / two / three gaps) at every gap "
         "inside it, then from EVERY cursor position the list opened with Down under forward and rearward choice and the chewing / "
         "fuzzy engine (simple engine: switched to after the marks), the range cycled (Down / Space / j / k), EVERY candidate index "
         "chosen by digit key and by Editor::select(n) (one index past the end included), continued by Enter / Tab at the end / more "
         "syllables / the list again / commit() / further marks; #stat c01_break_scenarios, c01_break_lists_opened, c01_break_choices "
         "(+ .covering_break, .covering_glue, .multi_syllable_over_break[.before_last_syllable / .engineN / .forward], .failed), "
         "c01_break_marks_set.break / .glue, c01_break_tails.N, c01_break_failures",
    trusted_base=[
        "hook H1 (Editor::verif_snapshot, TrieBuf::verif_snapshot) is read-only; the layout and conversion answers of each step "
        "are recorded through wrapper objects installed through the public constructors",
        "editor harness: a hang is observed as exhaustion of a look-up budget (400 000 dictionary look-ups in one operation; "
        "the largest count seen is reported as c01_max_lookups_in_one_operation) by a transparent proxy around the system "
        "dictionary layers; a loop that never consults the dictionary is only caught by the C-API watchdog",
        "C-API campaign: worker processes of the harness binary itself; death by SIGABRT/SIGILL/SIGTRAP = abort, SIGVTALRM / "
        "SIGALRM = hang (re-run once alone to confirm); the state right before the failing call is re-created by replaying the "
        "history prefix in an inspection process and read through getters that do not convert (phoneSeq, config_get_int, "
        "cand_CheckDone, userphrase enumeration) - for the reader's information only",
        "no finding class is known for C01 (KNOWN_FINDINGS.txt holds only `fixed:` lines): every failure is reported as new; the "
        "panic site (file, message) and the word-less-syllable predicate of the former class are printed for information and "
        "never used to classify; the same predicate, evaluated by the harnesses on the real state, only feeds the statistics "
        "that show such states are reached",
    ],
    assumptions=[
        "crash = Rust panic (unwinding in the pure API, process abort behind extern \"C\"), overflow and debug assertions on "
        "(debug profile, as the harness is built); hang = a loop of the modelled code that does not terminate. Allocation "
        "failure, stack exhaustion and wall-clock time of the real process are not modelled",
        "no known class remains: the former class no-word-for-buffered-syllable (F02, F03: a syllable in the pre-edit buffer "
        "without a one-syllable word under the lookup strategy in force aborted the next conversion / PhraseSelector::init, or "
        "hung PhraseSelector::next) is repaired in the repository (43e8036 fallback to the syllable's spelling, 0f255ea selector "
        "init / next, ce48759 a list without candidates is not opened); the theorems hold without excluding these states and "
        "the oracles report every failure from any state as new",
        "the in-memory dictionaries of the editor harness never match a partial syllable by prefix (TrieBuf B-tree look-ups "
        "are exact), so the F02 way into a word-less state (fuzzy engine, partial syllable, engine switch) is exercised by the "
        "C-API campaign on the real Trie dictionaries only; the F03 way (unlearn the only word) is exercised by both",
        "chewing_new (default search paths, would touch $HOME) and chewing_set_logger with a callback (variadic) are not called",
        "EnvOK (explicit hypotheses of every theorem): well-formed dictionary values (one character per syllable, closed under "
        "add / update / flush / remove), an exact match is also a prefix match, the engines behave as C03 proves for the engine "
        "model, the frequency estimator returns; OpValid: candidates_per_page > 0 (the C layer validates 1..10)",
        "SymWF: the loaded symbol tables are well formed (leaf categories named, table indices in range)",
    ],
)

MANIFEST = dict(
    text="Lean 4 theorems (Chewing/Props/C01.lean, proofs in Proofs/C01*.lean) over the executable editor state-machine model "
         "(Model/Editor.lean: every arm of process_keyevent and the other public entry points, every unwrap / expect / index / "
         "slice / assert / checked-arithmetic site an explicit `Outcome.panic`, every loop fuel-bounded), for EVERY environment "
         "(dictionary, layout, engines, estimator) satisfying the explicit hypotheses EnvOK (phrases have one character per "
         "syllable; adding / updating / flushing removes no word; the engines return a tiling with one character per symbol on a "
         "EVERY valid composition (with or without a word per syllable) at least one alternative, a chain over 0..len with at "
         "least one character per symbol, and exactly one where every syllable has a word = C03's nonempty_result / alt_chain / "
         "text_at_least_one_per_symbol / one_char_per_symbol; the estimator does not overflow). EditorInv env G w is the "
         "reachable-state invariant in two strengths. w = False (SafeInv): C04 composition invariant + one character per "
         "selected symbol + selections over syllables, cursor <= len, page size > 0, well-formed symbol tables, open phrase "
         "selector = non-empty run of syllables inside the buffer over the editor's own composition anchored where the list "
         "was opened, replacing symbol list sits on a non-syllable. w = True adds: every buffered syllable has a word under "
         "every active lookup strategy and prefix lookup only with the prefix engine - no longer needed for safety. "
         "theorem C01 : C01_full - the property as worded, NO exclusion: from every state satisfying SafeInv (initial_safe: a "
         "fresh editor does) every history of valid public operations returns; C01_step: from every such state EVERY operation "
         "returns a value - no panic (no_panic), no exhausted fuel (no_hang: PhraseSelector::init / next, break-point searches, "
         "auto-learn, auto-commit loops terminate within a bound linear in the buffer length) - and SafeInv holds again; "
         "C01_run (induction over histories); C01_reachable (every operation from every reachable state). Until the fix: commits "
         "43e8036 (ChewingEngine shows a syllable without a word as its spelling), 0f255ea (PhraseSelector::init stays on the "
         "one-syllable range, next is a bounded loop) and ce48759 (a phrase list without candidates is not opened; j / k onto one "
         "close the list) C01_full was refuted by findings F02 / F03; the former witnesses are now theorems f02_history_repaired, "
         "f03_history_repaired, f03_hang_repaired, selector_on_wordless (the histories return; the syllable is committed as its "
         "spelling; Down on it is ignored; next returns to its range). word_clause_kept / C01_partial_run: the strength-True "
         "invariant is kept outside the class Known (state-based: unlearn_phrase / set_editor_options / set_conversion_engine "
         "after which some buffered syllable has no word under an active strategy - word-losing, no longer crashing; "
         "f02_switch_loses_word: not empty); C01_plain_histories: keys, select(n), start/cancel selecting, jumps, commit, clear, "
         "ack, layout switches and learn_phrase are never in it. compValid_of_cinv: EditorInv implies the precondition of C03's "
         "engine theorems; engines_satisfy_convert_ok / _len: C03's engine model satisfies both engine clauses (buffers <= 128 "
         "symbols, no syllable code 0). Covered by the theorems: every key in all four states (Selecting "
         "with phrase lists, special-symbol lists and symbol tables: paging, Down/Space = PhraseSelector::next, j/k = retarget + "
         "closeIfEmpty, digits = Selecting::select - a chosen phrase is a valid selection) and EVERY other entry point in every "
         "state, incl. open_phrase (start_selecting / Down / Space), jump_to_{first,last,next,prev}_selection_point while a "
         "phrase candidate list is open (jump_never_panics; Proofs/C01Jump.lean: the open selector's invariant carries the Anchor "
         "of its range) and the option / layout / dictionary calls with their final revalidate_selecting (C07's F32 repair). "
         "selector_loops_terminate / init_terminates: fuel sufficiency of every selector loop with its progress argument, over "
         "ANY dictionary. The first proof attempt in the jump corner uncovered finding F41, confirmed as an abort on the real C "
         "API and repaired (f41_history_repaired). "
         "The C call glue of capi/src/io.rs is inside the model since round 3 (Model/CApiOps.lean over tables regenerated from io.rs; "
         "Props/C06CApi.lean): translate_total (the glue's own .expect(\"invalid keycode\") cannot fire on any of the eight keyboards, whatever "
         "int is passed), C_step / C_run (from every context whose editor satisfies SafeInv, EVERY history of chewing_handle_* (any int), "
         "chewing_cand_open / close / choose_by_index (any int) / list_*, commit_preedit_buf, clean_*_buf, ack, Reset returns - by translating "
         "each call to a list of at most one Editor operation, runCall_run, and C01_run), ctrlNum_non_digit / default_out_of_range / "
         "numlock_out_of_range (a request that cannot be honoured is reported through the return code only / treated as the Unknown key), "
         "null_context (NULL -> -1); tie: records `capiops call` of the capi_props run. Outside the glue model: option setters, keyboard "
         "type, selection-key setter (C16's Model/Config.lean), user-phrase calls, string getters (C15). The theorems rest on the tie: per-operation correspondence of model and real Editor from its own "
         "pre-state (panic outcomes included, 0 differences), the editor-harness oracle (any panic / hang of an operation or "
         "accessor) and a C-API crash/hang campaign in forked workers with a per-call watchdog (all 256 key codes, options, 17 "
         "keyboard types, 3 engines mid-composition, candidate and user-phrase calls with hostile arguments, every getter after "
         "every call); NO known class remains: every panic / abort / hang is reported as new with the call history as "
         "replay (the former class predicate is kept as a statistic: c01_steps_from_noword_state, calls_from_noword_state; the "
         "former witnesses are regression histories of the campaign). Defects repaired by fix: commits: F02+F03 word-less syllable "
         "(43e8036, 0f255ea, ce48759), F01 full-width unwrap, F04 candidate offset "
         "overflow, F06 userphrase_get short buffer, F40 (new, found by the campaign) Editor::select auto-commits under an open list, F41 (new, found by the proof attempt) init_single_word origin, "
         "F42 (found by the C15 builder) keyboard-type counter overflow after 256 reads, F22 (C15) pending user-phrase enumeration "
         "read after a dictionary update.",
    note="Trusted: Lean kernel (axioms propext, Classical.choice, Quot.sound), read-only snapshot hooks, harness + compiled model "
         "driver, the process-level watchdog. EnvOK.convert_ok / convert_len are C03's nonempty_result + alt_chain + "
         "text_at_least_one_per_symbol + one_char_per_symbol + fuel_suffices (proved there for the engine model, under ScoreBound "
         "= at most 128 symbols and frequencies <= 2^23, and SpellNonempty = no buffered syllable code 0, whose spelling is "
         "empty and which no keyboard layout produces; the "
         "link buffer length <= 128 is C05's bound and is not re-proved here); the dictionary hypotheses of EnvOK are C09's "
         "domain and are assumptions here. Not modelled: allocation failure, stack exhaustion, wall-clock time. chewing_new and "
         "logger callbacks are not exercised.",
    technique="Lean 4 proof (reachable-state invariant, induction over histories, case analysis over every arm of the modelled "
              "state machine with explicit panic sites, fuel-sufficiency / termination of the selector loops); per-step "
              "model/implementation correspondence; C-API crash/hang campaign in watchdog-guarded worker processes with "
              "state-based classification",
    category="proof",
)
