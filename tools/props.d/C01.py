"""C01 — no call sequence, key or configuration can crash or hang the engine."""
from propslib import comp_scope

PROP = dict(
    extract=["editor"],
    lean_targets=["Chewing.Props.C01"],
    runs=[
        # pure Rust API: every operation is a transcript record the model recomputes (panic outcomes included);
        # oracle_c01.rs reports every panic / hang of an operation or of a read-only accessor
        dict(bin="editor"),
        # C API in forked workers with a per-call watchdog: oracle only (`!oracle C01 <class> <history>`), no records
        dict(bin="capi_crash", timeout=1500, timeout_thorough=3000),
    ],
    # a crash anywhere is C01's: every editor step record is in scope (keys, select, options, layout, engine,
    # learn / unlearn, commit, clear, jump, ...)
    scope=comp_scope("ed"),
    level="proof",
    exhaustive=False,
    rule="one evaluation = one operation of the real Editor (generated sessions: weighted grammar + a uniform stream over the 63 "
         "key codes x 16 modifier sets; option / layout / engine changes, learn / unlearn, select, commit, clear, jump in "
         "between), recomputed by the model from the implementation's own complete pre-state, outcome `panic` included; "
         "distinct = distinct record text. NOT counted as evaluations (oracle only, generator_stats capi_crash.*): C-API call "
         "histories of 60 calls replayed in worker processes (quick 24 000, thorough 400 000 histories; keys over all 256 codes of "
         "chewing_handle_Default and the 19 named handlers, Numlock / CtrlNum keys, 13 integer options with valid and invalid "
         "values, 17 keyboard types by number and by name, 3 engines switched mid-composition, page size 1..10, threshold "
         "0..39, candidate calls with indices -1 / huge, user-phrase add / remove / lookup / enumerate / get with short caller "
         "buffers, reset / clean calls; every getter after every call; tests/data and the built-in dictionary), each call under a "
         "1 s CPU-time + 10 s wall watchdog",
    trusted_base=[
        "hook H1 (Editor::verif_snapshot, TrieBuf::verif_snapshot) is read-only; the layout and conversion answers of each step "
        "are recorded through wrapper objects installed through the public constructors",
        "editor harness: a hang is observed as exhaustion of a look-up budget (400 000 dictionary look-ups in one operation; "
        "the largest count seen is reported as c01_max_lookups_in_one_operation) by a transparent proxy around the system "
        "dictionary layers; a loop that never consults the dictionary is only caught by the C-API watchdog",
        "C-API campaign: worker processes of the harness binary itself; death by SIGABRT/SIGILL/SIGTRAP = abort, SIGVTALRM / "
        "SIGALRM = hang (re-run once alone to confirm); the state right before the failing call is re-created by replaying the "
        "history prefix in an inspection process and read through getters that do not convert (phoneSeq, config_get_int, "
        "cand_CheckDone, userphrase enumeration)",
        "finding classes are state predicates evaluated by the harness on the real state (KNOWN_FINDINGS.txt); the panic site "
        "(file, message) is printed for information and never used to classify",
    ],
    assumptions=[
        "crash = Rust panic (unwinding in the pure API, process abort behind extern \"C\"), overflow and debug assertions on "
        "(debug profile, as the harness is built); hang = a loop of the modelled code that does not terminate. Allocation "
        "failure, stack exhaustion and wall-clock time of the real process are not modelled",
        "known finding class no-word-for-buffered-syllable (F02, F03): a syllable in the pre-edit buffer without a "
        "one-syllable word under the lookup strategy in force; the theorems exclude exactly these states and the oracles "
        "classify by the same predicate on the real state, so a crash from any other state is reported as new",
        "the in-memory dictionaries of the editor harness never match a partial syllable by prefix (TrieBuf B-tree look-ups "
        "are exact), so the F02 way into the class (fuzzy engine, partial syllable, engine switch) is exercised by the C-API "
        "campaign on the real Trie dictionaries only; the F03 way (unlearn the only word) is exercised by both",
        "chewing_new (default search paths, would touch $HOME) and chewing_set_logger with a callback (variadic) are not called",
    ],
)

# TODO(owner): DRAFT text — finalise the theorem names / wording once Props/C01.lean is settled.
MANIFEST = dict(
    text="Lean 4 theorems (Chewing/Props/C01.lean; C01_partial, see Props/C01.lean) over the executable editor state-machine "
         "model (Model/Editor.lean: every arm of process_keyevent and the other public entry points, with every unwrap / "
         "expect / index / slice / assert / checked-arithmetic site as an explicit `Outcome.panic` and every loop fuel-bounded): "
         "from every state satisfying the model invariant in which every buffered syllable has a word under the strategy in "
         "force, no operation panics and no loop runs out of fuel (C01_partial); the excluded class is refuted by concrete "
         "witnesses (C01_refuted: F02 engine switch over a partial syllable, F03 removal of the only word of a buffered "
         "syllable). Tie: per-operation correspondence of the model with the real Editor from its own pre-state (panic "
         "outcomes included), plus the property evaluated directly on the implementation: (a) editor harness oracle — any "
         "panic or hang of an operation or of a read-only accessor, (b) a C-API crash/hang campaign in forked workers with a "
         "per-call watchdog over keys (all 256 codes), options, 17 keyboard types, 3 engines, candidate and user-phrase "
         "calls with hostile arguments, all getters after every call. Failures are classified by a state predicate only: "
         "known class no-word-for-buffered-syllable, anything else is a new violation with its call history as replay. "
         "Defects found and repaired by fix: commits: F01 (full-width unwrap), F04 (candidate offset overflow), F06 "
         "(userphrase_get short buffer), F40 (select auto-commits under an open list).",
    note="Trusted: Lean kernel (standard axioms), read-only snapshot hooks, harness + compiled model driver, the process-level "
         "watchdog. Not modelled: allocation failure, stack exhaustion, wall-clock time; the C glue (capi/src/io.rs) is covered "
         "by the campaign, not by theorems. chewing_new and logger callbacks are not exercised.",
    technique="Lean 4 proof (invariant + case analysis over the modelled state machine with explicit panic sites and fuel) ; "
              "per-step model/implementation correspondence; C-API crash/hang campaign in watchdog-guarded worker processes "
              "with state-based classification",
    category="proof",
)
