"""C02 — what is committed is exactly what was displayed; no text is lost or invented."""
from propslib import fn_scope

PROP = dict(
    extract=["editor"],
    lean_targets=["Chewing.Props.C02"],
    runs=[dict(bin="editor"), dict(bin="editor", args=["--script", "c02"], tag="editor-c02-tab-overflow"),
          dict(bin="editor", args=["--bfs", "all"], tag="editor-bfs", timeout=1500, timeout_thorough=20000),
          dict(bin="capi_props", tag="capi_props", args=["--histories", "300", "--calls", "40"], args_thorough=["--histories", "6000", "--calls", "40"])],
    scope=fn_scope("ed key", "ed commit", "ed select"),
    level="proof",
    exhaustive=False,
    rule="one evaluation = one key / commit() / select() step of the real editor (generated histories over in-memory "
         "dictionaries, three engines, thresholds 0..39 with 0..8 frequent, selections, breaks, Tab-cycled alternatives, "
         "API calls and option changes in between; plus scripted histories (run editor-c02-tab-overflow): two crossing user "
         "phrases with pairwise different characters, Tab pressed 0..4 times at the end of the buffer, the limit at or below "
         "the length, then overflow by one more syllable / select(0) / Tab itself, or Enter / commit(); and a second scripted family: a syllable whose only (user) word is forgotten while it is buffered, glued by Tab to a neighbour that has words, then the same commit routes), recomputed by the model from the implementation's own complete "
         "pre-state; distinct = distinct record text Run editor-bfs (round 3, `editor --bfs all`): breadth-first exploration of the REAL editor on small closed configurations, one `ed` record per (reachable state, operation of the alphabet) with this property's oracle evaluated on every step; the configurations that closed are exhaustive ties (coverage.exhaustive_closed_worlds; Props/EditorTie.lean lifts them to every operation list over the alphabet), the others a breadth-first sample.",
    trusted_base=["hook H1 (Editor::verif_snapshot) is read-only; the layout and conversion answers of each step are recorded "
                  "through wrapper objects installed through the public constructors",
                  "oracle: display()/display_commit()/len() are called through the public API before and after each "
                  "operation; the conversion of the full buffer at overflow time is the engine's recorded answer to the last "
                  "conversion call of the step, read at the alternative index of the state BEFORE the operation (one further "
                  "for Tab at the end of the buffer), never at the index the implementation is left with"],
    assumptions=["'the pre-edit string shown immediately before' = Editor::display() of the state the key/call arrives in "
                 "(dictionary before auto-learning)",
                 "'leading part of the conversion of the full buffer' = of the buffer including what the key inserted, at the "
                 "moment the overflow is detected (same nth, same dictionary); the rest is converted afresh afterwards",
                 "character counting (conservation, non-empty commit string, the history ledger) needs the engine to tile the "
                 "buffer with one character per symbol at the states where a commit path runs (TilesAt; ConvTiles = at every "
                 "state); tilesAt_of_C03 reduces it to C03's hypotheses; history_ledger_linked / _total / _fresh / _C03 discharge "
                 "it along every history outside C01's word-losing class Known (the former F02/F03 class: operations that leave a buffered syllable without a word; such a syllable is now shown and committed as its 1-4 character Bopomofo spelling, so the one-character-per-symbol ledger is stated for states where every buffered syllable has a word) from C01's reachable-state invariant at strength True, for every "
                 "environment satisfying C01's EnvOK (all its clauses are used); everything else holds for every environment",
                 "history_ledger_C03 (engine = C03's model): C03's theorems cover buffers of at most 128 symbols (ScoreBound; by C05Bound.conversions_are_short the editor asks for nothing longer than 41 symbols with the documented limit - under either lookup strategy since fix b92f99b (FX3/FX4; before it prefix lookup let the buffer grow without bound) - Link.EngineIsC03.beyond stays an assumption); "
                 "for longer buffers the engine contract stays a hypothesis (EngineIsC03.beyond)",
                 "'accepted characters' of a step = net change of the symbol count made by its editing part (state machine / "
                 "API call before the commit path), +1 for a key committed directly from an empty pre-edit; which keys insert "
                 "or delete what is C05/C18",
                 "'exactly when the key result says commit' is about key events; API calls do not reset the commit buffer "
                 "(api_* theorems say what each does)"],
)

MANIFEST = dict(
    text="Lean 4 theorems (Chewing/Props/C02.lean, helpers Proofs/EditorCommit.lean, Proofs/EditorCommitHistory.lean) over "
         "the executable editor model, for every environment (dictionary, layout, conversion engine as parameters). "
         "Whole-buffer commit: commit_equals_display / commit_equals_display_api (Enter with any modifiers, and "
         "Editor::commit, commit exactly display() of the state before and empty the pre-edit; auto-learning in between "
         "is a frame: learning_touches_dictionary_only), enter_arm / whole_commit_only_by_enter (exactly which events commit "
         "a non-empty buffer as a whole). Overflow: auto_commit_take / auto_commit_prefix / auto_commit_prefix_of_display "
         "(induction over the interval list: least leading part of the conversion of the full buffer, symbols removed from "
         "the front), auto_commit_conserves(_at) / bounded_after_autocommit / key_auto_commit (character conservation and "
         "the bound, under the tiling hypothesis). Commit string vs result: key_step_cases / no_phantom_commit / "
         "commit_has_text / commit_string_iff_result (every arm of all four states), api_* for the calls. Histories: every "
         "public operation is split into editing part and commit path (editPart / emitted / accepted); step_accounts "
         "(exactly three shapes of a step: nothing emitted / one key committed directly — and then it is the key's own "
         "character, its full-width form or a space, DirectChar — / a leading part of the conversion "
         "of the edited buffer pushed out — by Enter, commit(), overflow after a key, overflow after select(n)), "
         "emitted_was_displayed, step_ledger / step_remaining, and history_ledger by induction over operation lists: the "
         "characters of all commit strings plus the final pre-edit equal the initial pre-edit plus every accepted "
         "character. The tiling hypothesis is needed only at states where a commit path runs (TilesAt); tilesAt_of_C03 "
         "derives it from C03's theorems under exactly C03's hypotheses (CompValid, WellFormed, HasWord under the engine's strategy for every engine - formerly NoEmptyKey too, and HasWord only for the "
         "simple engine), shown non-vacuous on an environment whose engine is C03's engine model. Linked (round 2, "
         "Proofs/EditorLink.lean): the edited state of every operation satisfies C01's shared-state invariant (editPart_shInv), "
         "so TilesAlong is a theorem along every history outside C01's word-losing class Known (tilesAlong_of_allowed) and "
         "history_ledger_linked / history_ledger_total / history_ledger_fresh state the ledger with NO tiling premise for "
         "every environment satisfying C01's EnvOK; history_ledger_C03 instantiates the engine clause with C03's engine model "
         "(EngineIsC03, envOK_of_C03), and linkEnv_key_histories is the premise-free instance: every key history on the fresh "
         "editor over C03's engine model and example dictionary runs to the end and satisfies the ledger. "
         "Tie: per-step correspondence of the model with the real editor from its own pre-state (0 differences), plus the "
         "property evaluated directly on the real editor (oracle_c02: display() before vs commit string after, least-prefix "
         "and conservation against the engine's recorded answer for the full buffer under the alternative the user had cycled "
         "to BEFORE the operation, a running per-session ledger, commit routes counted; stats "
         "c02_auto_commits_alt_pushes_out_other_text_key/_select count the overflows in which the chosen alternative pushes "
         "out other text than the default segmentation would - generated histories and the scripted run "
         "editor-c02-tab-overflow). "
         "C API (round 2, run capi_props): generated key/API histories (every chewing_handle_* handler incl. Default with all printable characters and non-characters, chewing_cand_*, option setters, buffer calls; three kinds of data directory) are driven through a C context and in lock-step through a twin chewing::editor::Editor built over the same data; after every call every C getter is compared with the twin's Rust getter (by-design differences modelled one by one: static vs heap strings, stateful Enumerate iterators, legacy zuin_*, chewing_ack) and this property's statement is evaluated on the C observations before/after the call; a difference or a failing statement is an oracle verdict with the history (FX2: the handlers narrowed the int key with `as u8`, repaired by fix a8c8390).",
    note="Theorem: everything above, about the model. Correspondence (sampled, not proved): model = src/editor/mod.rs on the "
         "generated histories. Premise, not proved here: that the real engines are C03's model (C03's own correspondence). "
         "That editor histories reach only valid compositions with a word for every buffered syllable is C01's invariant, now "
         "connected: history_ledger keeps TilesAlong as a hypothesis, history_ledger_linked has none beyond C01's EnvOK and the "
         "exclusion of C01's word-losing class Known (former F02/F03: no longer a crash, but the spelling shown for a word-less syllable has 1-4 characters; oracle_c02 counts a spelled syllable as one symbol, also when the engine has merged the spelling with a glued neighbour into one interval of several symbols - the text of every committed interval is dealt to its symbols, one character or the syllable's own spelling each, from the engine's answer recorded before anything was removed; for Enter / commit() / select() the allowance needs C01's word-less predicate on the state before: stats c02_commits_with_wordless_spelling, c02_wordless_spelling_inside_longer_interval; scripted regression histories for the glued shape in run editor-c02-tab-overflow) (jump_* on an open phrase list is included since C01 covers it); C03's engine "
         "theorems reach buffers of at most 128 symbols, beyond that the engine clause is assumed. Trusted: Lean kernel (standard axioms), the read-only snapshot hook, harness + compiled "
         "model driver. F29 (commit string outliving its key) was a genuine defect, repaired by fix commit 1c4da4f; "
         "reintroducing it is reported with a 3-step history. Resetting the chosen alternative before the pushed-out "
         "intervals are rendered (seeded change) is reported by the oracle with the key history and the displayed pre-edit.",
    technique="Lean 4 proof (induction over the interval list and over operation lists; case analysis over every arm of the "
              "key-event state machine); per-step model/implementation correspondence",
)
