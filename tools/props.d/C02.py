"""C02 — what is committed is exactly what was displayed; no text is lost or invented."""
from propslib import fn_scope

PROP = dict(
    extract=["editor"],
    lean_targets=["Chewing.Props.C02"],
    runs=[dict(bin="editor")],
    scope=fn_scope("ed key", "ed commit", "ed select"),
    level="proof",
    exhaustive=False,
    rule="one evaluation = one key / commit() / select() step of the real editor (generated histories over in-memory "
         "dictionaries, three engines, thresholds 0..39 with 0..8 frequent, selections, breaks, Tab-cycled alternatives, "
         "API calls and option changes in between), recomputed by the model from the implementation's own complete "
         "pre-state; distinct = distinct record text",
    trusted_base=["hook H1 (Editor::verif_snapshot) is read-only; the layout and conversion answers of each step are recorded "
                  "through wrapper objects installed through the public constructors",
                  "oracle: display()/display_commit()/len() are called through the public API before and after each "
                  "operation; the conversion of the full buffer at overflow time is the engine's recorded answer to the last "
                  "conversion call of the step"],
    assumptions=["'the pre-edit string shown immediately before' = Editor::display() of the state the key/call arrives in "
                 "(dictionary before auto-learning)",
                 "'leading part of the conversion of the full buffer' = of the buffer including what the key inserted, at the "
                 "moment the overflow is detected (same nth, same dictionary); the rest is converted afresh afterwards",
                 "character counting (conservation, non-empty commit string) assumes the engine tiles the buffer with one "
                 "character per symbol (ConvTiles, C03's theorem about the real engines); everything else holds for every "
                 "environment",
                 "'exactly when the key result says commit' is about key events; API calls do not reset the commit buffer "
                 "(api_* theorems say what each does)"],
)

MANIFEST = dict(
    text="Lean 4 theorems (Chewing/Props/C02.lean, helpers Proofs/EditorCommit.lean) over the executable editor model, for "
         "every environment: commit_equals_display / commit_equals_display_api (Enter with any modifiers, and "
         "Editor::commit, commit exactly display() of the state before and empty the pre-edit; auto-learning in between "
         "is a frame: learning_touches_dictionary_only), enter_arm / whole_commit_only_by_enter (exactly which events "
         "commit a non-empty buffer as a whole), auto_commit_take / auto_commit_prefix / auto_commit_prefix_of_display "
         "(the overflow loop, by induction over the interval list: least leading part of the conversion of the full buffer, "
         "symbols removed from the front), auto_commit_conserves / bounded_after_autocommit / key_auto_commit (character "
         "conservation and the bound, under the explicit tiling hypothesis on the engine), key_step_cases / "
         "no_phantom_commit / commit_has_text / commit_string_iff_result (every arm of all four states: the commit buffer "
         "is written only on paths that report commit), api_select / api_startSelecting / api_cancelSelecting / api_jump. "
         "Tie: per-step correspondence of the model with the real editor from its own pre-state, plus the property "
         "evaluated directly on the real editor (oracle_c02: display() before vs commit string after, least-prefix and "
         "conservation against the engine's recorded answer for the full buffer).",
    note="Trusted: Lean kernel (standard axioms), the read-only snapshot hook, harness + compiled model driver. The tiling "
         "hypothesis ConvTiles is C03's theorem; it is a premise here, shown satisfiable by a toy engine. F29 (commit "
         "string outliving its key) was a genuine defect, repaired by fix commit 1c4da4f.",
    technique="Lean 4 proof (induction over the interval list; case analysis over every arm of the key-event state machine); "
              "per-step model/implementation correspondence",
)
