"""C03 — check configuration (see tools/props.py for the keys)."""
from propslib import comp_scope

PROP = dict(
    extract=[],
    lean_targets=["Chewing.Props.C03"],
    runs=[dict(bin="conv")],
    scope=comp_scope("conv"),
    level="proof",
    exhaustive=False,
    rule="one evaluation = one call of ConversionEngine::convert (all alternatives, first 20 compared in order, plus the raw "
         "k-shortest-path picks) on a generated dictionary x composition, recomputed from scratch by the model from the "
         "dictionary answers in the record; streams: valid (inside the quantifier: oracle failures are new), invalidsel "
         "(F31, known; component tag convx, compared but outside the scope because outside the theorems' hypotheses), noword (outside the quantifier: F02 panic / F30 spelling must be predicted by the model), bigfreq "
         "(score overflow panics must be predicted). distinct = distinct record text. In addition (oracle only, no model records) "
         "seeded editor key histories (type syllables / symbols, move, delete, Tab, open list + choose, Esc, Enter; 3 engines; "
         "options varied): after every key Editor::intervals must tile Editor::len, one character per symbol, character symbols "
         "verbatim, Editor::display = concatenation (generator_stats ed.*)",
    trusted_base=["`slice::sort_unstable_by_key` returns some sorted permutation (the model takes the pick among equal-length "
                  "candidates from the implementation, exported by the guarded hook ChewingEngine::verif_k_paths, after checking "
                  "it is a candidate of minimal length); `sort_by` / `sort_by_key` are stable",
                  "the dictionary is abstract: the theorems hold for every lookup function; the correspondence feeds the model "
                  "the answers the real TrieBuf / Trie / Layered dictionaries gave (recorded by a transparent proxy)"],
    assumptions=["CompValid: |symbols| = |gaps|, selections non-empty, in range, text length = range length, over syllables "
                 "only, no Break inside, pairwise non-intersecting (known finding F31: the public Composition API does not "
                 "enforce it; refutation proved)",
                 "NoEmptyKey: the dictionary stores nothing under the empty key (F39)",
                 "WellFormed: every phrase has as many characters as its key has syllables (for the character-count theorems)",
                 "HasWord: every syllable has a one-syllable word (the property's quantifier; F02/F30 outside it are modelled)",
                 "debug profile (overflow checks on), as the harness is built"],
)

MANIFEST = dict(
    text="Lean 4 theorems (Chewing/Props/C03.lean) over an executable model of src/conversion/{chewing,simple,fuzzy}.rs with an "
         "abstract dictionary and a pick oracle for the one unspecified step (sort_unstable ties in find_k_paths): for every "
         "oracle, dictionary, strategy and valid composition every alternative of every engine tiles 0..len (chain from 0, "
         "contiguous, non-empty intervals, ends at len), has one character per symbol, shows non-syllable symbols verbatim at "
         "their position, the display is the positional concatenation, every text has a dictionary / selection / glue "
         "provenance; plus the conversion half of C04 (selection_shown, break_not_spanned); liveness: with a word per syllable a "
         "result exists (no unwrap panic, BFS complete, loops finish within the model's fuel, scores inside i32 under ScoreBound) "
         "and the fuel never runs out on any valid composition. Proved by induction over the code (BFS parent/closure "
         "invariants, root++spur chains, glue fold invariant, sorted-partition lemma for the simple engine). Tie: "
         "sampled correspondence on generated dictionaries x compositions x 3 engines with the oracle replaying the "
         "implementation's picks. Known finding F31 (API admits invalid selections) refuted/excluded by hypothesis.",
    note="Trusted: Lean kernel (axioms propext, Classical.choice, Quot.sound only), the harness, the compiled model driver, the "
         "add-only hook ChewingEngine::verif_k_paths, std sort semantics (stable sort_by; sort_unstable = some sorted permutation).",
    technique="Lean 4 proof (induction, loop invariants, fuel-sufficiency) over an executable model with abstract dictionary and "
              "pick oracle; sampled model/implementation correspondence with replayed picks",
)
