"""C03 — check configuration (see tools/props.py for the keys)."""
from propslib import comp_scope

PROP = dict(
    extract=[],
    lean_targets=["Chewing.Props.C03"],
    runs=[dict(bin="conv")],
    scope=comp_scope("conv"),
    level="proof",
    exhaustive=False,
    rule="one evaluation = one call of ConversionEngine::convert (all alternatives, first 20 compared in order, plus the raw "
         "k-shortest-path picks) on a generated dictionary x composition, recomputed from scratch by the model from the "
         "dictionary answers in the record; streams: valid (inside the quantifier: oracle failures are new), invalidsel "
         "(F31, known; component tag convx, compared but outside the scope because outside the theorems' hypotheses), noword (a "
         "syllable without a word or an ill-formed phrase: outside the quantifier of the one-character clause only; the oracle "
         "evaluates what holds for every dictionary — a result (any panic of any engine is new), tiling, verbatim non-syllables, "
         "selections kept whole, breaks not spanned, and the exact text shape: every interval text is made, across Glue gaps "
         "only, of exact-range selections, dictionary phrases for the covered syllables and fallback pieces = exactly "
         "Syllable::to_string() of one word-less unselected syllable; generator_stats noword.*), bigfreq "
         "(score overflow panics must be predicted). distinct = distinct record text. In addition (oracle only, no model records) "
         "seeded editor key histories (type syllables / symbols, move, delete, Tab, open list + choose, Esc, Enter; 3 engines; "
         "options varied): after every key Editor::intervals must tile Editor::len, one character per symbol, character symbols "
         "verbatim, Editor::display = concatenation (generator_stats ed.*)",
    trusted_base=["`slice::sort_unstable_by_key` returns some sorted permutation (the model takes the pick among equal-length "
                  "candidates from the implementation, exported by the guarded hook ChewingEngine::verif_k_paths, after checking "
                  "it is a candidate of minimal length); `sort_by` / `sort_by_key` are stable",
                  "the dictionary is abstract: the theorems hold for every lookup function; the correspondence feeds the model "
                  "the answers the real TrieBuf / Trie / Layered dictionaries gave (recorded by a transparent proxy)"],
    assumptions=["CompValid: |symbols| = |gaps|, selections non-empty, in range, text length = range length, over syllables "
                 "only, no Break inside, pairwise non-intersecting (known finding F31: the public Composition API does not "
                 "enforce it; refutation proved)",
                 "WellFormed: every phrase has as many characters as its key has syllables (for the character-count theorems)",
                 "HasWord: every syllable has a one-syllable word — the quantifier of the one-character clause ONLY "
                 "(one_char_per_symbol, display_is_concat, provenance, selection_shown); NOT a premise of tiling or liveness: "
                 "since the fix of F02/F03 all three engines show a word-less unselected syllable as its Bopomofo spelling "
                 "(F30), and the exact statement without HasWord is proved (text_shape / one_char_or_spelling / "
                 "provenance_general)",
                 "ScoreBound (liveness only): at most 128 symbols, frequencies up to 2^23; whether the EDITOR can ask for a longer conversion is settled in Props/C05Bound.lean (check C05): since fix b92f99b (FX3/FX4) every key history - either lookup strategy, every engine - and every history without list-closing API calls over the simple engine's over-full list converts at most B + max 2 K symbols inside a step (conversions_are_short: 39 + 2 with the documented limit and no long easy-symbol expansion), and every history of valid operations keeps len <= B + 1 (bounded_everywhere_full); before that fix buffers beyond 128 symbols WERE reachable by keys alone under prefix lookup (1500 keys gave 1499 symbols on the real C API, converted without a crash), so the bound is no longer a restriction of the liveness theorems",
                 "no premise on the empty key any more: find_best_phrase answers None for an empty range (F39 repaired at "
                 "the engine; empty_key_harmless)",
                 "debug profile (overflow checks on), as the harness is built"],
)

MANIFEST = dict(
    text="Lean 4 theorems (Chewing/Props/C03.lean) over an executable model of src/conversion/{chewing,simple,fuzzy}.rs with an "
         "abstract dictionary and a pick oracle for the one unspecified step (sort_unstable ties in find_k_paths). For every "
         "oracle, EVERY dictionary, strategy and valid composition: a result exists (nonempty_result: no unwrap panic — "
         "find_best_phrase falls back to the spelling of a word-less syllable, F02/F03 repaired —, no index underflow on an "
         "empty-key entry, F39 repaired, BFS complete, loops finish within the model's fuel, scores inside i32 under "
         "ScoreBound), every alternative of every engine tiles 0..len (chain from 0, contiguous, non-empty intervals, ends at "
         "len), shows non-syllable symbols verbatim as intervals of their own, spans no Break, keeps every selection inside one "
         "interval, and every text has a dictionary / selection / spelling / glue provenance (provenance_general). The "
         "one-character clause, exact (WellFormed dictionary): every interval text is one piece per symbol, each piece one "
         "character or the spelling of a word-less unselected syllable (text_shape); an interval without a Glue gap inside has "
         "length = range or is exactly that fallback interval (one_char_or_spelling); with a word per syllable (HasWord, the "
         "property's quantifier) one character per symbol, the display is the positional concatenation, selections are shown "
         "over their range (C04 half). F30 (the spelling is shown, 2-4 characters for one symbol) now concerns all three "
         "engines and is inside the theorems. Proved by induction over the code (BFS parent/closure invariants, root++spur "
         "chains, glue fold invariant, sorted-partition lemma for the simple engine). Tie: sampled correspondence on generated "
         "dictionaries x compositions x 3 engines with the oracle replaying the implementation's picks. Known finding F31 "
         "(API admits invalid selections) refuted/excluded by hypothesis.",
    note="Trusted: Lean kernel (axioms propext, Classical.choice, Quot.sound only), the harness, the compiled model driver, the "
         "add-only hook ChewingEngine::verif_k_paths, std sort semantics (stable sort_by; sort_unstable = some sorted permutation).",
    technique="Lean 4 proof (induction, loop invariants, fuel-sufficiency) over an executable model with abstract dictionary and "
              "pick oracle; sampled model/implementation correspondence with replayed picks",
)
