"""C04 (component level) — check configuration (see tools/props.py for the keys)."""
from propslib import comp_scope

PROP = dict(
    extract=[],
    lean_targets=["Chewing.Props.C04"],
    runs=[dict(bin="comp")],
    scope=comp_scope("comp", "cedi"),
    level="proof",
    exhaustive=False,
    rule="one evaluation = one call of a public method of the real Composition / CompositionEditor, recomputed by the "
         "model from the implementation's own pre-state (`comp` records; `cedi` = the inner composition after a "
         "CompositionEditor call; result selections compared as a sorted multiset); "
         "distinct = distinct record text; preconditions-violating calls are generated in separate sessions",
    trusted_base=["no kernel enumeration: all theorems are structural (simp/omega over lists)"],
    assumptions=["component level (DESIGN §12 stage A): Composition and CompositionEditor only; the lift through the "
                 "editor state machine and the conversion-engine obligations selection_shown / break_not_spanned are "
                 "later work packages",
                 "push_selection precondition ValidSelection (start < stop <= len); DESIGN F31: the public API accepts "
                 "invalid selections (refutation proved, compared against the model in separate sessions)",
                 "the to_remove + reverse swap_remove loop is modelled as a filter: order of `selections` not modelled",
                 "usize overflow of `start += 1` not modelled; `end -= n` underflow modelled for the overflow-checks profile"],
)

MANIFEST = dict(
    text="Lean 4 theorems (Chewing/Props/C04.lean) over an executable model of every public method of Composition "
         "(src/conversion/mod.rs) and CompositionEditor: the composition invariant (|symbols| = |gaps|, gap 0 = Begin, no "
         "other Begin, selections non-empty / in range / pairwise disjoint / one character per symbol) is preserved by every "
         "operation under ValidSelection (refuted without it); an exact characterisation of the selections after each "
         "operation gives selection_survives (a choice not edited inside is still present, shifted by the documented "
         "amount), push_replaces_only_overlapping, and the break-point frame (which operations can clear or create a break). "
         "Tie: per-step correspondence of the model with the real code from the implementation's pre-state on random, "
         "collision-biased operation sequences, plus a specification-level ledger oracle on the real code. Component "
         "level only: the engine obligations (selection_shown, break_not_spanned) and the lift to key histories are "
         "stated as remaining obligations.",
    note="Trusted: Lean kernel (axioms propext, Classical.choice, Quot.sound only), the harness and the compiled model "
         "driver, the guarded forwarding probe for the crate-private CompositionEditor.",
    technique="Lean 4 proof (invariants, list frame equations, induction over operation lists) over an executable model; "
              "sampled step-wise model/implementation correspondence; ledger oracle",
)
