"""C04 (component level + editor level) — check configuration (see tools/props.py for the keys)."""
from propslib import comp_scope

PROP = dict(
    extract=["editor"],
    lean_targets=["Chewing.Props.C04", "Chewing.Props.C04Editor"],
    runs=[dict(bin="comp"), dict(bin="editor"), dict(bin="conv")],
    scope=comp_scope("comp", "cedi", "ed", "conv"),
    level="proof",
    exhaustive=False,
    rule="one evaluation = one call of a public method of the real Composition / CompositionEditor, recomputed by the "
         "model from the implementation's own pre-state (`comp` records; `cedi` = the inner composition after a "
         "CompositionEditor call; result selections compared as a sorted multiset); "
         "distinct = distinct record text; preconditions-violating calls are generated in separate sessions. Editor level "
         "(`ed` records, run editor): one evaluation = one public operation of the real Editor in a generated history (keys in "
         "all four states, candidate / symbol choices, Tab break/glue, auto-commit, API calls, option / layout / engine "
         "changes), recomputed by the editor model from the implementation's own full pre-state and compared on the complete "
         "post-state; on every such step the ledger oracle oracle_c04.rs evaluates the property itself on the real editor "
         "(choices and break points carried from the pre- to the post-snapshot through the edit and the auto-commit, "
         "displayed / committed text over every choice, every conversion answer of the step against breaks and choices). "
         "Engine level (`conv` records, run conv, added in round 3 after the seeded change C04-spelling-fallback-before-forced-selection "
         "was missed): one evaluation = one conversion of a generated composition (breaks, glue, selections whose text IS and is NOT "
         "a dictionary word of the range) by the three real engines, recomputed by C03's engine model, with the C04 half of the "
         "oracle of conv.rs: every selection is shown with its own text over exactly its range in every alternative and no "
         "interval spans a break",
    trusted_base=["kernel evaluation (decide +kernel) only in the non-vacuity examples of Props/C04Editor.lean (concrete histories over "
                  "C03's engine model); all theorems are structural (simp/omega over lists, case analysis over the arms of the "
                  "state machine, induction over histories)",
                  "hook H1 (Editor::verif_snapshot, read-only) and the CompositionEditor forwarding probe"],
    assumptions=["component level (Props/C04.lean): Composition and CompositionEditor, every state and operation; push_selection "
                 "precondition ValidSelection (start < stop <= len); DESIGN F31: the public API accepts invalid selections "
                 "(refutation proved, compared against the model in separate sessions)",
                 "editor level (Props/C04Editor.lean, linked, audited with this property by tools/audit_axioms.py; Props/C04.lean "
                 "itself cannot import them: C01's proofs import it): stated for every environment satisfying C01's EnvOK, from every "
                 "state satisfying C01's invariant (EditorInv; a fresh editor does), along every history of valid operations "
                 "(AllowedW: at strength True outside C01's class Known)",
                 "'the user edits them' = opEdits / opTouches (decidable, pre-state and operation): over-approximations read off the "
                 "state machine arm by arm (a key of the default arm counts as typing whether or not the layout accepts it; Tab inside "
                 "counts as a break whether the code sets glue or break); the auto-commit is not a function of the key alone (it depends on "
                 "the conversion): a step either carries the choice or its auto-commit reached it (AutoCommitReaches), and then the choice "
                 "was committed whole with its text (choice_committed_by_autocommit)",
                 "the 'shown' / 'committed' / 'not spanned' clauses (choice_shown, choice_displayed, choice_shown_along, "
                 "choice_committed_by_autocommit, break_not_spanned_editor, break_respected_along) are for the environment whose engine IS "
                 "C03's model (Link.EngineIsC03: buffers of at most 128 symbols without an empty spelling) and, for the text clauses, states "
                 "in which every buffered syllable has a word (C01's invariant at strength True: one character per symbol); the survival "
                 "clauses (selection_survives_op, choice_persists_along, break_survives_op, break_persists_along) need neither",
                 "Carried / BreakCarried identify 'the same choice / break' by text, kind, length and the symbols under it (the symbol "
                 "behind the break): positions are existential because the shift depends on what the environment answered",
                 "the to_remove + reverse swap_remove loop is modelled as a filter: order of `selections` not modelled",
                 "usize overflow of `start += 1` not modelled; `end -= n` underflow modelled for the overflow-checks profile",
                 "editor oracle (oracle_c04.rs): steps with a word-less syllable in the buffer are skipped (one character per symbol is "
                 "needed to read the commit string: stat c04_skipped_no_word); a candidate chosen for a range that STARTS at a user break is "
                 "rare in the generated histories of the quick tier (stat c04_choice_starting_at_break; thorough: 20-26 per run); counters "
                 "are printed at session boundaries and every 256th step (the last partial block is not counted)"],
)

MANIFEST = dict(
    text="Lean 4 theorems (Chewing/Props/C04.lean, Chewing/Props/C04Editor.lean). Component level, over an executable model of every "
         "public method of Composition (src/conversion/mod.rs) and CompositionEditor: the composition invariant (|symbols| = |gaps|, gap 0 = "
         "Begin, no other Begin, selections non-empty / in range / pairwise disjoint / one character per symbol) is preserved by every "
         "operation under ValidSelection (refuted without it); an exact characterisation of the selections after each operation gives "
         "selection_survives (a choice not edited inside is still present, shifted by the documented amount), "
         "push_replaces_only_overlapping, and the break-point frame (which operations can clear or create a break). Editor level (round 2, "
         "linked to C01 / C03 / C05), over the editor state-machine model - every key in all four states, every other public operation, "
         "every environment: each operation makes ONE edit of a kind listed by opKinds (decidable, from the pre-state and the key: "
         "Backspace / Delete, typing at the cursor, Tab glue / break, clear by Enter / commit / Esc, a candidate chosen for begin..end, a "
         "symbol replaced; everything else - cursor keys, opening / paging / cancelling lists, mode toggles, next alternative, learning, "
         "option / layout / engine / dictionary calls, jumps - nothing) followed by at most one auto-commit (apply_shape, proved arm by "
         "arm); selection_survives_op / selection_survives_key: a choice the operation does not edit inside (opEdits) is carried into the "
         "post-state - same text and kind, over the same symbols, shifted - unless the auto-commit reached it, in which case it was "
         "committed whole and with its chosen text (choice_committed_by_autocommit); choice_persists_along: along every history a choice is "
         "carried to the end or some step edited it; choice_shown / choice_displayed / choice_shown_along: the pre-edit text displayed over "
         "the range is the chosen text (C03.selection_shown through Link.EngineIsC03 and C01's invariant); break_survives_op, "
         "break_persists_along, break_not_spanned_editor, break_respected_along: a break stays (before the same symbol) until a step touches "
         "that gap (opTouches) and no interval of any alternative spans it. Tie: per-step correspondence of both models with the real code "
         "from the implementation's own pre-state (Composition / CompositionEditor calls on collision-biased sequences; every operation of "
         "generated editor histories), a specification-level ledger oracle on the real Composition, and oracle_c04.rs: the property "
         "evaluated on the real Editor after every step (choices and breaks of the pre-snapshot carried through the edit and the "
         "auto-commit, displayed and committed text over every choice, every conversion answer of the step against breaks and choices).",
    note="Trusted: Lean kernel (axioms propext, Classical.choice, Quot.sound only), the harness and the compiled model driver, the read-only "
         "snapshot hook and the guarded forwarding probe for the crate-private CompositionEditor. The text clauses at the editor level are "
         "for the environment whose engine is C03's model (Link.EngineIsC03) in states where every buffered syllable has a word; the "
         "positions of a carried choice / break are existential (Carried / BreakCarried pin them by the symbols underneath).",
    technique="Lean 4 proof (invariants, list frame equations, case analysis over the modelled key-event state machine, induction over "
              "operation lists and editor histories) over executable models; sampled step-wise model/implementation correspondence; "
              "ledger oracles on the real Composition and the real Editor",
)
