"""C05 (component level) — check configuration (see tools/props.py for the keys)."""
from propslib import comp_scope

PROP = dict(
    extract=[],
    lean_targets=["Chewing.Props.C05"],
    runs=[dict(bin="comp")],
    scope=comp_scope("cedc"),
    level="proof",
    exhaustive=False,
    rule="one evaluation = one call of a method of the real CompositionEditor (through the guarded forwarding probe), "
         "recomputed by the model from the implementation's own full pre-state and compared on cursor, cursor stack and "
         "symbols (`cedc` records; the inner composition is compared under C04 as `cedi`); "
         "distinct = distinct record text",
    trusted_base=["no kernel enumeration: all theorems are structural (simp/omega over lists)"],
    assumptions=["component level (DESIGN §12 stage A): CompositionEditor only; the per-key lift "
                 "(syllable_commit_inserts_one, bounded_after_key, easy_symbol_expansion) needs the editor model (later work)",
                 "remove_after_cursor / replace at the end of the buffer and remove_front(n > len) hit an assert: the "
                 "editor must guard them (precondition, compared against the model in separate sessions)"],
)

MANIFEST = dict(
    text="Lean 4 theorems (Chewing/Props/C05.lean) over an executable model of every method of CompositionEditor "
         "(src/editor/composition_editor.rs): cursor <= len is an invariant of every operation sequence (induction over "
         "operation lists, including pop_cursor clamping and remove_front saturation, no precondition on selections); "
         "insert puts exactly one symbol at the cursor and advances it; Backspace/Delete remove exactly the symbol "
         "before/at the cursor; Left/Right/Home/End/move_cursor/push/pop/clamp change only the cursor; push…pop restores the "
         "saved cursor clamped to the new length; remove_front drops a prefix and saturates the cursor. Tie: per-step "
         "correspondence with the real code from the implementation's pre-state, plus a shadow list/cursor oracle. "
         "Component level only: per-key lift and bounded_after_key are later work.",
    note="Trusted: Lean kernel (axioms propext, Classical.choice, Quot.sound only), the harness and the compiled model "
         "driver, the guarded forwarding probe for the crate-private CompositionEditor.",
    technique="Lean 4 proof (invariant by induction over operation lists, list frame equations) over an executable model; "
              "sampled step-wise model/implementation correspondence; shadow-list oracle",
)
