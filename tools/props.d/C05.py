"""C05 — editing keys act exactly at the cursor and the buffer stays bounded (component + editor level)."""
from propslib import comp_scope

PROP = dict(
    extract=["editor"],
    lean_targets=["Chewing.Props.C05", "Chewing.Props.C05Bound"],
    runs=[dict(bin="comp"), dict(bin="editor"),
          dict(bin="editor", args=["--bfs", "all"], tag="editor-bfs", timeout=1500, timeout_thorough=20000),
          dict(bin="editor", args=["--script", "c05"], tag="editor-c05-overshoot"),
          dict(bin="capi_props", tag="capi_props", args=["--histories", "300", "--calls", "40"], args_thorough=["--histories", "6000", "--calls", "40"])],
    scope=comp_scope("cedc", "ed"),
    level="proof",
    exhaustive=False,
    rule="one evaluation = one call of a method of the real CompositionEditor (`cedc` records, through the guarded "
         "forwarding probe) or one public operation of the real Editor (`ed` records: keys in all four states, API calls, "
         "option/layout/engine changes; generated histories, plus scripted histories (run editor-c05-overshoot) in which one "
         "step overshoots auto_commit_threshold by two or more: a two-character easy-symbol expansion at a full buffer, the "
         "limit lowered by >= 2 in mid-composition followed by editing keys; an editing sweep over every cursor position; and "
         "candidate lists open under a mode / option change - CapsLock, Shift-Space, set_editor_options with the language mode "
         "(= chewing_set_ChiEngMode) or the character form changed - followed by every later site that restores a saved "
         "cursor: symbol-table insert, Esc from another list, a choice, cancel_selecting; FX3: fuzzy engine + N x the same initial key beyond "
         "the limit; FX4: simple engine + (syllable, cancel_selecting) cycles beyond the limit), recomputed by the model from the implementation's own full "
         "pre-state and compared on the complete post-state; distinct = distinct record text Run editor-bfs (round 3, `editor --bfs all`): breadth-first exploration of the REAL editor on small closed configurations, one `ed` record per (reachable state, operation of the alphabet) with this property's oracle evaluated on every step; the configurations that closed are exhaustive ties (coverage.exhaustive_closed_worlds; Props/EditorTie.lean lifts them to every operation list over the alphabet), the others a breadth-first sample.",
    trusted_base=["no kernel enumeration: all theorems are structural (induction over operation lists / histories, case "
                  "analysis over the arms of the state machine, simp/omega over lists)",
                  "hook H1 (Editor::verif_snapshot, read-only) and the CompositionEditor forwarding probe"],
    assumptions=["the per-key frame theorems are stated on `dispatch` (the state's `next` + behaviour bookkeeping), i.e. BEFORE "
                 "the auto-commit tail of process_keyevent; the tail only removes a prefix (tail_com / bounded_after_key)",
                 "bounded_after_key assumes that the conversion answer tiles the buffer (TilesLen: that is C03's theorem "
                 "about the real engines); without it the loop can run out of intervals; the *_at versions need it only at the "
                 "state the auto-commit converts (TilingAt), and C18.bounded_after_key_linked / C18.buffer_bounded_along (audited "
                 "by check C18; this module cannot import C01, whose proofs import it) have no tiling premise: C01's EnvOK and "
                 "reachable-state invariant instead",
                 "remove_after_cursor / replace at the end of the buffer and remove_front(n > len) hit an assert: the "
                 "editor guards them (delete_key, bounded_after_key show the guards)"],
)

MANIFEST = dict(
    text="Lean 4 theorems (Chewing/Props/C05.lean). Component level, over an executable model of every method of "
         "CompositionEditor: cursor <= len is an invariant of every operation sequence (induction, no precondition); insert "
         "puts exactly one symbol at the cursor and advances it; Backspace/Delete remove exactly the symbol before/at the "
         "cursor; the cursor moves and push/pop/clamp change only the cursor; remove_front drops a prefix and saturates. "
         "Editor level, over the editor state-machine model (all four states, every arm, every environment): the editor "
         "touches its pre-edit buffer only through CompositionEditor methods (Reach), hence cursor <= len after every public "
         "operation and every history (cursor_le_len_editor); per-key theorems backspace_key, delete_key, move_key, "
         "symbol_key_inserts_at_cursor, easy_symbol_expansion, syllable_commit_inserts_one (a completed syllable with a word "
         "is inserted exactly at the cursor, cursor + 1, nothing else moves), and the bound: tryAutoCommit_bound (the auto-commit "
         "loop re-establishes len <= auto_commit_threshold, removing only a prefix), bounded_after_absorb (every absorbed key that "
         "ends in Entering, from any state), bounded_after_key / bounded_after_key_syllable (every key handled in Entering / "
         "EnteringSyllable that answers Absorb or Commit) under the hypothesis that the conversion tiles the buffer; linked (round 2): "
         "tryAutoCommit_bound_at / tryAutoCommit_total_at / bounded_after_key_at take the hypothesis only at the converted state "
         "(TilingAt), which Proofs/EditorLink.lean derives from C01's invariant (tilingAt_of_shInv, dispatch_shInv: the state a "
         "key's state-machine part leaves satisfies it in all four states), giving Link.bounded_after_key_linked / "
         "tryAutoCommit_total_linked and, in Props/C18.lean, bounded_after_key_linked and buffer_bounded_along (len <= threshold "
         "in Entering is an invariant of every key history) with no tiling premise. GLOBAL bound (round 2, Chewing/Props/C05Bound.lean + Proofs/EditorLinkBound{,2,3}.lean, "
         "audited with this property): the statement 'from a fresh editor, whatever the valid operations, the buffer never holds more "
         "than the largest configured limit plus one symbol' was REFUTED on the model and on the real C API two ways (FX3: keys alone "
         "under prefix lookup = fuzzy engine - EnteringSyllable's Fuzzy arm inserts the pending partial syllable and stays in "
         "EnteringSyllable, where process_keyevent never ran try_auto_commit: 200 x 'h' gave chewing_buffer_Len 199 at limit 39; FX4: "
         "cancel_selecting / chewing_cand_close returns to Entering without try_auto_commit and the next syllable key went Entering -> "
         "EnteringSyllable without it: with the simple engine 100 cycles 'type a syllable, close the list' gave 100 symbols) and REPAIRED "
         "by fix b92f99b (try_auto_commit after every key / select answered Absorb that ends in Entering OR EnteringSyllable). On the "
         "repaired code it is PROVED: bounded_everywhere_full / buffer_bounded_all_operations - for every environment satisfying C01's "
         "EnvOK (every layout model, both lookup strategies, all three engines), from a fresh editor, thresholds <= B (initially and in "
         "every set_editor_options), EVERY history of valid operations (all keys in all four states and every API call, no side "
         "condition) returns, and in the state reached len <= B + 1, len <= B while a syllable is being entered; "
         "buffer_bounded_everywhere / buffer_bounded_keys (no 'never answers Fuzzy' / exact-lookup hypothesis any more): len <= B in "
         "Entering, EnteringSyllable and Highlighting, <= B + 1 while a candidate list is open (attained: bound_plus_one_attained), for "
         "every key history without any side condition and for histories whose list-closing API calls are not made over the simple "
         "engine's over-full one-word list (SafeAlong); the old witness histories stay within the bound (fuzzy_history_repaired, "
         "fuzzy_keys_bounded, cancel_cycle_repaired, cancel_then_key_within). What remains false is recorded: "
         "bounded_editing_full_refuted / cancel_leaves_one_over_refuted - right after the API call cancel_selecting (no key handled) "
         "Entering holds limit + 1 symbols until the next key. B is the largest threshold of the history because lowering the limit "
         "leaves the longer buffer until the next absorbed key; inside a step, where the conversion runs, at most B + max 2 K symbols, K = longest "
         "easy-symbol expansion of the editor's table (conversions_are_short). Tie: per-step correspondence "
         "of both models with the real code from the implementation's own pre-state, plus a shadow list/cursor oracle "
         "written from the property text evaluated on every step of the real editor (the bound after EVERY key answered Absorb or "
         "Commit in whatever state it ends: <= the limit in force in Entering / EnteringSyllable, <= the largest limit since the last "
         "auto-commit opportunity + 1 under a list or highlight; also after select; stats c05_bound_*, c05_fuzzy_insertions_*, "
         "c05_script_sessions_*; with fix b92f99b reverted: VIOLATION with the key history, 1338 verdicts in the quick tier), including a shadow FRAME per open "
         "candidate list kept across steps (a list left without choosing, however it is closed, gives back the buffer and the "
         "cursor of the moment it was opened; a symbol chosen from the backquote symbol table goes in exactly at that cursor "
         "and the cursor advances by one; a chosen phrase moves no symbol and restores the cursor, one further with "
         "auto_shift_cursor; a replacing symbol changes one position) - a saved cursor that is never restored (seeded change: "
         "CapsLock closing the list without cancel_selecting) is reported with the key history (stats c05_list_frames_*, "
         "c05_after_list_closed_by_or_under_mode_change_*). "
         "C API (round 2, run capi_props): generated key/API histories (every chewing_handle_* handler incl. Default with all printable characters and non-characters, chewing_cand_*, option setters, buffer calls; three kinds of data directory) are driven through a C context and in lock-step through a twin chewing::editor::Editor built over the same data; after every call every C getter is compared with the twin's Rust getter (by-design differences modelled one by one: static vs heap strings, stateful Enumerate iterators, legacy zuin_*, chewing_ack) and this property's statement is evaluated on the C observations before/after the call; a difference or a failing statement is an oracle verdict with the history (FX2: the handlers narrowed the int key with `as u8`, repaired by fix a8c8390).",
    note="Trusted: Lean kernel (axioms propext, Classical.choice, Quot.sound only), the harness and the compiled model "
         "driver, the read-only snapshot hook and the guarded forwarding probe for the crate-private CompositionEditor. "
         "bounded_after_key is conditional on the conversion answer tiling the buffer (C03); the linked form "
         "(C18.bounded_after_key_linked, via Proofs/EditorLink.lean) replaces that by C01's EnvOK + reachable-state invariant. The global bound (Props/C05Bound.lean) holds on the code repaired by fix b92f99b (FX3/FX4) "
         "for every layout, lookup strategy and engine and every history of valid operations (len <= B + 1; <= B after every handled "
         "key that ends in an editing state); between the API call cancel_selecting and the next key Entering may hold limit + 1 "
         "symbols (recorded refutation of the sharper statement).",
    technique="Lean 4 proof (invariants by induction over operation lists and editor histories, case analysis over the "
              "modelled key-event state machine, list frame equations) over executable models; sampled step-wise "
              "model/implementation correspondence; shadow-list oracle",
)
