"""C05 — editing keys act exactly at the cursor and the buffer stays bounded (component + editor level)."""
from propslib import comp_scope

PROP = dict(
    extract=["editor"],
    lean_targets=["Chewing.Props.C05", "Chewing.Props.C05Bound"],
    runs=[dict(bin="comp"), dict(bin="editor"),
          dict(bin="editor", args=["--script", "c05"], tag="editor-c05-overshoot"),
          dict(bin="capi_props", tag="capi_props", args=["--histories", "300", "--calls", "40"], args_thorough=["--histories", "6000", "--calls", "40"])],
    scope=comp_scope("cedc", "ed"),
    level="proof",
    exhaustive=False,
    rule="one evaluation = one call of a method of the real CompositionEditor (`cedc` records, through the guarded "
         "forwarding probe) or one public operation of the real Editor (`ed` records: keys in all four states, API calls, "
         "option/layout/engine changes; generated histories, plus scripted histories (run editor-c05-overshoot) in which one "
         "step overshoots auto_commit_threshold by two or more: a two-character easy-symbol expansion at a full buffer, the "
         "limit lowered by >= 2 in mid-composition followed by editing keys; an editing sweep over every cursor position; and "
         "candidate lists open under a mode / option change - CapsLock, Shift-Space, set_editor_options with the language mode "
         "(= chewing_set_ChiEngMode) or the character form changed - followed by every later site that restores a saved "
         "cursor: symbol-table insert, Esc from another list, a choice, cancel_selecting), recomputed by the model from the implementation's own full "
         "pre-state and compared on the complete post-state; distinct = distinct record text",
    trusted_base=["no kernel enumeration: all theorems are structural (induction over operation lists / histories, case "
                  "analysis over the arms of the state machine, simp/omega over lists)",
                  "hook H1 (Editor::verif_snapshot, read-only) and the CompositionEditor forwarding probe"],
    assumptions=["the per-key frame theorems are stated on `dispatch` (the state's `next` + behaviour bookkeeping), i.e. BEFORE "
                 "the auto-commit tail of process_keyevent; the tail only removes a prefix (tail_com / bounded_after_key)",
                 "bounded_after_key assumes that the conversion answer tiles the buffer (TilesLen: that is C03's theorem "
                 "about the real engines); without it the loop can run out of intervals; the *_at versions need it only at the "
                 "state the auto-commit converts (TilingAt), and C18.bounded_after_key_linked / C18.buffer_bounded_along (audited "
                 "by check C18; this module cannot import C01, whose proofs import it) have no tiling premise: C01's EnvOK and "
                 "reachable-state invariant instead",
                 "remove_after_cursor / replace at the end of the buffer and remove_front(n > len) hit an assert: the "
                 "editor guards them (delete_key, bounded_after_key show the guards)"],
)

MANIFEST = dict(
    text="Lean 4 theorems (Chewing/Props/C05.lean). Component level, over an executable model of every method of "
         "CompositionEditor: cursor <= len is an invariant of every operation sequence (induction, no precondition); insert "
         "puts exactly one symbol at the cursor and advances it; Backspace/Delete remove exactly the symbol before/at the "
         "cursor; the cursor moves and push/pop/clamp change only the cursor; remove_front drops a prefix and saturates. "
         "Editor level, over the editor state-machine model (all four states, every arm, every environment): the editor "
         "touches its pre-edit buffer only through CompositionEditor methods (Reach), hence cursor <= len after every public "
         "operation and every history (cursor_le_len_editor); per-key theorems backspace_key, delete_key, move_key, "
         "symbol_key_inserts_at_cursor, easy_symbol_expansion, syllable_commit_inserts_one (a completed syllable with a word "
         "is inserted exactly at the cursor, cursor + 1, nothing else moves), and the bound: tryAutoCommit_bound (the auto-commit "
         "loop re-establishes len <= auto_commit_threshold, removing only a prefix), bounded_after_absorb (every absorbed key that "
         "ends in Entering, from any state), bounded_after_key / bounded_after_key_syllable (every key handled in Entering / "
         "EnteringSyllable that answers Absorb or Commit) under the hypothesis that the conversion tiles the buffer; linked (round 2): "
         "tryAutoCommit_bound_at / tryAutoCommit_total_at / bounded_after_key_at take the hypothesis only at the converted state "
         "(TilingAt), which Proofs/EditorLink.lean derives from C01's invariant (tilingAt_of_shInv, dispatch_shInv: the state a "
         "key's state-machine part leaves satisfies it in all four states), giving Link.bounded_after_key_linked / "
         "tryAutoCommit_total_linked and, in Props/C18.lean, bounded_after_key_linked and buffer_bounded_along (len <= threshold "
         "in Entering is an invariant of every key history) with no tiling premise. GLOBAL bound (round 2, Chewing/Props/C05Bound.lean, "
         "audited with this property): the unrestricted statement 'the buffer never holds more than the largest configured limit plus "
         "one' is REFUTED on the model and confirmed on the real C API two ways - fuzzy_unbounded_refuted (keys alone under prefix lookup "
         "= fuzzy engine: EnteringSyllable's Fuzzy arm inserts the pending partial syllable and stays in EnteringSyllable, where "
         "process_keyevent never runs try_auto_commit: 200 x 'h' gives chewing_buffer_Len 199 at limit 39) and cancel_unbounded_refuted "
         "(cancel_selecting / chewing_cand_close, also revalidate_selecting closing an emptied list, returns to Entering without "
         "try_auto_commit; with the simple engine each cycle 'type a syllable, close the list' adds a symbol: 100 cycles give 100) - "
         "and buffer_bounded_everywhere proves the rest: for every environment satisfying C01's EnvOK whose layout never answers Fuzzy "
         "to key_press, from a fresh editor with exact lookup, thresholds <= B (initially and in every set_editor_options), every "
         "history of valid operations - ALL keys in all four states, select, start_selecting, commit, clear, jump_*, engine change; "
         "cancel_selecting and the option / layout / learn / unlearn calls when the open list is not the simple engine's over-full "
         "one-word list (SafeAlong) - returns, and in the state reached, of whichever kind, len <= B, <= B + 1 while a candidate list "
         "is open (attained: bound_plus_one_attained); B is the largest threshold of the history because lowering the limit leaves the "
         "longer buffer until the next absorbed key; inside a step, where the conversion runs, at most B + max 2 K symbols, K = longest "
         "easy-symbol expansion of the editor's table (conversions_are_short). Tie: per-step correspondence "
         "of both models with the real code from the implementation's own pre-state, plus a shadow list/cursor oracle "
         "written from the property text evaluated on every step of the real editor, including a shadow FRAME per open "
         "candidate list kept across steps (a list left without choosing, however it is closed, gives back the buffer and the "
         "cursor of the moment it was opened; a symbol chosen from the backquote symbol table goes in exactly at that cursor "
         "and the cursor advances by one; a chosen phrase moves no symbol and restores the cursor, one further with "
         "auto_shift_cursor; a replacing symbol changes one position) - a saved cursor that is never restored (seeded change: "
         "CapsLock closing the list without cancel_selecting) is reported with the key history (stats c05_list_frames_*, "
         "c05_after_list_closed_by_or_under_mode_change_*). "
         "C API (round 2, run capi_props): generated key/API histories (every chewing_handle_* handler incl. Default with all printable characters and non-characters, chewing_cand_*, option setters, buffer calls; three kinds of data directory) are driven through a C context and in lock-step through a twin chewing::editor::Editor built over the same data; after every call every C getter is compared with the twin's Rust getter (by-design differences modelled one by one: static vs heap strings, stateful Enumerate iterators, legacy zuin_*, chewing_ack) and this property's statement is evaluated on the C observations before/after the call; a difference or a failing statement is an oracle verdict with the history (FX2: the handlers narrowed the int key with `as u8`, repaired by fix a8c8390).",
    note="Trusted: Lean kernel (axioms propext, Classical.choice, Quot.sound only), the harness and the compiled model "
         "driver, the read-only snapshot hook and the guarded forwarding probe for the crate-private CompositionEditor. "
         "bounded_after_key is conditional on the conversion answer tiling the buffer (C03); the linked form "
         "(C18.bounded_after_key_linked, via Proofs/EditorLink.lean) replaces that by C01's EnvOK + reachable-state invariant. The global bound (Props/C05Bound.lean) holds for exact lookup and "
         "without list-closing API calls over the simple engine's over-full list only: under prefix lookup (fuzzy engine) and through "
         "cancel_selecting the real buffer grows without bound (recorded as refutations with concrete histories; not repaired, not a "
         "known-class of this check's oracle, which evaluates the bound after keys that end in Entering).",
    technique="Lean 4 proof (invariants by induction over operation lists and editor histories, case analysis over the "
              "modelled key-event state machine, list frame equations) over executable models; sampled step-wise "
              "model/implementation correspondence; shadow-list oracle",
)
