"""C06 — pass-through when idle; key results are truthful."""
from propslib import fn_scope

PROP = dict(
    extract=["editor"],
    lean_targets=["Chewing.Props.C06"],
    runs=[dict(bin="editor"),
          dict(bin="capi_props", tag="capi_props", args=["--histories", "300", "--calls", "40"], args_thorough=["--histories", "6000", "--calls", "40"])],
    scope=fn_scope("ed key"),
    level="proof",
    exhaustive=False,
    rule="one evaluation = one key step of the real editor (generated histories: weighted grammar + a uniform stream over "
         "all 63 key codes x 16 modifier sets, option/layout/engine changes and API calls in between), recomputed by the model "
         "from the implementation's own complete pre-state; distinct = distinct record text",
    trusted_base=["hook H1 (Editor::verif_snapshot) is read-only; the layout and conversion answers of each step are recorded "
                  "through wrapper objects installed through the public constructors"],
    assumptions=["'nothing is being composed' = state Entering with an empty pre-edit; an open candidate list or highlight "
                 "counts as composing",
                 "theorems hold for every environment (dictionary, layout, engine); they are about the editor's control flow"],
)

MANIFEST = dict(
    text="Lean 4 theorems (Chewing/Props/C06.lean) over the executable editor state-machine model (Model/Editor.lean, all four "
         "states and every arm of process_keyevent): ignore_frame / ignore_persistent (an ignored key leaves state, "
         "composition editor, phonetic buffer, options, engine and chosen alternative exactly as before and commits nothing), "
         "bell_frame (pre-edit and cursor untouched), idle_passthrough (the 13 named keys are ignored from the idle state for "
         "all modifiers and options), result_exclusive — for every environment, by case analysis over all arms. Tie: per-step "
         "correspondence of the model with the real editor from its own pre-state (hook H1), plus the property evaluated "
         "directly on the real editor (oracle). F29 and F37 were genuine defects, repaired by fix: commits. C API (round 2, run capi_props): generated key/API histories (every chewing_handle_* handler incl. Default with all printable characters and non-characters, chewing_cand_*, option setters, buffer calls; three kinds of data directory) are driven through a C context and in lock-step through a twin chewing::editor::Editor built over the same data; after every call every C getter is compared with the twin's Rust getter (by-design differences modelled one by one: static vs heap strings, stateful Enumerate iterators, legacy zuin_*, chewing_ack) and this property's statement is evaluated on the C observations before/after the call; a difference or a failing statement is an oracle verdict with the history (FX2: the handlers narrowed the int key with `as u8`, repaired by fix a8c8390).",
    note="Trusted: Lean kernel (standard axioms), the read-only snapshot hook, harness + compiled model driver. The C getters "
         "(chewing_keystroke_CheckIgnore/CheckAbsorb, chewing_commit_Check, chewing_bopomofo_Check ...) and the key mapping of "
         "the chewing_handle_* handlers are tied to the editor by the capi_props run (sampled comparison with a lock-step twin "
         "editor, not proved).",
    technique="Lean 4 proof by exhaustive case analysis over the modelled key-event state machine; per-step model/implementation correspondence",
)
