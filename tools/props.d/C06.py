"""C06 — pass-through when idle; key results are truthful."""
from propslib import fn_scope

PROP = dict(
    extract=["editor", "capi_keys"],
    lean_targets=["Chewing.Props.C06", "Chewing.Props.C06Layouts", "Chewing.Props.C06CApi", "Chewing.Props.C06EditorTie"],
    runs=[dict(bin="editor"), dict(bin="editor", args=["--script", "c06"], tag="editor-c06-sweep"),
          # closed-world BFS of the real editor (bfs.rs): one record per (reachable state, operation); the configurations that
          # CLOSED are listed in the evidence (coverage.exhaustive_closed_worlds) - for those the tie is exhaustive (EditorTie.lean)
          dict(bin="editor", args=["--bfs", "all"], tag="editor-bfs", timeout=1500, timeout_thorough=20000),
          dict(bin="capi_props", tag="capi_props", args=["--histories", "300", "--calls", "40"], args_thorough=["--histories", "6000", "--calls", "40"])],
    scope=fn_scope("ed key", "capiops call"),
    level="proof",
    exhaustive=False,
    rule="one evaluation = one key step of the real editor (generated histories: weighted grammar + a uniform stream over "
         "all 63 key codes x 16 modifier sets, option/layout/engine changes and API calls in between), recomputed by the model "
         "from the implementation's own complete pre-state. Finite sweep (run editor-c06-sweep, `editor --script c06`): every one "
         "of the 63 key codes x modifier sets (quick: none, Shift, Ctrl, CapsLock, NumLock; thorough: all 16) is sent ONCE, each "
         "probe from a freshly built editor that replays the scenario, from every kind of situation: every kind of open list "
         "(phrase list at three cursor positions, forward / rearward choice, 2nd / 3rd range, Space as selection key, simple-engine "
         "list, after j / k; symbol-category table opened by backquote / Ctrl-1 / Ctrl-0 on an EMPTY and on a NON-EMPTY buffer; a "
         "category's member list; the symbol table standing in for a symbol without alternatives (action Replace) and its member "
         "list; special-symbol lists) with page size 2 and the default 10 (thorough: 1, 2, 10) on page 0, 1, (2,) and the last "
         "page, plus Entering (empty, English, non-empty at three cursor positions, a later conversion alternative chosen), "
         "EnteringSyllable (empty / non-empty buffer) and Highlighting; #stat c06_probes.* count probes per (state / list kind, page "
         "position) and per answer, c06_ignored_with_page_gt0 / _with_empty_buffer(_and_open_list) the ignored probes that matter "
         "most; c06_bell_steps (+ .list_open / .with_notification / .entering / .entering_syllable) the steps answered with a bell on "
         "which the full bell oracle ran. distinct = distinct record text. Records `capiops call` (run capi_props): one evaluation = one C call of "
         "the glue model (chewing_handle_*, chewing_cand_open / close / choose_by_index / list_*, commit_preedit_buf, clean_*_buf, ack, "
         "Reset) of a generated C-API history: the Lean model of capi/src/io.rs recomputes, from the facts the glue reads (is_selecting, "
         "is_entering, keyboard type, selection keys), the Editor call the harness twin made (the complete KeyEvent or the API method) and "
         "the value the REAL C function returned; #stat glue_records, glue_records_selection_key_under_open_list, "
         "glue_records_key_outside_a_byte. "
         "Run editor-bfs (`editor --bfs all`, bfs.rs): breadth-first exploration of the REAL editor on small closed configurations (engine x auto_commit_threshold x option profile x alphabet over one tiny dictionary, auto-learning off), one `ed` record per (reachable state, operation of the alphabet), state identity = full snapshot + dictionary with only the estimator clock normalised; #stat bfs.<config>.closed / states / transitions / max_depth / states_<kind> / answers_<kind>; the configurations that closed are exhaustive ties (coverage.exhaustive_closed_worlds; Props/EditorTie.lean lifts them to every operation list over the alphabet), the others a breadth-first sample",
    trusted_base=["hook H1 (Editor::verif_snapshot) is read-only; the layout and conversion answers of each step are recorded "
                  "through wrapper objects installed through the public constructors"],
    assumptions=["'nothing is being composed' = state Entering with an empty pre-edit; an open candidate list or highlight "
                 "counts as composing",
                 "theorems hold for every environment (dictionary, layout, engine); they are about the editor's control flow",
                 "phonetic buffer after a bell: a property of the layout (LayoutQuietAt: no state change on a rejected key), "
                 "premise of bell_keeps_phonetic; sampled on the shipped layouts by the oracle, not proved of them"],
)

MANIFEST = dict(
    text="Lean 4 theorems (Chewing/Props/C06.lean) over the executable editor state-machine model (Model/Editor.lean, all four "
         "states and every arm of process_keyevent): ignore_frame / ignore_persistent (an ignored key leaves state, "
         "composition editor, phonetic buffer, options, engine and chosen alternative exactly as before and commits nothing), "
         "bell_frame (pre-edit and cursor untouched) and, user-visible, bell_keeps_display (below), idle_passthrough (the 13 named keys are ignored from the idle state for "
         "all modifiers and options), result_exclusive — for every environment, by case analysis over all arms. ignore_frame is "
         "about the WHOLE state value (for an open list: page number, action and the selector itself — phrase range, direction, "
         "strategy, its copy of the buffer; symbol sub-menu; special symbol) and the whole shared state except the volatile fields "
         "named below; spelled out by ignore_keeps_open_list (same page, action, selector), ignore_keeps_list_closed (no list is "
         "opened) and ignore_keeps_candidates (current_page_no, all_candidates, paginated_candidates, total_page and the C-level "
         "CurrentPage / ChoicePerPage / TotalChoice / TotalPage / Enumerate of Model/Candidates.lean answer exactly as before, for "
         "every environment; only when a dictionary flush is pending — no key leaves one behind — the flush must not change lookup "
         "answers: FlushNeutralAt, C09/C10's subject), with the witness ignored_j_on_second_page (symbol table opened on an empty "
         "buffer, paged to page 1 of 3: j and k are ignored and the list stays on page 1). Tie: per-step "
         "correspondence of the model with the real editor from its own pre-state (hook H1), plus the property evaluated "
         "directly on the real editor (oracle) on every step of the generated histories and of the finite key sweep. The oracle's "
         "'nothing observable changes' for an ignored key = snapshot sections state (state kind; page, action, selector kind, range "
         "/ sub-menu / symbol of an open list), composition editor (cursor, saved cursors, symbols, gaps, selections), phonetic "
         "buffer, engine + symbol tables, all 14 options, the chosen alternative, the dictionaries (system layers, user entries, "
         "tombstones), AND the getters before / after: is a list open, current_page_no, total_page, all_candidates, "
         "paginated_candidates, page size, display(), len(). Excluded, with reason: `last` (it IS the answer); commit and "
         "notification strings (per-key outputs, reset by every key: they must be EMPTY after an ignored key, which is checked); "
         "the pending-flush level `dirty` and the estimator clock `time` (internal: no getter shows them; the clock ticks on every "
         "key by design). "
         "BELL (round 2, Proofs/EditorBell.lean + Props/C06.lean): bell_effect gives the state and the WHOLE shared state after a "
         "key answered with a bell, exactly, for every environment and all four state kinds: the state value is the pre-state's "
         "(state kind; an open list's selector, range, action and page; Highlighting never bells) and the shared state is the "
         "pre-state after the key preamble with last = bell, except in two named kinds of arm, given as decidable guards: "
         "bellAsksLayout (Entering in Chinese mode without modifiers, and the layout arms of EnteringSyllable, hand the key to the "
         "phonetic layout first and keep the layout's state after the key it rejected - `rejected` names the answers: in Entering "
         "anything but absorb, in EnteringSyllable anything but absorb / commit / fuzzy) and bellMayNotify (Ctrl + digit in "
         "Entering: a failed add-phrase bells WITH its message, msgFail or msgExists, in the notification buffer); plus the flush "
         "of a dirty dictionary. Corollaries: bell_persistent (field form), bell_keeps_display (structure SameView: state value, "
         "composition editor = symbols, gaps, selections, cursor, saved cursors, chosen alternative nth, options, engine, "
         "Shared.conversion and Shared.display = display(), current_page_no, all_candidates, paginated_candidates, total_page all "
         "as before; NO premise about the layout; only with a pending flush, which no key leaves behind, FlushNeutralAt / "
         "ConvFlushNeutralAt), bell_keeps_capi_getters (CurrentPage, ChoicePerPage, TotalChoice, TotalPage, Enumerate), "
         "bell_notice_empty (no notification outside the Ctrl-digit arm). The phonetic buffer is the one observable the EDITOR "
         "does not protect: BellKeepsPhoneticAnyLayout (a bell never changes it, whatever the layout) is REFUTED over the model's "
         "arbitrary environment (bell_keeps_phonetic_anyLayout_refuted: a layout that answers key error and moves on - the editor "
         "keeps that state), proved exactly under LayoutQuietAt (bell_keeps_phonetic: the layout does not change state on the key "
         "it rejects) and unconditionally outside the layout arms (bell_keeps_phonetic_of_not_asked); the premise is "
         "DISCHARGED for the seven one-syllable layout models of C14 (Proofs/LayoutQuiet.lean: PressQuiet of tablePress for ANY "
         "table, hsuPress, et26Press, dc26Press - a key answered key error / no word returns the state it was given, no layout "
         "commits from the empty buffer - and of the trait's default fuzzy_key_press; Props/C06Layouts.lean: layout_models_quiet, "
         "bell_keeps_phonetic_layout_models / _by_name: over layoutEnv L base a bell leaves the phonetic buffer as it was in "
         "EnteringSyllable, Selecting, Highlighting, and in Entering with an empty phonetic buffer); Pinyin (own model) is not "
         "covered by that proof; all shipped layouts incl. Pinyin are "
         "checked against LayoutQuietAt by the oracle on every bell step (no violation: no finding). Non-vacuity examples for every "
         "state kind that can bell (Entering key without character; EnteringSyllable rejected key; open list on page 1 of 3 with "
         "Shift-j and with a digit beyond the list; Ctrl-2 with notification). Oracle for a bell = the theorem's notion: state "
         "section, composition editor, phonetic buffer, engine + symbol tables, options, chosen alternative, dictionaries unchanged, "
         "no commit string, a notification only in the Ctrl-digit arm of Entering, the candidate getters, display() and len() as "
         "before (#stat c06_bell_steps, .list_open, .with_notification, .entering, .entering_syllable); the capi_props run compares "
         "every C getter except the per-key outputs before / after a bell. F29 and F37 were genuine defects, repaired by fix: commits. "
         "C API (round 2, run capi_props): generated key/API histories (every chewing_handle_* handler incl. Default with all printable characters and non-characters, chewing_cand_*, option setters, buffer calls; three kinds of data directory) are driven through a C context and in lock-step through a twin chewing::editor::Editor built over the same data; after every call every C getter is compared with the twin's Rust getter (by-design differences modelled one by one: static vs heap strings, stateful Enumerate iterators, legacy zuin_*, chewing_ack) and this property's statement is evaluated on the C observations before/after the call; a difference or a failing statement is an oracle verdict with the history (FX2: the handlers narrowed the int key with `as u8`, repaired by fix a8c8390). "
         "C CALL GLUE IN THE MODEL (round 3, Model/CApiOps.lean + Props/C06CApi.lean + Gen/CApiKeys.lean): the translator (tools/extractors/capi_keys.py, fail "
         "closed) regenerates from capi/src/io.rs the per-handler table (handler -> KeyCode, modifier, map / map_with_mod), the "
         "selection-key remap of chewing_handle_Default (guard is_selecting, position -> digit byte, `_ => b'0'`), the narrowing "
         "u8::try_from(key).unwrap_or(0), the digit table and `_ => return -1` of chewing_handle_CtrlNum, and for the non-key calls guard / "
         "Editor method / argument conversion / return rule; the model INTERPRETS these tables (translate : Facts -> COp -> Glue, "
         "CCtx.apply = glue composed with the editor model). Theorems: handler_table_documented / selkey_remap_documented / "
         "ctrlnum_table_documented / api_table_documented / narrowing_documented / key_getters_documented (generated tables = the meaning "
         "documented by hand, e.g. handle_ShiftLeft = Left + Shift, handle_Capslock = Unknown + CapsLock, DblTab = no key); named_handler "
         "(every named handler = process_keyevent of exactly the documented key event and returns 0, all contexts, all eight keyboards); "
         "ctrlNum_non_digit (returns -1, WHOLE context unchanged), ctrlNum_digit; default_out_of_range / numlock_out_of_range (an int outside "
         "0..255 is the Unknown key, never a character); remap_only_while_selecting, selkey_acts_as_digit, selkey_chooses_position (C07); "
         "translate_<call> for the twelve non-key calls (clean_preedit_buf only in Entering, cand_list_* -1 without a list, cand_close never "
         "fails); translate_total (the glue's .expect(\"invalid keycode\") cannot fire); C_step / C_run (C01 lifted: no history of modelled C "
         "calls with any int arguments panics or hangs; SafeInv kept); C_idle_passthrough (the 13 named handlers from the idle state: returns "
         "0, CheckIgnore = 1, commit_Check = 0, state / buffers / options / keyboard / selection keys unchanged); C_getters_truthful / "
         "C_result_exclusive (CheckIgnore / CheckAbsorb / commit_Check / none-of-them answer exactly ignore / absorb / commit / bell: exactly "
         "one; uses C02.commit_string_iff_result, premise ConvHeadText). Not in the glue model: option setters / set_KBType / set_selKey "
         "(Model/Config.lean, C16), user-phrase calls, the enumeration iterators Reset drops.",
    note="Trusted: Lean kernel (standard axioms), the read-only snapshot hook, harness + compiled model driver. The call glue of "
         "capi/src/io.rs (key handlers, candidate / buffer calls, the result getters chewing_keystroke_CheckIgnore / CheckAbsorb / "
         "chewing_commit_Check) is INSIDE the model since round 3 (Model/CApiOps.lean over tables regenerated from io.rs by the "
         "capi_keys extractor; theorems Props/C06CApi.lean); its tie is two-legged: Lean model = harness twin (records `capiops call`, "
         "every call) and twin = real C context (37 getter groups compared after every call). The remaining C getters "
         "(chewing_bopomofo_Check, buffer / cursor / candidate strings ...) are tied by the getter comparison only.",
    technique="Lean 4 proof by exhaustive case analysis over the modelled key-event state machine; per-step model/implementation correspondence",
)
