"""C06 — pass-through when idle; key results are truthful."""
from propslib import fn_scope

PROP = dict(
    extract=["editor"],
    lean_targets=["Chewing.Props.C06"],
    runs=[dict(bin="editor")],
    scope=fn_scope("ed key"),
    level="proof",
    exhaustive=False,
    rule="one evaluation = one key step of the real editor (generated histories: weighted grammar + a uniform stream over "
         "all 63 key codes x 16 modifier sets, option/layout/engine changes and API calls in between), recomputed by the model "
         "from the implementation's own complete pre-state; distinct = distinct record text",
    trusted_base=["hook H1 (Editor::verif_snapshot) is read-only; the layout and conversion answers of each step are recorded "
                  "through wrapper objects installed through the public constructors"],
    assumptions=["'nothing is being composed' = state Entering with an empty pre-edit; an open candidate list or highlight "
                 "counts as composing",
                 "theorems hold for every environment (dictionary, layout, engine); they are about the editor's control flow"],
)

MANIFEST = dict(
    text="Lean 4 theorems (Chewing/Props/C06.lean) over the executable editor state-machine model (Model/Editor.lean, all four "
         "states and every arm of process_keyevent): ignore_frame / ignore_persistent (an ignored key leaves state, "
         "composition editor, phonetic buffer, options, engine and chosen alternative exactly as before and commits nothing), "
         "bell_frame (pre-edit and cursor untouched), idle_passthrough (the 13 named keys are ignored from the idle state for "
         "all modifiers and options), result_exclusive — for every environment, by case analysis over all arms. Tie: per-step "
         "correspondence of the model with the real editor from its own pre-state (hook H1), plus the property evaluated "
         "directly on the real editor (oracle). F29 and F37 were genuine defects, repaired by fix: commits.",
    note="Trusted: Lean kernel (standard axioms), the read-only snapshot hook, harness + compiled model driver. The C getters "
         "(chewing_keystroke_Check*) are covered by the C-API checks, not here.",
    technique="Lean 4 proof by exhaustive case analysis over the modelled key-event state machine; per-step model/implementation correspondence",
)
