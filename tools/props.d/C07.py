"""C07 — candidate lists are complete, consistently paged, and choosing i yields item i."""
from propslib import fn_scope

PROP = dict(
    extract=["editor", "capi_keys"],
    lean_targets=["Chewing.Props.C07", "Chewing.Props.C06CApi"],
    runs=[dict(bin="editor", args=["--profile", "c07"], args_thorough=["--profile", "c07"]),
          dict(bin="editor", args=["--bfs", "all"], tag="editor-bfs", timeout=1500, timeout_thorough=20000),
          dict(bin="capi_props", tag="capi_props", args=["--histories", "300", "--calls", "40"], args_thorough=["--histories", "6000", "--calls", "40"])],
    scope=fn_scope("ed key", "ed select", "ed startsel", "ed cancelsel", "ed jump", "ed setopts", "ed setlayout",
                   "ed setengine", "ed learn", "ed unlearn", "ed cands", "capiops call"),
    level="proof",
    exhaustive=False,
    rule="one evaluation = one step of the real editor (key, select(n), start/cancel_selecting, jump_to_*_selection_point, "
         "set_editor_options, set_syllable_editor, set_conversion_engine, learn_phrase, unlearn_phrase) or one round of the candidate getters (all_candidates, paginated_candidates, total_page, "
         "current_page_no: record `ed cands`, emitted after every step that leaves a list open), recomputed by the model from "
         "the implementation's own complete pre-state; generated histories: selection-heavy profile (page sizes 1..3 half of "
         "the time, 1..10 otherwise; forward and rearward choice; lists opened by Down/Space/start_selecting/grave/Ctrl-0/1, "
         "moved by Down/Space/j/k/jump 0..3, paged by Left/Right/PageUp/PageDown/Space; choices by digit key and select(n) "
         "incl. n beyond the list and usize::MAX; option/layout changes and removal of displayed user phrases while open, incl. removing the only (user) phrase of the "
         "highlighted range so that the open list becomes empty); "
         "distinct = distinct record text Run editor-bfs (round 3, `editor --bfs all`): breadth-first exploration of the REAL editor on small closed configurations, one `ed` record per (reachable state, operation of the alphabet) with this property's oracle evaluated on every step; the configurations that closed are exhaustive ties (coverage.exhaustive_closed_worlds; Props/EditorTie.lean lifts them to every operation list over the alphabet), the others a breadth-first sample.",
    trusted_base=["hook H1 (Editor::verif_snapshot, TrieBuf::verif_snapshot) is read-only; layout / conversion answers are "
                  "recorded through wrapper objects installed through the public constructors",
                  "the oracle's independent dictionary answer is computed from the generated system layers and the raw "
                  "user B-tree minus tombstones (in-memory TrieBuf semantics), not through Layered or the editor"],
    assumptions=["page size >= 1 (the C API validates 1..10; the Rust API does not: per = 0 makes total_page panic, "
                 "Props/C07 per_page_zero_panics)",
                 "theorems hold for every environment; hypotheses on it are explicit: FlushKeepsLookups (the reopen+flush "
                 "after a key does not change lookup answers - C09/C10's subject) and ClearSylKeepsAlt (a layout's table of "
                 "alternative syllables does not depend on the content of the phonetic buffer: alt_syllables is a constant "
                 "table in every SyllableEditor implementation, by reading) for the page invariant; C01's EnvOK + the "
                 "reachable-state invariant + not C01's word-losing class Known (former F02/F03, repaired: a list without candidates is not opened / is closed) for range_is_syllables and for completeness "
                 "without the RangeIs premise (phrase_list_complete itself holds for every environment, with the premise)",
                 "env.lookupAll is Layered::lookup_all_phrases (system layers + user layer minus removed entries); that "
                 "it returns what the layers hold is checked by the oracle against the raw layers, and is C09's theorem",
                 "the C glue (chewing_cand_*) is modelled in Model/Candidates.lean as thin wrappers of the Rust getters "
                 "(by reading); the correspondence drives the Rust getters"],
)

MANIFEST = dict(
    text="Lean 4 theorems (Chewing/Props/C07.lean; lemmas in Proofs/Paging.lean, Proofs/EditorSelect.lean; C01's invariant from Props/C01.lean) over the "
         "executable editor model (Model/Editor.lean: phrase / symbol-table / special-symbol selectors, "
         "Selecting.{candidates,totalPage,select}, every Selecting key arm, Editor.{select,jump,startSelecting}; "
         "Model/Candidates.lean: the four getters and the chewing_cand_* glue), for every environment and state. "
         "THEOREMS: total_is_length, enumerate_is_page (reported total = length of what is enumerated; Enumerate on page p "
         "starts at item p*per); page_count (total_page = ceil(n/per): least k with n <= k*per, closed form n/per + [n%per!=0]); "
         "pages_partition + page_item (for every list, page size >= 1 and page index: pages 0..count-1 concatenated are the "
         "list, all but the last full, each non-empty and <= per, pages beyond the count empty, item i of page p is item "
         "p*per+i); page_in_range_op / page_in_range : page_in_range_full and open_list_on_a_page : open_list_on_a_page_full "
         "(FULL since the FX1 repair - no 'or nothing listed': in every state reached by ANY history of valid operations from "
         "a state satisfying C01's safety invariant SafeInv (a fresh editor does) under C01's EnvOK, EVERY open list of EVERY kind "
         "lists at least one candidate, total_page answers, and the current page is STRICTLY below the page count - key events in "
         "all arms of all four states incl. Down/Space cycling (PhraseSelector::next stops on a range with a phrase or on the one "
         "it started from), j/k, select(n) incl. a symbol-table category (one without symbols closes the list), the four jumps "
         "(next/prev/last only stop on a range with a phrase; jump_to_first re-initialises from the anchor, which the current "
         "range contains inside its break points: init_from_anchor_nonempty), start/cancel_selecting, the simple engine's "
         "single-word list, commit, reset, and the option / layout / engine / dictionary calls made while a list is open; "
         "lemmas Proofs/EditorOpenList.lean (ListOk, SelWithin, per-arm lemmas), Proofs/PhraseSelHas.lean (next_has, "
         "nextSelectionPoint_has, prevSelectionPoint_has, jumpToLast_has, init_within); non-vacuity example on C01's toy "
         "environment); page_or_empty_key / page_or_empty_op / page_or_empty_anystate (the former page_in_range: 'current page < "
         "page count OR nothing listed' from ANY state and for EVERY environment, no reachability hypothesis; every opening / "
         "re-targeting starts at page 0); fx1_history_repaired (the former FX1 witness evaluated: grave on an empty symbol "
         "table is ignored, nothing opened); choose_symbol now has the clause 'a category without symbols closes the list'; "
         "revalidate_in_range / reconfigured_list_in_range (after set_editor_options / set_syllable_editor / learn_phrase / "
         "unlearn_phrase a list that is still open is non-empty and its page strictly below the page count: the calls end with "
         "revalidate_selecting, which clamps the page and closes a list that became empty); f32_history_repaired, "
         "f32_empty_list_closed (the two former F32 witnesses evaluated in the model: page 1 of 1 -> page 0 with both "
         "candidates enumerated; list emptied by userphrase_remove -> closed, saved cursor restored); offset_item / offset_is_page_item, choose_phrase, "
         "choose_places, choose_phrase_closes, editor_choose_closes (choosing n on page p of a phrase list pushes exactly item "
         "p*per+n as the selection of begin..end, replaces exactly the overlapping earlier choices (C04), restores the saved "
         "cursor, closes the list; the saturating usize arithmetic is unobservable); choose_out_of_range_rejected / "
         "editor_choose_out_of_range (every list kind: Bell / Err, selector, page and shared state unchanged), choose_outcomes; "
         "phrase_list_complete (the list is the dictionary answer for exactly the highlighted syllables, in order, plus the "
         "answers for the layout's alternative syllables of a single syllable). "
         "CORRESPONDENCE: every step of generated selection-heavy histories on the real editor and every round of the "
         "candidate getters is recomputed by the model from the implementation's own pre-state (0 differences required); the "
         "property is also evaluated directly on the real editor (oracle_c07.rs: paging identities, page in range, "
         "completeness against an independently computed answer from the raw dictionary layers, the effect of every choice "
         "incl. indices beyond the list and usize::MAX). choose_special / choose_symbol (symbol lists: the listed character is inserted / replaces the symbol under "
         "the cursor, a category opens its sub-table on page 0); opened_phrase_list_in_range / init_range (a freshly opened "
         "phrase list is non-empty, on page 0, strictly in range, over a non-empty part of the buffer for which the "
         "dictionary has a phrase). range_is_syllables : range_is_syllables_full (the highlighted range of an open phrase list is a "
         "non-empty run of syllables inside the editor's own buffer after EVERY history of valid operations from a state "
         "satisfying C01's reachable-state invariant, under C01's EnvOK, outside C01's word-losing class Known (former F02/F03, repaired) - all key events "
         "in all states incl. Down/Space cycling, select(n), start/cancel selecting, commit, reset, option/layout/engine/"
         "dictionary calls and the four jump_to_*_selection_point calls on an open phrase list, which C01's invariant now "
         "covers through the Anchor of the range); open_phrase_list_complete / phrase_list_complete_reached (completeness "
         "WITHOUT the premise RangeIs in every such state); opened_range_longest + initLoop_longest (for every environment: the "
         "range PhraseSelector::init returns - opening, j/k, cand_list_first - is the longest one at the cursor with a phrase: "
         "no longer range up to the break point has one; what oracle check D evaluates); f40_history_repaired (the former F40 "
         "witness history evaluated in the model: the range stays the syllable). Termination of the selector loops (init, next, "
         "next/prev_selection_point, jump_to_last: fuel sufficiency with the progress argument) is C01's selector_loops_terminate / "
         "init_terminates. NOT A THEOREM: range_is_syllables_unconditional (the hypothesis-free form: every environment, also "
         "ones whose dictionary breaks its contract, and C01's word-losing class Known (former F02/F03) - stated as a def, neither proved nor refuted). F04, F08, the missing page reset of j/k/jump, "
         "the symbol lists' answer to an out-of-range choice and F40 (chewing_cand_list_first on the simple engine's "
         "single-word list swallowed a following non-syllable symbol; found by the thorough tier, repaired by C01's fix "
         "'init_single_word remembers the position of the word'; the refutation range_is_syllables_refuted was deleted because "
         "it is no longer true, and the oracle class is gone: a recurrence is reported as new) and F32 (stale page / open empty "
         "list after an option / layout / dictionary call made while a list is open; page_in_range_refuted and the _partial "
         "theorem were replaced by the full page_in_range, the oracle class F32-stale-page is gone) were repaired by fix: "
         "commits. C API (round 2, run capi_props): generated key/API histories (every chewing_handle_* handler, chewing_cand_open/"
         "close/choose_by_index/list_*, paging keys, page sizes 1..10, selection keys, option setters; three kinds of data "
         "directory incl. one without symbols.dat) are driven through a C context and in lock-step through a twin "
         "chewing::editor::Editor; after every call every chewing_cand_* getter (TotalPage/CurrentPage/ChoicePerPage/TotalChoice, "
         "string_by_index over the whole list, the Enumerate/hasNext/String loop, list_has_next/prev) is compared with the twin's "
         "Rust getter and the statement is evaluated on the C answers (ceil, page below count, Enumerate = list from page*per on, "
         "choose i on page p = item p*per+i, out-of-range rejected unchanged). FX1 (found there, REPAIRED by fix: a symbol list without entries is not opened): over an EMPTY "
         "symbol table (no symbols.dat) the symbol list used to be opened with 0 candidates / 0 pages; the class is gone from capi_props "
         "and from the editor oracle (a recurrence is reported as new), contexts without symbols.dat and editor sessions without a symbol "
         "table / with a category without symbols are still generated (#stat histories_in_a_context_with_an_empty_symbol_table, "
         "c07_sessions_with_empty_symbol_table, c07_symbol_table_requests_without_a_table, c07_choices_of_a_category_without_symbols).",
    note="Trusted: Lean kernel (standard axioms), read-only snapshot hooks, harness + compiled model driver. The C functions "
         "chewing_cand_* are modelled by reading (thin wrappers over the Rust getters the correspondence drives) and compared "
         "getter by getter with the Rust getters of a lock-step twin editor by the capi_props run (sampled, not proved).",
    technique="Lean 4 proof (list/division arithmetic for all lists and page sizes; invariant by case analysis over every arm "
              "of the key-event state machine and induction over histories; refutation by evaluation of a concrete "
              "witness); per-step model/implementation correspondence incl. the candidate getters",
)
