"""C07 — candidate lists are complete, consistently paged, and choosing i yields item i."""
from propslib import fn_scope

PROP = dict(
    extract=["editor"],
    lean_targets=["Chewing.Props.C07"],
    runs=[dict(bin="editor", args=["--profile", "c07"], args_thorough=["--profile", "c07"])],
    scope=fn_scope("ed key", "ed select", "ed startsel", "ed cancelsel", "ed jump", "ed setopts", "ed cands"),
    level="proof",
    exhaustive=False,
    rule="one evaluation = one step of the real editor (key, select(n), start/cancel_selecting, jump_to_*_selection_point, "
         "set_editor_options) or one round of the candidate getters (all_candidates, paginated_candidates, total_page, "
         "current_page_no: record `ed cands`, emitted after every step that leaves a list open), recomputed by the model from "
         "the implementation's own complete pre-state; generated histories: selection-heavy profile (page sizes 1..3 half of "
         "the time, 1..10 otherwise; forward and rearward choice; lists opened by Down/Space/start_selecting/grave/Ctrl-0/1, "
         "moved by Down/Space/j/k/jump 0..3, paged by Left/Right/PageUp/PageDown/Space; choices by digit key and select(n) "
         "incl. n beyond the list and usize::MAX; option/layout changes and removal of displayed user phrases while open); "
         "distinct = distinct record text",
    trusted_base=["hook H1 (Editor::verif_snapshot, TrieBuf::verif_snapshot) is read-only; layout / conversion answers are "
                  "recorded through wrapper objects installed through the public constructors",
                  "the oracle's independent dictionary answer is computed from the generated system layers and the raw "
                  "user B-tree minus tombstones (in-memory TrieBuf semantics), not through Layered or the editor"],
    assumptions=["page size >= 1 (the C API validates 1..10; the Rust API does not: per = 0 makes total_page panic, "
                 "Props/C07 per_page_zero_panics)",
                 "theorems hold for every environment; hypotheses on it are explicit (flush keeps lookups, every "
                 "buffered syllable has a word, symbol tables have no empty rows)",
                 "the C glue (chewing_cand_*) is modelled in Model/Candidates.lean as thin wrappers of the Rust getters "
                 "(by reading); the correspondence drives the Rust getters"],
)

MANIFEST = dict(
    text="Lean 4 theorems (Chewing/Props/C07.lean, lemmas in Proofs/EditorSelect.lean) over the executable editor model "
         "(Model/Editor.lean: PhraseSel / SymSel / special-symbol selectors, Selecting.{candidates,totalPage,select}, every "
         "Selecting key arm, Editor.{select,jump,startSelecting}; Model/Candidates.lean: the getters and the C glue), for every "
         "environment: total_page_spec + pages_partition (page count = ceil(n/per), pages tile the list in order, each "
         "non-empty and <= per), page_in_range (current page < page count is preserved by every key / select / jump step "
         "and every range change restarts at page 0), phrase_list_complete + range_is_syllables (the list is the dictionary "
         "lookup of exactly the highlighted symbols, all of them syllables, plus the layout's alternates for a single "
         "syllable), choose_places (item page*per+n is pushed as the selection of begin..end, overlapping selections go, "
         "others stay, cursor restored, list closed; symbol lists insert / replace exactly that character or descend), "
         "choose_out_of_range_rejected (Bell, nothing changed, for phrase lists), selector_loops_terminate under HasWord. "
         "Tie: per-step correspondence of the model with the real editor and its candidate getters from the "
         "implementation's own pre-state, plus the property evaluated directly on the real editor with an independently "
         "computed dictionary answer (oracle_c07.rs). F04, F08 and the missing page reset of j/k/jump were repaired by "
         "fix: commits; F32 (stale page after option/layout/dictionary calls) and the symbol-list answer to an "
         "out-of-range choice are known findings with exact classes.",
    note="Trusted: Lean kernel (standard axioms), read-only snapshot hooks, harness + compiled model driver. The C functions "
         "chewing_cand_* are modelled by reading (thin wrappers).",
    technique="Lean 4 proof (list arithmetic, loop invariants with fuel, case analysis over the Selecting arms); per-step "
              "model/implementation correspondence incl. the candidate getters",
)
