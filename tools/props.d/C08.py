"""C08 — check configuration (see tools/props.py for the keys)."""
from propslib import comp_scope

PROP = dict(
    extract=["estimate", "breakwords", "topscore"],
    lean_targets=["Chewing.Props.C08"],
    runs=[dict(bin="learn", timeout=1200, timeout_thorough=3000)],
    scope=comp_scope("learn"),
    level="proof",
    exhaustive=False,
    rule="one evaluation = one implementation record recomputed by the model: `learn est` (estimate on a grid of all band "
         "boundaries x frequency edges + seeded random points, panics included), `learn commit` (user dictionary before, "
         "committed intervals + symbols, auto-learn flag, clock => user dictionary after, through a real Editor), "
         "`learn default` (default conversion of the bare syllables after each learning), `learn maxfrom`; "
         "distinct = distinct record text. The oracle evaluates the C08 statement itself on the Editor "
         "(recorded / not lowered / untouched when disabled / offered as candidate / default within 64 repetitions / "
         "present after close+reopen of a file-backed dictionary).",
    trusted_base=["kernel evaluation only for: 49 iterations of the gap map on the single number 1 000 000, and closed "
                  "examples (witnesses, non-vacuity); everything else is induction / omega over the generated constants"],
    assumptions=[
        "user dictionary modelled as a finite map (syllables, phrase) -> (freq, time): exact for an in-memory TrieBuf without "
        "remove_phrase (with the C09 repair of F09: for all histories); for a file-backed one it is the max-merge of persisted and "
        "pending layer, which learning keeps equal to last-write-wins (learn_monotone)",
        "reading choice (DESIGN §8 C08 (c), corrected): `explicitly chosen single character` = a single-character interval is a learn "
        "unit by itself iff it is a break word or has no non-break single-character neighbour; otherwise it is recorded only inside the "
        "concatenated run (records_strict_refuted shows the strict reading is false by design; counted in "
        "generator_stats.single_chars_recorded_only_inside_a_run). Break-word singles ARE learned individually (pre-survey said never).",
        "top_is_default (partial): proved here = find_best_phrase picks the strictly most frequent phrase, the breadth-first shortest_path "
        "takes the whole-range edge when node 0 has it, trim_paths then discards every other k-path; hypotheses (not proved, part of the "
        "C03 conversion model; compared with the real code by every `learn default` record) = find_intervals puts that edge (one per end) "
        "into graph[0] and find_k_paths returns the shortest path first, the other paths being non-empty intervals inside the range. "
        "Consequence: the score proviso of the pre-survey is vacuous for this engine (generator_stats."
        "default_is_x_although_a_split_outscores_it counts real runs where a split out-scores X and X is still the default); "
        "top_is_default_scored keeps the proviso version for an engine without trimming.",
        "after close and reopen: learned_persists keeps the explicit hypothesis `reopening preserves the map`; learned_persists_linked "
        "(Proofs/LearnLink.lean) DISCHARGES it: the hypothesis is replaced by C10.durable_lookup_linked (C10's protocol, every schedule "
        "of the snapshot writer, over C09's concrete TrieBuf layers / entries() / TrieBuilder) and C09.layered_over_map; "
        "learn_is_dictionary_call_linked ties one learn_phrase of this model (UserMap.insert) to the DictionaryMut call of C09's MapSpec "
        "(add_phrase accepted because the phrase is not live / update_phrase). learned_persists_bytes_linked removes the last file assumption: the file is BYTES "
        "(C11's write / Trie::new / lookup_all_phrases under C09.file_layer_is_C11 under C10.durable_lookup_bytes_linked) - the real reader's exact "
        "lookup of the bytes at the path lists the learned phrase with exactly the learned (frequency, time); explicit hypotheses: call arguments of "
        "the Rust types, initial file written from valid entries, every snapshot within C11's format limits (Fits), key of non-zero syllables. "
        "STILL TRUSTED there: the control skeleton of C10's step model (its schedule-exact correspondence). The harness checks persistence on "
        "file-backed traces, waiting for the background writer before closing (the in-flight-writer schedule is C10's F12)",
        "candidate window = merged lookup of the range (C07); commit of a chosen phrase yields the single interval (C04)",
        "F07 (bare public estimate() panics when freq < 10 or freq < orig_freq in the long-gap band, or orig_freq > max_freq in a rising band) "
        "is recorded against the function: estimate_no_panic gives the exact precondition, the model predicts every panic of the grid "
        "(generator_stats.est_panics_predicted_F07); unreachable from the editor (no timestamp is passed => short band only). The stored-time-"
        "in-the-future half of F07 and F40 (freq + delta overflowing u32) are repaired in the repository (saturating_sub / saturating_add, "
        "pinned by the translator): estimate_future_time, estimate_editor_path and commit_never_panics hold for every u32 frequency",
        "frequencies within MAX_USER_FREQ = 99 999 999 for the monotonicity clauses only (learning clamps there; a larger system frequency "
        "would be lowered to it); no-panic needs no bound",
    ],
)

MANIFEST = dict(
    text="Lean 4 theorems (Chewing/Props/C08.lean) over an executable model of LaxUserFreqEstimate::estimate (u32 guards = panics, saturating add/sub as coded), "
         "learn_phrase, auto_learn, commit's learning effect, the Layered merge, find_best_phrase and trim_paths; constants, break-word list "
         "and score weights regenerated from src/editor/estimate.rs, src/editor/mod.rs, src/conversion/chewing.rs on every run. Proved for all "
         "dictionaries/histories: no panic and no lowered frequency on the commit path (bounded frequencies), every learn unit live afterwards "
         "under exactly its syllables (units characterised: multi-character phrases, break-word singles, maximal runs of other singles; strict "
         "single-character reading refuted by design), user dictionary unchanged when disabled, learned phrase listed by the merged lookup, "
         "50 <= 64 learnings put X strictly above every homophone for all frequency pairs <= 1 000 000 (monotone gap induction, no pair "
         "enumeration; 50 is tight), and then X is the default conversion of the bare syllables: BFS shortest path = whole-range edge and "
         "trim_paths removes all competitors are proved, the graph construction is hypothesis + correspondence (partial). Persistence across reopen: learned_persists (explicit hypothesis) and learned_persists_linked (hypothesis discharged by C10's durability theorem over C09's concrete TrieBuf + C09's Layered theorem; and learned_persists_bytes_linked: the file as bytes, C11 under C09.file_layer_is_C11, hypotheses Fits / valid arguments explicit) + harness. "
         "Tie: translator + per-step correspondence through a real Editor (in-memory and file-backed user dictionaries) + exact estimate grid.",
    note="Trusted: Lean kernel (axioms propext, Classical.choice, Quot.sound only), tools/extract.py, the harness and the compiled model driver. "
         "partial clauses: top_is_default (graph-construction hypotheses), persistence (learned_persists_linked: reopen hypothesis discharged by C10.durable_lookup_linked + C09.layered_over_map; learned_persists_bytes_linked: also the trie-file byte round trip, by C11 through C09.file_layer_is_C11, with explicit Fits / validity hypotheses; remaining: the control skeleton of C10's step model), candidate window (C07).",
    technique="Lean 4 proof (induction, invariants, omega over translator-regenerated constants) + sampled model/implementation correspondence with a statement-level oracle",
)
