"""C08 — check configuration (see tools/props.py for the keys)."""
from propslib import comp_scope

PROP = dict(
    extract=["estimate", "breakwords", "topscore", "capi_user"],
    lean_targets=["Chewing.Props.C08", "Chewing.Props.C08CApi"],
    runs=[dict(bin="learn", timeout=1200, timeout_thorough=3000),
          # the learning entry point of the C API (chewing_userphrase_add = Editor::learn_phrase) and the other user-phrase calls:
          # records `capiuser …` (Driver/CApiUser.lean, Model/CApiUser.lean) + the statements of Props/C08CApi.lean on the real C context
          dict(bin="capi_props", tag="capi_props", args=["--histories", "300", "--calls", "40"], args_thorough=["--histories", "6000", "--calls", "40"])],
    scope=comp_scope("learn", "capiuser"),
    level="proof",
    exhaustive=False,
    rule="Records `capiuser …` (run capi_props, work package capiuser): one evaluation = one user-phrase or context-writing configuration call of a generated C-API history (chewing_userphrase_add / _remove / _lookup with arbitrary strings - mismatched lengths, unparsable / empty / NULL / non-UTF-8, phrases already there -, the enumeration triple, chewing_set_KBType, chewing_config_set_str, chewing_set_selKey with any len): the record carries what the REAL context enumerates before the call and the REAL return value / enumeration after it; Model/CApiUser.lean (Driver/CApiUser.lean) recomputes both; the statements of Props/C08CApi.lean (add success => looked up and enumerated, refusal => dictionary unchanged, remove, lookup = enumeration, purity) are evaluated on the real context (#stat user_add_success, user_add_refused, user_add_calls_with_mismatched_lengths, user_remove_success, user_lookup_found, user_records_*). "
         "Otherwise: one evaluation = one implementation record recomputed by the model: `learn est` (estimate on a grid of all band "
         "boundaries x frequency edges + seeded random points, panics included), `learn commit` (user dictionary before, "
         "committed intervals + symbols, auto-learn flag, clock => user dictionary after, through a real Editor), "
         "`learn default` (default conversion of the bare syllables after each learning), `learn maxfrom`; "
         "distinct = distinct record text. The oracle evaluates the C08 statement itself on the Editor "
         "(recorded / not lowered / untouched when disabled / offered as candidate / default within 64 repetitions / "
         "present after close+reopen of a file-backed dictionary).",
    trusted_base=["kernel evaluation only for: 49 iterations of the gap map on the single number 1 000 000, and closed "
                  "examples (witnesses, non-vacuity); everything else is induction / omega over the generated constants"],
    assumptions=[
        "user dictionary modelled as a finite map (syllables, phrase) -> (freq, time): exact for an in-memory TrieBuf without "
        "remove_phrase (with the C09 repair of F09: for all histories); for a file-backed one it is the max-merge of persisted and "
        "pending layer, which learning keeps equal to last-write-wins (learn_monotone)",
        "reading choice (DESIGN §8 C08 (c), corrected): `explicitly chosen single character` = a single-character interval is a learn "
        "unit by itself iff it is a break word or has no non-break single-character neighbour; otherwise it is recorded only inside the "
        "concatenated run (records_strict_refuted shows the strict reading is false by design; counted in "
        "generator_stats.single_chars_recorded_only_inside_a_run). Break-word singles ARE learned individually (pre-survey said never).",
        "top_is_default keeps its graph hypotheses (hg, hedge, huniq, hrest) over C08's own small graph model; top_is_default_linked "
        "(Proofs/LearnLinkEditor.lean) DISCHARGES them on C03's engine model (Model/Conversion.lean): for a buffer holding exactly the "
        "syllables (Bare: no selection, no Break gap inside; bareComp = what typing them alone leaves), every pick oracle in range, every "
        "strategy, and a dictionary answer in which X's frequency is strictly above every phrase with another text, convertChewing returns "
        "exactly ONE alternative, the single interval X. Proved from the model: find_best_phrase over the whole range returns the dominant "
        "phrase (findBestPhrase_whole), find_intervals has that whole-range edge (whole_edge) and one edge per (start, end) (edge_unique), "
        "BFS shortest_path returns it (shortestPath_direct), find_k_paths keeps it first (kLoop_prefix), every other k-path is made of graph "
        "edges inside the range (C03 findKPaths_chain / find_intervals_valid) and is trimmed (trimPaths_direct); a single path is never scored, "
        "so neither ScoreBound nor WellFormed is needed, and the score proviso of the pre-survey is vacuous for this engine "
        "(generator_stats.default_is_x_although_a_split_outscores_it counts real runs where a split out-scores X and X is still the default; "
        "top_is_default_scored keeps the proviso version for an engine without trimming). REMAINING link hypothesis of top_is_default_linked / "
        "becomes_default_linked: SamePairs = the dictionary's answer for the syllables has the same (text, frequency) pairs as C08's merged "
        "lookup (order-free). becomes_default_layered_linked discharges it too for C09's layers: system layers given by entry lists "
        "(Dict.ofEntries), a TrieBuf user layer answering as the map the learned UserMap denotes (URep + IsLookup, as learned_persists_linked), "
        "a UserMap without shadowed entries (NoShadow: holds for [] and is kept by learning) - via samePairs_layers + dominant_layered "
        "(C09.layered_union: the max-merge keeps dominance). top_is_default_env_linked: the same for the editor's "
        "env.convert under Link.EngineIsC03 (Proofs/EditorLink.lean: env.convert IS Conv.convert on buffers of at most 128 symbols without an "
        "empty spelling - the hypothesis under which C03 discharges C01's EnvOK). NOT proved: EngineIsC03 itself for the real engine (it is "
        "C03's model/implementation correspondence; here compared with the real code by every `learn default` record) and that real system "
        "dictionaries are entry lists with exact-key lookup (Trie layers: C11)",
        "after close and reopen: learned_persists keeps the explicit hypothesis `reopening preserves the map`; learned_persists_linked "
        "(Proofs/LearnLink.lean) DISCHARGES it: the hypothesis is replaced by C10.durable_lookup_linked (C10's protocol, every schedule "
        "of the snapshot writer, over C09's concrete TrieBuf layers / entries() / TrieBuilder) and C09.layered_over_map; "
        "learn_is_dictionary_call_linked ties one learn_phrase of this model (UserMap.insert) to the DictionaryMut call of C09's MapSpec "
        "(add_phrase accepted because the phrase is not live / update_phrase). learned_persists_bytes_linked removes the last file assumption: the file is BYTES "
        "(C11's write / Trie::new / lookup_all_phrases under C09.file_layer_is_C11 under C10.durable_lookup_bytes_linked) - the real reader's exact "
        "lookup of the bytes at the path lists the learned phrase with exactly the learned (frequency, time); explicit hypotheses: call arguments of "
        "the Rust types, initial file written from valid entries, every snapshot within C11's format limits (Fits), key of non-zero syllables. "
        "STILL TRUSTED there: the control skeleton of C10's step model (its schedule-exact correspondence). The harness checks persistence on "
        "file-backed traces, waiting for the background writer before closing (the in-flight-writer schedule is C10's F12)",
        "candidate window: learned_is_candidate_linked / learned_in_open_list_linked (Proofs/LearnLinkEditor.lean) prove on the EDITOR model that "
        "the list PhraseSelector::candidates / Selecting::candidates returns on a range holding the syllables contains every phrase live in the "
        "user dictionary (C07.phrase_list_complete + C09.layered_over_map); learned_is_candidate_typed_alone_linked: with the syllables typed "
        "alone, cursor at the beginning, choosing forward, Selecting::open_phrase DOES open the list over the whole buffer and the phrase is in it "
        "(range computed by PhraseSelector::init, no selector hypothesis); learned_is_candidate_after_reopen_linked composes with "
        "learned_persists_linked (new session reading the file found at the path). Explicit link hypotheses: env.lookupAll d key Standard = "
        "Layered.lookupAll (sys ++ [user TrieBuf layer]) key Standard for the dictionary state d; the user layer answers the exact lookup as the map "
        "the UserMap denotes (URep + IsLookup; C09.lookup_exact gives it for every state with TrieBuf.Inv); LookupStrategy::Standard (the fuzzy "
        "strategy over pending entries is C09's recorded class); the highlighted range holds the syllables (C07.RangeIs; C07.range_is_syllables). "
        "Commit of a chosen phrase yields the single interval: C04",
        "F07 (bare public estimate() panics when freq < 10 or freq < orig_freq in the long-gap band, or orig_freq > max_freq in a rising band) "
        "is recorded against the function: estimate_no_panic gives the exact precondition, the model predicts every panic of the grid "
        "(generator_stats.est_panics_predicted_F07); unreachable from the editor (no timestamp is passed => short band only). The stored-time-"
        "in-the-future half of F07 and F40 (freq + delta overflowing u32) are repaired in the repository (saturating_sub / saturating_add, "
        "pinned by the translator): estimate_future_time, estimate_editor_path and commit_never_panics hold for every u32 frequency",
        "frequencies within MAX_USER_FREQ = 99 999 999 for the monotonicity clauses only (learning clamps there; a larger system frequency "
        "would be lowered to it); no-panic needs no bound",
    ],
)

MANIFEST = dict(
    text="Lean 4 theorems (Chewing/Props/C08.lean) over an executable model of LaxUserFreqEstimate::estimate (u32 guards = panics, saturating add/sub as coded), "
         "learn_phrase, auto_learn, commit's learning effect, the Layered merge, find_best_phrase and trim_paths; constants, break-word list "
         "and score weights regenerated from src/editor/estimate.rs, src/editor/mod.rs, src/conversion/chewing.rs on every run. Proved for all "
         "dictionaries/histories: no panic and no lowered frequency on the commit path (bounded frequencies), every learn unit live afterwards "
         "under exactly its syllables (units characterised: multi-character phrases, break-word singles, maximal runs of other singles; strict "
         "single-character reading refuted by design), user dictionary unchanged when disabled, learned phrase listed by the merged lookup, "
         "50 <= 64 learnings put X strictly above every homophone for all frequency pairs <= 1 000 000 (monotone gap induction, no pair "
         "enumeration; 50 is tight), and then X is the default conversion of the bare syllables: on C08's own graph model with graph-construction "
         "hypotheses (top_is_default) AND, linked, on C03's engine model without them (top_is_default_linked, becomes_default_linked: "
         "convertChewing returns exactly the single interval X for every pick oracle; becomes_default_layered_linked: end to end over C09's Layered "
         "with entry-list system layers and a TrieBuf user layer). Candidate clause linked to the editor model: learned_is_candidate_linked, "
         "learned_in_open_list_linked, learned_is_candidate_typed_alone_linked (C07 completeness + C09 Layered), learned_is_candidate_after_reopen_linked. Persistence across reopen: learned_persists (explicit hypothesis) and learned_persists_linked (hypothesis discharged by C10's durability theorem over C09's concrete TrieBuf + C09's Layered theorem; and learned_persists_bytes_linked: the file as bytes, C11 under C09.file_layer_is_C11, hypotheses Fits / valid arguments explicit) + harness. "
         "Tie: translator + per-step correspondence through a real Editor (in-memory and file-backed user dictionaries) + exact estimate grid.",
    note="Trusted: Lean kernel (axioms propext, Classical.choice, Quot.sound only), tools/extract.py, the harness and the compiled model driver. "
         "LEVEL partial clauses: default conversion (top_is_default_linked discharges the graph hypotheses on C03's model; remaining link hypotheses: the dictionary's answer has the (text, frequency) pairs of C08's merged lookup - discharged for entry-list system layers + TrieBuf user layer by becomes_default_layered_linked - and, for the editor's env.convert, Link.EngineIsC03 (top_is_default_env_linked) = C03's correspondence), persistence (learned_persists_linked: reopen hypothesis discharged by C10.durable_lookup_linked + C09.layered_over_map; learned_persists_bytes_linked: also the trie-file byte round trip, by C11 through C09.file_layer_is_C11, with explicit Fits / validity hypotheses; remaining: the control skeleton of C10's step model), candidate window (learned_is_candidate_linked: proved on the editor model from C07 + C09 under the explicit link hypothesis env.lookupAll = Layered over system layers + the user layer denoting the UserMap, Standard strategy).",
    technique="Lean 4 proof (induction, invariants, omega over translator-regenerated constants) + sampled model/implementation correspondence with a statement-level oracle",
)
